"""Shared engine of the concurrent parts of C06 and C07: overlay build, schedule exploration on the
real code (harness command `conc`), tie with the extracted Sched/MemConc model, classification of
the deviations against the known findings, replay."""
import json, os
from . import overlay, conckf

STREAM = {"name": "conc", "harness": "conc", "driver": "conc", "overlay": True, "engine": "conc"}

KIND_TEXT = {"nonlin": "outcome (results + final tree) equal to no sequential order of the same calls",
             "deadlock": "every live goroutine waits for a held lock (decided by the scheduler, no timeout)",
             "panic": "a call panicked under this interleaving",
             "tempdup": "CreateTemp/MkdirTemp handed the same name to two callers"}


def case_key(case):
    """a case without its initial-tree text (which is recomputed by the harness): fs, streams, programs, schedule"""
    f = case.split(" | ")
    return (f[0], f[2], f[3], f[4]) if len(f) == 5 else (case,)


def load_findings(ctx, name):
    p = os.path.join(ctx.dir, name + ".findings.jsonl")
    out = []
    if os.path.exists(p):
        for line in open(p):
            line = line.strip()
            if line:
                out.append(json.loads(line))
    return out


def lockprog(ctx):
    """The acquire/release sequence of single calls run alone equals the table of Conc/LockProg.v (OrefaFS and MemFS
    Rename, OrefaFS Mkdir/OpenFile/Remove/Link): a changed locking protocol of one of these calls shows here even
    when no explored schedule misbehaves.  Returns False when the stream could not be run."""
    mm = overlay.stream(ctx, "lockprog", "lockprog", "lockprog")
    if mm is None:
        return False
    for (i, c, m, o) in mm[:2]:
        ctx.violation("lockprog", "the acquire/release sequence of a call run alone differs from its entry in the lock-program table of Conc/LockProg.v (%d entries differ): the locking protocol of that call changed" % len(mm),
                      {"conc_stream": {"name": "lockprog", "harness": "lockprog", "driver": "lockprog", "overlay": True}, "engine": "conc-lockprog", "case": c, "model": m, "observed": o})
    return True


def run(ctx, kinds):
    """kinds: the finding kinds this property is responsible for."""
    kf_by_id = {k["id"]: k for k in ctx.kf}
    # 1. the witnesses of the listed known findings, replayed on the current tree
    reproduced = {}
    wit = [(k["id"], k.get("witness", {}).get("case")) for k in ctx.kf if k.get("witness", {}).get("engine") == "conc"]
    wit = [(i, c) for i, c in wit if c]
    if wit:
        mm = overlay.stream(ctx, "conc-witness", "conc", "conc", replay_lines=[c for _, c in wit])
        if mm is None:
            return
        fs = load_findings(ctx, "conc-witness")
        by_case = {case_key(f["case"]): f for f in fs}
        for kid, case in wit:
            f = by_case.get(case_key(case))
            if f is not None and conckf.classify(f) == kid:
                reproduced[kid] = f
        for (i, c, m, o) in mm[:2]:
            if c.startswith("memfs"):
                ctx.violation("conc-tie", "the instrumented MemFS and the extracted model Conc/MemConc.v disagree on a known-finding witness (same program, same schedule: results / lock trace / final tree differ)",
                              {"conc_stream": STREAM, "engine": "conc", "case": c, "model": m, "observed": o})
    # 2. the exploration
    mm = overlay.stream(ctx, "conc", "conc", "conc")
    if mm is None:
        return
    for (i, c, m, o) in mm[:2]:
        ctx.violation("conc-tie", "the instrumented MemFS and the extracted model Conc/MemConc.v disagree (same program, same schedule: results / lock trace / final tree differ) on %d explored executions" % len(mm),
                      {"conc_stream": STREAM, "engine": "conc", "case": c, "model": m, "observed": o, "mismatching_cases_in_run": len(mm)})
    st = ctx.coverage["streams"].get("conc", {})
    if st.get("coq_witnesses_not_reproduced", 0) or st.get("coq_witnesses_reproduced", 0) != 5:
        failed = {k: v for k, v in st.items() if k.startswith("coq_witness_failed_")}
        ctx.violation("conc-witness", "a (program, schedule) witness of Conc/Witness.v (C06_refuted_* / C07_refuted_rename_rename) does not deviate on the real code as the theorem says (%d of 5 reproduced)" % st.get("coq_witnesses_reproduced", 0),
                      {"engine": "conc", "case": (list(failed.values()) or ["?"])[0].split(" => ")[0], "failed": failed})
    fs = load_findings(ctx, "conc")
    per_class, unclassified = {}, []
    for f in fs:
        if f["kind"] not in kinds:
            continue
        kid = conckf.classify(f)
        if kid is None or kid not in kf_by_id:
            unclassified.append((kid, f))
            continue
        d = per_class.setdefault(kid, {"executions": 0, "signatures": 0, "pairs": set()})
        d["executions"] += f["count"]
        d["signatures"] += 1
        d["pairs"].add("+".join(sorted({c["op"] for t in f["calls"] for c in t})))
        if kid not in reproduced:
            reproduced[kid] = f
    for kid in sorted(reproduced):
        if kid in kf_by_id and (kf_by_id[kid].get("kind", "nonlin") in kinds):
            ctx.known_finding(kid, kf_by_id[kid]["what"])
    unclassified.sort(key=lambda kf: (sum(len(t) for t in kf[1]['calls']), kf[1]['steps'], kf[1]['sig']))
    for kid, f in unclassified[:3]:
        why = "matches no listed known-finding class" if kid is None else "falls in class %s, which is not listed as an open known finding" % kid
        ctx.violation("conc-" + f["kind"], "%s: %s; %s [%s | %d executions]" % (f["fs"], KIND_TEXT[f["kind"]], why, f["program"], f["count"]),
                      {"conc_stream": STREAM, "engine": "conc", "case": f["case"], "observed": f["observed"], "kind": f["kind"], "signature": f["sig"],
                       "sequential_outcomes": f.get("sequential_outcomes"), "unclassified_signatures_in_run": len(unclassified)})
    ctx.coverage["known_finding_classes"] = {k: {"executions": v["executions"], "signatures": v["signatures"], "call_pairs": sorted(v["pairs"])}
                                             for k, v in sorted(per_class.items())}
    ctx.coverage["known_findings_not_reproduced"] = sorted(k for k in kf_by_id if k not in reproduced and kf_by_id[k].get("witness", {}).get("engine") == "conc")
    ctx.coverage["trusted_base"] += [
        "overlay instrumentation (lib/vcheck/overlay.py: textual rewrite of sync.RWMutex fields to the injected vsync.RWMutex, fails closed) and the deterministic scheduler harness/sched (serialises goroutines at lock acquisitions, decides availability and deadlock itself)",
        "granularity: code between two lock acquisitions is taken as atomic (sound only under the lock discipline of C08); the Go scheduler and the memory model are not modelled",
    ]


def replay(ctx, obj, kinds):
    case = obj["case"]
    if obj.get("engine") == "conc-lockprog":
        mm = overlay.stream(ctx, "lockprog-replay", "lockprog", "lockprog", replay_lines=[case])
        if mm is None:
            return ctx.finish(write_evidence=False)
        for (i, c, m, o) in mm:
            print("replay: still differs\n case:     %s\n table:    %s\n observed: %s" % (c, m, o))
            ctx.violation("replay", obj.get("what", "replayed case still fails"), dict(obj, model=m, observed=o))
        if not mm:
            print("replay: the call's acquire/release sequence equals its table entry now")
        return ctx.finish(write_evidence=False)
    mm = overlay.stream(ctx, "conc-replay", "conc", "conc", replay_lines=[case])
    if mm is None:
        return ctx.finish(write_evidence=False)
    bad = False
    for (i, c, m, o) in mm:
        print("replay: implementation and model differ\n case:     %s\n model:    %s\n observed: %s" % (c, m, o))
        ctx.violation("replay", obj.get("what", "replayed case still fails"), dict(obj, model=m, observed=o))
        bad = True
    kf_ids = {k["id"] for k in ctx.kf}
    known = []
    for f in load_findings(ctx, "conc-replay"):
        kid = conckf.classify(f)
        print("replay: %s on %s: %s -> class %s" % (f["kind"], f["fs"], f["observed"].split(" | ")[0:2], kid))
        if f["kind"] in kinds and (kid is None or kid not in kf_ids):
            ctx.violation("replay", obj.get("what", "replayed case still fails"), dict(obj, observed=f["observed"]))
            bad = True
        elif f["kind"] in kinds:
            known.append(kid)
    if known and not bad:
        print("replay: the deviation reproduces and falls in the listed known finding(s) %s" % ", ".join(sorted(set(known))))
    elif not bad:
        print("replay: no deviation on this case now (linearizable / no deadlock, model and implementation agree)")
    return ctx.finish(write_evidence=False)
