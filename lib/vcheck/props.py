"""Per-property checks."""
import json, os
from . import Ctx

ALL_TAGS = {"", "avfs_setostype"}
CHECKS = {}
REPLAYERS = {}   # optional per-property replay of files that are not (stream, case) shaped


def replay(ctx, path):
    obj = json.load(open(path))
    if "broken" in obj:
        print("replay file names a broken obligation/correspondence (%s); re-running the whole check" % obj["broken"])
        CHECKS[ctx.prop](ctx)
        return ctx.finish()
    if "stream" not in obj and ctx.prop in REPLAYERS:
        return REPLAYERS[ctx.prop](ctx, obj)
    st = obj["stream"]
    mm = ctx.stream(st["name"] + "-replay", st["harness"], st["driver"], tags=st.get("tags", ""), replay_lines=[obj["case"]])
    if mm is None:
        return ctx.finish(write_evidence=False)
    if mm:
        i, c, m, o = mm[0]
        print("replay: still differs\n case:     %s\n model:    %s\n observed: %s" % (c, m, o))
        ctx.violation("replay", obj.get("what", "replayed case still fails"), dict(obj, model=m, observed=o))
    else:
        print("replay: implementation and model agree on this case now")
    return ctx.finish(write_evidence=False)


def report_mismatches(ctx, mm, stream, what_fmt, limit=2, shrink=True):
    """Default policy for streams where the model IS the property's reference: every
    mismatch is a violation with the (shrunk) case as the replay."""
    if not mm:
        return
    for (i, c, m, o) in mm[:limit]:
        case = c
        if shrink and " | " in c:
            case = ctx.shrink(stream["name"], stream["harness"], stream["driver"], c, tags=stream.get("tags", ""))
            mm2 = ctx.stream(stream["name"] + "-shrink", stream["harness"], stream["driver"], tags=stream.get("tags", ""), replay_lines=[case])
            if mm2:
                _, c, m, o = mm2[0]
        ctx.violation(stream["name"], what_fmt % len(mm), {"stream": stream, "case": case, "model": m, "observed": o,
                                                          "mismatching_cases_in_run": len(mm)})


def load_all():
    """Import every lib/vcheck/checks/*.py (each registers its check in CHECKS)."""
    import importlib, pkgutil
    from . import checks
    for m in sorted(pkgutil.iter_modules(checks.__path__), key=lambda m: m.name):
        importlib.import_module(checks.__name__ + "." + m.name)

