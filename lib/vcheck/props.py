"""Per-property checks."""
import json, os
from . import Ctx

ALL_TAGS = {"", "avfs_setostype"}
CHECKS = {}


def replay(ctx, path):
    obj = json.load(open(path))
    if "broken" in obj:
        print("replay file names a broken obligation/correspondence (%s); re-running the whole check" % obj["broken"])
        CHECKS[ctx.prop](ctx)
        return ctx.finish()
    st = obj["stream"]
    mm = ctx.stream(st["name"] + "-replay", st["harness"], st["driver"], tags=st.get("tags", ""), replay_lines=[obj["case"]])
    if mm is None:
        return ctx.finish(write_evidence=False)
    if mm:
        i, c, m, o = mm[0]
        print("replay: still differs\n case:     %s\n model:    %s\n observed: %s" % (c, m, o))
        ctx.violation("replay", obj.get("what", "replayed case still fails"), dict(obj, model=m, observed=o))
    else:
        print("replay: implementation and model agree on this case now")
    return ctx.finish(write_evidence=False)


def report_mismatches(ctx, mm, stream, what_fmt, limit=2, shrink=True):
    """Default policy for streams where the model IS the property's reference: every
    mismatch is a violation with the (shrunk) case as the replay."""
    if not mm:
        return
    for (i, c, m, o) in mm[:limit]:
        case = c
        if shrink and " | " in c:
            case = ctx.shrink(stream["name"], stream["harness"], stream["driver"], c, tags=stream.get("tags", ""))
            mm2 = ctx.stream(stream["name"] + "-shrink", stream["harness"], stream["driver"], tags=stream.get("tags", ""), replay_lines=[case])
            if mm2:
                _, c, m, o = mm2[0]
        ctx.violation(stream["name"], what_fmt % len(mm), {"stream": stream, "case": case, "model": m, "observed": o,
                                                          "mismatching_cases_in_run": len(mm)})


# ---------------------------------------------------------------- C15
def check_C15(ctx):
    ctx.proofs()
    st = {"name": "idm", "harness": "idm", "driver": "idm"}
    mm = ctx.stream("idm", "idm", "idm")
    if mm is None:
        return
    report_mismatches(ctx, mm, st, "MemIdm answers differ from the two-list reference (model proved equal to it, theorem C15_refine) on %d generated histories")


CHECKS["C15"] = check_C15


# ---------------------------------------------------------------- C16
def check_C16(ctx):
    ctx.proofs()
    st = {"name": "copy", "harness": "copy", "driver": "copy"}
    mm = ctx.stream("copy", "copy", "copy")
    if mm is None:
        return
    report_mismatches(ctx, mm, st, "CopyFile/CopyFileHash/HashFile differ from the model (proved to report every hit fault and to copy faithfully, theorems C16_ok/C16_reports) on %d (fs pair, content, fault plan) cases")


CHECKS["C16"] = check_C16


# ---------------------------------------------------------------- C13
def check_C13(ctx):
    ctx.proofs()
    st = {"name": "path", "harness": "path", "driver": "path", "tags": "avfs_setostype"}
    mm = ctx.stream("path", "path", "path", tags="avfs_setostype")
    if mm is None:
        return
    # every line carries, for the POSIX flavour, a second segment with what the host's path/filepath returns;
    # the model prints the same functions in both segments, so a mismatch in either segment is a deviation of
    # the code from the model (segment 1) or of the model from path/filepath (segment 2).
    report_mismatches(ctx, mm, st, "avfs path functions / PathIterator differ from the model or from the host's path/filepath on %d generated inputs", shrink=False)


CHECKS["C13"] = check_C13
