"""Translators / generators run before every Coq build.

* coq/_CoqProject is regenerated from the set of .v files (coqdep orders them);
* coq/theories/Extract/Extract.v is regenerated from coq/extract.d/*.txt
  (lines "import Mod1 Mod2" and lines of names to extract);
* GENERATORS holds the source-to-Coq translators (Gen_*.v from /repo's current source).
"""
import glob, os

ROOT = os.path.dirname(os.path.dirname(os.path.dirname(os.path.abspath(__file__))))
COQ = os.path.join(ROOT, "coq")
REPO = os.environ.get("VERIF_REPO", "/repo")
GENERATORS = []   # list of callables, each regenerates its file(s) if the content changed


def write_if_changed(path, content):
    try:
        if open(path).read() == content:
            return False
    except OSError:
        pass
    os.makedirs(os.path.dirname(path), exist_ok=True)
    with open(path, "w") as f:
        f.write(content)
    return True


def gen_extract():
    imports, names = ["Base"], []
    for p in sorted(glob.glob(os.path.join(COQ, "extract.d", "*.txt"))):
        for line in open(p):
            line = line.split("#")[0].strip()
            if not line:
                continue
            if line.startswith("import "):
                for m in line.split()[1:]:
                    if m not in imports:
                        imports.append(m)
            else:
                names += [n for n in line.split() if n not in names]
    body = ("(* GENERATED from coq/extract.d/*.txt by lib/vcheck/gen.py - do not edit.\n"
            "   Extraction of the executable models to OCaml.  ExtrOcamlBasic only:\n"
            "   bool/option/unit/list/prod/sumbool/sumor mapped to OCaml's, andb/orb inlined;\n"
            "   N, Z, positive, nat stay the extracted inductive types. *)\n"
            "From Coq Require Extraction ExtrOcamlBasic.\n"
            "From Avfs Require Import %s.\n"
            "Extraction Language OCaml.\n"
            "Extraction \"model.ml\"\n  %s.\n" % (" ".join(imports), "\n  ".join(names)))
    write_if_changed(os.path.join(COQ, "theories", "Extract", "Extract.v"), body)


def gen_coqproject():
    vs = sorted(glob.glob(os.path.join(COQ, "theories", "**", "*.v"), recursive=True))
    vs = [os.path.relpath(v, COQ) for v in vs if "/Extract/" not in v and "/Scratch/" not in v]
    # files listed in coq/disabled.txt are kept out of the build (work in progress after a model change)
    try:
        off = {l.strip() for l in open(os.path.join(COQ, "disabled.txt")) if l.strip() and not l.startswith("#")}
    except OSError:
        off = set()
    vs = [v for v in vs if v not in off]
    write_if_changed(os.path.join(COQ, "_CoqProject"), "-Q theories Avfs\n" + "\n".join(vs) + "\n")


def load_translators():
    """Import every lib/vcheck/*gen.py module (each appends its translator to GENERATORS)."""
    import importlib, pkgutil
    pkg = __name__.rsplit(".", 1)[0]
    for m in pkgutil.iter_modules([os.path.dirname(os.path.abspath(__file__))]):
        if m.name.endswith("gen") and m.name != "gen":
            importlib.import_module(pkg + "." + m.name)


def regenerate_all():
    load_translators()
    from . import props
    props.load_all()   # check modules register their source-to-Coq translators in GENERATORS
    for g in GENERATORS:
        g()
    gen_extract()
    gen_coqproject()
