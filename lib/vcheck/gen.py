"""Translators that regenerate coq/theories/**/Gen_*.v from /repo's current source."""
import os

GENERATORS = []   # list of callables, each regenerates its file(s) if the content changed


def write_if_changed(path, content):
    try:
        if open(path).read() == content:
            return False
    except OSError:
        pass
    os.makedirs(os.path.dirname(path), exist_ok=True)
    with open(path, "w") as f:
        f.write(content)
    return True


def regenerate_all():
    for g in GENERATORS:
        g()
