"""Classification of the deviations found by the schedule exploration (C06/C07, concurrent part).

A deviation (non-linearizable outcome, deadlock, panic) is attributed to a known finding only
if a pair of calls of two different threads satisfies the finding's predicate, which is stated
on the ROLES the paths play in the two calls (the name a call creates, the entry it consumes,
the subtree it removes) - i.e. on the mechanism, not on "property C06 is known to fail".
Everything else stays a VIOLATION.
"""
import itertools, posixpath

NOCHECK = {"link", "rename", "symlink", "mkdirall"}   # insert under the parent's lock WITHOUT re-checking the name


def prefixes(p):
    out = []
    while p not in ("/", ""):
        out.append(p)
        p = posixpath.dirname(p)
    return out


def anc(d, p):        # d is a proper ancestor of p
    return d != p and (p.startswith(d + "/") or d == "/")


def anceq(d, p):
    return d == p or anc(d, p)


ALIASES = []   # (link name, target) of the Symlink calls of the program being classified


def _alias(names):
    out = list(names)
    for n in names:
        for new, target in ALIASES:
            if n.startswith(new + "/"):
                out += prefixes(target + n[len(new):])
    return out


def new_names(c):
    return _alias(_new_names(c))


def _new_names(c):
    op, a = c["op"], c["args"]
    if op in ("mkdir", "create"):
        return [a[0]]
    if op in ("link", "rename", "symlink"):
        return [a[1]]
    if op == "mkdirall":
        return prefixes(a[0])
    if op in ("createtemp", "mkdirtemp"):
        return [a[0] + "/" + a[1] + "*"]
    return []


def sources(c):
    op, a = c["op"], c["args"]
    if op in ("remove", "removeall", "rename", "link"):
        return [a[0]]
    return []


def deleted(c):
    op, a = c["op"], c["args"]
    if op in ("remove", "removeall", "rename"):
        return [a[0]]
    return []


def parents_touched(c):
    """directories whose node lock the call takes for writing (OrefaFS deadlock shape)"""
    op, a = c["op"], c["args"]
    ps = [posixpath.dirname(x) for x in a if x.startswith("/")]
    if op in ("createtemp", "mkdirtemp"):
        ps = [a[0]]
    return ps


def ok(c):
    return c["res"].startswith("ok")


# ---- predicates on an ordered pair of calls (A, B) of different threads -------------------------

def p_insert_no_recheck(a, b, strict=True):
    """both create the same name; at least one of them inserts without re-checking under the lock"""
    if strict and not (ok(a) and ok(b)):
        return False
    if not ({a["op"], b["op"]} & NOCHECK):
        return False
    return any(x == y for x in new_names(a) for y in new_names(b))


def p_create_in_detached(a, b, strict=True):
    """A creates a name below a directory that B removes or moves away concurrently"""
    if strict and not (ok(a) and ok(b)):
        return False
    return any(anc(d, n) for n in new_names(a) for d in deleted(b))


def p_stale_source(a, b, strict=True):
    """A = Rename or Link: it works on the entry found by its unlocked look-up / walk that B removes, replaces or
    moves away meanwhile.  Remove and RemoveAll are NOT stale actors: both file systems re-check the name under
    the lock(s) they delete under, so two concurrent removals of one name must exclude each other."""
    if a["op"] not in ("rename", "link"):
        return False
    return any(anceq(d, s) for s in sources(a) for d in deleted(b)) or \
        any(s == n for s in sources(a) for n in new_names(b))


NONLIN_CLASSES = [
    ("insert-without-recheck", p_insert_no_recheck),
    ("create-in-detached-dir", p_create_in_detached),
    ("stale-source", p_stale_source),
]


def overlap(a, b):
    """False when one call returned before the other got its first lock (they cannot have raced)."""
    if "inv" not in a or "inv" not in b:
        return True

    def before(x, y):
        return x["resp"] >= 0 and y["inv"] >= 0 and x["resp"] < y["inv"]
    return not before(a, b) and not before(b, a)


def cross_pairs(calls):
    """ordered pairs of calls of different threads that overlapped in time"""
    for i, j in itertools.permutations(range(len(calls)), 2):
        for a in calls[i]:
            for b in calls[j]:
                if overlap(a, b):
                    yield a, b


# same-name pairs that MUST exclude each other on both file systems (no deviation on the unchanged tree in any
# explored schedule): never attributed to a known finding, whatever the predicates below say
EXCLUSIVE_PAIRS = {("create", "create"), ("create", "mkdir"), ("mkdir", "mkdir"), ("mkdir", "mkdirall"), ("mkdirall", "mkdirall"),
                   ("remove", "remove"), ("remove", "removeall"), ("removeall", "removeall")}


def must_be_exclusive(calls):
    flat = [c for t in calls for c in t]
    return len(flat) == 2 and len(calls) == 2 and tuple(sorted(c["op"] for c in flat)) in EXCLUSIVE_PAIRS and \
        flat[0]["args"][0] == flat[1]["args"][0]


def classify(f):
    """Returns the id of the known-finding class of finding f (a dict of conc.findings.jsonl) or None."""
    fs, kind, calls = f["fs"], f["kind"], f["calls"]
    ALIASES[:] = [(c["args"][1], c["args"][0]) for t in calls for c in t if c["op"] == "symlink"]
    two = sum(len(t) for t in calls) == 2
    if kind == "deadlock":
        return classify_deadlock(f)
    if kind == "panic":
        return None     # no panic under interleaving is a known finding any more (OrefaFS Rename: fixed in /repo)
    if kind == "tempdup":
        return None     # one temp name handed to two callers while the directory stayed in place: never a known finding
    if kind != "nonlin":
        return None
    if must_be_exclusive(calls):
        return None
    for name, pred in NONLIN_CLASSES:
        for a, b in cross_pairs(calls):
            if pred(a, b, strict=two):
                return "C06-%s-%s" % (fs, name)
    return None


def classify_deadlock(f):
    fs = f["fs"]
    blocked = f.get("blocked") or []
    waits = []
    for b in blocked:       # t0:c0:wants=W2:holds=W0,W5
        parts = dict(x.split("=", 1) for x in b.split(":")[2:])
        waits.append((b.split(":")[0], parts["wants"], [h for h in parts.get("holds", "").split(",") if h]))
    if len(waits) < 2:
        return None     # a single thread blocked on its own lock: a sequential C07 defect, never a known finding here
    ops = {c["op"] for t in f["calls"] for c in t}
    if fs == "memfs":
        # the cycle = the blocked threads that hold a lock (others are victims waiting behind them);
        # a Rename that holds its old parent is one of them
        cyc = []
        for b in blocked:
            t, c = b.split(":")[0], b.split(":")[1]
            parts = dict(x.split("=", 1) for x in b.split(":")[2:])
            if parts.get("holds"):
                cyc.append(f["calls"][int(t[1:])][int(c[1:])]["op"])
        if len(cyc) >= 2 and "rename" in cyc:
            return "C07-memfs-rename-lock-order"
        return None
    # OrefaFS: lock 0 is the index lock
    idx_waiter = [w for w in waits if w[1] == "W0" or w[1] == "R0"]
    idx_holder = [w for w in waits if any(h in ("W0", "R0") for h in w[2])]
    if idx_waiter and idx_holder:
        if ops & {"rename", "link"}:
            return "C07-orefafs-index-vs-node-lock-order"
        return None
    if not idx_waiter and ops & {"rename", "link"}:
        return "C07-orefafs-node-lock-order"
    return None
