"""Classification of the deviations found by the schedule exploration (C06/C07, concurrent part).

A deviation (non-linearizable outcome, deadlock, panic) is attributed to a known finding only
if a pair of calls of two different threads satisfies the finding's predicate, which is stated
on the ROLES the paths play in the two calls (the name a call creates, the entry it consumes,
the subtree it removes) - i.e. on the mechanism, not on "property C06 is known to fail".
Everything else stays a VIOLATION.
"""
import itertools, posixpath

NOCHECK = {"link", "rename", "symlink", "mkdirall"}   # insert under the parent's lock WITHOUT re-checking the name


def prefixes(p):
    out = []
    while p not in ("/", ""):
        out.append(p)
        p = posixpath.dirname(p)
    return out


def anc(d, p):        # d is a proper ancestor of p
    return d != p and (p.startswith(d + "/") or d == "/")


def anceq(d, p):
    return d == p or anc(d, p)


def new_names(c):
    op, a = c["op"], c["args"]
    if op in ("mkdir", "create"):
        return [a[0]]
    if op in ("link", "rename", "symlink"):
        return [a[1]]
    if op == "mkdirall":
        return prefixes(a[0])
    if op in ("createtemp", "mkdirtemp"):
        return [a[0] + "/" + a[1] + "*"]
    return []


def sources(c):
    op, a = c["op"], c["args"]
    if op in ("remove", "removeall", "rename", "link"):
        return [a[0]]
    return []


def deleted(c):
    op, a = c["op"], c["args"]
    if op in ("remove", "removeall", "rename"):
        return [a[0]]
    return []


def parents_touched(c):
    """directories whose node lock the call takes for writing (OrefaFS deadlock shape)"""
    op, a = c["op"], c["args"]
    ps = [posixpath.dirname(x) for x in a if x.startswith("/")]
    if op in ("createtemp", "mkdirtemp"):
        ps = [a[0]]
    return ps


def ok(c):
    return c["res"].startswith("ok")


# ---- predicates on an ordered pair of calls (A, B) of different threads -------------------------

def p_insert_no_recheck(a, b, strict=True):
    """both create the same name; at least one of them inserts without re-checking under the lock"""
    if strict and not (ok(a) and ok(b)):
        return False
    if not ({a["op"], b["op"]} & NOCHECK):
        return False
    return any(x == y for x in new_names(a) for y in new_names(b))


def p_create_in_detached(a, b, strict=True):
    """A creates a name below a directory that B removes or moves away concurrently"""
    if strict and not (ok(a) and ok(b)):
        return False
    return any(anc(d, n) for n in new_names(a) for d in deleted(b))


def p_stale_source(a, b, strict=True):
    """A works on an entry found by its unlocked walk that B removes, replaces or moves away"""
    if a["op"] not in ("rename", "link", "remove", "removeall"):
        return False
    return any(anceq(d, s) for s in sources(a) for d in deleted(b)) or \
        any(s == n for s in sources(a) for n in new_names(b))


NONLIN_CLASSES = [
    ("insert-without-recheck", p_insert_no_recheck),
    ("create-in-detached-dir", p_create_in_detached),
    ("stale-source", p_stale_source),
]


def cross_pairs(calls):
    for i, j in itertools.permutations(range(len(calls)), 2):
        for a in calls[i]:
            for b in calls[j]:
                yield a, b


def classify(f):
    """Returns the id of the known-finding class of finding f (a dict of conc.findings.jsonl) or None."""
    fs, kind, calls = f["fs"], f["kind"], f["calls"]
    two = sum(len(t) for t in calls) == 2
    if kind == "deadlock":
        return classify_deadlock(f)
    if kind == "panic":
        return None     # no panic under interleaving is a known finding any more (OrefaFS Rename: fixed in /repo)
    if kind == "tempdup":
        # the same temp name in two incarnations of a directory that was removed / renamed meanwhile
        for a, b in cross_pairs(calls):
            if a["op"] in ("createtemp", "mkdirtemp") and p_create_in_detached(a, b, strict=False):
                return "C06-%s-create-in-detached-dir" % fs
        return None
    if kind != "nonlin":
        return None
    for name, pred in NONLIN_CLASSES:
        for a, b in cross_pairs(calls):
            if pred(a, b, strict=two):
                return "C06-%s-%s" % (fs, name)
    return None


def classify_deadlock(f):
    fs = f["fs"]
    blocked = f.get("blocked") or []
    waits = []
    for b in blocked:       # t0:c0:wants=W2:holds=W0,W5
        parts = dict(x.split("=", 1) for x in b.split(":")[2:])
        waits.append((b.split(":")[0], parts["wants"], [h for h in parts.get("holds", "").split(",") if h]))
    if len(waits) < 2:
        return None     # a single thread blocked on its own lock: a sequential C07 defect, never a known finding here
    ops = {c["op"] for t in f["calls"] for c in t}
    if fs == "memfs":
        # the cycle = the blocked threads that hold a lock (others are victims waiting behind them);
        # a Rename that holds its old parent is one of them
        cyc = []
        for b in blocked:
            t, c = b.split(":")[0], b.split(":")[1]
            parts = dict(x.split("=", 1) for x in b.split(":")[2:])
            if parts.get("holds"):
                cyc.append(f["calls"][int(t[1:])][int(c[1:])]["op"])
        if len(cyc) >= 2 and "rename" in cyc:
            return "C07-memfs-rename-lock-order"
        return None
    # OrefaFS: lock 0 is the index lock
    idx_waiter = [w for w in waits if w[1] == "W0" or w[1] == "R0"]
    idx_holder = [w for w in waits if any(h in ("W0", "R0") for h in w[2])]
    if idx_waiter and idx_holder:
        if ops & {"rename", "link"}:
            return "C07-orefafs-index-vs-node-lock-order"
        return None
    if not idx_waiter and ops & {"rename", "link"}:
        return "C07-orefafs-node-lock-order"
    return None
