"""Translator for the wrapper properties C09 (RoFS) and C12 (FailFS).

Reads the CURRENT Go source of /repo (vfs/rofs, vfs/failfs, fnvfs.go, the interface
declarations of package avfs, and the composite methods of memfs/orefafs) through
the small go/ast tool harness/tools/wrapgen (which only dumps canonical method bodies)
and emits

    coq/theories/Wrap/Gen_iface.v    method sets of avfs.VFS / avfs.File, the FnVFS enumeration
    coq/theories/Wrap/Gen_rofs.v     per-method kind table of RoFS / RoFile
    coq/theories/Wrap/Gen_failfs.v   per-method kind table of FailFS / FailFile, ReadOnlyFunc's case list

Every method body is matched against a short list of shapes; a body that matches none is
emitted as KUnrecognised (with the reason in a comment), which makes the table theorems
C09_table / C12_table fail - the translator fails closed.
"""
import json, os, re, subprocess

from . import gen

ROOT = gen.ROOT
TOOL_DIR = os.path.join(ROOT, "harness", "tools", "wrapgen")
TOOL_BIN = os.path.join(ROOT, "harness", "bin", "wrapgen")
WRAP = os.path.join(gen.COQ, "theories", "Wrap")
GOENV = dict(os.environ, GOFLAGS="-mod=mod", GOPROXY="off", GOSUMDB="off", GOTOOLCHAIN="local", CGO_ENABLED="0")

COMPOSITES = {"Create": "CCreate", "WriteFile": "CWriteFile", "ReadFile": "CReadFile", "ReadDir": "CReadDir",
              "Glob": "CGlob", "MkdirTemp": "CMkdirTemp"}
PURE = {"Base", "Clean", "Dir", "FromSlash", "IsAbs", "IsPathSeparator", "Join", "Match", "Rel", "Split",
        "TempDir", "ToSlash"}
FPFIELDS = {"Op": "FpOp", "Path": "FpPath", "NewPath": "FpNewPath", "Perm": "FpPerm", "Flag": "FpFlag", "Uid": "FpUid",
            "Gid": "FpGid", "Size": "FpSize", "ATime": "FpATime", "MTime": "FpMTime"}
OS_CONSTS = {"os.O_RDONLY": 0, "os.O_WRONLY": 1, "os.O_RDWR": 2, "0": 0}


def dump(repo):
    src = os.path.join(TOOL_DIR, "main.go")
    if not os.path.exists(TOOL_BIN) or os.path.getmtime(TOOL_BIN) < os.path.getmtime(src):
        os.makedirs(os.path.dirname(TOOL_BIN), exist_ok=True)
        p = subprocess.run(["go", "build", "-o", TOOL_BIN, "."], cwd=TOOL_DIR, env=GOENV,
                           stdout=subprocess.PIPE, stderr=subprocess.STDOUT, timeout=600)
        if p.returncode != 0:
            raise RuntimeError("wrapgen tool does not build: " + p.stdout.decode())
    p = subprocess.run([TOOL_BIN, repo], stdout=subprocess.PIPE, stderr=subprocess.PIPE, timeout=120)
    if p.returncode != 0:
        return None, p.stderr.decode()
    return json.loads(p.stdout.decode()), ""


def known_names():
    """Constructor names of vmeth / fmeth / fnvfs in Wrapper.v."""
    src = open(os.path.join(WRAP, "Wrapper.v")).read()
    res = {}
    for t in ("vmeth", "fmeth", "fnvfs"):
        m = re.search(r"Inductive %s :=(.*?)\.\n" % t, src, flags=re.S)
        res[t] = set(re.findall(r"\|\s*([A-Za-z_0-9]+)", m.group(1)))
    return res


# ---------------------------------------------------------------------------
# shape recognition

def strip_nil_guard(body, rv):
    """RoFile/FailFile methods start with `if f == nil { return ..., fs.ErrInvalid }` (Fd, Name: other
    constant results).  The guard concerns the nil receiver only, which no history reaches."""
    m = re.match(r"if %s == nil \{\n(return [^\n]*|panic\(\"\"\))\n\}\n" % re.escape(rv), body)
    if m:
        g = m.group(1)
        if rv + "." in g:
            return body
        return body[m.end():]
    return body


def strip_const_op(body):
    return re.sub(r"\Aconst op = \"[a-z]*\"\n", "", body)


ZERO = r"(?:&RoFile\{\}|&FailFile\{\}|\(\*RoFile\)\(nil\)|\(\*FailFile\)\(nil\)|\"\"|nil|0)"


def args_verbatim(params, argtext):
    want = []
    for p in params:
        want.append(p["name"] + ("..." if p["type"].startswith("...") else ""))
    return [a.strip() for a in argtext.split(",") if a.strip()] == want


class Cls:
    """Classifier of one wrapper package."""

    def __init__(self, d, pkg, fs_type, file_type, base_field, file_field):
        self.d, self.pkg, self.fs_type, self.file_type = d, pkg, fs_type, file_type
        self.base_field, self.file_field = base_field, file_field
        self.funcs = {(f["recv"], f["name"]): f for f in d["funcs"]}
        self.problems = []

    def fn(self, recv, name):
        return self.funcs.get((recv, name))

    # ---- error sources
    def errsrc(self, text, rv, is_file):
        pre = rv + ".vfs." if is_file else rv + "."
        if text in ("avfs.ErrPermDenied", pre + "errPermDenied"):
            return "ES_PermDenied" if (text.startswith("avfs.") or self.err_fields_ok) else None
        if text in ("avfs.ErrOpNotPermitted", pre + "errOpNotPermitted"):
            return "ES_OpNotPermitted" if (text.startswith("avfs.") or self.err_fields_ok) else None
        return None

    def refuse(self, body, rv, is_file):
        b = strip_const_op(body)
        m = re.fullmatch(r"return (?:%s, )?&fs\.PathError\{Op: (?:op|\"[a-z]*\"), Path: [^,{}]*, Err: ([A-Za-z.]+)\}" % ZERO, b)
        if not m:
            m = re.fullmatch(r"return (?:%s, )?&os\.LinkError\{Op: (?:op|\"[a-z]*\"), Old: \w+, New: \w+, Err: ([A-Za-z.]+)\}" % ZERO, b)
        if not m:
            m = re.fullmatch(r"return (?:%s, )?(avfs\.Err[A-Za-z]+)" % ZERO, b)
        if not m:
            return None
        e = self.errsrc(m.group(1), rv, is_file)
        return "KRefuse %s" % e if e else None


def classify_rofs(d):
    c = Cls(d, "rofs", "rofs.RoFS", "rofs.RoFile", "baseFS", "baseFile")
    # the error fields must be initialised from avfs.ErrPermDenied / avfs.ErrOpNotPermitted and be
    # reassigned nowhere but in New's Windows branch
    new = c.fn("rofs", "New")
    ok = bool(new) and "errOpNotPermitted: avfs.ErrOpNotPermitted," in new["body"] and "errPermDenied: avfs.ErrPermDenied," in new["body"] \
        and re.search(r"&RoFS\{\nbaseFS: baseFS,", new["body"]) is not None
    allowed = {"vfs.errOpNotPermitted = avfs.ErrWinNotSupported", "vfs.errPermDenied = avfs.ErrWinAccessDenied"}
    for f in d["funcs"]:
        if not f["recv"].startswith("rofs"):
            continue
        for m in re.finditer(r"[^\n]*\.(?:errPermDenied|errOpNotPermitted|baseFS|baseFile)\s*=[^=][^\n]*", f["body"]):
            if not (f["name"] == "New" and m.group(0).strip() in allowed):
                ok = False
                c.problems.append("assignment to a wrapper field in %s: %s" % (f["name"], m.group(0).strip()))
    c.err_fields_ok = ok
    new_ok = ok
    if not ok:
        c.problems.append("rofs.New does not have the recognised shape (error fields / baseFS initialisation)")

    table, notes = [], []

    def put(m, k, why=""):
        table.append((m, k))
        if k == "KUnrecognised":
            notes.append("%s: %s" % (m, why))

    for (recv, name), f in sorted(c.funcs.items()):
        rv, body, params = f["recv_var"], f["body"], f["params"]
        if recv == "rofs.RoFS":
            if not name[0].isupper():
                c.problems.append("unrecognised helper method RoFS.%s" % name)
                continue
            m = re.fullmatch(r"return %s\.baseFS\.(\w+)\((.*)\)" % rv, body)
            if m:
                if m.group(1) == name and args_verbatim(params, m.group(2)):
                    put(("V", name), "KFwd")
                else:
                    put(("V", name), "KUnrecognised", "forwards to base.%s(%s)" % (m.group(1), m.group(2)))
                continue
            r = c.refuse(body, rv, False)
            if r:
                put(("V", name), r)
                continue
            if name == "Symlink" and re.fullmatch(
                    r"const op = \"symlink\"\nerr := %s\.errPermDenied\nif %s\.OSType\(\) == avfs\.OsWindows \{\nerr = avfs\.ErrWinPrivilegeNotHeld\n\}\n"
                    r"return &os\.LinkError\{Op: op, Old: \w+, New: \w+, Err: err\}" % (rv, rv), body) and c.err_fields_ok:
                put(("V", name), "KRefuse ES_PermDeniedOrWinPrivilege")
                continue
            if name == "OpenFile" and len(params) == 3:
                pn, pf, pp = [p["name"] for p in params]
                m = re.fullmatch(
                    r"const op = \"open\"\nif %s != (os\.O_\w+) \{\nreturn %s, &fs\.PathError\{Op: op, Path: %s, Err: ([\w.]+)\}\n\}\n"
                    r"(\w+), err := %s\.baseFS\.OpenFile\(%s, ([\w.]+), ([\w.]+)\)\nif err != nil \{\nreturn %s, err\n\}\n"
                    r"(\w+) := &RoFile\{baseFile: (\w+), vfs: %s\}\nreturn (\w+), nil" % (pf, ZERO, pn, rv, pn, ZERO, rv), body)
                if m and m.group(3) == m.group(7) and m.group(6) == m.group(8) and m.group(1) in OS_CONSTS \
                        and m.group(4) in OS_CONSTS and m.group(5) in OS_CONSTS and c.errsrc(m.group(2), rv, False):
                    put(("V", name), "KOpenGuard %d %s %d %d" % (OS_CONSTS[m.group(1)], c.errsrc(m.group(2), rv, False),
                                                                 OS_CONSTS[m.group(4)], OS_CONSTS[m.group(5)]))
                    continue
            if name == "Open" and len(params) == 1:
                m = re.fullmatch(r"return %s\.OpenFile\(%s, ([\w.]+), ([\w.]+)\)" % (rv, params[0]["name"]), body)
                if m and m.group(1) in OS_CONSTS and m.group(2) in OS_CONSTS:
                    put(("V", name), "KSelfOpenFile %d %d" % (OS_CONSTS[m.group(1)], OS_CONSTS[m.group(2)]))
                    continue
            if name == "Sub" and len(params) == 1 and new_ok:
                m = re.fullmatch(r"(\w+), err := %s\.baseFS\.Sub\(%s\)\nif err != nil \{\nreturn nil, err\n\}\nreturn New\((\w+)\), nil"
                                 % (rv, params[0]["name"]), body)
                if m and m.group(1) == m.group(2):
                    put(("V", name), "KFwdWrap")
                    continue
            if re.fullmatch(r"return (?:avfs\.NotImplementedIdm|\"[A-Za-z]*\")", body):
                put(("V", name), "KLocal")
                continue
            put(("V", name), "KUnrecognised", "body shape not recognised")
        elif recv == "rofs.RoFile":
            if name == "name":
                continue
            if not name[0].isupper():
                c.problems.append("unrecognised helper method RoFile.%s" % name)
                continue
            b = strip_nil_guard(strip_const_op(body), rv)
            m = re.fullmatch(r"return %s\.baseFile\.(\w+)\((.*)\)" % rv, b)
            if m:
                if m.group(1) == name and args_verbatim(params, m.group(2)):
                    put(("F", name), "KFwd")
                else:
                    put(("F", name), "KUnrecognised", "forwards to baseFile.%s(%s)" % (m.group(1), m.group(2)))
                continue
            r = c.refuse(b, rv, True)
            if r:
                put(("F", name), r)
                continue
            if name == "Name" and b == "return %s.name()" % rv and name_helper_ok(c.fn("rofs.RoFile", "name")):
                put(("F", name), "KFwd")
                continue
            if name == "WriteString" and len(params) == 1 and b == "return %s.Write([]byte(%s))" % (rv, params[0]["name"]):
                put(("F", name), "KSelfWrite")
                continue
            put(("F", name), "KUnrecognised", "body shape not recognised")
        elif recv == "rofs":
            if name != "New":
                c.problems.append("unrecognised package-level function rofs.%s" % name)
    promoted(d, c, "rofs.RoFS", table, put)
    return c, table, notes


def name_helper_ok(f):
    return bool(f) and re.fullmatch(
        r"var name string\nif !reflect\.ValueOf\(f\.baseFile\)\.IsNil\(\) \{\nname = f\.baseFile\.Name\(\)\n\}\nreturn name", f["body"]) is not None


def promoted(d, c, typ, table, put):
    """Methods promoted from embedded structs: only avfs.FeaturesFn is recognised, and only
    while its methods touch nothing but its own field."""
    have = {m for (m, _) in table}
    for emb in d["structs"].get(typ, []):
        if emb != "avfs.FeaturesFn":
            c.problems.append("%s embeds %s (not recognised)" % (typ, emb))
            continue
        for f in d["funcs"]:
            if f["recv"] != "avfs.FeaturesFn":
                continue
            if ("V", f["name"]) in have:
                continue
            body_ok = f["body"] in ("return ftf.features", "return ftf.features&feature == feature", "ftf.features = feature\nreturn nil")
            put(("V", f["name"]), "KLocal" if body_ok else "KUnrecognised", "promoted FeaturesFn.%s has an unrecognised body" % f["name"])


def fail_params(text, params, extra_ok):
    """FailParam{Op: "x", Path: name, ...} -> [(field, arg index)] for the fields fed from a parameter."""
    flds = []
    pnames = [p["name"] for p in params]
    if text.strip() == "":
        return flds
    for part in text.split(", "):
        if ": " not in part:
            return None
        k, v = part.split(": ", 1)
        if k not in FPFIELDS:
            return None
        if v in pnames:
            flds.append((FPFIELDS[k], pnames.index(v)))
        elif re.fullmatch(r"\"[a-z]*\"|avfs\.NotImplemented", v) or v in extra_ok:
            continue
        else:
            return None
    return flds


def classify_failfs(d, fnvfs_known):
    c = Cls(d, "failfs", "failfs.FailFS", "failfs.FailFile", "baseFS", "baseFile")
    c.err_fields_ok = False
    new = c.fn("failfs", "New")
    new_ok = bool(new) and re.search(r"&FailFS\{\nbaseFS: baseFS,\nfailFunc: OkFunc,\n\}", new["body"]) is not None
    if not new_ok:
        c.problems.append("failfs.New does not have the recognised shape (baseFS: baseFS, failFunc: OkFunc)")
    fail = c.fn("failfs.FailFS", "fail")
    fail_ok = bool(fail) and [p["name"] for p in fail["params"]] == ["fn", "fp"] and fail["body"] in (
        "err := vfs.failFunc(vfs, fn, fp)\nreturn err", "return vfs.failFunc(vfs, fn, fp)")
    if not fail_ok:
        c.problems.append("FailFS.fail does not have the recognised shape (return vfs.failFunc(vfs, fn, fp))")
    for f in d["funcs"]:
        if not f["recv"].startswith("failfs"):
            continue
        for m in re.finditer(r"[^\n]*\.(?:failFunc|baseFS|baseFile)\s*=[^=][^\n]*", f["body"]):
            s = m.group(0).strip()
            if f["name"] == "SetFailFunc" and s == "vfs.failFunc = ff":
                continue
            if f["name"] == "Sub" and s == "sub.failFunc = vfs.failFunc":
                continue
            c.problems.append("assignment to a wrapper field in %s: %s" % (f["name"], s))

    table, notes, fields = [], [], []

    def flagidx(flds):
        idx = [i for (f, i) in flds if f == "FpFlag"]
        return "(Some %d)" % idx[0] if len(idx) == 1 else "None"

    def put(m, k, why=""):
        table.append((m, k))
        if k == "KUnrecognised":
            notes.append("%s: %s" % (m, why))

    def tail_vfs(name, rv, params, rest):
        """What follows the consultation (or the whole body when nothing is consulted)."""
        m = re.fullmatch(r"return %s\.baseFS\.(\w+)\((.*)\)" % rv, rest)
        if m:
            if m.group(1) == name and args_verbatim(params, m.group(2)):
                return "KFwd"
            return None
        m = re.fullmatch(r"return avfs\.(\w+)\(%s(?:, (.*))?\)" % rv, rest)
        if m:
            if m.group(1) != name or not args_verbatim(params, m.group(2) or ""):
                return None
            if name in COMPOSITES:
                return "KComposite " + COMPOSITES[name]
            if name in PURE:
                return "KPure"
            return None
        if name == "OpenFile" and len(params) == 3:
            pn, pf, pp = [p["name"] for p in params]
            m = re.fullmatch(r"(\w+), err := %s\.baseFS\.OpenFile\(%s, %s, %s\)\nif err != nil \{\nreturn %s, err\n\}\n"
                             r"(\w+) := &FailFile\{baseFile: (\w+), vfs: %s\}\nreturn (\w+), (?:err|nil)" % (rv, pn, pf, pp, ZERO, rv), rest)
            if m and m.group(1) == m.group(3) and m.group(2) == m.group(4):
                return "KFwdWrap"
        if name == "CreateTemp" and len(params) == 2:
            m = re.fullmatch(r"(\w+), err := %s\.baseFS\.CreateTemp\(%s, %s\)\nif err != nil \{\nreturn %s, err\n\}\n"
                             r"(?:(\w+) := &FailFile\{baseFile: (\w+), vfs: %s\}\nreturn (\w+), nil|return &FailFile\{baseFile: (\w+), vfs: %s\}, nil)"
                             % (rv, params[0]["name"], params[1]["name"], ZERO, rv, rv), rest)
            if m and ((m.group(3) == m.group(1) and m.group(2) == m.group(4)) or m.group(5) == m.group(1)):
                return "KFwdWrap"
        if name == "Sub" and len(params) == 1 and new_ok:
            m = re.fullmatch(r"(\w+), err := %s\.baseFS\.Sub\(%s\)\nif err != nil \{\nreturn nil, err\n\}\n"
                             r"sub := New\((\w+)\)\nsub\.failFunc = %s\.failFunc\n(?:_ = sub\.SetFeatures\(%s\.Features\(\)\)\n)?return sub, nil"
                             % (rv, params[0]["name"], rv, rv), rest)
            if m and m.group(1) == m.group(2):
                return "KFwdWrap"
        if name == "Open" and len(params) == 1:
            m = re.fullmatch(r"return %s\.OpenFile\(%s, ([\w.]+), ([\w.]+)\)" % (rv, params[0]["name"]), rest)
            if m and m.group(1) in OS_CONSTS and m.group(2) in OS_CONSTS:
                return "KSelfOpenFile %d %d" % (OS_CONSTS[m.group(1)], OS_CONSTS[m.group(2)])
        if name == "SetFailFunc" and rest == "vfs.failFunc = ff\nreturn nil":
            return "KLocal"
        if name == "Type" and re.fullmatch(r"return \"[A-Za-z]*\"", rest):
            return "KLocal"
        if name == "ToSysStat" and re.fullmatch(r"return \w+\.Sys\(\)\.\(avfs\.SysStater\)", rest):
            return "KPure"
        return None

    for (recv, name), f in sorted(c.funcs.items()):
        rv, body, params = f["recv_var"], f["body"], f["params"]
        if recv == "failfs.FailFS":
            if name == "fail":
                continue
            if not name[0].isupper():
                c.problems.append("unrecognised helper method FailFS.%s" % name)
                continue
            m = re.match(r"(?P<fp>\w+) := FailParam\{(.*)\}\n(?P<err>\w+) :?= %s\.fail\(avfs\.(Fn\w+), &(?P=fp)\)\nif (?P=err) != nil \{\nreturn (?:%s, )?(?P=err)\n\}\n" % (rv, ZERO), body)
            if m:
                flds = fail_params(m.group(2), params, {"user.Name()"})
                k = tail_vfs(name, rv, params, body[m.end():])
                if flds is None or k is None or not fail_ok or m.group(4) not in fnvfs_known:
                    put(("V", name), "KUnrecognised", "consults %s; %s" % (m.group(4), "tail not recognised" if k is None else "FailParam/fail/Fn id not recognised"))
                else:
                    fields.append((("V", name), flds))
                    put(("V", name), "KConsult %s %s %s" % (m.group(4), flagidx(flds), "(%s)" % k if " " in k else k))
                continue
            k = tail_vfs(name, rv, params, body)
            put(("V", name), k or "KUnrecognised", "body shape not recognised")
        elif recv == "failfs.FailFile":
            if name == "name":
                continue
            if not name[0].isupper():
                c.problems.append("unrecognised helper method FailFile.%s" % name)
                continue
            b = strip_nil_guard(body, rv)
            helper_ok = name_helper_ok(c.fn("failfs.FailFile", "name"))
            m = re.match(r"(?:name := %s\.name\(\)\n)?(?P<fp>\w+) := FailParam\{(.*)\}\n(?P<v>\w+) := %s\.vfs\n(?P<err>\w+) :?= (?P=v)\.fail\(avfs\.(Fn\w+), &(?P=fp)\)\nif (?P=err) != nil \{\nreturn (?:%s, )?(?P=err)\n\}\n"
                         % (rv, rv, ZERO), b)
            if m:
                flds = fail_params(m.group(2), params, {"name"})
                m2 = re.fullmatch(r"return %s\.baseFile\.(\w+)\((.*)\)" % rv, b[m.end():])
                good = (flds is not None and m2 and m2.group(1) == name and args_verbatim(params, m2.group(2)) and fail_ok
                        and helper_ok and m.group(5) in fnvfs_known)
                if good:
                    fields.append((("F", name), flds))
                    put(("F", name), "KConsult %s %s KFwd" % (m.group(5), flagidx(flds)))
                else:
                    put(("F", name), "KUnrecognised", "consults %s; rest not recognised" % m.group(5))
                continue
            m = re.fullmatch(r"return %s\.baseFile\.(\w+)\((.*)\)" % rv, b)
            if m and m.group(1) == name and args_verbatim(params, m.group(2)):
                put(("F", name), "KFwd")
                continue
            if name == "Name" and b == "return %s.name()" % rv and helper_ok:
                put(("F", name), "KFwd")
                continue
            if name == "WriteString" and len(params) == 1 and b == "return %s.Write([]byte(%s))" % (rv, params[0]["name"]):
                put(("F", name), "KSelfWrite")
                continue
            put(("F", name), "KUnrecognised", "body shape not recognised")
        elif recv == "failfs":
            if name not in ("New", "OkFunc", "ReadOnlyFunc"):
                c.problems.append("unrecognised package-level function failfs.%s" % name)
    promoted(d, c, "failfs.FailFS", table, put)

    # ---- ReadOnlyFunc's case list, OkFunc
    ro_cases, ro_default, ro_problems = [], "RoUnrecognised", []
    ro = c.fn("failfs", "ReadOnlyFunc")
    if ro and ro.get("switch") and [p["name"] for p in ro["params"]][1:] == ["fn", "fp"] and ro.get("switch_tag") == "fn":
        for cs in ro["switch"]:
            b = cs["body"]
            k = None
            if b == "return nil":
                k = "RoPass"
            else:
                m = re.fullmatch(r"return &fs\.PathError\{Op: fp\.Op, Path: fp\.Path, Err: (avfs\.\w+)\}", b) or \
                    re.fullmatch(r"return &os\.LinkError\{Op: fp\.Op, Old: fp\.Path, New: fp\.NewPath, Err: (avfs\.\w+)\}", b)
                if m and c.errsrc(m.group(1), "fp", False):
                    k = "RoRefuse " + c.errsrc(m.group(1), "fp", False)
                m = re.fullmatch(r"if fp\.Flag != (os\.O_\w+) \{\nreturn &fs\.PathError\{Op: fp\.Op, Path: fp\.Path, Err: (avfs\.\w+)\}\n\}\nreturn nil", b)
                if m and m.group(1) in OS_CONSTS and c.errsrc(m.group(2), "fp", False):
                    k = "RoFlagGuard %d %s" % (OS_CONSTS[m.group(1)], c.errsrc(m.group(2), "fp", False))
            if k is None:
                k = "RoUnrecognised"
                ro_problems.append("ReadOnlyFunc case %s: body not recognised" % ",".join(cs["ids"]))
            if not cs["ids"]:
                ro_default = k
                continue
            ids = []
            for i in cs["ids"]:
                n = i.replace("avfs.", "")
                if n in fnvfs_known:
                    ids.append(n)
                else:
                    ro_problems.append("ReadOnlyFunc names the unknown id " + i)
                    k = "RoUnrecognised"
            ro_cases.append((ids, k))
    else:
        ro_problems.append("ReadOnlyFunc is not a single switch over fn")
    okf = c.fn("failfs", "OkFunc")
    okfunc_nil = bool(okf) and okf["body"] == "return nil"

    # ---- the bases build their composites from the same generic functions
    base_generic = True
    base_notes = []
    for typ in ("memfs.MemFS", "orefafs.OrefaFS"):
        for name in list(COMPOSITES) + ["CreateTemp", "WalkDir"]:
            f = c.fn(typ, name)
            if not f or not re.fullmatch(r"return avfs\.%s\(%s(?:, (.*))?\)" % (name, f["recv_var"]), f["body"]) \
                    or not args_verbatim(f["params"], re.fullmatch(r"return avfs\.%s\(%s(?:, (.*))?\)" % (name, f["recv_var"]), f["body"]).group(1) or ""):
                base_generic = False
                base_notes.append("%s.%s is not avfs.%s(vfs, ...)" % (typ, name, name))
    return c, table, notes, ro_cases, ro_default, ro_problems, okfunc_nil, new_ok, base_generic, base_notes, fields


# ---------------------------------------------------------------------------
# emission

def coq_str(s):
    return '"%s"' % s.replace('"', "'")


def coq_list(items, per=6, indent="   "):
    if not items:
        return "[]"
    lines = []
    for i in range(0, len(items), per):
        lines.append("; ".join(items[i:i + per]))
    return "[" + (";\n" + indent).join(lines) + "]"


def emit_table(name, table, known, unknown):
    rows = []
    for (t, m), k in table:
        cons = ("V_" if t == "V" else "F_") + m
        if cons not in (known["vmeth"] if t == "V" else known["fmeth"]):
            unknown.append("method %s.%s is not known to Wrapper.v" % ("VFS" if t == "V" else "File", m))
            continue
        rows.append("(%s %s, %s)" % ("MV" if t == "V" else "MF", cons, k))
    return "Definition %s : table :=\n  %s.\n" % (name, coq_list(rows, per=1, indent="   "))


HEADER = "(* GENERATED by lib/vcheck/wrapgen.py from the Go source of %s - do not edit.\n   %s *)\n"


def generate():
    repo = gen.REPO
    os.makedirs(WRAP, exist_ok=True)
    known = known_names()
    d, errtxt = dump(repo)
    if d is None:
        # the source does not parse: emit tables that fail every theorem
        for n in ("Gen_iface", "Gen_rofs", "Gen_failfs"):
            gen.write_if_changed(os.path.join(WRAP, n + ".v"), "(* GENERATED: the Go source did not parse:\n%s *)\nFrom Avfs Require Import Base.\nDefinition source_does_not_parse : True := I.\n" % errtxt.replace("*)", "* )"))
        return
    # ---- interface
    unknown = []
    iface_v = [m for m in d["interfaces"]["VFS"]]
    iface_f = [m for m in d["interfaces"]["File"]]
    for u in d.get("unresolved") or []:
        unknown.append("embedded interface %s could not be flattened" % u)
    v_ok = [m for m in iface_v if "V_" + m in known["vmeth"]]
    f_ok = [m for m in iface_f if "F_" + m in known["fmeth"]]
    unknown += ["interface VFS has the method %s unknown to Wrapper.v" % m for m in iface_v if m not in v_ok]
    unknown += ["interface File has the method %s unknown to Wrapper.v" % m for m in iface_f if m not in f_ok]
    fn_ok = [n for n in d["fnvfs"] if n in known["fnvfs"]]
    unknown += ["FnVFS has the id %s unknown to Wrapper.v" % n for n in d["fnvfs"] if n not in fn_ok]
    if not d.get("fnvfs_iota_plus_one"):
        unknown.append("the FnVFS enumeration is not `iota + 1` followed by bare names")
    body = HEADER % (repo, "Method sets of avfs.VFS and avfs.File (embedded interfaces flattened), the FnVFS enumeration in declaration order.")
    body += "From Coq Require Import String.\nFrom Avfs Require Import Base Wrapper.\n\n"
    body += "Definition iface_vfs : list vmeth :=\n  %s.\n\n" % coq_list(["V_" + m for m in v_ok])
    body += "Definition iface_file : list fmeth :=\n  %s.\n\n" % coq_list(["F_" + m for m in f_ok])
    body += "Definition gen_fnvfs : list fnvfs :=\n  %s.\n\n" % coq_list(fn_ok)
    body += "(* what the translator could not map; the table theorems need this list to be empty *)\n"
    body += "Definition iface_unknown : list string :=\n  %s%%string.\n" % coq_list([coq_str(u) for u in unknown], per=1)
    gen.write_if_changed(os.path.join(WRAP, "Gen_iface.v"), body)

    # ---- RoFS
    c, table, notes = classify_rofs(d)
    unk = list(c.problems)
    body = HEADER % (repo + "/vfs/rofs", "Kind of every method of RoFS and RoFile (see Wrapper.v for the meaning of the kinds).")
    body += "From Coq Require Import String.\nFrom Avfs Require Import Base Wrapper.\n\n"
    tbl = emit_table("rofs_table", table, known, unk)
    if notes:
        body += "(* unrecognised:\n   %s *)\n" % "\n   ".join(str(n) for n in notes)
    body += tbl + "\nDefinition rofs_unknown : list string :=\n  %s%%string.\n" % coq_list([coq_str(u) for u in unk], per=1)
    gen.write_if_changed(os.path.join(WRAP, "Gen_rofs.v"), body)

    # ---- FailFS
    c, table, notes, ro_cases, ro_default, ro_problems, okfunc_nil, new_ok, base_generic, base_notes, fields = classify_failfs(d, set(fn_ok))
    unk = list(c.problems) + ro_problems
    body = HEADER % (repo + "/vfs/failfs", "Kind of every method of FailFS and FailFile, ReadOnlyFunc's case list, OkFunc, and whether MemFS/OrefaFS build their composites from the generic functions of vfs.go.")
    body += "From Coq Require Import String.\nFrom Avfs Require Import Base Wrapper.\n\n"
    if notes or base_notes:
        body += "(* unrecognised:\n   %s *)\n" % "\n   ".join(str(n) for n in notes + base_notes)
    body += emit_table("failfs_table", table, known, unk)
    body += "\n(* FailParam fields fed from the method's parameters (field, argument number) - documentation of the consultation *)\n"
    body += "Definition failfs_fields : list (meth * list (fpfield * nat)) :=\n  %s.\n" % coq_list(
        ["(%s %s_%s, [%s])" % ("MV" if t == "V" else "MF", t, n, "; ".join("(%s, %d)" % x for x in fl)) for (t, n), fl in fields], per=1)
    body += "\nDefinition ro_cases : list (list fnvfs * rokind) :=\n  %s.\n" % coq_list(
        ["(%s, %s)" % (coq_list(ids, per=8, indent="     "), k) for ids, k in ro_cases], per=1)
    body += "Definition ro_default : rokind := %s.\n" % ro_default
    body += "Definition okfunc_returns_nil : bool := %s.\n" % ("true" if okfunc_nil else "false")
    body += "Definition new_installs_okfunc : bool := %s.\n" % ("true" if new_ok else "false")
    body += "Definition base_composites_generic : bool := %s.\n" % ("true" if base_generic else "false")
    body += "\nDefinition failfs_unknown : list string :=\n  %s%%string.\n" % coq_list([coq_str(u) for u in unk], per=1)
    gen.write_if_changed(os.path.join(WRAP, "Gen_failfs.v"), body)


def generate_and_compile():
    """Regenerate, then bring the .vo of the generated tables up to date so that an extraction
    that runs without a full `make` (bin/check --replay) never sees a stale table."""
    generate()
    wvo = os.path.join(WRAP, "Wrapper.vo")
    if not os.path.exists(wvo):
        return
    for n in ("Gen_iface", "Gen_rofs", "Gen_failfs"):
        v = os.path.join(WRAP, n + ".v")
        vo = os.path.join(WRAP, n + ".vo")
        if os.path.exists(v) and (not os.path.exists(vo) or os.path.getmtime(vo) < os.path.getmtime(v)
                                  or os.path.getmtime(vo) < os.path.getmtime(wvo)):
            subprocess.run(["coqc", "-Q", "theories", "Avfs", os.path.join("theories", "Wrap", n + ".v")], cwd=gen.COQ,
                           stdout=subprocess.PIPE, stderr=subprocess.STDOUT, timeout=600)
            try:    # force a fresh extraction: the model embeds the tables
                os.remove(os.path.join(ROOT, "ml", "model.ml"))
            except OSError:
                pass


if generate_and_compile not in gen.GENERATORS:
    gen.GENERATORS.append(generate_and_compile)
