"""Extraction cross-check: a sample of the very histories the extracted OCaml model ran is re-evaluated INSIDE Coq
(vm_compute on World.wrun) and the per-call result kinds / errno numbers and the size of the final snapshot are compared
with what the OCaml driver printed.  A difference means the extracted code (or the glue) does not compute what the Coq
definitions say - it removes most of the trust in extraction for the fs streams."""
import os, re
from . import COQ, ML, sh, WORK

GNUM = {"Gclosed": 1, "Ginvalid": 2, "Geof": 3, "FUEL": 0}


def tok_bytes(t):
    b = bytes.fromhex(t[1:])
    return "[" + ";".join(str(x) for x in b) + "]%N" if b else "[]"


def coq_op(t):
    k = t[0]
    n = lambda s: "%s%%N" % s
    z = lambda s: "(%s)%%Z" % s
    v = lambda s: s  # nat
    p = tok_bytes
    try:
        if k == "MK": return "CMkdir %s %s %s" % (v(t[1]), p(t[2]), n(t[3]))
        if k == "MA": return "CMkdirAll %s %s %s" % (v(t[1]), p(t[2]), n(t[3]))
        if k == "OP": return "COpenFile %s %s %s %s" % (v(t[1]), p(t[2]), n(t[3]), n(t[4]))
        if k == "RM": return "CRemove %s %s" % (v(t[1]), p(t[2]))
        if k == "RA": return "CRemoveAll %s %s" % (v(t[1]), p(t[2]))
        if k == "RN": return "CRename %s %s %s" % (v(t[1]), p(t[2]), p(t[3]))
        if k == "LN": return "CLink %s %s %s" % (v(t[1]), p(t[2]), p(t[3]))
        if k == "SL": return "CSymlink %s %s %s" % (v(t[1]), p(t[2]), p(t[3]))
        if k == "RL": return "CReadlink %s %s" % (v(t[1]), p(t[2]))
        if k == "TR": return "CTruncate %s %s %s" % (v(t[1]), p(t[2]), z(t[3]))
        if k == "CM": return "CChmod %s %s %s" % (v(t[1]), p(t[2]), n(t[3]))
        if k == "CO": return "CChown %s %s %s %s" % (v(t[1]), p(t[2]), z(t[3]), z(t[4]))
        if k == "LC": return "CLchown %s %s %s %s" % (v(t[1]), p(t[2]), z(t[3]), z(t[4]))
        if k == "CT": return "CChtimes %s %s" % (v(t[1]), p(t[2]))
        if k == "CD": return "CChdir %s %s" % (v(t[1]), p(t[2]))
        if k == "WD": return "CGetwd %s" % v(t[1])
        if k == "ST": return "CStat %s %s" % (v(t[1]), p(t[2]))
        if k == "LS": return "CLstat %s %s" % (v(t[1]), p(t[2]))
        if k == "ES": return "CEvalSymlinks %s %s" % (v(t[1]), p(t[2]))
        if k == "RD": return "CReadDir %s %s" % (v(t[1]), p(t[2]))
        if k == "RF": return "CReadFile %s %s" % (v(t[1]), p(t[2]))
        if k == "WF": return "CWriteFile %s %s %s %s" % (v(t[1]), p(t[2]), p(t[3]), n(t[4]))
        if k == "SB": return "CSub %s %s" % (v(t[1]), p(t[2]))
        if k == "SU": return "CSetUser %s %s %s %s" % (v(t[1]), z(t[2]), z(t[3]), "true" if t[4] == "1" else "false")
        if k == "UM": return "CSetUMask %s %s" % (v(t[1]), n(t[2]))
        if k == "fR": return "FRead %s %s" % (v(t[1]), z(t[2]))
        if k == "fRA": return "FReadAt %s %s %s" % (v(t[1]), z(t[2]), z(t[3]))
        if k == "fW": return "FWrite %s %s" % (v(t[1]), p(t[2]))
        if k == "fWA": return "FWriteAt %s %s %s" % (v(t[1]), p(t[2]), z(t[3]))
        if k == "fSK": return "FSeek %s %s %s" % (v(t[1]), z(t[2]), z(t[3]))
        if k == "fTR": return "FTruncate %s %s" % (v(t[1]), z(t[2]))
        if k == "fST": return "FStat %s" % v(t[1])
        if k == "fSY": return "FSync %s" % v(t[1])
        if k == "fCM": return "FChmod %s %s" % (v(t[1]), n(t[2]))
        if k == "fCO": return "FChown %s %s %s" % (v(t[1]), z(t[2]), z(t[3]))
        if k == "fCD": return "FChdir %s" % v(t[1])
        if k == "fCL": return "FClose %s" % v(t[1])
        if k == "fRD": return "FReadDir %s %s" % (v(t[1]), z(t[2]))
        if k == "fRN": return "FReaddirnames %s %s" % (v(t[1]), z(t[2]))
    except IndexError:
        pass
    return None


def expected_kind(res):
    r = res.split(" #")[0]
    f = r.split()
    if not f:
        return None
    if f[0] in ("E", "EP"):
        c = f[1]
        if c in GNUM:
            return (1, GNUM[c])
        m = re.match(r"[LWC](\d+)$", c)
        return (1, int(m.group(1))) if m else None
    return {"ok": (0, 0), "I": (2, 0), "S": (3, 0), "B": (4, 0), "N": (5, 0), "NS": (6, 0), "IS": (7, 0), "H": (8, 0),
            "V": (9, 0), "PANIC": (10, 0), "DEADLOCK": (11, 0)}.get(f[0])


PRELUDE = """From Avfs Require Import Base PathModel MemFS MemFile World.
Definition kind (r : res) : N * N :=
  match r with
  | ROk => (0, 0) | RFail e => (1, snd (ecode Linux e)) | RErrPath e _ => (1, snd (ecode Linux e))
  | RInfo _ => (2, 0) | RStr _ => (3, 0) | RBytes _ _ _ => (4, 0) | RInt _ => (5, 0) | RNames _ _ => (6, 0)
  | RInfos _ _ => (7, 0) | RHandle _ => (8, 0) | RView _ => (9, 0) | RPanic => (10, 0) | RDeadlock => (11, 0)
  end%N.
Definition pair_eqb (a b : N * N) : bool := N.eqb (fst a) (fst b) && N.eqb (snd a) (snd b).
Fixpoint all2 (a b : list (N * N)) : bool :=
  match a, b with [] , [] => true | x :: a', y :: b' => pair_eqb x y && all2 a' b' | _, _ => false end.
Definition check (um : N) (cs : list call) (exp : list (N * N)) (nsnap : nat) : bool :=
  let '(w, rs) := wrun (init_world_linux um) cs in all2 (map kind rs) exp && Nat.eqb (length (snapshot w 0)) nsnap.
"""


def run(ctx, cases_file, sample=40, maxops=30):
    """Returns (n_checked, failures:list of indices) or None if it could not run."""
    lines = [l for l in open(cases_file).read().splitlines() if l.startswith("memfs linux")]
    step = max(1, len(lines) // sample)
    picked = lines[::step][:sample]
    items = []
    for l in picked:
        parts = l.split(" | ")
        hd = parts[0].split()
        ops = [o.split() for o in parts[1:1 + maxops]]
        cops = [coq_op(t) for t in ops]
        if any(c is None for c in cops) or not cops:
            continue
        items.append((int(hd[2]), parts[1:1 + maxops], cops))
    if not items:
        return None
    d = os.path.join(WORK, ctx.prop)
    inp = os.path.join(d, "xcheck.in")
    with open(inp, "w") as f:
        for um, ops, _ in items:
            f.write("memfs linux %d full | %s\n" % (um, " | ".join(ops)))
    rc, out = sh("%s/driver fs < %s" % (ML, inp), timeout=600)
    if rc != 0:
        return None
    outs = out.splitlines()
    vf = os.path.join(d, "XCheck_%s.v" % ctx.prop)
    with open(vf, "w") as f:
        f.write(PRELUDE)
        n = 0
        for (um, ops, cops), o in zip(items, outs):
            rs = o.split(" | ")
            if len(rs) != len(ops):
                continue                     # history ended early (panic/deadlock/interrupted RemoveAll): skip
            exp = [expected_kind(r) for r in rs]
            if any(e is None for e in exp):
                continue
            last = rs[-1]
            snap = last.split(" #")[1] if " #" in last else ""
            nsnap = len([x for x in snap.split(";") if x.strip()])
            f.write("Definition c%d := check %d%%N [%s] [%s]%%N %d.\n" % (
                n, um, "; ".join(cops), "; ".join("(%d, %d)" % e for e in exp), nsnap))
            n += 1
        f.write("Definition allres := [%s].\n" % "; ".join("c%d" % i for i in range(n)))
        f.write("Definition bad := Eval vm_compute in (filter (fun x => negb (snd x)) (combine (seq 0 %d) allres)).\nPrint bad.\n" % n)
    rc, out = sh(["coqc", "-Q", os.path.join(COQ, "theories"), "Avfs", vf], cwd=d, timeout=1200)
    if rc != 0:
        return (0, ["coqc failed: " + out[-500:]])
    m = re.search(r"bad\s*=\s*(.*?)\s*:\s*list", out, flags=re.S)
    txt = m.group(1) if m else "?"
    fails = [] if txt.replace(" ", "") in ("[]", "nil") else [txt[:300]]
    return (n, fails)
