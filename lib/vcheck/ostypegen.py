"""Source-to-Coq translator for property C17: regenerates coq/theories/OsType/Gen_ostype.v from the
CURRENT Go source of <repo>:

* errors.go      - the Errors.SetOSType table (field -> error constant, per OS branch) and the numeric
                   values of the LinuxError / WindowsError / CustomError constants;
* ostype.go      - the shape of OSTypeFn.SetOSType: the OsUnknown substitution, the guard expression under
                   which ErrSetOSType is returned, the assignment of the type and of the separator;
* features.go, vfs_ostype_on.go, vfs_ostype_off.go - BuildFeatures and the tag-dependent constant;
* vfs_types.go   - DefaultVolume, DefaultDirPerm, DefaultFilePerm;
* vfs/memfs/memfs_cfg.go, vfs/orefafs/orefafs_cfg.go - the OS-dependent part of NewWithOptions;
* the number of `OSType()` tests per function of memfs*.go / orefafs*.go (the places where the emulated
  OS type can change behaviour; the model's `win v` branches are compared with this list).

Fail closed: anything that is not one of the recognised shapes is recorded in `gen_problems`
(obligation: the list is empty) and/or as a `GUnknown` guard, which evaluates to SetUnknownShape.
"""
import os, re

from . import gen
from .bpgen import strip_comments, match_close, FUNC_RE

OUT = os.path.join(gen.COQ, "theories", "OsType", "Gen_ostype.v")


def functions(src):
    """Top-level funcs of a comment-stripped Go source: receiver, name and whitespace-normalised body
    (parameter and result lists are skipped, whatever their layout)."""
    for m in FUNC_RE.finditer(src):
        po = m.end() - 1
        pc = match_close(src, po, "(", ")")
        i = pc + 1
        while i < len(src) and src[i] in " \t":
            i += 1
        if i < len(src) and src[i] == "(":
            i = match_close(src, i, "(", ")") + 1
        bo = src.index("{", i)
        if "\n" in src[i:bo].strip():
            continue        # a declaration without body
        bc = match_close(src, bo, "{", "}")
        yield {"recv_var": m.group(2) or "", "recv": m.group(3) or "", "name": m.group(4),
               "body": " ".join(src[bo + 1:bc].split())}


def rd(rel):
    with open(os.path.join(gen.REPO, rel)) as f:
        return f.read()


def cstr(s):
    return '"' + s.replace('"', '""') + '"%string'


def bytes_list(s):
    return "[" + "; ".join(str(b) for b in s.encode()) + "]%N"


def num(lit):
    lit = lit.strip().replace("_", "")
    if re.fullmatch(r"0[xX][0-9a-fA-F]+", lit):
        return int(lit, 16)
    if re.fullmatch(r"0[oO][0-7]+", lit):
        return int(lit[2:], 8)
    if re.fullmatch(r"0[0-7]+", lit):
        return int(lit, 8)
    if re.fullmatch(r"[0-9]+", lit):
        return int(lit)
    return None


# ---- guard expression parser ---------------------------------------------------------------
ATOMS = [
    (r"BuildFeatures\(\)&FeatSetOSType==0", "GFeatAbsent"),
    (r"0==BuildFeatures\(\)&FeatSetOSType", "GFeatAbsent"),
    (r"BuildFeatures\(\)&FeatSetOSType!=0", "GFeatPresent"),
    (r"BuildFeatures\(\)&FeatSetOSType==FeatSetOSType", "GFeatPresent"),
    (r"osType!=CurrentOSType\(\)", "GForeign"),
    (r"CurrentOSType\(\)!=osType", "GForeign"),
    (r"osType==CurrentOSType\(\)", "GNative"),
    (r"CurrentOSType\(\)==osType", "GNative"),
]


def parse_guard(src):
    s = re.sub(r"\s+", "", src)
    pos = [0]

    class Bad(Exception):
        pass

    def atom():
        if s.startswith("!", pos[0]) and not s.startswith("!=", pos[0]):
            pos[0] += 1
            return "(GNot %s)" % atom()
        if s.startswith("(", pos[0]):
            pos[0] += 1
            e = disj()
            if not s.startswith(")", pos[0]):
                raise Bad()
            pos[0] += 1
            return e
        for rx, name in ATOMS:
            m = re.match(rx, s[pos[0]:])
            if m:
                pos[0] += m.end()
                return name
        raise Bad()

    def conj():
        e = atom()
        while s.startswith("&&", pos[0]):
            pos[0] += 2
            e = "(GAnd %s %s)" % (e, atom())
        return e

    def disj():
        e = conj()
        while s.startswith("||", pos[0]):
            pos[0] += 2
            e = "(GOr %s %s)" % (e, conj())
        return e

    try:
        e = disj()
        if pos[0] != len(s):
            raise Bad()
        return e, None
    except Bad:
        return "GUnknown", "SetOSType guard not recognised: " + src.strip()[:120]


RUNE = {"'/'": 47, "'\\\\'": 92}


def translate():
    problems = []
    L = []

    # ---- errors.go -------------------------------------------------------------------------
    consts = {}       # name -> (class, value)
    fields, tab = [], {}
    try:
        src = strip_comments(rd("errors.go"))
        m = re.search(r"const\s+customErrorBase\s*=\s*(\d+)\s*<<\s*(\d+)", src)
        base = (int(m.group(1)) << int(m.group(2))) if m else None
        if base is None:
            problems.append("errors.go: customErrorBase not found")
            base = 0
        raw = dict(re.findall(r"^\s*(err[A-Z]\w*)\s*=\s*(0[xX][0-9a-fA-F]+|\d+)\s*$", src, flags=re.M))
        for name, ty, rhs in re.findall(r"^\s*(Err\w+)\s+(LinuxError|WindowsError|CustomError)\s*=\s*(.+?)\s*$", src, flags=re.M):
            cls = {"LinuxError": 0, "WindowsError": 1, "CustomError": 2}[ty]
            v = num(rhs)
            if v is None and rhs in raw:
                v = num(raw[rhs])
            if v is None:
                mm = re.fullmatch(r"customErrorBase\s*\+\s*(\d+)", rhs)
                if mm and cls == 2:
                    v = int(mm.group(1))
            elif cls == 2:
                v -= base
            if v is None or v < 0:
                problems.append("errors.go: value of %s not recognised: %s" % (name, rhs))
                continue
            consts[name] = (cls, v)
        m = re.search(r"type\s+Errors\s+struct\s*\{(.*?)\}", src, flags=re.S)
        if m:
            fields = re.findall(r"^\s*(\w+)\s+error\s*$", m.group(1), flags=re.M)
        else:
            problems.append("errors.go: type Errors not found")
        fn = [f for f in functions(src) if f["recv"] == "Errors" and f["name"] == "SetOSType"]
        if len(fn) != 1:
            problems.append("errors.go: Errors.SetOSType not found")
        else:
            recv = fn[0]["recv_var"]
            body = fn[0]["body"]
            asg = r"(?:%s\.\w+ = \w+ ?)+" % re.escape(recv)
            m = re.fullmatch(r"switch osType \{ case OsWindows: (%s)default: (%s)\}" % (asg, asg), body)
            if not m:
                problems.append("errors.go: Errors.SetOSType is not `switch osType { case OsWindows: assignments default: assignments }`")
            else:
                win = dict(re.findall(r"%s\.(\w+) = (\w+)" % re.escape(recv), m.group(1)))
                dfl = dict(re.findall(r"%s\.(\w+) = (\w+)" % re.escape(recv), m.group(2)))
                for f in fields:
                    if f not in win or f not in dfl:
                        problems.append("errors.go: field %s is not assigned in both branches of Errors.SetOSType" % f)
                    else:
                        tab[f] = (dfl[f], win[f])
                        for c in (dfl[f], win[f]):
                            if c not in consts:
                                problems.append("errors.go: %s is not a LinuxError/WindowsError/CustomError constant" % c)
                for f in set(win) | set(dfl):
                    if f not in fields:
                        problems.append("errors.go: Errors.SetOSType assigns unknown field " + f)
    except Exception as e:  # parse failure of the whole file
        problems.append("errors.go: %r" % (e,))

    L.append("Definition gen_err_fields : list (string * (string * string)) :=\n  [%s]." %
             ";\n   ".join("(%s, (%s, %s))" % (cstr(f), cstr(tab[f][0]), cstr(tab[f][1])) for f in fields if f in tab))
    L.append("(* constant -> (class, value): class 0 = LinuxError, 1 = WindowsError, 2 = CustomError (offset from customErrorBase) *)")
    L.append("Definition gen_consts : list (string * (N * N)) :=\n  [%s]." %
             ";\n   ".join("(%s, (%d, %d)%%N)" % (cstr(n), c, v) for n, (c, v) in sorted(consts.items())))

    # ---- ostype.go ---------------------------------------------------------------------------
    shape = {"unk": "false", "guard": "GUnknown", "asg": "false", "sd": 0, "sw": 0}
    try:
        src = strip_comments(rd("ostype.go"))
        fn = [f for f in functions(src) if f["recv"] == "OSTypeFn" and f["name"] == "SetOSType"]
        if len(fn) != 1:
            problems.append("ostype.go: OSTypeFn.SetOSType not found")
        else:
            rv = re.escape(fn[0]["recv_var"])
            body = fn[0]["body"]
            # the parameter and the local variable may have any name: they are normalised to osType / sep
            pm = re.search(r"func\s*\([^)]*\)\s*SetOSType\s*\(\s*(\w+)\s+OSType\s*\)", src)
            pn = pm.group(1) if pm else "osType"
            lm = re.search(r"\b(\w+) := uint8\(", body)
            ln = lm.group(1) if lm else "sep"
            if pn != "osType":
                body = re.sub(r"\b%s\b" % re.escape(pn), "osType", body)
            if ln != "sep" and ln != "osType":
                body = re.sub(r"\b%s\b" % re.escape(ln), "sep", body)
            m = re.fullmatch(
                r"if osType == OsUnknown \{ osType = CurrentOSType\(\) \} "
                r"if (.+?) \{ return ErrSetOSType \} "
                + rv + r"\.osType = osType "
                r"sep := uint8\(('.+?')\) "
                r"if osType == OsWindows \{ sep = ('.+?') \} "
                + rv + r"\.pathSeparator = sep return nil", body)
            if not m:
                problems.append("ostype.go: body of SetOSType not recognised: " + body[:200])
            else:
                g, why = parse_guard(m.group(1))
                if why:
                    problems.append("ostype.go: " + why)
                sd, sw = RUNE.get(m.group(2)), RUNE.get(m.group(3))
                if sd is None or sw is None:
                    problems.append("ostype.go: separator literals not recognised: %s %s" % (m.group(2), m.group(3)))
                shape = {"unk": "true", "guard": g, "asg": "true", "sd": sd or 0, "sw": sw or 0}
    except Exception as e:
        problems.append("ostype.go: %r" % (e,))
    L.append("Definition gen_setos : setos_shape :=\n  {| ss_unknown_is_current := %s; ss_guard := %s;\n     ss_assigns_requested := %s; ss_sep_default := %d; ss_sep_windows := %d |}." %
             (shape["unk"], shape["guard"], shape["asg"], shape["sd"], shape["sw"]))

    # ---- features.go, vfs_ostype_on/off.go -------------------------------------------------------
    feat_bit, on, off = 0, 0, 0
    try:
        src = strip_comments(rd("features.go"))
        m = re.search(r"const\s*\(\s*(\w+)\s+Features\s*=\s*1\s*<<\s*iota(.*?)\)", src, flags=re.S)
        names = [m.group(1)] + re.findall(r"^\s*(\w+)\s*$", m.group(2), flags=re.M) if m else []
        if "FeatSetOSType" in names:
            feat_bit = 1 << names.index("FeatSetOSType")
        else:
            problems.append("features.go: FeatSetOSType not found in the `1 << iota` block")
        fn = [f for f in functions(src) if f["name"] == "BuildFeatures" and not f["recv"]]
        if len(fn) != 1 or fn[0]["body"] != "return buildFeatSetOSType":
            problems.append("features.go: BuildFeatures is not `return buildFeatSetOSType`")

        def tagconst(rel, want_tag):
            text = rd(rel)
            mm = re.search(r"^//go:build\s+(.+?)\s*$", text, flags=re.M)
            if not mm or mm.group(1) != want_tag:
                problems.append("%s: build constraint is not `%s`" % (rel, want_tag))
            mm = re.search(r"^const\s+buildFeatSetOSType\s*=\s*(\S+)\s*$", strip_comments(text), flags=re.M)
            if not mm:
                problems.append("%s: const buildFeatSetOSType not found" % rel)
                return 0
            if mm.group(1) == "FeatSetOSType":
                return feat_bit
            v = num(mm.group(1))
            if v is None:
                problems.append("%s: value of buildFeatSetOSType not recognised: %s" % (rel, mm.group(1)))
                return 0
            return v
        on = tagconst("vfs_ostype_on.go", "avfs_setostype")
        off = tagconst("vfs_ostype_off.go", "!avfs_setostype")
    except Exception as e:
        problems.append("features: %r" % (e,))
    L.append("Definition gen_feat_setostype : N := %d.\nDefinition gen_build_features_tag : N := %d.      (* BuildFeatures() with -tags avfs_setostype *)\nDefinition gen_build_features_notag : N := %d.    (* BuildFeatures() without the tag *)" % (feat_bit, on, off))

    # ---- vfs_types.go -------------------------------------------------------------------------------
    dvol, ddir, dfile = "", 0, 0
    try:
        src = strip_comments(rd("vfs_types.go"))
        m = re.search(r'^\s*DefaultVolume\s*=\s*"([^"\\]*)"\s*$', src, flags=re.M)
        if m:
            dvol = m.group(1)
        else:
            problems.append("vfs_types.go: DefaultVolume not found")
        for nm in ("DefaultDirPerm", "DefaultFilePerm"):
            m = re.search(r"^\s*%s\s*=\s*fs\.FileMode\((\w+)\)\s*$" % nm, src, flags=re.M)
            v = num(m.group(1)) if m else None
            if v is None:
                problems.append("vfs_types.go: %s not found" % nm)
                v = 0
            if nm == "DefaultDirPerm":
                ddir = v
            else:
                dfile = v
    except Exception as e:
        problems.append("vfs_types.go: %r" % (e,))
    L.append("Definition gen_default_volume : str := %s.   (* %s *)\nDefinition gen_default_dir_perm : N := %d.\nDefinition gen_default_file_perm : N := %d." % (bytes_list(dvol), dvol, ddir, dfile))

    # ---- NewWithOptions of the two emulated file systems ---------------------------------------------------
    MODE_DIR = 1 << 31   # io/fs.ModeDir (Go standard library)
    for fsname, rel in (("memfs", "vfs/memfs/memfs_cfg.go"), ("orefafs", "vfs/orefafs/orefafs_cfg.go")):
        c = {"bd": 0, "bf": 0, "wd": 0, "wf": 0, "vol": "false", "cur": "false", "err": "false", "test": "false"}
        try:
            src = strip_comments(rd(rel))
            fn = [f for f in functions(src) if f["name"] == "NewWithOptions" and not f["recv"]]
            if len(fn) != 1:
                problems.append(rel + ": NewWithOptions not found")
            else:
                body = fn[0]["body"]
                if "dirMode: fs.ModeDir," in body:
                    c["bd"] = MODE_DIR
                else:
                    problems.append(rel + ": `dirMode: fs.ModeDir` not found")
                if "fileMode: 0," not in body:
                    problems.append(rel + ": `fileMode: 0` not found")
                i_set = body.find("_ = vfs.SetOSType(opts.OSType)")
                i_err = body.find("vfs.err.SetOSType(vfs.OSType())")
                if 0 <= i_set < i_err:
                    c["err"] = "true"
                else:
                    problems.append(rel + ": `vfs.err.SetOSType(vfs.OSType())` after `_ = vfs.SetOSType(opts.OSType)` not found")
                tests = [m.start() for m in re.finditer(r"if vfs\.OSType\(\) == avfs\.OsWindows \{", body)]
                if len(tests) != 1 or body.count("OSType()") != 2 + body.count("avfs.SystemDirs(vfs") * 0:
                    # exactly: err.SetOSType(vfs.OSType()) and the Windows test
                    if len(tests) != 1:
                        problems.append(rel + ": expected exactly one `if vfs.OSType() == avfs.OsWindows {` in NewWithOptions")
                    else:
                        problems.append(rel + ": NewWithOptions consults OSType() in an unrecognised place")
                if len(tests) == 1:
                    c["test"] = "true"
                    bo = body.index("{", tests[0])
                    blk = " ".join(body[bo + 1:match_close(body, bo, "{", "}")].split())
                    stmts = [s.strip() for s in re.split(r"(?<=[\w)\]}]) (?=(?:vfs\.|volumeName|curDir))", blk)]
                    known = {"vfs.dirMode |= avfs.DefaultDirPerm": "wd", "vfs.fileMode |= avfs.DefaultFilePerm": "wf",
                             "volumeName = avfs.DefaultVolume": "vol", "curDir = volumeName + string(vfs.PathSeparator())": "cur"}
                    if fsname == "memfs":
                        known["vfs.volumes = make(volumes)"] = "mk"
                        known["vfs.volumes[volumeName] = vfs.rootNode"] = "root"
                        # the same two statements since the volume table is a mutex-guarded struct
                        known["vfs.volumes = &volumes{roots: make(map[string]*dirNode)}"] = "mk"
                        known["vfs.volumes.add(volumeName, vfs.rootNode)"] = "root"
                    seen = set()
                    for s in stmts:
                        if s in known:
                            seen.add(known[s])
                        else:
                            problems.append(rel + ": unrecognised statement in the Windows branch of NewWithOptions: " + s[:100])
                    for k in set(known.values()) - seen:
                        problems.append(rel + ": the Windows branch of NewWithOptions lacks the statement for `%s`" % k)
                    if "wd" in seen:
                        c["wd"] = ddir
                    if "wf" in seen:
                        c["wf"] = dfile
                    if "vol" in seen:
                        c["vol"] = "true"
                    if "cur" in seen:
                        c["cur"] = "true"
        except Exception as e:
            problems.append(rel + ": %r" % (e,))
        L.append("Definition gen_cfg_%s : cfg_shape :=\n  {| cs_base_dir_mode := %d; cs_base_file_mode := %d; cs_win_dir_or := %d; cs_win_file_or := %d;\n     cs_win_volume_default := %s; cs_win_curdir_volume_sep := %s; cs_err_from_ostype := %s; cs_windows_test := %s |}." %
                 (fsname, c["bd"], c["bf"], c["wd"], c["wf"], c["vol"], c["cur"], c["err"], c["test"]))

    # ---- where the emulated OS type is consulted ---------------------------------------------------------------
    for fsname, rels in (("memfs", ["vfs/memfs/memfs.go", "vfs/memfs/memfs_file.go", "vfs/memfs/memfs_cfg.go", "vfs/memfs/memfs_internal.go"]),
                         ("orefafs", ["vfs/orefafs/orefafs.go", "vfs/orefafs/orefafs_file.go", "vfs/orefafs/orefafs_cfg.go", "vfs/orefafs/orefafs_internal.go"])):
        rows = []
        for rel in rels:
            try:
                if not os.path.exists(os.path.join(gen.REPO, rel)):
                    continue
                src = strip_comments(rd(rel))
                for f in functions(src):
                    n = len(re.findall(r"\bOSType\(\)", f["body"]))
                    if n:
                        rows.append(((f["recv"] + "." if f["recv"] else "") + f["name"], n))
            except Exception as e:
                problems.append(rel + ": %r" % (e,))
        L.append("Definition gen_os_tests_%s : list (string * N) :=\n  [%s]." % (fsname, ";\n   ".join("(%s, %d%%N)" % (cstr(a), b) for a, b in rows)))

    L.append("Definition gen_problems : list string :=\n  [%s]." % ";\n   ".join(cstr(p) for p in problems))
    return ("(* GENERATED by lib/vcheck/ostypegen.py from the Go source of avfs - do not edit.\n"
            "   Tables and shapes of the OS-type selection (property C17). *)\n"
            "From Coq Require Import String.\n"
            "From Avfs Require Import Base OsTypeCfg.\n\n" + "\n\n".join(L) + "\n")


def generate():
    gen.write_if_changed(OUT, translate())


if generate not in gen.GENERATORS:
    gen.GENERATORS.append(generate)
