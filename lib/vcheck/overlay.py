"""Instrumentation of avfs WITHOUT touching /repo: generated copies + `go build -overlay`.

generate(dir) reads the current files of REPO, writes rewritten copies into `dir` and an
overlay.json:
  * vfs/memfs/memfs_types.go, vfs/orefafs/orefafs_types.go, idm/memidm/memidm_types.go:
    every `sync.RWMutex` field becomes `vsync.RWMutex` (and `sync.Locker` the equivalent
    interface literal), the import of "sync" becomes the import of the injected package;
  * vfs_linkname*.go: nextRandom() asks the installed scheduler first (deterministic temp names);
  * virtual files: zzverif/vsync/vsync.go (the instrumented RWMutex), vfs/memfs/zz_verif_dump.go,
    vfs/orefafs/zz_verif_dump.go, idm/memidm/zz_verif_dump.go (lock-free dumps of the node graphs / the
    four maps of MemIdm, `//go:build verif`).
The rewrite FAILS CLOSED: OverlayError when an expected shape is not found or an unexpected use of
package sync appears in an instrumented package (a lock the scheduler would not see).
"""
import json, os, re, glob
from . import HARNESS, WORK, GOENV, Lock, sh, gen
from . import REPO

VSYNC_IMPORT = '"github.com/avfs/avfs/zzverif/vsync"'
INJECT = os.path.join(HARNESS, "inject")

# file -> number of sync.RWMutex fields that MUST be found there
EXPECT = {
    "vfs/memfs/memfs_types.go": (2, 3),  # MemFile.mu, baseNode.mu [, volumes.mu: with "fix: MemFS guards its volumes with a mutex"]
    "vfs/orefafs/orefafs_types.go": 3,  # OrefaFS.mu, OrefaFile.mu, node.mu
    "idm/memidm/memidm_types.go": 2,    # grpMu, usrMu
}
PACKAGES = ["vfs/memfs", "vfs/orefafs", "idm/memidm"]


class OverlayError(Exception):
    pass


def _strip_comments_strings(src):
    src = re.sub(r'//[^\n]*', '', src)
    src = re.sub(r'/\*.*?\*/', '', src, flags=re.S)
    src = re.sub(r'"(?:[^"\\\n]|\\.)*"', '""', src)
    src = re.sub(r'`[^`]*`', '``', src)
    return src


def rewrite_types(rel, src):
    n = len(re.findall(r'\bsync\.RWMutex\b', _strip_comments_strings(src)))
    want = EXPECT[rel] if isinstance(EXPECT[rel], tuple) else (EXPECT[rel],)
    if n not in want:
        raise OverlayError("%s: expected %s sync.RWMutex fields, found %d" % (rel, " or ".join(map(str, want)), n))
    if not re.search(r'^\s*"sync"\s*$', src, flags=re.M):
        raise OverlayError("%s: import of \"sync\" not found" % rel)
    out = re.sub(r'^(\s*)"sync"\s*$', lambda m: m.group(1) + VSYNC_IMPORT, src, count=1, flags=re.M)
    out = re.sub(r'\bsync\.RWMutex\b', 'vsync.RWMutex', out)
    out = re.sub(r'^(\s*)sync\.Locker\s*$', lambda m: m.group(1) + "Lock()\n" + m.group(1) + "Unlock()", out, flags=re.M)
    rest = re.findall(r'\bsync\.\w+', _strip_comments_strings(out))
    if rest:
        raise OverlayError("%s: uses of package sync the rewrite does not know: %s" % (rel, sorted(set(rest))))
    return out


def check_package_clean(repo, pkg, rewritten):
    """No other non-test file of an instrumented package may use package sync (an unseen lock)."""
    for p in sorted(glob.glob(os.path.join(repo, pkg, "*.go"))):
        rel = os.path.relpath(p, repo)
        if p.endswith("_test.go") or rel in rewritten:
            continue
        src = _strip_comments_strings(open(p).read())
        if re.search(r'\bsync\.(RWMutex|Mutex|Locker|Cond|WaitGroup|Once)\b', src):
            raise OverlayError("%s: uses package sync but is not instrumented" % rel)


LINKNAME_RE = re.compile(r'//go:linkname nextRandom os\.nextRandom\nfunc nextRandom\(\) string\n')


def rewrite_linkname(rel, src):
    if not LINKNAME_RE.search(src):
        raise OverlayError("%s: the go:linkname declaration of nextRandom was not found" % rel)
    out = LINKNAME_RE.sub(
        "func nextRandom() string {\n\tif s, ok := vsync.NextRandom(); ok {\n\t\treturn s\n\t}\n\n"
        "\treturn vsync.DefaultRandom() // as os.nextRandom: a random uint32 in decimal\n}\n", src, count=1)
    m = re.search(r'^import\s*\(\s*$', out, flags=re.M)
    if m:
        out = out[:m.end()] + "\n\t" + VSYNC_IMPORT + out[m.end():]
    else:
        m = re.search(r'^import\s+(_\s+)?"unsafe"[^\n]*$', out, flags=re.M)
        if not m:
            raise OverlayError("%s: import clause not recognised" % rel)
        out = out[:m.end()] + "\nimport " + VSYNC_IMPORT + out[m.end():]
    return out


def generate(outdir, repo=None):
    """Write the instrumented copies and overlay.json into outdir; returns the path of overlay.json."""
    repo = repo or REPO
    os.makedirs(outdir, exist_ok=True)
    replace = {}

    def put(rel_repo, name, content):
        p = os.path.join(outdir, name)
        gen.write_if_changed(p, content)
        replace[os.path.join(repo, rel_repo)] = p

    rewritten = set()
    for rel in EXPECT:
        p = os.path.join(repo, rel)
        if not os.path.exists(p):
            raise OverlayError("%s: file not found" % rel)
        put(rel, rel.replace("/", "__"), rewrite_types(rel, open(p).read()))
        rewritten.add(rel)
    for pkg in PACKAGES:
        check_package_clean(repo, pkg, rewritten)
    ln = sorted(glob.glob(os.path.join(repo, "vfs_linkname*.go")))
    found = 0
    for p in ln:
        rel = os.path.relpath(p, repo)
        src = open(p).read()
        if "nextRandom" in src:
            put(rel, rel, rewrite_linkname(rel, src))
            found += 1
    if found == 0:
        raise OverlayError("no vfs_linkname*.go declares nextRandom")
    uses = 0
    for p in glob.glob(os.path.join(repo, "*.go")):
        if not p.endswith("_test.go"):
            uses += len(re.findall(r'\bnextRandom\(\)', _strip_comments_strings(open(p).read())))
    if uses < 2 + found:
        raise OverlayError("CreateTemp/MkdirTemp no longer call nextRandom(): the temp-name stream cannot be controlled")
    put("zzverif/vsync/vsync.go", "vsync.go", open(os.path.join(INJECT, "vsync", "vsync.go")).read())
    put("vfs/memfs/zz_verif_dump.go", "memfs_dump.go", open(os.path.join(INJECT, "memfs_dump.go.in")).read())
    put("vfs/orefafs/zz_verif_dump.go", "orefafs_dump.go", open(os.path.join(INJECT, "orefafs_dump.go.in")).read())
    put("idm/memidm/zz_verif_dump.go", "memidm_dump.go", open(os.path.join(INJECT, "memidm_dump.go.in")).read())
    oj = os.path.join(outdir, "overlay.json")
    gen.write_if_changed(oj, json.dumps({"Replace": replace}, indent=1, sort_keys=True))
    return oj


def build_go_overlay(tags="verif"):
    """Build the harness with -tags verif -overlay <generated overlay.json> against REPO's working tree.
    Returns (ok, log, binary path)."""
    with Lock("go"):
        outdir = os.path.join(WORK, "overlay")
        try:
            oj = generate(outdir)
        except OverlayError as e:
            return False, "overlay generation failed (fail closed): %s" % e, None
        gen.write_if_changed(os.path.join(HARNESS, "go.mod"),
                             "module verifharness\n\ngo 1.22\n\nrequire github.com/avfs/avfs v0.0.0\n\nreplace github.com/avfs/avfs => %s\n" % REPO)
        binp = os.path.join(HARNESS, "bin", "avfscheck-" + tags.replace(",", "_") + "-overlay")
        cmd = ["go", "build", "-o", binp, "-tags", tags, "-overlay", oj, "./cmd/avfscheck"]
        rc, out = sh(cmd, cwd=HARNESS, env=GOENV, timeout=900)
        return rc == 0, out, binp


def stream(ctx, name, harness_cmd, driver_cmd, tags="verif", extra_args=None, replay_lines=None):
    """Ctx.stream for the overlay build: run one generator stream through the instrumented
    implementation and the extracted model; returns the list of (index, case, model, observed)
    that differ, or None after ctx.broken(...)."""
    import subprocess
    from . import build_coq, build_ml, run_driver_sharded
    # only the model files are needed; another property's broken obligation must not raise an alarm for this one
    build_coq(target="theories/Extract/Extract.vo")
    ok, out = build_ml()
    if not ok:
        ctx.broken("model-build", "extraction / OCaml build of the model failed", out[-3000:])
        return None
    ok, out, binp = build_go_overlay(tags)
    if not ok:
        ctx.broken("overlay-build", "the instrumented harness does not build against %s (overlay rewrite refused or compile error): the scheduling hook cannot be installed" % REPO, out[-3000:])
        return None
    args = [binp, harness_cmd, "-seed", str(ctx.seed), "-tier", ctx.tier, "-out", ctx.dir, "-name", name]
    if extra_args:
        args += extra_args
    if replay_lines is not None:
        rf = os.path.join(ctx.dir, name + ".replayin")
        with open(rf, "w") as f:
            f.write("\n".join(replay_lines) + "\n")
        args += ["-replay", rf]
    rc, out = sh(args, cwd=ctx.dir, env=GOENV, timeout=3000)
    if rc != 0:
        ctx.broken("harness-run:" + name, "the harness command %s failed (rc=%d)" % (harness_cmd, rc), out[-3000:])
        return None
    cases = os.path.join(ctx.dir, name + ".cases")
    model = os.path.join(ctx.dir, name + ".model")
    err = run_driver_sharded(driver_cmd, cases, model)
    if err:
        ctx.broken("model-run:" + name, "the model driver failed on stream " + name, err[-3000:])
        return None
    mism = []
    n = 0
    with open(cases) as fc, open(model) as fm, open(os.path.join(ctx.dir, name + ".observed")) as fo:
        for i, (c, m, o) in enumerate(zip(fc, fm, fo)):
            n += 1
            if m != o:
                mism.append((i, c.rstrip("\n"), m.rstrip("\n"), o.rstrip("\n")))
    if replay_lines is None:
        try:
            st = json.load(open(os.path.join(ctx.dir, name + ".stats.json")))
        except Exception:
            st = {"evaluations": n}
        ctx.coverage["evaluations"] += st.get("evaluations", n)
        ctx.coverage["distinct_nontrivial"] += st.get("distinct_nontrivial", 0)
        if st.get("rule"):
            ctx.coverage["rule"] += ("; " if ctx.coverage["rule"] else "") + "[%s] %s" % (name, st["rule"])
        for s in st.get("samples", [])[:3]:
            ctx.coverage["samples"].append({"stream": name, "case": s[:600]})
        ctx.coverage["streams"][name] = {k: v for k, v in st.items() if k not in ("samples", "rule")}
        ctx.coverage["streams"][name]["mismatches"] = len(mism)
    return mism
