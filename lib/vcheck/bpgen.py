"""Source-to-Coq translator for property C10: regenerates
coq/theories/BasePath/Gen_basepath.v (the per-method forwarding table of BasePathFS /
BasePathFile) from the CURRENT Go source of <repo>/vfs/basepathfs and of the generic
functions of package avfs the wrapper delegates to.

Fail closed: a method whose body is not one of the recognised shapes is emitted as
`Unknown "<why>"`, which makes `table_ok` false and breaks theorem C10_table; a parse
failure of a whole file emits a table with a single Unknown entry.
"""
import glob, os, re

from . import gen

TRANSLATION = {"New", "NewWithErr", "FromBasePath", "fromBasePath", "hasBasePath", "curDir",
               "FromPathError", "FromLinkError", "ToBasePath", "isRoot", "errRoot"}

# identifiers of os / filepath / io a generic avfs function may use without touching a file system
OS_OK = {"O_RDONLY", "O_WRONLY", "O_RDWR", "O_APPEND", "O_CREATE", "O_EXCL", "O_SYNC", "O_TRUNC",
         "PathSeparator", "PathListSeparator", "FileMode", "ModePerm", "ModeDir", "LinkError", "PathError",
         "ErrExist", "ErrNotExist", "ErrPermission", "ErrInvalid", "IsPathSeparator", "Getpid", "FileInfo"}
FILEPATH_OK = {"Clean", "Join", "Base", "Dir", "Split", "IsAbs", "FromSlash", "ToSlash", "Rel", "Match",
               "VolumeName", "SplitList", "Ext", "SkipDir", "SkipAll", "ErrBadPattern", "Separator",
               "ListSeparator", "WalkFunc"}


class Shape(Exception):
    pass


def strip_comments(src):
    """Remove // and /* */ comments, keeping string / rune literals intact."""
    out, i, n = [], 0, len(src)
    while i < n:
        c = src[i]
        if c == '"':
            j = i + 1
            while j < n and src[j] != '"':
                j += 2 if src[j] == "\\" else 1
            out.append(src[i:j + 1])
            i = j + 1
        elif c == "`":
            j = src.index("`", i + 1)
            out.append(src[i:j + 1])
            i = j + 1
        elif c == "'":
            j = i + 1
            while j < n and src[j] != "'":
                j += 2 if src[j] == "\\" else 1
            out.append(src[i:j + 1])
            i = j + 1
        elif src.startswith("//", i):
            j = src.find("\n", i)
            i = n if j < 0 else j
        elif src.startswith("/*", i):
            j = src.index("*/", i + 2)
            i = j + 2
        else:
            out.append(c)
            i += 1
    return "".join(out)


def match_close(s, i, open_c, close_c):
    """s[i] == open_c; index of the matching close_c (string literals skipped)."""
    depth, n = 0, len(s)
    while i < n:
        c = s[i]
        if c == '"':
            i += 1
            while s[i] != '"':
                i += 2 if s[i] == "\\" else 1
        elif c == "`":
            i = s.index("`", i + 1)
        elif c == "'":
            i += 1
            while s[i] != "'":
                i += 2 if s[i] == "\\" else 1
        elif c == open_c:
            depth += 1
        elif c == close_c:
            depth -= 1
            if depth == 0:
                return i
        i += 1
    raise Shape("unbalanced " + open_c)


def split_top(s, sep=","):
    parts, depth, cur, i, n = [], 0, [], 0, len(s)
    while i < n:
        c = s[i]
        if c in '"`\'':
            j = match_lit(s, i)
            cur.append(s[i:j + 1])
            i = j + 1
            continue
        if c in "([{":
            depth += 1
        elif c in ")]}":
            depth -= 1
        if c == sep and depth == 0:
            parts.append("".join(cur).strip())
            cur = []
        else:
            cur.append(c)
        i += 1
    last = "".join(cur).strip()
    if last or parts:
        parts.append(last)
    return parts


def match_lit(s, i):
    q = s[i]
    if q == "`":
        return s.index("`", i + 1)
    j = i + 1
    while s[j] != q:
        j += 2 if s[j] == "\\" else 1
    return j


def parse_params(s):
    """'name string, uid, gid int' -> [(name,type)...]; unnamed result lists -> [('',type)...]."""
    items = split_top(s)
    if not items or items == [""]:
        return []
    named = any(re.match(r"^[A-Za-z_]\w*\s+\S", it) for it in items)
    res, pending = [], []
    if not named:
        return [("", it) for it in items]
    for it in items:
        m = re.match(r"^([A-Za-z_]\w*)\s+(.+)$", it)
        if m:
            for p in pending:
                res.append((p, m.group(2).strip()))
            pending = []
            res.append((m.group(1), m.group(2).strip()))
        else:
            pending.append(it.strip())
    if pending:
        raise Shape("parameter list " + s)
    return res


FUNC_RE = re.compile(r"^func\s*(\(\s*(\w*)\s*\*?\s*(\w+)\s*\)\s*)?(\w+)\s*(\[[^\]]*\])?\s*\(", re.M)


def functions(src):
    """Yield dicts for every top-level func of a comment-stripped Go source."""
    for m in FUNC_RE.finditer(src):
        recv_var, recv_ty, name, tparams = m.group(2) or "", m.group(3) or "", m.group(4), m.group(5) or ""
        po = m.end() - 1
        pc = match_close(src, po, "(", ")")
        params = src[po + 1:pc]
        bo = src.index("{", pc)
        results = src[pc + 1:bo].strip()
        # a result list may itself contain braces only in func types, which these sources do not use
        bc = match_close(src, bo, "{", "}")
        body = src[bo + 1:bc]
        if results.startswith("("):
            results = results[1:match_close(results, 0, "(", ")")]
        yield {"recv_var": recv_var, "recv": recv_ty, "name": name, "tparams": tparams,
               "params": parse_params(params), "results": [t for (_, t) in parse_params(results)],
               "body": " ".join(body.split())}


ID = r"[A-Za-z_]\w*"


def classify_args(argstr, params, trv):
    ptypes = dict(params)
    args = []
    for a in split_top(argstr):
        if a == "":
            continue
        m = re.fullmatch(re.escape(trv) + r"\.ToBasePath\((" + ID + r")\)", a)
        if m and m.group(1) in ptypes:
            args.append(("ATrans", m.group(1)))
            continue
        if re.fullmatch(ID, a) and a in ptypes:
            args.append(("ARaw", a, ptypes[a] in ("string", "...string", "[]string")))
            continue
        raise Shape("argument %r of the base call is neither a parameter nor ToBasePath(parameter)" % a)
    return args


def wrap_of(expr, var, trv, what):
    """How variable `var` (a result of the base) is returned in `expr`."""
    if what == "err":
        if expr == var:
            return "RErrRaw"
        m = re.fullmatch(re.escape(trv) + r"\.(FromPathError|FromLinkError)\(" + re.escape(var) + r"\)", expr)
        if m:
            return "RErrPath" if m.group(1) == "FromPathError" else "RErrLink"
        raise Shape("error returned as %r" % expr)
    if expr == var:
        return "RAW"
    m = re.fullmatch(re.escape(trv) + r"\.(fromBasePath|FromBasePath|curDir)\(" + re.escape(var) + r"\)", expr)
    if m:
        return {"fromBasePath": "RStrSafe", "FromBasePath": "RStrPanicky", "curDir": "RCurDir"}[m.group(1)]
    raise Shape("value returned as %r" % expr)


def raw_kind(ty):
    return "RStrRaw" if ty in ("string", "[]string") else ("RErrRaw" if ty == "error" else "ROther")


def ends_with_return(blk):
    """The last statement of the block is a return (nothing but its operands follows it)."""
    i = blk.rfind("return")
    if i < 0 or (i > 0 and (blk[i - 1].isalnum() or blk[i - 1] == "_")):
        return False
    tail, depth = blk[i:], 0
    for c in tail:
        if c == "{":
            depth += 1
        elif c == "}":
            depth -= 1
            if depth < 0:
                return False
    return depth == 0


def shape_of(f, all_names):
    body, params, results = f["body"], f["params"], f["results"]
    v = f["recv_var"]
    isfile = f["recv"] == "BasePathFile"
    base = (v + ".baseFile") if isfile else (v + ".baseFS")
    trv = (v + ".vfs") if isfile else v
    guards = []
    if f["name"] in ("FromBasePath", "fromBasePath") and not isfile:
        # the lenient reverse translation must stand aside exactly where the strict one panics: both bodies
        # are recognised (fail closed) and the PREDICATE of their leading guard is recorded; the table
        # obligation (BasePathTable.guards_consistent) requires the two predicates to be the same
        pn = params[0][0] if params else ""
        tail = r"panic\(.*\)" if f["name"] == "FromBasePath" else r"return " + pn
        m = re.match(r"^if !(.+?) \{ " + tail + r" \} (.+)$", body)
        if not m or not pn:
            raise Shape("leading guard of %s not recognised: %s" % (f["name"], body[:120]))
        if f["name"] == "fromBasePath" and m.group(2) != "return %s.FromBasePath(%s)" % (v, pn):
            raise Shape("fromBasePath does not end with FromBasePath of its argument: " + m.group(2)[:120])
        pred = re.sub(r"\b" + pn + r"\b", "_", m.group(1))
        return ("Guarded", pred), guards
    if f["name"] in TRANSLATION and not isfile:
        return "Translation", guards
    # early returns on an empty parameter that do not touch the base
    # and early refusals of the root directory: if vfs.isRoot(p) { return &fs.PathError{..., Path: p, ...} }
    while True:
        m = re.match(r'^if (' + ID + r') == "" \{', body)
        mr = None if isfile else re.match(r'^if ' + re.escape(v) + r'\.isRoot\((' + ID + r')\) \{', body)
        if not m and not mr:
            break
        g = m or mr
        o = g.end() - 1
        c = match_close(body, o, "{", "}")
        blk = body[o + 1:c].strip()
        if "baseFS" in blk or "baseFile" in blk or "ToBasePath" in blk or not ends_with_return(blk):
            raise Shape("guard on %s touches the base or does not return" % g.group(1))
        if mr:
            if g.group(1) not in dict(params) or not re.fullmatch(r"return &fs\.PathError\{[^{}]*\bPath: " + g.group(1) + r"\b[^{}]*\}", blk):
                raise Shape("root guard on %s does not return a PathError carrying the caller's path" % g.group(1))
            guards.append("root:" + g.group(1))
        else:
            guards.append(g.group(1))
        body = body[c + 1:].strip()
    B = re.escape(base)
    T = re.escape(trv)
    m = re.fullmatch(r'return "[^"]*"', body)
    if m:
        return "Const", guards
    m = re.fullmatch(r"return avfs\.(\w+)\(" + re.escape(v) + r"(?:, (.*))?\)", body)
    if m and not isfile:
        for a in split_top(m.group(2) or ""):
            if not re.fullmatch(ID + r"(\.\.\.)?", a) or a.rstrip(".") not in dict(params):
                raise Shape("argument %r of the generic function is not a parameter" % a)
        return ("Generic", m.group(1)), guards
    # e := base.M(args) ; return T.FromXError(e)      |  return T.FromXError(base.M(args))
    m = re.fullmatch(r"(" + ID + r") := " + B + r"\.(\w+)\((.*)\) return (.+)", body)
    if m and results == ["error"]:
        args = classify_args(m.group(3), params, trv)
        return ("Forward", m.group(2), args, [wrap_of(m.group(4).strip(), m.group(1), trv, "err")]), guards
    m = re.fullmatch(r"return " + T + r"\.(FromPathError|FromLinkError)\(" + B + r"\.(\w+)\((.*)\)\)", body)
    if m and results == ["error"]:
        args = classify_args(m.group(3), params, trv)
        return ("Forward", m.group(2), args, ["RErrPath" if m.group(1) == "FromPathError" else "RErrLink"]), guards
    # v, e :?= base.M(args) ; return W(v), E(e)
    m = re.fullmatch(r"(" + ID + r"), (" + ID + r") :?= " + B + r"\.(\w+)\((.*?)\) return (.+)", body)
    if m and len(results) == 2:
        var, evar = m.group(1), m.group(2)
        args = classify_args(m.group(4), params, trv)
        rets = split_top(m.group(5))
        if len(rets) != 2:
            raise Shape("return list " + m.group(5))
        w = wrap_of(rets[0], var, trv, "val")
        if w == "RAW":
            w = raw_kind(results[0])
        return ("Forward", m.group(3), args, [w, wrap_of(rets[1], evar, trv, "err")]), guards
    # v, e :?= base.M(args) ; if e != nil { return X, E(e) } ; [f := &BasePathFile{...}] ; return W, nil
    m = re.fullmatch(r"(" + ID + r"), (" + ID + r") :?= " + B + r"\.(\w+)\((.*?)\) if \2 != nil \{ return (.+?), (.+?) \} (.*)return (.+), nil", body)
    if m and len(results) == 2:
        var, evar, meth = m.group(1), m.group(2), m.group(3)
        args = classify_args(m.group(4), params, trv)
        if m.group(5) not in (var, '""', "nil"):
            raise Shape("value returned with the error: " + m.group(5))
        e = wrap_of(m.group(6), evar, trv, "err")
        mid, last = m.group(7).strip(), m.group(8).strip()
        if mid == "":
            w = wrap_of(last, var, trv, "val")
            if w == "RAW":
                w = raw_kind(results[0])
        else:
            mm = re.fullmatch(r"(" + ID + r") := &BasePathFile\{(.*)\}", mid)
            fields = sorted(x.strip() for x in mm.group(2).split(",")) if mm else []
            if not mm or last != mm.group(1) or fields != sorted(["vfs: " + v, "baseFile: " + var]):
                raise Shape("success path " + mid)
            w = "RFileWrapped"
        return ("Forward", meth, args, [w, e]), guards
    # Glob: results translated in a loop
    m = re.fullmatch(r"(" + ID + r"), (" + ID + r") :?= " + B + r"\.(\w+)\((.*?)\) for (\w+), (\w+) := range \1 \{ \1\[\5\] = (.+?) \} return \1, (.+)", body)
    if m and len(results) == 2 and results[0] == "[]string":
        args = classify_args(m.group(4), params, trv)
        w = wrap_of(m.group(7), m.group(6), trv, "val")
        w = {"RStrSafe": "RStrsSafe", "RAW": "RStrRaw"}.get(w, w)
        return ("Forward", m.group(3), args, [w, wrap_of(m.group(8), m.group(2), trv, "err")]), guards
    # return base.M(args)
    m = re.fullmatch(r"return " + B + r"\.(\w+)\((.*)\)", body)
    if m:
        args = classify_args(m.group(2), params, trv)
        return ("Forward", m.group(1), args, [raw_kind(t) for t in results]), guards
    # return T.fromBasePath(base.M())
    m = re.fullmatch(r"return " + T + r"\.(fromBasePath|FromBasePath)\(" + B + r"\.(\w+)\(\)\)", body)
    if m and results == ["string"]:
        return ("Forward", m.group(2), [], ["RStrSafe" if m.group(1) == "fromBasePath" else "RStrPanicky"]), guards
    # return v.Other(...)
    m = re.fullmatch(r"return " + re.escape(v) + r"\.(\w+)\((.*)\)", body)
    if m and (f["recv"], m.group(1)) in all_names and "baseFS" not in body and "baseFile" not in body:
        return ("Self", m.group(1)), guards
    # refusal: never reaches the base with a parameter; every return carries a PathError / LinkError
    if "ToBasePath" not in body and not re.search(B + r"\.(?!OSType\(\))", body):
        rets = re.findall(r"return ([^{}]*(?:\{[^{}]*\})?)", body)
        if rets and all(("&fs.PathError{" in r) or ("&os.LinkError{" in r) for r in rets):
            return "Refuse", guards
    raise Shape("unrecognised body: " + body[:160])


def coq_str(s):
    return '"' + s.replace('"', '""') + '"'


def coq_arg(a):
    if a[0] == "ATrans":
        return "ATrans " + coq_str(a[1])
    if a[0] == "ARaw":
        return "ARaw %s %s" % (coq_str(a[1]), "true" if a[2] else "false")
    return "AConst"


def coq_shape(sh):
    if isinstance(sh, str):
        return sh
    if sh[0] == "Forward":
        return "Forward %s [%s] [%s]" % (coq_str(sh[1]), "; ".join(coq_arg(a) for a in sh[2]), "; ".join(sh[3]))
    if sh[0] in ("Generic", "Self", "Unknown", "Guarded"):
        return "%s %s" % (sh[0], coq_str(sh[1]))
    raise ValueError(sh)


def generic_verdicts(repo, used):
    """For every avfs generic function the wrapper delegates to: does it (and every package
    function it calls, transitively) reach a file system only through its vfs parameter?"""
    funcs = {}
    for p in sorted(glob.glob(os.path.join(repo, "*.go"))):
        if p.endswith("_test.go"):
            continue
        try:
            src = strip_comments(open(p).read())
            for f in functions(src):
                if not f["recv"]:
                    funcs.setdefault(f["name"], []).append(f)   # build-tag variants: all must pass
        except Exception:
            continue

    def direct_ok(f):
        b = f["body"]
        for x in re.findall(r"\bos\.(\w+)", b):
            if x not in OS_OK:
                return False
        for x in re.findall(r"\bfilepath\.(\w+)", b):
            if x not in FILEPATH_OK:
                return False
        if re.search(r"\b(ioutil|syscall|exec|osfs|memfs|orefafs)\.", b):
            return False
        return True

    memo = {}

    def ok(name, stack=()):
        if name in memo:
            return memo[name]
        if name in stack:
            return True
        if name not in funcs:
            return False
        res = True
        for f in funcs[name]:
            if not direct_ok(f):
                res = False
                break
            for callee in set(re.findall(r"(?<![\w.])(" + ID + r")(?:\[[^\]]*\])?\(", f["body"])):
                if callee in funcs and callee != name and not ok(callee, stack + (name,)):
                    res = False
                    break
            if not res:
                break
        memo[name] = res
        return res

    out = []
    for fn in sorted(used):
        generic = fn in funcs and all(re.match(r"\[\s*T\s+VFSBase\s*\]", f["tparams"]) and f["params"][:1] in ([("vfs", "T")], [("_", "T")]) for f in funcs[fn])
        out.append((fn, bool(generic and ok(fn))))
    return out


def table(repo):
    d = os.path.join(repo, "vfs", "basepathfs")
    methods = []
    files = [p for p in sorted(glob.glob(os.path.join(d, "*.go"))) if not p.endswith("_test.go")]
    if not files:
        return [{"recv": "", "name": "package", "params": [], "results": [], "guards": [], "shape": ("Unknown", "no source in " + d)}], []
    fl = []
    for p in files:
        try:
            fl += list(functions(strip_comments(open(p).read())))
        except Exception as e:
            fl.append({"recv": "", "recv_var": "", "name": os.path.basename(p), "params": [], "results": [], "body": "", "parse_error": repr(e)})
    all_names = {(f["recv"], f["name"]) for f in fl}
    used_generic = set()
    for f in fl:
        guards = []
        if "parse_error" in f:
            sh = ("Unknown", "cannot parse file: " + f["parse_error"])
        elif f["recv"] not in ("BasePathFS", "BasePathFile") and f["name"] not in TRANSLATION:
            sh = ("Unknown", "unexpected function in package basepathfs")
        else:
            try:
                sh, guards = shape_of(f, all_names)
            except Shape as e:
                sh = ("Unknown", str(e))
            except Exception as e:
                sh = ("Unknown", "translator error " + repr(e))
        if isinstance(sh, tuple) and sh[0] == "Generic":
            used_generic.add(sh[1])
        methods.append({"recv": f["recv"], "name": f["name"], "params": f["params"], "results": f["results"],
                        "guards": guards, "shape": sh})
    return methods, generic_verdicts(repo, used_generic)


def render(methods, fns):
    L = ["(* GENERATED by lib/vcheck/bpgen.py from vfs/basepathfs/*.go and the generic functions of package avfs -",
         "   do not edit.  One entry per function of package basepathfs, in source order. *)",
         "From Coq Require Import String List Bool.",
         "From Avfs Require Import BasePathTable.",
         "Import ListNotations.",
         "Open Scope string_scope.",
         "",
         "Definition generic_fns : list (string * bool) :=",
         "  [" + "; ".join("(%s, %s)" % (coq_str(n), "true" if b else "false") for (n, b) in fns) + "].",
         "",
         "Definition bp_methods : list method := ["]
    ents = []
    for m in methods:
        ents.append("  {| m_recv := %s; m_name := %s;\n     m_params := [%s]; m_results := [%s]; m_guard_empty := [%s]; m_guard_root := [%s];\n     m_shape := %s |}" % (
            coq_str(m["recv"]), coq_str(m["name"]),
            "; ".join("(%s, %s)" % (coq_str(a), coq_str(t)) for (a, t) in m["params"]),
            "; ".join(coq_str(t) for t in m["results"]),
            "; ".join(coq_str(g) for g in m["guards"] if not g.startswith("root:")),
            "; ".join(coq_str(g[5:]) for g in m["guards"] if g.startswith("root:")),
            coq_shape(m["shape"])))
    L.append(";\n".join(ents))
    L.append("].")
    return "\n".join(L) + "\n"


def generate(repo=None):
    repo = repo or gen.REPO
    try:
        methods, fns = table(repo)
    except Exception as e:   # never let the translator crash the build silently
        methods, fns = [{"recv": "", "name": "translator", "params": [], "results": [], "guards": [],
                         "shape": ("Unknown", "translator crashed: " + repr(e))}], []
    gen.write_if_changed(os.path.join(gen.COQ, "theories", "BasePath", "Gen_basepath.v"), render(methods, fns))
    return methods, fns


if __name__ == "__main__":
    import sys
    ms, fns = table(sys.argv[1] if len(sys.argv) > 1 else gen.REPO)
    sys.stdout.write(render(ms, fns))
