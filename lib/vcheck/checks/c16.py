"""Check of property C16."""
from ..props import CHECKS, report_mismatches


def check_C16(ctx):
    ctx.proofs()
    st = {"name": "copy", "harness": "copy", "driver": "copy"}
    mm = ctx.stream("copy", "copy", "copy")
    if mm is None:
        return
    report_mismatches(ctx, mm, st, "CopyFile/CopyFileHash/HashFile differ from the model (proved to report every hit fault and to copy faithfully, theorems C16_ok/C16_reports) on %d (fs pair, content, fault plan) cases")


CHECKS["C16"] = check_C16
