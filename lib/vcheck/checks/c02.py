"""Check of property C02 - open-file I/O behaves as os.File."""
import json, os
from .. import run_driver_sharded, ML
from ..props import CHECKS

STREAM = {"name": "fileio", "harness": "fileio", "driver": "fileio"}


def fields(step):
    """'m:.. o:.. s:.. vm:..' -> dict"""
    d = {}
    for f in step.split(" "):
        k, _, v = f.partition(":")
        d[k] = v
    return d


def first_diff(model, observed):
    ms, os_ = model.split(" | "), observed.split(" | ")
    for k in range(max(len(ms), len(os_))):
        a = ms[k] if k < len(ms) else "<none>"
        b = os_[k] if k < len(os_) else "<none>"
        if a != b:
            fa, fb = fields(a), fields(b)
            keys = [x for x in fb if fa.get(x) != fb.get(x)] or ["?"]
            return k, keys, a, b
    return None


def classify(case, observed, kfs):
    """Compare each implementation with os.File step by step, up to the first step classified by kf02
    (MemFS) / kf02_orefa (OrefaFS).  Returns a list, per world, of
    (world, kf_name or None, reproduced?, deviation or None); deviation = (field, step, impl, os)."""
    steps = [fields(st) for st in observed.split(" | ")]
    kf = [k.split(",") for k in kfs.split(" | ")]
    isdir = case.startswith("dir")
    res = []
    for wi, world in enumerate(("m", "o")):
        pairs = (("c" + world, "s"),) if isdir else ((world, "s"), ("v" + world, "vs"))
        hit, repro, deviation = None, False, None
        for j, f in enumerate(steps):
            k = kf[j][wi] if j < len(kf) and len(kf[j]) > wi else "-"
            dev = [(a, f.get(a), f.get(b)) for a, b in pairs if f.get(a) != f.get(b)]
            if hit is None and k != "-":
                hit = k
            if hit is not None:
                if dev:
                    repro = True
                    break
                continue
            if dev:
                deviation = (dev[0][0], j, dev[0][1], dev[0][2])
                break
        res.append((world, hit, repro, deviation))
    return res


def run_kf(ctx, name):
    cases = os.path.join(ctx.dir, name + ".cases")
    kff = os.path.join(ctx.dir, name + ".kf")
    err = run_driver_sharded("fileio-kf", cases, kff)
    if err:
        ctx.broken("model-run:" + name + "-kf", "the classifier driver failed", err[-3000:])
        return None
    return kff


def analyse(ctx, name, limit=3):
    """The O comparison (implementation vs os.File) with the extracted classifier."""
    kff = run_kf(ctx, name)
    if kff is None:
        return None
    stats = {"kf_hits": {}, "kf_reproduced": {}, "unclassified": 0, "histories_clean": 0}
    bad = []
    with open(os.path.join(ctx.dir, name + ".cases")) as fc, open(os.path.join(ctx.dir, name + ".observed")) as fo, open(kff) as fk:
        for i, (c, o, k) in enumerate(zip(fc, fo, fk)):
            c, o, k = c.rstrip("\n"), o.rstrip("\n"), k.rstrip("\n")
            for (world, hit, repro, dev) in classify(c, o, k):
                if dev is not None:
                    stats["unclassified"] += 1
                    if len(bad) < limit:
                        bad.append((i, c, o, k, dev))
                elif hit:
                    key = ("orefafs:" if world == "o" else "") + hit
                    stats["kf_hits"][key] = stats["kf_hits"].get(key, 0) + 1
                    if repro:
                        stats["kf_reproduced"][key] = stats["kf_reproduced"].get(key, 0) + 1
                else:
                    stats["histories_clean"] += 1
    return stats, bad


def check_C02(ctx):
    ctx.proofs()
    mm = ctx.stream("fileio", "fileio", "fileio")
    if mm is None:
        return
    # A (MemFS / OrefaFS vs implementation model) and B (os.File vs specification)
    for (i, c, m, o) in mm[:3]:
        d = first_diff(m, o)
        ctx.violation("fileio", "model and observation differ on %d histories (fields %s at step %s)" % (len(mm), d[1] if d else "?", d[0] if d else "?"),
                      {"stream": STREAM, "case": c, "model": m, "observed": o, "mismatching_cases_in_run": len(mm)})
    res = analyse(ctx, "fileio")
    if res is None:
        return
    stats, bad = res
    ctx.coverage["streams"]["fileio"]["classification"] = stats
    for (i, c, o, k, dev) in bad:
        ctx.violation("fileio-dev", "unclassified deviation from os.File in world %s at step %d: impl %s, os %s" % dev,
                      {"stream": STREAM, "case": c, "observed": o, "kf": k})
    for kf in ctx.kf:
        if stats["kf_reproduced"].get(kf["id"]):
            ctx.known_finding(kf["id"], kf["what"])


def check_fiodev(ctx):
    """development entry: stream + classification, verbose"""
    mm = ctx.stream("fileio", "fileio", "fileio")
    if mm is None:
        return
    print("A/B mismatching histories: %d" % len(mm))
    seen = set()
    shown = 0
    for (i, c, m, o) in mm:
        d = first_diff(m, o)
        if not d:
            continue
        k, keys, a, b = d
        ops = c.split(" | ")[1:]
        fa, fb = fields(a), fields(b)
        sig = (ops[k].split()[0], tuple(keys))
        if sig in seen:
            continue
        seen.add(sig)
        shown += 1
        if shown > 12:
            break
        print("history %d step %d op %s  [%s]" % (i, k, ops[k], " | ".join(ops[:k])))
        for key in keys:
            print("   %s model: %s\n   %s obs:   %s" % (key, fa.get(key), key, fb.get(key)))
    res = analyse(ctx, "fileio", limit=8)
    if res:
        stats, bad = res
        print(json.dumps(stats, indent=1))
        for (i, c, o, k, dev) in bad:
            ops = c.split(" | ")
            print("UNCLASSIFIED history %d: world %s step %d: impl %s os %s\n   %s" % (i, dev[0], dev[1], dev[2], dev[3], " | ".join(ops[:dev[1] + 2])))


CHECKS["C02"] = check_C02
CHECKS["FIODEV"] = check_fiodev
