"""Check of property C02 - open-file I/O behaves as os.File.

Streams (one harness run, see harness/cmd/avfscheck/fileio.go):
  A  MemFS and OrefaFS        vs the extracted IMPLEMENTATION model (MemFile.v through World.wstep)  - must agree
  B  *os.File on tmpfs        vs the extracted SPECIFICATION (FileSpec.v)                            - must agree
  O  MemFS / OrefaFS          vs *os.File directly; every deviation must be classified by the extracted
                                 kf02 / kf02_orefa / kfdir (evaluated on the specification state) and be listed
                                 in known_findings.jsonl; anything else is a VIOLATION.
"""
import os
from .. import run_driver_sharded, log, GOENV
from ..props import CHECKS

STREAM = {"name": "fileio", "harness": "fileio", "driver": "fileio"}
OSTREAM = {"name": "fileio-o", "harness": "fileio-o", "driver": "fileio-o"}


def fields(step):
    d = {}
    for f in step.split(" "):
        k, _, v = f.partition(":")
        d[k] = v
    return d


def first_diff(model, observed):
    ms, os_ = model.split(" | "), observed.split(" | ")
    for k in range(max(len(ms), len(os_))):
        a = ms[k] if k < len(ms) else "<none>"
        b = os_[k] if k < len(os_) else "<none>"
        if a != b:
            fa, fb = fields(a), fields(b)
            keys = [x for x in fb if fa.get(x) != fb.get(x)] or ["?"]
            return k, keys, a, b
    return None


def classify(case, observed, kfs):
    """Per world ('m' MemFS, 'o' OrefaFS): walk the steps; before the first step classified by the extracted
    classifier every result and view must equal os.File's.  Returns [(world, class or None, reproduced,
    deviation or None)], deviation = (field, step, impl, os)."""
    steps = [fields(st) for st in observed.split(" | ")]
    kf = [k.split(",") for k in kfs.split(" | ")]
    isdir = case.startswith("dir")
    res = []
    for wi, world in enumerate(("m", "o")):
        pairs = (("c" + world, "s"),) if isdir else ((world, "s"), ("v" + world, "vs"))
        hit, repro, deviation = None, False, None
        for j, f in enumerate(steps):
            k = kf[j][wi] if j < len(kf) and len(kf[j]) > wi else "-"
            # "?" in the os.File column: unspecified there (a directory read by a handle that was not rewound after the
            # directory changed), not compared
            dev = [(a, f.get(a), f.get(b)) for a, b in pairs if f.get(b) != "?" and f.get(a) != f.get(b)]
            if hit is None and k != "-":
                hit = k
            if hit is not None:
                if dev:
                    repro = True
                    break
                continue
            if dev:
                deviation = (dev[0][0], j, dev[0][1], dev[0][2])
                break
        res.append((world, hit, repro, deviation))
    return res


def run_kf(ctx, name):
    cases = os.path.join(ctx.dir, name + ".cases")
    kff = os.path.join(ctx.dir, name + ".kf")
    err = run_driver_sharded("fileio-kf", cases, kff)
    if err:
        ctx.broken("model-run:" + name + "-kf", "the classifier driver (extracted kf02) failed", err[-3000:])
        return None
    return kff


def analyse(ctx, name, limit=3):
    kff = run_kf(ctx, name)
    if kff is None:
        return None
    stats = {"kf_hits": {}, "kf_reproduced": {}, "unclassified": 0, "world_histories_compared_to_the_end": 0,
             "steps_compared_with_os": 0}
    bad = []
    with open(os.path.join(ctx.dir, name + ".cases")) as fc, open(os.path.join(ctx.dir, name + ".observed")) as fo, open(kff) as fk:
        for i, (c, o, k) in enumerate(zip(fc, fo, fk)):
            c, o, k = c.rstrip("\n"), o.rstrip("\n"), k.rstrip("\n")
            nsteps = o.count(" | ") + 1
            for (world, hit, repro, dev) in classify(c, o, k):
                if dev is not None:
                    stats["unclassified"] += 1
                    if len(bad) < limit:
                        bad.append((i, c, o, k, dev))
                elif hit:
                    stats["kf_hits"][hit] = stats["kf_hits"].get(hit, 0) + 1
                    if repro:
                        stats["kf_reproduced"][hit] = stats["kf_reproduced"].get(hit, 0) + 1
                else:
                    stats["world_histories_compared_to_the_end"] += 1
                    stats["steps_compared_with_os"] += nsteps
    return stats, bad


def fast_eval(ctx, harness_cmd, driver_cmd, line, tag="fast"):
    """Run one case through harness and driver without the build steps of ctx.stream (used by the shrinker).
    Returns (model, observed) or None."""
    import subprocess
    from .. import HARNESS, ML
    binp = os.path.join(HARNESS, "bin", "avfscheck-base")
    rf = os.path.join(ctx.dir, tag + ".replayin")
    with open(rf, "w") as f:
        f.write(line + "\n")
    p = subprocess.run([binp, harness_cmd, "-out", ctx.dir, "-name", tag, "-replay", rf], env=GOENV, cwd=ctx.dir,
                       stdout=subprocess.PIPE, stderr=subprocess.STDOUT, timeout=300)
    if p.returncode != 0:
        return None
    with open(os.path.join(ctx.dir, tag + ".cases")) as fin:
        q = subprocess.run([os.path.join(ML, "driver"), driver_cmd], stdin=fin, stdout=subprocess.PIPE, stderr=subprocess.PIPE, timeout=300)
    if q.returncode != 0:
        return None
    obs = open(os.path.join(ctx.dir, tag + ".observed")).read().rstrip("\n")
    return q.stdout.decode().rstrip("\n"), obs


def fast_shrink(ctx, harness_cmd, driver_cmd, case, budget=600):
    """delta debugging over the ops of 'header | op | op ...' with fast_eval as the oracle"""
    parts = case.split(" | ")
    head, ops = parts[0], parts[1:]

    def bad(ops_):
        r = fast_eval(ctx, harness_cmd, driver_cmd, " | ".join([head] + ops_))
        return r is not None and r[0] != r[1]
    if not bad(ops):
        return case
    n = 2
    while len(ops) >= 2 and budget > 0:
        chunk = max(1, len(ops) // n)
        reduced = False
        for i in range(0, len(ops), chunk):
            cand = ops[:i] + ops[i + chunk:]
            budget -= 1
            if cand and bad(cand):
                ops, n, reduced = cand, max(n - 1, 2), True
                break
            if budget <= 0:
                break
        if not reduced:
            if chunk == 1:
                break
            n = min(len(ops), n * 2)
    return " | ".join([head] + ops)


def full_views(on):
    """views travel as digests; the final recording of a shrunk case shows them in full"""
    for env in (GOENV, os.environ):
        if on:
            env["VERIF_FIO_FULLVIEW"] = "1"
        else:
            env.pop("VERIF_FIO_FULLVIEW", None)


def report_ab(ctx, mm, tag="fileio"):
    """A / B mismatches: model and observation differ."""
    for (i, c, m, o) in mm[:1]:
        case = fast_shrink(ctx, STREAM["harness"], STREAM["driver"], c)
        full_views(True)
        mm2 = ctx.stream(STREAM["name"] + "-shrink", STREAM["harness"], STREAM["driver"], replay_lines=[case])
        full_views(False)
        if mm2:
            _, c2, m, o = mm2[0]
        d = first_diff(m, o)
        which = "?"
        if d:
            ks = d[1]
            which = ("os.File differs from the specification FileSpec.v (the SPECIFICATION is wrong or the oracle changed)"
                     if any(x in ("s", "vs") for x in ks) else
                     "MemFS/OrefaFS differ from the implementation model MemFile.v (fields %s)" % ",".join(ks))
        ctx.violation(tag, "%s at step %s; %d histories mismatch" % (which, d[0] if d else "?", len(mm)),
                      {"stream": STREAM, "case": case, "model": m, "observed": o, "mismatching_cases_in_run": len(mm)})


def report_dev(ctx, bad, total):
    """Unclassified deviations from os.File: shrink on the O projection and record a replay."""
    for (i, c, o, k, dev) in bad[:1]:
        case = fast_shrink(ctx, OSTREAM["harness"], OSTREAM["driver"], c)
        full_views(True)
        mm2 = ctx.stream(OSTREAM["name"] + "-shrink", OSTREAM["harness"], OSTREAM["driver"], replay_lines=[case])
        full_views(False)
        m2, o2 = ("", "")
        if mm2:
            _, _, m2, o2 = mm2[0]
        ctx.violation("fileio-dev",
                      "deviation from os.File that no kf02 constructor classifies: world %s, field %s at step %d: implementation %s, os.File %s (%d in this run)"
                      % ({"m": "MemFS", "o": "OrefaFS"}.get(dev[0][-1], dev[0]), dev[0], dev[1], dev[2], dev[3], total),
                      {"stream": OSTREAM, "case": case, "model": m2, "observed": o2, "expected": "eq at every step before the first classified one",
                       "engine": "fileio-o: per step, implementation result and views versus os.File"})


def witnesses(ctx):
    """Every open known finding has a witness history; it must still be classified as such by the extracted
    classifier and still deviate on the real implementation, then it is printed as KNOWN-FINDING."""
    def wline(k):
        w = k.get("witness")
        return w.get("case") if isinstance(w, dict) else w
    entries = [k for k in ctx.kf if k.get("kf_constructor") and wline(k)]
    if not entries:
        return set()
    lines = [wline(k) for k in entries]
    mm = ctx.stream("fileio-wit", "fileio", "fileio", replay_lines=lines)
    if mm is None:
        return set()
    if mm:
        report_ab(ctx, mm, "fileio-wit")
    kff = run_kf(ctx, "fileio-wit")
    if kff is None:
        return set()
    listed = set()
    with open(os.path.join(ctx.dir, "fileio-wit.observed")) as fo, open(kff) as fk:
        for e, o, k in zip(entries, fo, fk):
            res = classify(wline(e), o.rstrip("\n"), k.rstrip("\n"))
            listed.add(e["id"])
            ok = any(hit == e["id"] and repro for (_, hit, repro, _) in res)
            if ok:
                ctx.known_finding(e["id"], e["what"])
            else:
                log("  note: the witness of known finding %s no longer deviates / is no longer classified: %s" % (e["id"], res))
    ctx.coverage["known_finding_witnesses"] = len(entries)
    return listed


def corpus_part(ctx):
    """corpus/C02-witness.cases: the witnesses of the repaired deviations.  On them the implementations must
    equal their model, os.File its specification, and nothing may deviate from os.File - a classified step
    included: a repaired defect that comes back is a violation even if the classifier were widened again."""
    from .. import ROOT
    path = os.path.join(ROOT, "corpus", "C02-witness.cases")
    if not os.path.exists(path):
        return
    lines = [l.rstrip("\n") for l in open(path) if l.strip() and not l.startswith("#")]
    mm = ctx.stream("fileio-corpus", "fileio", "fileio", replay_lines=lines)
    if mm is None:
        return
    if mm:
        report_ab(ctx, mm, "fileio-corpus")
    kff = run_kf(ctx, "fileio-corpus")
    if kff is None:
        return
    n = 0
    with open(os.path.join(ctx.dir, "fileio-corpus.observed")) as fo, open(kff) as fk:
        for c, o, k in zip(lines, fo, fk):
            n += 1
            for (world, hit, repro, dev) in classify(c, o.rstrip("\n"), k.rstrip("\n")):
                if dev is not None or repro:
                    ctx.violation("fileio-corpus",
                                  "a repaired deviation from os.File is back (world %s): %s" % ({"m": "MemFS", "o": "OrefaFS"}[world], dev or hit),
                                  {"stream": OSTREAM, "case": c, "observed": o.rstrip("\n")})
    ctx.coverage["regression_corpus_histories"] = n


def check_C02(ctx):
    ctx.proofs()
    corpus_part(ctx)
    listed = witnesses(ctx)
    mm = ctx.stream("fileio", "fileio", "fileio")
    if mm is None:
        return
    if mm:
        report_ab(ctx, mm)
    res = analyse(ctx, "fileio")
    if res is None:
        return
    stats, bad = res
    ctx.coverage["streams"]["fileio"]["classification"] = stats
    if bad:
        report_dev(ctx, bad, stats["unclassified"])
    unlisted = sorted(k for k in stats["kf_reproduced"] if k not in listed)
    if unlisted:
        ctx.broken("known-findings", "deviation classes %s reproduce but are not listed as open in known_findings.jsonl" % unlisted,
                   "every kf02 / kf02_orefa / kfdir constructor that fires needs an open entry with a witness")
    ctx.assumptions.append(
        "refinement theorems C02_refine / C02_history cover handle operations, Open and path-level Truncate of existing names "
        "for an administrator view on a Linux-flavoured MemFS; Rename/Link/Remove interleavings, OrefaFS and the directory-handle "
        "specification are covered by the differential run only (plus the unbounded theorems C02_unlinked_*, C02_dir_batches*)")


def check_fiodev(ctx):
    """development entry: stream + classification, verbose"""
    import json
    mm = ctx.stream("fileio", "fileio", "fileio")
    if mm is None:
        return
    print("A/B mismatching histories: %d" % len(mm))
    seen = set()
    for (i, c, m, o) in mm:
        d = first_diff(m, o)
        if not d:
            continue
        k, keys, a, b = d
        ops = c.split(" | ")[1:]
        fa, fb = fields(a), fields(b)
        sig = (ops[k].split()[0], tuple(keys))
        if sig in seen or len(seen) > 12:
            continue
        seen.add(sig)
        print("history %d step %d op %s  [%s]" % (i, k, ops[k], " | ".join(ops[:k])))
        for key in keys:
            print("   %s model: %s\n   %s obs:   %s" % (key, fa.get(key), key, fb.get(key)))
    res = analyse(ctx, "fileio", limit=8)
    if res:
        stats, bad = res
        print(json.dumps(stats, indent=1))
        for (i, c, o, k, dev) in bad:
            ops = c.split(" | ")
            print("UNCLASSIFIED history %d: world %s step %d: impl %s os %s\n   %s" % (i, dev[0], dev[1], dev[2], dev[3], " | ".join(ops[:dev[1] + 2])))


CHECKS["C02"] = check_C02
CHECKS["FIODEV"] = check_fiodev
