"""Check of property C12 (FailFS is transparent unless told to fail; an injected failure has no effect)."""
import os, re
from ..props import CHECKS
from .. import wrapcheck


def swallow_filter(ctx, st, mm):
    """SWALLOW:<composite>:<ids> markers (a composite returned nil although a primitive inside it was
    failed) are printed by both sides when the model predicts them.  The pairs listed in the open known
    finding C12-composite-swallow are reported as such; any other pair is a violation."""
    kf = [k for k in ctx.kf if k.get("id") == "C12-composite-swallow"]
    allowed = set(kf[0].get("allowed", [])) if kf else set()
    seen, bad = {}, []
    cases = open(os.path.join(ctx.dir, st["name"] + ".cases")).read().splitlines()
    for i, line in enumerate(open(os.path.join(ctx.dir, st["name"] + ".observed"))):
        for comp, fns in re.findall(r"SWALLOW:(\w+):([\w+]+)", line):
            for fn in fns.split("+"):
                key = comp + ":" + fn
                seen[key] = seen.get(key, 0) + 1
                if key not in allowed and len(bad) < 2:
                    bad.append((i, key))
    ctx.coverage["composite_failures_swallowed"] = seen
    if kf and any(k in allowed for k in seen):
        ctx.known_finding(kf[0]["id"], kf[0]["what"])
    already = {x[0] for x in mm}
    for i, key in bad:
        if i not in already:
            head = cases[i].split(" | ")[0]
            ctx.violation(st["name"], "a composite swallowed a failed primitive that is not in the known finding: " + key,
                          {"stream": st, "case": cases[i][:20000], "swallowed": key, "header": head})
    return mm


def check_C12(ctx):
    wrapcheck.run(ctx, wrapper="failfs", table="failfs_table", gen_file="Gen_failfs.v", check_fn="failfs_check",
                  imports="RoFSProofs FailFSProofs Gen_failfs",
                  what_model="FailFS differs from the wrapper model (table regenerated from vfs/failfs; results, consulted FnVFS ids, calls reaching the base) on %d (history, fault plan) cases",
                  what_prop="a (history, plan) through FailFS violates the property directly: %s",
                  extra=swallow_filter)


CHECKS["C12"] = check_C12
