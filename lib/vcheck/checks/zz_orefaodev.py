"""Development entry: oracle stream with OrefaFS as implementation (OrefaFS vs Linux vs the Coq specification
model; T = the OrefaFS model from the specification's state answers as the specification) without proofs."""
import collections
from ..props import CHECKS
from .. import oracle


def check_orefaodev(ctx):
    r = oracle.run_streams(ctx, "ofso", "admin", fsname="orefafs", driver_cmd="ofso")
    if r is None:
        return
    cases, obs, ora, mod = r
    a = oracle.analyse(cases, obs, ora, mod)
    print("histories %d steps %d agree %d; B %d; O keys %d (%d hist); T %d" % (len(cases), a["steps"], a["agree"], len(a["B"]), len(a["O"]), sum(len(v) for v in a["O"].values()), len(a["T"])))
    for e in a["B"][:6]:
        print(" B hist %d step %d %s\n    spec:   %s\n    kernel: %s" % e)
    for k, v in sorted(a["O"].items(), key=lambda kv: -len(kv[1]))[:80]:
        i, j = v[0]
        print(" O %4d x %-32s e.g. hist %d step %d: %s" % (len(v), k, i, j, cases[i].split(" | ")[1 + j]))
    tk = collections.Counter((t[2].split()[0], t[3], t[4].split(" #")[0]) for t in a["T"])
    print(" T by (op, shapes, spec result):", tk.most_common(60))


CHECKS["OREFAODEV"] = check_orefaodev
