"""Check of property C05 (draft by agent inv05): proofs + two streams.
   fs     : MemFS vs the extracted world model, every result and the tree snapshot after every call
            (this is what ties the model, about which C05_step/C05_reach/C05_failed are proved, to the code);
   fsinv  : API-level inspection of the real tree after every call (walk terminates, listings, Nlink = number of
            SameFile paths) vs the proved-sound executable check inv_check on the model state - both all "1";
            histories biased to aliasing operands and continuing after an interrupted RemoveAll."""
from ..props import CHECKS, report_mismatches


def check_C05(ctx):
    ctx.proofs()
    st = {"name": "fs", "harness": "fs", "driver": "fs"}
    mm = ctx.stream("fs", "fs", "fs")
    if mm is None:
        return
    report_mismatches(ctx, mm, st, "MemFS differs from the world model (proved to keep the tree invariant: C05_step, C05_reach, C05_failed) on %d histories")
    st2 = {"name": "fsinv", "harness": "fsinv", "driver": "fsinv"}
    mm2 = ctx.stream("fsinv", "fsinv", "fsinv")
    if mm2 is None:
        return
    report_mismatches(ctx, mm2, st2, "the tree invariant (walk terminates, listing = lookups, Nlink = number of names) is broken on the implementation or on the model state in %d histories")
    # fixed witnesses: RemoveAll interrupted by EACCES after it deleted something (rare in the random stream)
    import os
    from .. import ROOT
    wf = os.path.join(ROOT, "corpus", "C05-fsinv.cases")
    if os.path.exists(wf):
        wl = [l.strip() for l in open(wf) if l.strip() and not l.startswith("#")]
        st3 = {"name": "fsinv-corpus", "harness": "fsinv", "driver": "fsinv"}
        mm3 = ctx.stream("fsinv-corpus", "fsinv", "fsinv", replay_lines=wl)
        if mm3 is None:
            return
        ctx.coverage["streams"]["fsinv-corpus"] = {"witness_histories": len(wl), "mismatches": len(mm3)}
        report_mismatches(ctx, mm3, st3, "the tree invariant is broken on %d fixed witness histories (corpus/C05-fsinv.cases: interrupted RemoveAll, renames through links to an ancestor)", shrink=False)
    # OrefaFS: model tie (C05_orefa_* are proved about Fs/OrefaFS.v) and the fixed witness histories
    from .c01 import orefa_part, fs_corpus_part
    orefa_part(ctx)
    fs_corpus_part(ctx)


CHECKS["C05"] = check_C05
