"""Check of property C11 (a Sub view shows exactly its subtree and keeps its own user, umask and cwd).

1. The Coq development is built and the theorems of Properties/C11.v are checked (Print Assumptions recorded):
   C11_isolated* (frame over every call kind / every history, any number of views), C11_shared*,
   C11_prefix* (walk, cursors, every path string, all 22 namespace calls, Chdir), C11_confine*.
2. Correspondence A (model = code): the `fs` stream (all calls, Sub / SetUser / SetUMask on up to 4 views) and the
   `subview` stream (parent + views, nested views, views of "/", per-view setters, clean / unclean / relative
   paths, escape attempts) - every result, the state of every live view and the tree digest after every call.
3. Checks on the IMPLEMENTATION inside the `subview` stream: T twin run (call through the view on A = prefixed
   call through the parent on twin B: outcome and full tree), C confinement (planted secrets never listed, read
   or modified through a view not rooted at "/"), I isolation (user, umask, cwd of every live view after every
   call against the model).
A differing history is shrunk (same class of difference kept) and reported with the shrunk case as replay.
"""
import os, re

from .. import build_go, sh, GOENV
from ..props import CHECKS, report_mismatches

FS = {"name": "fs", "harness": "fs", "driver": "fs"}
SV = {"name": "subview", "harness": "subview", "driver": "subview"}

STEP = re.compile(r'^(.*) T=(\S+) I=(\S*) C=(\S+) F=(\S+) #(\S+)$')
FAIL_TOK = re.compile(r' (T=DIFF|C=LEAK|C=MOD|F=ISO)')
TOK_CLASS = {"T=DIFF": "twin", "C=LEAK": "confine", "C=MOD": "confine", "F=ISO": "isolation"}

WHAT = {
    "twin": "a call through a Sub view and the same call through the parent with the path prefixed by the view's directory differ in outcome or in the resulting tree (C11_prefix) - %d differing histories in this run",
    "confine": "a call through a Sub view not rooted at '/' listed, returned or modified an entry outside the view's directory (C11_confine) - %d differing histories in this run",
    "isolation": "user / umask / current directory of a live view after a call are not what the model says: a setter through one view must change that view only (C11_isolated) - %d differing histories in this run",
    "model": "MemFS (parent + Sub views) differs from the world model on which the C11 theorems are proved - %d differing histories in this run",
}


def classify(model_line, obs_line):
    """(class, step index) of the first differing step of a history."""
    ms, os_ = model_line.split(" | "), obs_line.split(" | ")
    for k in range(max(len(ms), len(os_))):
        a = ms[k] if k < len(ms) else ""
        b = os_[k] if k < len(os_) else ""
        if a == b:
            continue
        ma, mb = STEP.match(a), STEP.match(b)
        if not ma or not mb:
            return "model", k
        if ma.group(2) != mb.group(2):
            return "twin", k
        if ma.group(4) != mb.group(4):
            return "confine", k
        if ma.group(5) != mb.group(5):
            return "isolation", k
        if ma.group(1) == mb.group(1) and ma.group(6) == mb.group(6) and ma.group(3) != mb.group(3):
            return "isolation", k
        return "model", k
    return "model", -1


def report_subview(ctx, mm, limit=2):
    by_class = {}
    for rec in mm:
        cls, k = classify(rec[2], rec[3])
        by_class.setdefault(cls, []).append((rec, k))
    ctx.coverage["streams"]["subview"]["mismatch_classes"] = {c: len(v) for c, v in by_class.items()}
    for cls in ("confine", "twin", "isolation", "model"):
        recs = by_class.get(cls, [])
        for (i, c, m, o), k in recs[:limit]:
            # cut the history after the first differing step, then delta-debug keeping the class
            parts = c.split(" | ")
            case = " | ".join(parts[:k + 2])
            case = ctx.shrink(SV["name"], SV["harness"], SV["driver"], case,
                              still_bad=lambda r, cls=cls: classify(r[2], r[3])[0] == cls)
            mm2 = ctx.stream(SV["name"] + "-shrink", SV["harness"], SV["driver"], replay_lines=[case])
            if mm2:
                _, c2, m, o = mm2[0]
                k2 = classify(m, o)[1]
                ops = c2.split(" | ")[1:]
                step = {"op": ops[k2] if 0 <= k2 < len(ops) else "?",
                        "model": (m.split(" | ") + [""] * (k2 + 1))[k2][:4000],
                        "observed": (o.split(" | ") + [""] * (k2 + 1))[k2][:4000]}
            else:
                step = {}
            ctx.violation("subview-" + cls, WHAT[cls] % len(recs),
                          {"stream": SV, "case": case, "class": cls, "first_differing_step": step,
                           "model": m[:20000], "observed": o[:20000], "mismatching_cases_in_run": len(recs)})


# ---- search on the implementation alone (when the Coq side / the model is broken) ------------------------
def harness_only(ctx, name, replay_lines=None):
    """Run the subview harness without the model; returns [(index, class, case, observed)] for the histories
    on which an implementation-level check (T, C, F) failed, or None when the harness cannot be built/run."""
    ok, out, binp = build_go("")
    if not ok:
        return None
    args = [binp, "subview", "-seed", str(ctx.seed), "-tier", ctx.tier, "-out", ctx.dir, "-name", name]
    if replay_lines is not None:
        rf = os.path.join(ctx.dir, name + ".replayin")
        with open(rf, "w") as f:
            f.write("\n".join(replay_lines) + "\n")
        args += ["-replay", rf]
    rc, out = sh(args, cwd=ctx.dir, env=GOENV, timeout=3000)
    if rc != 0:
        return None
    res = []
    with open(os.path.join(ctx.dir, name + ".cases")) as fc, open(os.path.join(ctx.dir, name + ".observed")) as fo:
        for i, (c, o) in enumerate(zip(fc, fo)):
            m = FAIL_TOK.search(o)
            if m:
                res.append((i, TOK_CLASS[m.group(1)], c.rstrip("\n"), o.rstrip("\n")))
    return res


def first_failing_step(obs):
    for k, st in enumerate(obs.split(" | ")):
        if FAIL_TOK.search(" " + st):
            return k
    return -1


def shrink_harness_only(ctx, case, cls, budget=80):
    parts = case.split(" | ")
    head, ops = parts[0], parts[1:]

    def bad(ops_):
        r = harness_only(ctx, "subview-hshrink", [" | ".join([head] + ops_)])
        return bool(r) and r[0][1] == cls
    n = 2
    while len(ops) >= 2 and budget > 0:
        chunk = max(1, len(ops) // n)
        reduced = False
        for i in range(0, len(ops), chunk):
            cand = ops[:i] + ops[i + chunk:]
            budget -= 1
            if cand and bad(cand):
                ops, n, reduced = cand, max(n - 1, 2), True
                break
            if budget <= 0:
                break
        if not reduced:
            if chunk == 1:
                break
            n = min(len(ops), n * 2)
    return " | ".join([head] + ops)


def search_without_model(ctx):
    """The proofs or the model build are broken: look for a concrete history on which the property itself
    fails on the implementation (twin run, confinement, frame of the per-view state)."""
    fails = harness_only(ctx, "subview-search")
    if not fails:
        return False
    seen = set()
    for (i, cls, case, obs) in fails:
        if cls in seen:
            continue
        seen.add(cls)
        k = first_failing_step(obs)
        parts = case.split(" | ")
        case = shrink_harness_only(ctx, " | ".join(parts[:k + 2]), cls)
        r = harness_only(ctx, "subview-hshrink", [case])
        obs2 = r[0][3] if r else obs
        k2 = first_failing_step(obs2)
        ops = case.split(" | ")[1:]
        ctx.violation("subview-" + cls, WHAT[cls] % len([f for f in fails if f[1] == cls]) + " (found by the implementation-level checks alone; the Coq side does not build)",
                      {"stream": SV, "case": case, "class": cls,
                       "first_differing_step": {"op": ops[k2] if 0 <= k2 < len(ops) else "?",
                                                "observed": (obs2.split(" | ") + [""] * (k2 + 1))[k2][:4000]},
                       "observed": obs2[:20000]})
    return True


def model_broken(ctx):
    """A proof obligation, the model build or the harness build is broken: search the implementation alone."""
    broken = [v for v in ctx.violations if not v.found_input]
    if broken and search_without_model(ctx):
        # a failing input was found: it replaces the 'no-failing-input-found' report; what is broken stays named in it
        for v in ctx.violations:
            if v.found_input:
                v.what += " [also: " + "; ".join(b.what for b in broken) + "]"
        ctx.violations = [v for v in ctx.violations if v.found_input]


def check_C11(ctx):
    if not ctx.proofs():
        return model_broken(ctx)
    ctx.coverage["design_points"] = [
        "MemFS.Sub copies the parent's current directory string into the view: until Chdir is called through the view, the view's cwd may name a directory that does not exist in the view; C11 speaks of relative paths only after the cwd was set through the view (the model copies the string too, and the twin run interprets the view's Getwd() inside the view, as the code does)",
        "a view whose directory is later removed (through the parent or another view) keeps working on the detached directory; nothing it does is visible in the tree any more (counted: views_whose_directory_was_removed)",
        "the view's root is a root: Remove / RemoveAll / Rename of '/' through the view fail (EINVAL) where the parent acting on the directory may succeed; Stat('/') is named '/' (C11_prefix_root: same node and error, different parent node); these calls are excluded from the twin comparison",
        "Rename distinguishes 'onto itself' from 'another spelling of the same directory' by comparing the two path strings it is given; the twin run keeps the spellings different",
    ]
    mm = ctx.stream("fs", "fs", "fs")
    if mm is None:
        return model_broken(ctx)
    report_mismatches(ctx, mm, FS, "MemFS differs from the world model (on which the C11 theorems are proved) on %d histories of the fs stream (all calls, Sub/SetUser/SetUMask on up to 4 views)")
    mm = ctx.stream("subview", "subview", "subview")
    if mm is None:
        return model_broken(ctx)
    if mm:
        report_subview(ctx, mm)
    # fixed witness histories (Sub(".") must be a new view, views of the current directory, ...)
    from .c01 import fs_corpus_part
    fs_corpus_part(ctx)


CHECKS["C11"] = check_C11
