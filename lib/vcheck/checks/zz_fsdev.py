"""Development entry: runs the fs world stream (MemFS vs the Coq world model) without proofs."""
from ..props import CHECKS, report_mismatches


def check_fsdev(ctx):
    st = {"name": "fs", "harness": "fs", "driver": "fs"}
    mm = ctx.stream("fs", "fs", "fs")
    if mm is None:
        return
    for (i, c, m, o) in mm[:5]:
        ms, os_ = m.split(" | "), o.split(" | ")
        ops = c.split(" | ")[1:]
        for k in range(max(len(ms), len(os_))):
            a = ms[k] if k < len(ms) else "<none>"
            b = os_[k] if k < len(os_) else "<none>"
            if a != b:
                print("history %d step %d op: %s\n   model:    %s\n   observed: %s" % (i, k, ops[k] if k < len(ops) else "?", a, b))
                break
    print("mismatching histories: %d" % len(mm))


CHECKS["FSDEV"] = check_fsdev
