"""Development entry: runs the fs world stream with OrefaFS as implementation (OrefaFS vs the Coq model
OrefaWorld.ostep) without proofs."""
from ..props import CHECKS


def check_orefadev(ctx):
    mm = ctx.stream("orefa", "orefa", "orefa")
    if mm is None:
        return
    for (i, c, m, o) in mm[:8]:
        ms, os_ = m.split(" | "), o.split(" | ")
        ops = c.split(" | ")[1:]
        for k in range(max(len(ms), len(os_))):
            a = ms[k] if k < len(ms) else "<none>"
            b = os_[k] if k < len(os_) else "<none>"
            if a != b:
                print("history %d step %d op: %s\n   model:    %s\n   observed: %s" % (i, k, ops[k] if k < len(ops) else "?", a, b))
                break
    print("mismatching histories: %d" % len(mm))


CHECKS["OREFADEV"] = check_orefadev
