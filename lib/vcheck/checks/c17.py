"""Check of property C17 (OS-type emulation does not depend on the host).

1. Gen_ostype.v is regenerated from the current source (ostypegen.py); the Coq development is built; the
   theorems of Properties/C17.v are checked (Print Assumptions recorded).
2. Streams (implementation vs the extracted Coq model, harness built with -tags avfs_setostype):
     ostypeinfo  what a fresh MemFS / OrefaFS of each OS type reports (type, separator, feature, cwd, volumes,
                 default modes) - on the tagged AND the untagged build (where a foreign type must be refused);
     ostype      random histories on a Windows-typed and a Linux-typed MemFS, volume calls included;
                 the Linux-typed histories are replayed on the UNTAGGED build (same answers required);
     ostypevol   every sequence of volume calls up to depth 4 over three volume names;
     ostypepair  portable histories (BFS over tree states + random) on memfs/linux, memfs/windows
                 (vs model) and orefafs/linux, orefafs/windows.
3. Pairwise: for each portable history and each file system, the Windows-typed and the Linux-typed run must agree
   call by call on success/failure and on the normalised tree, except the documented OS-specific calls
   (Chown, Lchown) and the listed known findings; error values of a Windows-typed file system must be
   WindowsError values (and never on a Linux-typed one).
4. A broken obligation triggers the same streams as a SEARCH for a concrete failing input.
"""
import json, os, re

from .. import ROOT, gen, ostypegen, build_coq, build_ml, build_go, run_driver_sharded, sh, GOENV, ML, Violation
from ..props import CHECKS

TAG = "avfs_setostype"
MODEL_TARGET = "theories/OsType/OsTypeTab.vo"     # what the extraction needs (no obligation among its dependencies)

if ostypegen.generate not in gen.GENERATORS:
    gen.GENERATORS.append(ostypegen.generate)

KF_REMOVEALL = "C17-removeall-through-file"
KF_OREFA_VOL = "C17-orefafs-no-volume-manager"
KF_UNC_PANIC = "C17-memfs-panic-missing-volume"
KF_NOTAG_SILENT = "C17-foreign-type-refusal-swallowed"


class Stream:
    """One run of a harness command and of the model driver on its cases."""

    def __init__(self, ctx, name, cmd, tags=TAG, replay_lines=None, need_model=True):
        self.ok = False
        self.name, self.cmd, self.tags = name, cmd, tags
        okc, out, failing = build_coq(target=MODEL_TARGET)
        if not okc:
            ctx.broken("coq-build", "the Coq models do not build; first failing file: %s" % failing, "\n".join(out.splitlines()[-40:]))
            return
        okm, out = build_ml()
        if not okm:
            ctx.broken("model-build", "extraction / OCaml build of the model failed", out[-3000:])
            return
        okg, out, binp = build_go(tags)
        if not okg:
            ctx.broken("harness-build", "the Go harness does not build against the current source (tags=%r)" % tags, out[-3000:])
            return
        args = [binp, cmd, "-seed", str(ctx.seed), "-tier", ctx.tier, "-out", ctx.dir, "-name", name]
        if replay_lines is not None:
            rf = os.path.join(ctx.dir, name + ".replayin")
            with open(rf, "w") as f:
                f.write("\n".join(replay_lines) + "\n")
            args += ["-replay", rf]
        rc, out = sh(args, cwd=ctx.dir, env=GOENV, timeout=3000)
        if rc != 0:
            ctx.broken("harness-run:" + name, "the harness command %s failed (rc=%d)" % (cmd, rc), out[-3000:])
            return
        base = os.path.join(ctx.dir, name)
        rd = lambda ext: open(base + ext).read().splitlines()
        if need_model:
            err = run_driver_sharded(cmd if cmd != "ostypepair" and cmd != "ostypevol" else "ostype", base + ".cases", base + ".model")
            if err:
                ctx.broken("model-run:" + name, "the model driver failed on stream " + name, err[-3000:])
                return
            self.cases, self.model, self.observed = rd(".cases"), rd(".model"), rd(".observed")
        else:
            self.cases, self.observed = rd(".cases"), rd(".observed")
            self.model = list(self.observed)
        self.stats = {}
        if replay_lines is None:
            try:
                self.stats = json.load(open(base + ".stats.json"))
            except Exception:
                pass
        self.mism = [(i, c, m, o) for i, (c, m, o) in enumerate(zip(self.cases, self.model, self.observed)) if m != o]
        self.ok = True

    def account(self, ctx, extra=None):
        st = self.stats
        cov = ctx.coverage
        cov["evaluations"] += st.get("evaluations", len(self.cases))
        cov["distinct_nontrivial"] += st.get("distinct_nontrivial", 0)
        if st.get("rule"):
            cov["rule"] += ("; " if cov["rule"] else "") + "[%s] %s" % (self.name, st["rule"])
        for s in st.get("samples", [])[:2]:
            cov["samples"].append({"stream": self.name, "case": s[:600]})
        d = {k: v for k, v in st.items() if k not in ("samples", "rule")}
        d["mismatches"] = len(self.mism)
        d["build_tags"] = self.tags
        if extra:
            d.update(extra)
        cov["streams"][self.name] = d


def desc(name, cmd, tags):
    return {"name": name, "harness": cmd, "driver": "ostype" if cmd in ("ostypepair", "ostypevol") else cmd, "tags": tags}


def first_diff(c, m, o):
    ms, os_ = m.split(" | "), o.split(" | ")
    ops = c.split(" | ")[1:]
    for k in range(max(len(ms), len(os_))):
        a = ms[k] if k < len(ms) else "<none>"
        b = os_[k] if k < len(os_) else "<none>"
        if a != b:
            return k, (ops[k] if k < len(ops) else "?"), a, b
    return None


def shrink(ctx, st, case, bad):
    """Delta-debug the ops of a history line; bad(line) says whether the reduced line still fails."""
    parts = case.split(" | ")
    head, ops = parts[0], parts[1:]
    budget = 60
    # cut after the failing step first
    n = 2
    while len(ops) >= 2 and budget > 0:
        chunk = max(1, len(ops) // n)
        reduced = False
        for i in range(0, len(ops), chunk):
            cand = ops[:i] + ops[i + chunk:]
            budget -= 1
            if cand and bad(" | ".join([head] + cand)):
                ops, n, reduced = cand, max(n - 1, 2), True
                break
            if budget <= 0:
                break
        if not reduced:
            if chunk == 1:
                break
            n = min(len(ops), n * 2)
    return " | ".join([head] + ops)


def report_model_mismatches(ctx, s, what, limit=2):
    """Implementation and Coq model disagree: violation with the shrunk case."""
    for (i, c, m, o) in s.mism[:limit]:
        def bad(line):
            r = Stream(ctx, s.name + "-shrink", s.cmd, tags=s.tags, replay_lines=[line])
            return r.ok and bool(r.mism)
        case = shrink(ctx, s, c, bad) if " | " in c else c
        r = Stream(ctx, s.name + "-shrink", s.cmd, tags=s.tags, replay_lines=[case])
        if r.ok and r.mism:
            _, c2, m, o = r.mism[0]
        d = first_diff(case, m, o)
        ctx.violation(s.name, what % len(s.mism), {"c17": desc(s.name, s.cmd, s.tags), "case": case, "model": m, "observed": o,
                                                   "first_difference": d, "mismatching_cases_in_run": len(s.mism)})


# ---- pairwise comparison of the two OS types ---------------------------------------------------------------
def is_ok(res):
    r = res.split(" #")[0]
    return not (r.startswith("E ") or r.startswith("EP ") or r in ("PANIC", "DEADLOCK", "NOTYPE", "NOVM", "BADOP"))


def norm_digest(res):
    if " #" not in res:
        return None
    d = res.split(" #", 1)[1]
    return d.split("/", 1)[1] if "/" in d else d


ERR_RE = re.compile(r"^(?:E|EP) ([A-Z])(\S*)")


def pairwise(ctx, fsname, cases, observed):
    """cases/observed: lines of one file system, alternately linux / windows typed. Returns statistics."""
    stats = {"histories": 0, "calls_compared": 0, "os_specific_differences": 0, "known_finding_differences": 0,
             "error_values_checked": 0}
    reported = set()
    for k in range(0, len(cases) - 1, 2):
        cl, cw, ol, ow = cases[k], cases[k + 1], observed[k], observed[k + 1]
        hl, hw = cl.split(" | ")[0].split(), cw.split(" | ")[0].split()
        if hl[1] != "linux" or hw[1] != "windows":
            ctx.broken("pair-order", "pair stream lines out of order", cl[:200])
            return stats
        stats["histories"] += 1
        opsl, opsw = cl.split(" | ")[1:], cw.split(" | ")[1:]
        rl, rw = ol.split(" | "), ow.split(" | ")
        if ow == "SKIPPED" or ol == "SKIPPED":
            stats["skipped_histories"] = stats.get("skipped_histories", 0) + 1
            continue
        if ow.startswith("NOTYPE") or ol.startswith("NOTYPE"):
            if "notype" not in reported:
                reported.add("notype")
                ctx.violation("pair-" + fsname, "%s built with -tags %s does not take the requested OS type" % (fsname, TAG),
                              {"c17": desc("ostypepair", "ostypepair", TAG), "case": cw, "observed": ow})
            continue
        for j in range(len(opsl)):
            if j >= len(rl) or j >= len(rw):
                if len(rl) != len(rw) and "len" not in reported:
                    reported.add("len")
                    ctx.violation("pair-" + fsname, "%s: one OS type ended the history (panic / deadlock) where the other did not" % fsname,
                                  {"c17": desc("ostypepair", "ostypepair", TAG), "case": cw, "case_linux": cl, "observed": ow, "observed_linux": ol})
                break
            stats["calls_compared"] += 1
            op = opsl[j].split()[0]
            a, b = rl[j], rw[j]
            # error values: WindowsError on the Windows-typed file system, LinuxError on the Linux-typed one
            for (res, osn) in ((a, "linux"), (b, "windows")):
                m = ERR_RE.match(res)
                if m:
                    stats["error_values_checked"] += 1
                    cls, num = m.group(1), m.group(2)
                    wrong = (osn == "windows" and cls == "L" and num != "40") or (osn == "linux" and cls == "W")
                    if wrong and ("errclass", osn) not in reported:
                        reported.add(("errclass", osn))
                        ctx.violation("pair-" + fsname, "%s typed %s returned the error value %s%s of the other OS" % (osn, fsname, cls, num),
                                      {"c17": desc("ostypepair", "ostypepair", TAG), "case": " | ".join((cw if osn == "windows" else cl).split(" | ")[:j + 2]),
                                       "step": j, "result": res})
            same_ok = is_ok(a) == is_ok(b)
            same_tree = norm_digest(a) == norm_digest(b)
            if same_ok and same_tree:
                continue
            if op in ("CO", "LC") and same_tree:
                stats["os_specific_differences"] += 1       # documented: Chown / Lchown are not supported on Windows
                continue
            if op == "RA" and same_tree and is_ok(b) and a.startswith("E L20"):
                stats["known_finding_differences"] += 1
                e = next((k_ for k_ in ctx.kf if k_["id"] == KF_REMOVEALL), None)
                if e is not None:
                    ctx.known_finding(e["id"], e["what"])
                    continue
            key = (op, is_ok(a), is_ok(b), same_tree)
            if key in reported:
                break
            reported.add(key)
            ctx.violation("pair-" + fsname,
                          "%s: the Windows-typed and the Linux-typed file system disagree on call %s (linux: %s, windows: %s, normalised trees %s)"
                          % (fsname, op, a.split(" #")[0], b.split(" #")[0], "equal" if same_tree else "DIFFERENT"),
                          {"c17": desc("ostypepair", "ostypepair", TAG), "case": " | ".join(cw.split(" | ")[:j + 2]),
                           "case_linux": " | ".join(cl.split(" | ")[:j + 2]), "step": j, "linux": a, "windows": b})
            break
    return stats


# ---- the parts of the check ------------------------------------------------------------------------------------
def info_part(ctx):
    res = {}
    for tags in (TAG, ""):
        s = Stream(ctx, "ostypeinfo-" + ("tag" if tags else "notag"), "ostypeinfo", tags=tags)
        if not s.ok:
            continue
        s.account(ctx)
        report_model_mismatches(ctx, s, "what a freshly constructed file system reports (OS type, separator, feature, cwd, volumes, default modes) "
                                        "differs from the model of SetOSType/NewWithOptions on %d configurations")
        res[tags] = dict(zip(s.cases, s.observed))
    # property-level expectations, independent of the model
    t = res.get(TAG, {})
    for fs in ("memfs", "orefafs"):
        if TAG in res:
            w = t.get("info %s windows tag" % fs, "")
            l = t.get("info %s linux tag" % fs, "")
            if not (w.startswith("type=2 sep=92 feat=1 cwd=s433a5c ") and "dmode=2147484159 fmode=438" in w):
                ctx.violation("info", "a Windows-typed %s on the tagged build does not report type Windows, separator '\\', cwd C:\\ and the Windows default modes" % fs,
                              {"c17": desc("ostypeinfo-tag", "ostypeinfo", TAG), "case": "info %s windows tag" % fs, "observed": w})
            if not (l.startswith("type=1 sep=47 feat=1 cwd=s2f ") and "dmode=2147483648 fmode=0" in l):
                ctx.violation("info", "a Linux-typed %s on the tagged build does not report type Linux, separator '/', cwd / and the POSIX default modes" % fs,
                              {"c17": desc("ostypeinfo-tag", "ostypeinfo", TAG), "case": "info %s linux tag" % fs, "observed": l})
        if "" in res:
            n = res[""].get("info %s windows notag" % fs, "")
            if not n.startswith("refused"):
                ctx.violation("info", "without the build tag a foreign OS type is accepted by %s" % fs,
                              {"c17": desc("ostypeinfo-notag", "ostypeinfo", ""), "case": "info %s windows notag" % fs, "observed": n})
    e = next((k for k in ctx.kf if k["id"] == KF_OREFA_VOL), None)
    if e is not None and "volmgr=0" in t.get("info orefafs windows tag", ""):
        ctx.known_finding(e["id"], e["what"])
    return res


def atie_part(ctx):
    s = Stream(ctx, "ostype", "ostype")
    if not s.ok:
        return
    lin = [c for c in s.cases if c.split()[1] == "linux" and c.split()[0] == "memfs"]
    ncalls = sum(len(o.split(" | ")) for o in s.observed)
    s.account(ctx, {"memfs_linux_typed_histories": len(lin),
                    "memfs_windows_typed_histories": len([c for c in s.cases if c.startswith("memfs windows")]),
                    "orefafs_histories": len([c for c in s.cases if c.startswith("orefafs")])})
    report_model_mismatches(ctx, s, "MemFS / OrefaFS built with -tags avfs_setostype differ from their Coq models on %d generated histories (both OS types, volume calls)")
    if any(o.startswith("NOTYPE") for o in s.observed):
        ctx.violation("ostype", "MemFS built with -tags %s does not take the requested OS type" % TAG,
                      {"c17": desc("ostype", "ostype", TAG), "case": s.cases[0], "observed": s.observed[0]})
    # fixed witnesses (corpus/C17-witness.cases): the calls that used to panic on a path that is exactly a missing
    # volume (repaired in /repo); replayed every run, must agree with the model and must not panic
    wf = os.path.join(ROOT, "corpus", "C17-witness.cases")
    if os.path.exists(wf):
        wl = [l.strip() for l in open(wf) if l.strip() and not l.startswith("#")]
        wrun = Stream(ctx, "ostype-witness", "ostype", replay_lines=wl)
        if wrun.ok:
            ctx.coverage["streams"]["ostype-witness"] = {"cases": len(wl), "mismatches": len(wrun.mism),
                                                         "observed": wrun.observed[:len(wl)]}
            wp = [(c, o) for c, o in zip(wrun.cases, wrun.observed) if o.split(" | ")[-1].startswith("PANIC")]
            for c, o in wp[:1]:
                ctx.violation("ostype-witness", "a call on a path that is exactly a missing volume panics on a Windows-typed MemFS (%d witnesses)" % len(wp),
                              {"c17": desc("ostype-witness", "ostype", TAG), "case": " | ".join(c.split(" | ")[:len(o.split(" | ")) + 1]), "observed": o})
            if wrun.mism and not wp:
                report_model_mismatches(ctx, wrun, "the fixed witnesses (corpus/C17-witness.cases: missing volumes, RemoveAll ghosts) behave differently from the model (%d)")
    panics = [(c, o) for c, o in zip(s.cases, s.observed) if o.split(" | ")[-1].startswith("PANIC")]
    if panics:
        c, o = panics[0]
        ctx.violation("ostype", "a call on a Windows-typed MemFS panics (%d histories)" % len(panics),
                      {"c17": desc("ostype", "ostype", TAG), "case": " | ".join(c.split(" | ")[:len(o.split(" | ")) + 1]), "observed": o})
    # the Linux-typed histories on the untagged build: same answers as the model, hence as the tagged build
    u = Stream(ctx, "ostype-notag", "ostype", tags="", replay_lines=lin)
    if not u.ok:
        return
    ctx.coverage["streams"]["ostype-notag"] = {"histories_replayed_on_untagged_build": len(lin), "mismatches": len(u.mism),
                                               "calls": sum(len(o.split(" | ")) for o in u.observed), "build_tags": ""}
    tagged = dict(zip(s.cases, s.observed))
    diff = [(i, c, tagged[c], o) for i, (c, o) in enumerate(zip(u.cases, u.observed)) if tagged.get(c) != o]
    for (i, c, a, b) in diff[:1]:
        ctx.violation("ostype-notag", "a Linux-typed MemFS behaves differently on the build with and without -tags %s (%d histories)" % (TAG, len(diff)),
                      {"c17": desc("ostype-notag", "ostype", ""), "case": c, "tagged_build": a, "untagged_build": b, "first_difference": first_diff(c, a, b)})
    return s


def vol_part(ctx):
    s = Stream(ctx, "ostypevol", "ostypevol")
    if not s.ok:
        return
    s.account(ctx)
    report_model_mismatches(ctx, s, "the volume calls of a Windows-typed MemFS differ from the Coq model on %d call sequences")
    # property-level: VolumeList always equals the set of names added and not deleted (checked against the model above
    # and, independently, here), and a Linux-typed file system answers ErrVolumeWindows (C6) to VolumeAdd/VolumeDelete
    bad = None
    for c, o in zip(s.cases, s.observed):
        hd = c.split(" | ")[0].split()
        ops, rs = c.split(" | ")[1:], o.split(" | ")
        vols = {"C:"}
        for op, r in zip(ops, rs):
            t = op.split()
            r0 = r.split(" #")[0].rstrip()
            arg = bytes.fromhex(t[2][1:]).decode("latin-1") if len(t) > 2 and t[0] in ("VA", "VD") else ""
            name = arg[:2] if len(arg) >= 2 and arg[1] == ":" and arg[0].isalpha() else ""
            if hd[1] == "linux":
                if t[0] in ("VA", "VD") and r0 != "E C6":
                    bad = (c, o, "VolumeAdd/VolumeDelete on a Linux-typed file system did not answer ErrVolumeWindows")
                if t[0] == "VL" and r0 != "VS":
                    bad = (c, o, "VolumeList of a Linux-typed file system is not empty")
                continue
            if t[0] == "VA":
                exp = "E C5" if not name else ("E C4" if name in vols else "ok")
                if exp == "ok":
                    vols.add(name)
                if r0 != exp:
                    bad = (c, o, "VolumeAdd(%r) answered %s, expected %s" % (arg, r0, exp))
            elif t[0] == "VD":
                exp = "E C5" if (not name or name not in vols) else "ok"
                if exp == "ok":
                    vols.discard(name)
                if r0 != exp:
                    bad = (c, o, "VolumeDelete(%r) answered %s, expected %s" % (arg, r0, exp))
            elif t[0] == "VL":
                exp = "VS " + ",".join("s" + v.encode().hex() for v in sorted(vols))
                if r0 != exp.rstrip():
                    bad = (c, o, "VolumeList answered %s, expected %s" % (r0, exp))
            if bad:
                break
        if bad:
            break
    if bad:
        ctx.violation("ostypevol", "volume management is not the set of added names: " + bad[2],
                      {"c17": desc("ostypevol", "ostypevol", TAG), "case": bad[0], "observed": bad[1]})


def pair_part(ctx):
    s = Stream(ctx, "ostypepair", "ostypepair")
    if not s.ok:
        return
    # an OrefaFS that hangs is not explored further by the harness: those lines are not compared
    s.mism = [x for x in s.mism if x[3] != "SKIPPED"]
    s.account(ctx)
    report_model_mismatches(ctx, s, "MemFS / OrefaFS differ from their Coq models on %d portable histories (exact and normalised snapshots)")
    res = {}
    for fs in ("memfs", "orefafs"):
        idx = [i for i, c in enumerate(s.cases) if c.startswith(fs + " ")]
        cs, ob, mo = [s.cases[i] for i in idx], [s.observed[i] for i in idx], [s.model[i] for i in idx]
        res["pairwise_" + fs] = pairwise(ctx, fs, cs, ob)
        # the models' own pairwise agreement (the statement of C17_iso evaluated on the generated histories)
        res["pairwise_model_disagreements_" + fs] = pairwise_model(cs, mo)
    ctx.coverage["streams"]["ostypepair"].update(res)


def pairwise_model(cases, model):
    n = 0
    for k in range(0, len(cases) - 1, 2):
        opsl = cases[k].split(" | ")[1:]
        rl, rw = model[k].split(" | "), model[k + 1].split(" | ")
        for j in range(min(len(rl), len(rw), len(opsl))):
            op = opsl[j].split()[0]
            if is_ok(rl[j]) != is_ok(rw[j]) or norm_digest(rl[j]) != norm_digest(rw[j]):
                if op in ("CO", "LC") or (op == "RA" and rl[j].startswith("E L20")):
                    continue
                n += 1
                break
    return n


GEN_OBLIGATIONS = ["obl_no_problems", "obl_ecode", "obl_fields_covered", "obl_vcode", "obl_windows_class", "obl_config", "obl_cfg", "obl_os_tests"]


def check_C17(ctx):
    proofs_ok = ctx.proofs(extra_obligations=len(GEN_OBLIGATIONS))
    ctx.coverage["generated_obligations"] = GEN_OBLIGATIONS
    nviol = len(ctx.violations)
    info = info_part(ctx)
    constructible = TAG in info and all(not info[TAG].get("info %s windows tag" % fs, "refused").startswith("refused")
                                        for fs in ("memfs", "orefafs"))
    if constructible:
        atie_part(ctx)
        vol_part(ctx)
        pair_part(ctx)
    else:
        ctx.coverage["streams"]["skipped"] = "a Windows-typed file system cannot be constructed on the tagged build: the history streams were not run"
    if not proofs_ok and len(ctx.violations) > nviol:
        # the search found a concrete failing input: the bare "broken obligation" entry is superseded
        ctx.violations = [v for v in ctx.violations if v.found_input or "crash" in v.what] or ctx.violations
    e = next((k for k in ctx.kf if k["id"] == KF_NOTAG_SILENT), None)
    if e is not None:
        ctx.known_finding(e["id"], e["what"])
    ctx.coverage["trusted_base"] += [
        "lib/vcheck/ostypegen.py: regex-based reading of errors.go, ostype.go, features.go, vfs_ostype_on/off.go, vfs_types.go, memfs_cfg.go, orefafs_cfg.go (fail closed on unrecognised shapes: gen_problems must be empty, unknown guards evaluate to SetUnknownShape)",
        "io/fs.ModeDir = 1<<31 and the numbering of avfs.OSType (Unknown 0, Linux 1, Windows 2, Darwin 3) are written in the translator / driver",
        "the OrefaFS half is behavioural only (pairwise comparison of the two OS types); its model lives on branch agent/orefa",
    ]


def replay_C17(ctx, obj):
    """Re-execute the case of a replay file against the current tree: model vs implementation and, where the file
    holds the two spellings of a portable history, the pairwise comparison."""
    d = obj["c17"]
    lines = ([obj["case_linux"]] if "case_linux" in obj else []) + [obj["case"]]
    s = Stream(ctx, d["name"] + "-replay", d["harness"], tags=d.get("tags", TAG), replay_lines=lines,
               need_model=not lines[0].startswith("orefafs"))
    if not s.ok:
        return ctx.finish(write_evidence=False)
    for c, m, o in zip(s.cases, s.model, s.observed):
        print("case:     %s\nmodel:    %s\nobserved: %s" % (c, m, o))
    if s.mism:
        i, c, m, o = s.mism[0]
        ctx.violation("replay", "implementation and model still differ on the replayed case", {"c17": d, "case": c, "model": m, "observed": o})
    if len(lines) == 2:
        pairwise(ctx, s.cases[0].split()[0], s.cases, s.observed)
    if d["harness"] == "ostypeinfo":
        for c, o in zip(s.cases, s.observed):
            f = c.split()
            bad = (f[3] == "tag" and f[2] == "windows" and not o.startswith("type=2 sep=92 feat=1 cwd=s433a5c ")) or \
                  (f[3] == "tag" and f[2] == "linux" and not o.startswith("type=1 sep=47 feat=1 cwd=s2f ")) or \
                  (f[3] == "notag" and f[2] == "windows" and not o.startswith("refused"))
            if bad:
                ctx.violation("replay", "the freshly constructed file system still reports the wrong configuration", {"c17": d, "case": c, "observed": o})
    if not ctx.violations:
        print("replay: the case no longer fails")
    return ctx.finish(write_evidence=False)


from ..props import REPLAYERS
REPLAYERS["C17"] = replay_C17
CHECKS["C17"] = check_C17
