"""Check of property C10 (BasePathFS confines all access to its base directory and acts as a chroot).

1. Gen_basepath.v is regenerated from the current source (bpgen.py), the Coq development is built and the
   theorems of Properties/C10.v are checked (Print Assumptions recorded).
2. Correspondence streams: bpstr (string level) and bpfs (file-system level, lock-step with a standalone
   reference, outside-of-B snapshot, planted secret) - implementation vs extracted model.
3. A broken obligation or a broken correspondence triggers a SEARCH for a concrete input on which the
   property itself fails (escape / change outside B / leak / panic / hang / deviation from the reference);
   only if none is found the VIOLATION line ends with no-failing-input-found.
"""
import json, os, posixpath, re, subprocess

from .. import gen, bpgen, build_go, sh, GOENV, log
from ..props import CHECKS

if bpgen.generate not in gen.GENERATORS:
    gen.GENERATORS.append(bpgen.generate)   # Gen_basepath.v is regenerated before every Coq build

FAIL_TOK = re.compile(r"PANIC|HANG|ref=DIFF\([^)]*\)|out=CHANGED|leak=1")
FS = {"name": "bpfs", "harness": "bpfs", "driver": "bpfs"}
STR = {"name": "bpstr", "harness": "bpstr", "driver": "bpstr"}

PROVED = ["C10_clean_is_spec", "C10_confine", "C10_inside_iff", "C10_roundtrip", "C10_reverse_total",
          "C10_frombasepath_contract", "C10_errors", "C10_getwd", "C10_table", "C10_table_safe"]
PARTIAL = ["C10_chroot_partial"]
REFUTED_ON_PINNED = ["C10_confine_refuted_unfixed", "C10_reverse_panics_unfixed"]


def untok(t):
    return bytes.fromhex(t[1:]).decode("latin-1")


def prop_failure(model_line, obs_line):
    """A failure of the PROPERTY (not merely of the model/code correspondence) visible on this line."""
    m = FAIL_TOK.search(obs_line)
    if m:
        return m.group(0)
    if "conf=0" in model_line:
        return "a path outside B reached the base (model: hasBasePath false)"
    return None


def harness_only(ctx, name, replay_lines=None):
    """Run the bpfs harness without the model (used when the Coq side is broken). Returns the failures list
    [(index, what, case)] or None when the harness cannot be built/run."""
    ok, out, binp = build_go("")
    if not ok:
        return None
    args = [binp, "bpfs", "-seed", str(ctx.seed), "-tier", ctx.tier, "-out", ctx.dir, "-name", name]
    if replay_lines is not None:
        rf = os.path.join(ctx.dir, name + ".replayin")
        with open(rf, "w") as f:
            f.write("\n".join(replay_lines) + "\n")
        args += ["-replay", rf]
    rc, out = sh(args, cwd=ctx.dir, env=GOENV, timeout=3000)
    if rc != 0:
        return None
    return read_failures(ctx, name)


def read_failures(ctx, name):
    p = os.path.join(ctx.dir, name + ".failures")
    res = []
    if os.path.exists(p):
        for line in open(p):
            f = line.rstrip("\n").split("\t")
            if len(f) == 3:
                res.append((int(f[0]), f[1], f[2]))
    return res


def strip_case(case):
    """Case line without the fields derived from the run (c=, in=, raw=)."""
    parts = case.split(" | ")
    return " | ".join([parts[0]] + [p.split(" ; ")[0] for p in parts[1:]])


def shrink_harness_only(ctx, case, budget=40):
    parts = strip_case(case).split(" | ")
    head, ops = parts[0], parts[1:]

    def bad(ops_):
        f = harness_only(ctx, "bpfs-shrink", [" | ".join([head] + ops_)])
        return bool(f)
    # keep only the prefix up to the failing step first (cheap), then drop single ops
    n = len(ops)
    while n > 1 and budget > 0:
        budget -= 1
        half = n // 2
        if bad(ops[:half]):
            ops = ops[:half]
            n = half
        else:
            break
    i = 0
    while i < len(ops) and len(ops) > 1 and budget > 0:
        budget -= 1
        cand = ops[:i] + ops[i + 1:]
        if bad(cand):
            ops = cand
        else:
            i += 1
    return " | ".join([head] + ops)


def search_concrete(ctx, why, failures=None):
    """Look for an input on which the property itself fails. Returns True when one was reported."""
    if failures is None:
        failures = harness_only(ctx, "bpfs-search")
    if not failures:
        return False
    failures.sort(key=lambda f: len(f[2]))
    idx, what, case = failures[0]
    case = shrink_harness_only(ctx, case)
    f2 = harness_only(ctx, "bpfs-shrink", [case])
    if f2:
        what = f2[0][1]
    ctx.violation("bpfs", "C10 fails on a concrete history (%s): %s" % (why, what),
                  {"stream": FS, "case": case, "failure": what, "found_by": "search after: " + why,
                   "failing_histories_in_run": len(failures)})
    # the broken obligation / correspondence is now explained by a concrete input
    ctx.violations = [v for v in ctx.violations if v.found_input]
    return True


def known_findings(ctx):
    ok, out, binp = build_go("")
    if not ok:
        return
    rc, out = sh([binp, "bpkf", "-seed", str(ctx.seed), "-tier", ctx.tier, "-out", ctx.dir, "-name", "bpkf"], cwd=ctx.dir, env=GOENV, timeout=600)
    if rc != 0:
        return
    obs = open(os.path.join(ctx.dir, "bpkf.observed")).read().splitlines()
    ids = {k["id"]: k for k in ctx.kf}
    rep = {}
    if len(obs) >= 1:
        m = re.match(r"root=(\S+) ref=(\S+) last=(\S+) dot=(\S+) refdot=(\S+)", obs[0])
        rep["KF-C10-infoname"] = bool(m and ((m.group(1) == m.group(3) and m.group(1) != m.group(2)) or m.group(4) != m.group(5)))
    if len(obs) >= 3:
        rep["KF-C10-renameself"] = obs[1].strip() == "bp=false ref=true"
        # repaired (fix: BasePathFS Remove and RemoveAll refuse to remove the root directory): no longer listed,
        # so a reproduction is reported as a violation below
        rep["KF-C10-rootops"] = "base-dir-exists=false" in obs[2] or obs[2].startswith("removeall=<nil>")
    for kid, hit in rep.items():
        if kid in ids and hit:
            ctx.known_finding(kid, ids[kid]["what"])
        elif kid in ids:
            log("  note: known finding %s no longer reproduces (witness: %s)" % (kid, obs))
        elif hit:
            # the deviation is there but not listed: that is a violation like any other
            ctx.violation("bpkf", "unlisted deviation %s reproduced" % kid, {"stream": {"name": "bpkf", "harness": "bpkf", "driver": "bpkf"}, "case": kid, "observed": obs})
    ctx.coverage["known_finding_witnesses"] = rep


def check_stream_fs(ctx):
    mm = ctx.stream("bpfs", "bpfs", "bpfs")
    if mm is None:
        return
    concrete = [(i, c, m, o) for (i, c, m, o) in mm if prop_failure(m, o)]
    other = [x for x in mm if not prop_failure(x[2], x[3])]
    if concrete:
        concrete.sort(key=lambda x: len(x[1]))
        i, c, m, o = concrete[0]
        case = ctx.shrink("bpfs", "bpfs", "bpfs", strip_case(c), still_bad=lambda x: bool(prop_failure(x[2], x[3])))
        mm2 = ctx.stream("bpfs-shrink", "bpfs", "bpfs", replay_lines=[case])
        if mm2:
            _, c2, m, o = mm2[0]
        ctx.violation("bpfs", "C10 fails on a concrete history: %s (%d failing histories in this run)" % (prop_failure(m, o), len(concrete)),
                      {"stream": FS, "case": case, "model": m, "observed": o, "failure": prop_failure(m, o)})
    elif other:
        i, c, m, o = other[0]
        ctx.broken("correspondence:bpfs", "BasePathFS and the model disagree on %d histories (paths handed to the base / translated results) without a visible failure of the property on those lines" % len(other),
                   json.dumps({"case": c, "model": m, "observed": o})[:3000])
        search_concrete(ctx, "correspondence bpfs broken", read_failures(ctx, "bpfs"))


def check_stream_str(ctx):
    mm = ctx.stream("bpstr", "bpstr", "bpstr")
    if not mm:
        return
    # does a disagreeing line show an escape or a panic by itself?
    for (i, c, m, o) in mm:
        f = c.split()
        B = untok(f[1])
        fo = dict(x.split("=", 1) for x in o.split())
        bad = None
        B = posixpath.normpath(B)
        if B.startswith("//"):
            B = B[1:]
        if "PANIC" in (fo.get("tb"), fo.get("ab"), fo.get("wd"), fo.get("fe")):
            bad = "ToBasePath/Abs/Getwd/FromPathError panics where the model returns a value"
        elif fo.get("tb", "").startswith("s"):
            tb = posixpath.normpath(untok(fo["tb"])) if untok(fo["tb"]) else "."
            if not (tb == B or B == "/" or tb.startswith(B + "/")):
                bad = "ToBasePath(%r) = %r is outside of %r" % (untok(f[3]), untok(fo["tb"]), B)
        if bad:
            ctx.violation("bpstr", "C10 fails on a concrete input: %s (%d disagreeing inputs in this run)" % (bad, len(mm)),
                          {"stream": STR, "case": c, "model": m, "observed": o, "failure": bad})
            return
    i, c, m, o = mm[0]
    ctx.broken("correspondence:bpstr", "the translation functions and the model disagree on %d inputs, none of which escapes or panics by itself" % len(mm),
               json.dumps({"case": c, "model": m, "observed": o})[:3000])
    search_concrete(ctx, "correspondence bpstr broken")


def coq_str(b):
    return "[" + "; ".join(str(x) for x in b) + "]%N"


def coq_opt(tokv):
    if tokv == "PANIC":
        return "None"
    return "Some " + coq_str(bytes.fromhex(tokv[1:]))


def extraction_crosscheck(ctx, n):
    """Re-evaluate, inside Coq (vm_compute), a sample of the very cases the extracted OCaml model answered
    in this run; a difference between Coq's evaluation and the extracted code fails the check."""
    from .. import COQ
    cases = open(os.path.join(ctx.dir, "bpstr.cases")).read().splitlines()
    model = open(os.path.join(ctx.dir, "bpstr.model")).read().splitlines()
    if not cases:
        return
    step = max(1, len(cases) // n)
    rows = []
    for i in range(0, len(cases), step):
        f = cases[i].split()
        mo = dict(x.split("=", 1) for x in model[i].split())
        B, cwd, p = (bytes.fromhex(t[1:]) for t in f[1:4])
        rows.append("(%s, %s, %s, %s, %s, %s)" % (coq_str(B), coq_str(cwd), coq_str(p), coq_opt(mo["tb"]), coq_opt(mo["fb"]), coq_opt(mo["wd"])))
    vf = os.path.join(ctx.dir, "CrossC10.v")
    with open(vf, "w") as f:
        f.write("From Avfs Require Import Base PathModel BasePath.\n"
                "Definition rows : list (str * str * str * option str * option str * option str) := [\n  "
                + ";\n  ".join(rows) + "].\n"
                "Definition row_ok (r : str * str * str * option str * option str * option str) : bool :=\n"
                "  let '(b0, cwd, p, tb, fb, wd) := r in\n"
                "  let b := abs Linux [SLASH] b0 in   (* NewWithErr: basePath = baseFS.Abs(given) *)\n"
                "  opt_eqb str_eqb (to_base_path Linux b cwd p) tb && opt_eqb str_eqb (from_base_path Linux b p) fb\n"
                "  && opt_eqb str_eqb (bp_getwd Linux b cwd) wd.\n"
                "Goal forallb row_ok rows = true. Proof. vm_compute. reflexivity. Qed.\n")
    rc, out = sh(["timeout", "600", "coqc", "-Q", os.path.join(COQ, "theories"), "Avfs", vf], cwd=ctx.dir, timeout=700)
    ctx.coverage["extraction_crosscheck"] = {"cases_reevaluated_in_coq": len(rows), "agree": rc == 0}
    if rc != 0:
        ctx.broken("extraction-crosscheck", "Coq's own evaluation of the model differs from the extracted OCaml code on sampled cases of this run", out[-2000:])


def diagnose_table(ctx):
    """Name the table entries that make C10_table unprovable (for the replay file of the broken obligation)."""
    from .. import COQ
    try:
        src = open(os.path.join(COQ, "theories", "BasePath", "Gen_basepath.v")).read()
    except OSError:
        return
    sus = []
    for m in re.finditer(r'm_recv := "(\w*)"; m_name := "(\w+)";.*?m_shape := (.*?) \|\}', src, flags=re.S):
        recv, name, shape = m.groups()
        allowed = (recv, name) in {("BasePathFS", "SetIdm"), ("BasePathFS", "SetUMask"), ("BasePathFS", "SetUser"),
                                   ("BasePathFS", "SetUserByName"), ("BasePathFS", "Name"), ("BasePathFile", "Readdirnames")}
        if allowed and not re.search(r"Unknown|RStrPanicky", shape):
            continue   # allow-listed raw results (BasePathTable.raw_result_allowed / raw_string_allowed)
        if re.search(r'Unknown|RStrPanicky|RErrRaw|RStrRaw|ARaw "\w+" true', shape):
            sus.append("%s.%s: %s" % (recv, name, " ".join(shape.split())[:200]))
    gp = dict((n, pr) for (n, pr) in re.findall(r'm_name := "(FromBasePath|fromBasePath)";.*?m_shape := Guarded "([^"]*)"', src, flags=re.S))
    if len(gp) != 2 or gp.get("FromBasePath") != gp.get("fromBasePath"):
        sus.append("guards_consistent: FromBasePath panics unless %r, fromBasePath translates unless %r - they must be the same predicate" % (gp.get("FromBasePath"), gp.get("fromBasePath")))
    fns = re.search(r"generic_fns.*?:=\s*\[(.*?)\]\.", src, flags=re.S)
    if fns:
        sus += ["generic function avfs.%s reaches a file system other than through its vfs parameter (or is not generic)" % n
                for n in re.findall(r'\("(\w+)", false\)', fns.group(1))]
    for v in ctx.violations:
        if not v.found_input:
            try:
                o = json.load(open(v.replay))
                o["theorem"] = "C10_table (Properties/C10.v) / BasePathTableProofs.table_checks, if the first failing file is BasePathTableProofs.v"
                o["table_entries_to_look_at"] = sus
                json.dump(o, open(v.replay, "w"), indent=1)
            except Exception:
                pass


def check_C10(ctx):
    cov = ctx.coverage
    cov["theorem_status"] = {"proved_for_all_inputs": PROVED, "partial": PARTIAL, "refuted_on_pinned_code": REFUTED_ON_PINNED}
    cov["trusted_base"] += [
        "lib/vcheck/bpgen.py: python translator of vfs/basepathfs/*.go and of the generic avfs functions into Gen_basepath.v (fails closed: unrecognised shape -> Unknown -> C10_table unprovable)",
        "C10_chroot_partial assumes H_cwd/H_step about the (base, standalone) pair (Section hypotheses); they are exercised by the lock-step run, not proved for MemFS/OrefaFS",
        "POSIX flavour only: the theorems are stated for ostype Linux; the Windows flavour of BasePathFS is not covered",
        "reference comparison is modulo Abs in the virtual namespace for error paths / File.Name (the wrapper canonicalises names); calls with an empty name, calls on the virtual root by Remove/RemoveAll/Rename/Link and symlink calls have no reference outcome (MemFS quirks / refused by design), see design.d/C10.md",
    ]
    ok = ctx.proofs()
    if ok:
        check_stream_str(ctx)
        check_stream_fs(ctx)
        cov["exhaustive"] = not ctx.violations
        if not ctx.violations:
            extraction_crosscheck(ctx, 1500 if ctx.tier == "thorough" else 150)
    else:
        # the Coq side no longer checks (e.g. the regenerated table has an unsafe or unknown shape):
        # search the implementation for a concrete failing input
        diagnose_table(ctx)
        search_concrete(ctx, "proof obligation broken (Coq build)")
    known_findings(ctx)


CHECKS["C10"] = check_C10
