"""Check of property C15."""
from ..props import CHECKS, report_mismatches


def check_C15(ctx):
    ctx.proofs()
    st = {"name": "idm", "harness": "idm", "driver": "idm"}
    mm = ctx.stream("idm", "idm", "idm")
    if mm is None:
        return
    report_mismatches(ctx, mm, st, "MemIdm answers differ from the two-list reference (model proved equal to it, theorem C15_refine) on %d generated histories")


CHECKS["C15"] = check_C15
