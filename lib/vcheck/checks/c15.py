"""Check of property C15: sequential stream `idm` + concurrent exploration `concidm` (overlay scheduler)."""
import json, os
from ..props import CHECKS, REPLAYERS, report_mismatches

CONC_STREAM = {"name": "concidm", "harness": "concidm", "driver": "concidm", "overlay": True}
CORPUS = "C15-concidm-regression.cases"   # former AddUser/DelGroup window witnesses + the C15-m2 witness: must be clean now


def load_findings(ctx, name):
    p = os.path.join(ctx.dir, name + ".findings.jsonl")
    return [json.loads(l) for l in open(p) if l.strip()] if os.path.exists(p) else []


WHAT = {"nonlin": "results + final maps equal to no sequential order of the same calls",
        "inconsistent": "the four maps of MemIdm disagree after the execution",
        "deadlock": "every live goroutine waits for a held lock",
        "panic": "a call panicked under this interleaving"}


def _report(ctx, name, fs, where):
    fs = sorted(fs, key=lambda f: (sum(len(t) for t in f["calls"]), f["steps"], f["sig"]))
    for f in fs[:3]:
        ctx.violation(name + "-" + f["kind"], "MemIdm%s: %s [%s | %d executions]%s" % (
            where, WHAT[f["kind"]], f["program"], f["count"], (" - " + f["detail"]) if f.get("detail") else ""),
            {"engine": "concidm", "conc_stream": CONC_STREAM, "case": f["case"], "observed": f["observed"], "kind": f["kind"],
             "sequential_outcomes": f.get("sequential_outcomes"), "deviating_signatures_in_run": len(fs)})


def _tie(ctx, mm, where):
    for (i, c, m, o) in mm[:2]:
        ctx.violation("concidm-tie", "the instrumented MemIdm and the extracted model MemIdm.crun disagree%s (same program, same schedule: results, "
                      "lock of every critical section of every call, or final maps differ) on %d executions" % (where, len(mm)),
                      {"engine": "concidm", "conc_stream": CONC_STREAM, "case": c, "model": m, "observed": o, "mismatching_cases_in_run": len(mm)})


def concurrent_part(ctx):
    """No deviation is a known finding any more (AddUser repaired): every non-linearizable outcome, inconsistent
    map state, deadlock or panic is a VIOLATION with program + schedule as replay."""
    from .. import overlay, ROOT
    corpus = [l.strip() for l in open(os.path.join(ROOT, "corpus", CORPUS)) if l.strip()]
    mm = overlay.stream(ctx, "concidm-corpus", "concidm", "concidm", replay_lines=corpus)
    if mm is None:
        return
    _tie(ctx, mm, " on the regression corpus")
    _report(ctx, "concidm-corpus", load_findings(ctx, "concidm-corpus"), " (regression corpus corpus/%s)" % CORPUS)
    mm = overlay.stream(ctx, "concidm", "concidm", "concidm")
    if mm is None:
        return
    _tie(ctx, mm, "")
    _report(ctx, "concidm", load_findings(ctx, "concidm"), "")
    ctx.coverage["regression_corpus_cases"] = len(corpus)
    ctx.coverage["trusted_base"] += [
        "overlay instrumentation (lib/vcheck/overlay.py, fails closed) and the deterministic scheduler harness/sched; granularity: a critical section is atomic (sound under the lock discipline of C08)"]


def check_C15(ctx):
    ctx.proofs()
    st = {"name": "idm", "harness": "idm", "driver": "idm"}
    mm = ctx.stream("idm", "idm", "idm")
    if mm is None:
        return
    report_mismatches(ctx, mm, st, "MemIdm answers differ from the two-list reference (model proved equal to it, theorem C15_refine) on %d generated histories")
    # the same on a Windows-typed MemIdm (administrator names ContainerAdministrator / Administrators): build with the OS-type tag
    stw = {"name": "idmwin", "harness": "idmwin", "driver": "idm", "tags": "avfs_setostype"}
    mmw = ctx.stream("idmwin", "idmwin", "idm", tags="avfs_setostype")
    if mmw is None:
        return
    report_mismatches(ctx, mmw, stw, "a Windows-typed MemIdm (-tags avfs_setostype) answers differently from the two-list reference on %d generated histories")
    concurrent_part(ctx)


def replay_C15(ctx, obj):
    from .. import overlay
    mm = overlay.stream(ctx, "concidm-replay", "concidm", "concidm", replay_lines=[obj["case"]])
    if mm is None:
        return ctx.finish(write_evidence=False)
    bad = False
    for (i, c, m, o) in mm:
        print("replay: implementation and model differ\n case:     %s\n model:    %s\n observed: %s" % (c, m, o))
        ctx.violation("replay", obj.get("what", "replayed case still fails"), dict(obj, model=m, observed=o))
        bad = True
    for f in load_findings(ctx, "concidm-replay"):
        print("replay: %s: %s" % (f["kind"], f["observed"].split(" | ")[1]))
        ctx.violation("replay", obj.get("what", "replayed case still fails"), dict(obj, observed=f["observed"]))
        bad = True
    if not bad:
        print("replay: no deviation on this case now (linearizable, maps consistent, model and implementation agree)")
    return ctx.finish(write_evidence=False)


CHECKS["C15"] = check_C15
REPLAYERS["C15"] = replay_C15
