"""Check of property C15: sequential stream `idm` + concurrent exploration `concidm` (overlay scheduler)."""
import json, os
from ..props import CHECKS, REPLAYERS, report_mismatches

CONC_STREAM = {"name": "concidm", "harness": "concidm", "driver": "concidm", "overlay": True}
KF_WINDOW = "C15-adduser-delgroup-window"


def classify(f):
    """A non-linearizable outcome is the known AddUser/DelGroup window iff: a thread's AddUser x g got past its
    group look-up (did not answer UnknownGroup) while ANOTHER thread ran DelGroup g successfully and a call on the
    same user name x ran outside the AddUser's thread - later in the DelGroup thread's program, or in a third
    thread (it can then sit, in real time, between DelGroup and the second section of that AddUser)."""
    if f["kind"] != "nonlin":
        return None
    calls = f["calls"]
    for i, ti in enumerate(calls):
        for a in ti:
            if a["op"] != "AU" or a["res"].startswith("E UG"):
                continue
            x, g = a["args"][0], a["args"][1]
            for j, tj in enumerate(calls):
                if j == i:
                    continue
                for k, b in enumerate(tj):
                    if b["op"] == "DG" and b["args"][0] == g and b["res"] == "NIL":
                        if any(c["op"] in ("DU", "LU", "AU") and c["args"][0] == x for c in tj[k + 1:]):
                            return KF_WINDOW
                        for m, tm in enumerate(calls):
                            if m not in (i, j) and any(c["op"] in ("DU", "LU", "AU") and c["args"][0] == x for c in tm):
                                return KF_WINDOW
    return None


def load_findings(ctx, name):
    p = os.path.join(ctx.dir, name + ".findings.jsonl")
    return [json.loads(l) for l in open(p) if l.strip()] if os.path.exists(p) else []


WHAT = {"nonlin": "results + final maps equal to no sequential order of the same calls",
        "inconsistent": "the four maps of MemIdm disagree after the execution",
        "deadlock": "every live goroutine waits for a held lock",
        "panic": "a call panicked under this interleaving"}


def concurrent_part(ctx):
    from .. import overlay
    kf = {k["id"]: k for k in ctx.kf}
    reproduced = set()
    wit = [(k["id"], k["witness"]["case"]) for k in ctx.kf if isinstance(k.get("witness"), dict) and k["witness"].get("engine") == "concidm"]
    if wit:
        mm = overlay.stream(ctx, "concidm-witness", "concidm", "concidm", replay_lines=[c for _, c in wit])
        if mm is None:
            return
        for f in load_findings(ctx, "concidm-witness"):
            kid = classify(f)
            if kid in kf:
                reproduced.add(kid)
    mm = overlay.stream(ctx, "concidm", "concidm", "concidm")
    if mm is None:
        return
    for (i, c, m, o) in mm[:2]:
        ctx.violation("concidm-tie", "the instrumented MemIdm and the extracted model MemIdm.crun disagree (same program, same schedule: results, "
                      "lock trace per call = section structure, or final maps differ) on %d explored executions" % len(mm),
                      {"engine": "concidm", "conc_stream": CONC_STREAM, "case": c, "model": m, "observed": o, "mismatching_cases_in_run": len(mm)})
    un, classes = [], {}
    for f in load_findings(ctx, "concidm"):
        kid = classify(f)
        if kid is None or kid not in kf:
            un.append(f)
        else:
            reproduced.add(kid)
            classes.setdefault(kid, {"executions": 0, "signatures": 0})
            classes[kid]["executions"] += f["count"]
            classes[kid]["signatures"] += 1
    un.sort(key=lambda f: (sum(len(t) for t in f["calls"]), f["steps"], f["sig"]))
    for f in un[:3]:
        ctx.violation("concidm-" + f["kind"], "MemIdm: %s; not the listed AddUser/DelGroup window [%s | %d executions]%s" % (
            WHAT[f["kind"]], f["program"], f["count"], (" - " + f["detail"]) if f.get("detail") else ""),
            {"engine": "concidm", "conc_stream": CONC_STREAM, "case": f["case"], "observed": f["observed"], "kind": f["kind"],
             "sequential_outcomes": f.get("sequential_outcomes"), "unclassified_signatures_in_run": len(un)})
    for kid in sorted(reproduced):
        ctx.known_finding(kid, kf[kid]["what"])
    ctx.coverage["known_finding_classes"] = classes
    ctx.coverage["trusted_base"] += [
        "overlay instrumentation (lib/vcheck/overlay.py, fails closed) and the deterministic scheduler harness/sched; granularity: a critical section is atomic (sound under the lock discipline of C08)"]


def check_C15(ctx):
    ctx.proofs()
    st = {"name": "idm", "harness": "idm", "driver": "idm"}
    mm = ctx.stream("idm", "idm", "idm")
    if mm is None:
        return
    report_mismatches(ctx, mm, st, "MemIdm answers differ from the two-list reference (model proved equal to it, theorem C15_refine) on %d generated histories")
    concurrent_part(ctx)


def replay_C15(ctx, obj):
    from .. import overlay
    mm = overlay.stream(ctx, "concidm-replay", "concidm", "concidm", replay_lines=[obj["case"]])
    if mm is None:
        return ctx.finish(write_evidence=False)
    bad = False
    for (i, c, m, o) in mm:
        print("replay: implementation and model differ\n case:     %s\n model:    %s\n observed: %s" % (c, m, o))
        ctx.violation("replay", obj.get("what", "replayed case still fails"), dict(obj, model=m, observed=o))
        bad = True
    kf = {k["id"] for k in ctx.kf}
    for f in load_findings(ctx, "concidm-replay"):
        kid = classify(f)
        print("replay: %s: %s -> %s" % (f["kind"], f["observed"].split(" | ")[1], kid or "no known-finding class"))
        if kid is None or kid not in kf:
            ctx.violation("replay", obj.get("what", "replayed case still fails"), dict(obj, observed=f["observed"]))
            bad = True
    if not bad:
        print("replay: no unlisted deviation on this case now")
    return ctx.finish(write_evidence=False)


CHECKS["C15"] = check_C15
REPLAYERS["C15"] = replay_C15
