"""Check of property C07 (every call returns: no deadlock, hang or panic).

concurrent_part: deadlocks / panics over the schedule enumeration of C06 (overlay scheduler).
SEQUENTIAL_PARTS: callables fn(ctx) run after it (adversarial sequential arguments, totality
streams) - appended by the module that owns the sequential part."""
from ..props import CHECKS, REPLAYERS
from .. import conccheck

KINDS = ("deadlock", "panic")
SEQUENTIAL_PARTS = []


def concurrent_part(ctx):
    from .. import overlay
    # the lock programs used by the OrefaFS refutations are those of the code
    mm = overlay.stream(ctx, "lockprog", "lockprog", "lockprog")
    if mm is None:
        return
    for (i, c, m, o) in mm[:2]:
        ctx.violation("lockprog", "the acquire/release sequence of a call run alone differs from its entry in the lock-program table of Conc/LockProg.v (%d entries differ): the C07_refuted_orefa_* witnesses no longer speak about this code" % len(mm),
                      {"conc_stream": {"name": "lockprog", "harness": "lockprog", "driver": "lockprog", "overlay": True}, "engine": "conc-lockprog", "case": c, "model": m, "observed": o})
    conccheck.run(ctx, KINDS)


def check_C07(ctx):
    ctx.level = "proof"
    ctx.coverage["level_claimed"] = {
        "text": "PARTIAL (concurrent part): proved: C07_order, C07_order_reachable (generic), C07_finished_hold_nothing, "
                "C07_excl_calls_never_deadlock, C07_traces, C07_rename_free_never_deadlocks (MemFS machines, no Rename); "
                "refuted: C07_refuted_rename_rename, C07_refuted_orefa_*; deadlocks/panics of programs with Rename and of "
                "OrefaFS are found by exploration of the real code (bounded schedules), not excluded by proof"}
    ctx.proofs()
    concurrent_part(ctx)
    for part in SEQUENTIAL_PARTS:
        part(ctx)


def replay_C07(ctx, obj):
    return conccheck.replay(ctx, obj, KINDS)


CHECKS["C07"] = check_C07
REPLAYERS["C07"] = replay_C07
