"""Check of property C07 (every call returns: no deadlock, hang or panic).

concurrent_part: deadlocks / panics over the schedule enumeration of C06 (overlay scheduler).
SEQUENTIAL_PARTS: callables fn(ctx) run after it (adversarial sequential arguments, totality
streams) - appended by the module that owns the sequential part."""
from ..props import CHECKS
from .. import conccheck

KINDS = ("deadlock", "panic")
SEQUENTIAL_PARTS = []


def concurrent_part(ctx):
    conccheck.run(ctx, KINDS)


def check_C07(ctx):
    ctx.level = "proof"
    ctx.coverage["level_claimed"] = {
        "text": "PARTIAL (concurrent part): proved: C07_order, C07_order_reachable (generic), C07_finished_hold_nothing, "
                "C07_excl_calls_never_deadlock; refuted: C07_refuted_rename_rename; other deadlocks/panics are found by "
                "exploration of the real code (bounded schedules), not excluded by proof"}
    ctx.proofs()
    concurrent_part(ctx)
    for part in SEQUENTIAL_PARTS:
        part(ctx)


def replay_C07(ctx, obj):
    return conccheck.replay(ctx, obj, KINDS)


CHECKS["C07"] = check_C07
