"""Check of property C07 (every call returns: no deadlock, hang or panic).

concurrent_part: deadlocks / panics over the schedule enumeration of C06 (overlay scheduler).
SEQUENTIAL_PARTS: callables fn(ctx) run after it (adversarial sequential arguments, totality
streams) - appended by the module that owns the sequential part."""
from ..props import CHECKS, REPLAYERS
from .. import conccheck

KINDS = ("deadlock", "panic")
SEQUENTIAL_PARTS = []


def concurrent_part(ctx):
    if not conccheck.lockprog(ctx):
        return
    conccheck.run(ctx, KINDS)


SEQ_STREAMS = (
    ("fs", "MemFS", "C07_memfs_total (pending) / the world model of Fs/World.v"),
    ("orefa", "OrefaFS", "C07_orefa_total, C07_orefa_run (Fs/OrefaTotal.v)"),
)


def _first_bad_step(observed):
    for k, r in enumerate(observed.split(" | ")):
        toks = r.split()
        if "PANIC" in toks or "DEADLOCK" in toks or r.strip() in ("PANIC", "DEADLOCK"):
            return k, r.strip()
    return None


def sequential_streams(ctx):
    """The histories of the `fs` (MemFS) and `orefa` (OrefaFS) world streams, adversarial arguments included:
    (1) implementation and model must agree (the totality theorems are about the model), (2) no call of the
    IMPLEMENTATION may panic or fail to return (PANIC / DEADLOCK outcome): the history up to that call is the replay."""
    import os
    from ..props import report_mismatches
    for name, what, thm in SEQ_STREAMS:
        st = {"name": name, "harness": name, "driver": name}
        mm = ctx.stream(name, name, name)
        if mm is None:
            return
        report_mismatches(ctx, mm, st, what + " differs from its model (%s are statements about that model) on %%d histories" % thm)
        bad = []
        with open(os.path.join(ctx.dir, name + ".cases")) as fc, open(os.path.join(ctx.dir, name + ".observed")) as fo:
            for c, o in zip(fc, fo):
                hit = _first_bad_step(o.rstrip("\n"))
                if hit:
                    parts = c.rstrip("\n").split(" | ")
                    bad.append((len(parts), " | ".join(parts[:hit[0] + 2]), hit[1]))
        ctx.coverage.setdefault("sequential_outcomes", {})[name] = {"histories_with_panic_or_deadlock": len(bad)}
        bad.sort()
        for (_, case, res) in bad[:2]:
            ctx.violation("seq-" + name, "%s: a call of a sequential history did not return normally (%s) - %d such histories in this run" % (what, res, len(bad)),
                          {"engine": "c07-seq", "seq_stream": st, "case": case, "outcome": res})


SEQUENTIAL_PARTS.append(sequential_streams)


def sequential_corpus(ctx):
    """Fixed witness histories (corpus/fs-witness.cases): model agreement, and no PANIC/DEADLOCK outcome."""
    import os
    from .c01 import fs_corpus_part
    fs_corpus_part(ctx)
    for name in ("fs-corpus", "orefa-corpus"):
        fo = os.path.join(ctx.dir, name + ".observed")
        fc = os.path.join(ctx.dir, name + ".cases")
        if not os.path.exists(fo):
            continue
        for c, o in zip(open(fc), open(fo)):
            hit = _first_bad_step(o.rstrip("\n"))
            if hit:
                parts = c.rstrip("\n").split(" | ")
                ctx.violation("seq-" + name, "a call of a fixed witness history did not return normally (%s)" % hit[1],
                              {"engine": "c07-seq", "seq_stream": {"name": name, "harness": name.split("-")[0], "driver": name.split("-")[0]},
                               "case": " | ".join(parts[:hit[0] + 2]), "outcome": hit[1]})


SEQUENTIAL_PARTS.append(sequential_corpus)


def adversarial_arguments(ctx):
    """Implementation-only smoke run with extreme arguments on every file system type and the identity manager
    (harness command `advers`): every call must return (no panic, no hang, no fatal runtime error)."""
    import json, os
    from .. import build_go, sh, GOENV
    ok, out, binp = build_go("")
    if not ok:
        ctx.broken("harness-build", "the Go harness does not build against /repo's working tree", out[-3000:])
        return
    rc, out = sh("ulimit -v 16000000; %s advers -out %s -name advers" % (binp, ctx.dir), cwd=ctx.dir, env=GOENV, timeout=900)
    res = {}
    try:
        res = json.load(open(os.path.join(ctx.dir, "advers.advers.json")))
    except Exception:
        pass
    fails = res.get("failures") or []
    ctx.coverage.setdefault("sequential_outcomes", {})["adversarial"] = {"calls_groups": res.get("cases", 0), "failures": len(fails), "exit": rc}
    ctx.coverage["evaluations"] += res.get("cases", 0)
    if rc != 0 or fails:
        what = "a call with extreme arguments panicked, did not return or crashed the process: %s" % (fails[:2] if fails else out[-300:])
        ctx.violation("seq-advers", what, {"engine": "c07-advers", "failures": fails, "exit": rc, "log": out[-2000:],
                                           "replay": "harness/bin/avfscheck-base advers -out <dir> -name advers"})


SEQUENTIAL_PARTS.append(adversarial_arguments)


def check_C07(ctx):
    ctx.level = "proof"
    ctx.coverage["level_claimed"] = {
        "text": "PARTIAL. Sequential: proved C07_orefa_total, C07_orefa_run (OrefaFS model); MemFS totality theorem pending, "
                "its model is only tied and observed (fs stream: no PANIC/DEADLOCK outcome of the implementation). Concurrent: proved: C07_order, C07_order_reachable (generic), C07_finished_hold_nothing, "
                "C07_excl_calls_never_deadlock, C07_traces, C07_rename_free_never_deadlocks (MemFS machines, no Rename); "
                "refuted: C07_refuted_rename_rename, C07_refuted_orefa_*; deadlocks/panics of programs with Rename and of "
                "OrefaFS are found by exploration of the real code (bounded schedules), not excluded by proof"}
    ctx.proofs()
    concurrent_part(ctx)
    for part in SEQUENTIAL_PARTS:
        part(ctx)


def replay_C07(ctx, obj):
    if obj.get("engine") == "c07-seq":
        import os
        st = obj["seq_stream"]
        mm = ctx.stream(st["name"] + "-replay", st["harness"], st["driver"], replay_lines=[obj["case"]])
        if mm is None:
            return ctx.finish(write_evidence=False)
        o = open(os.path.join(ctx.dir, st["name"] + "-replay.observed")).read().strip()
        hit = _first_bad_step(o)
        if hit:
            print("replay: step %d still ends in %s" % hit)
            ctx.violation("replay", obj.get("what", "replayed history still fails"), dict(obj, observed=o))
        elif mm:
            print("replay: every call returns, but implementation and model differ\n model:    %s\n observed: %s" % (mm[0][2], mm[0][3]))
            ctx.violation("replay", "implementation and model differ on the replayed history", dict(obj, model=mm[0][2], observed=mm[0][3]))
        else:
            print("replay: every call of the history returns now; implementation and model agree")
        return ctx.finish(write_evidence=False)
    return conccheck.replay(ctx, obj, KINDS)


CHECKS["C07"] = check_C07
REPLAYERS["C07"] = replay_C07
