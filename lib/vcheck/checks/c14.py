"""Check of property C14: Glob, WalkDir and ReadDir enumerate exactly what exists.

1. proofs: Properties/C14.v (readdir, walk = Go's walk for every callback policy, walk_all, glob = Go's glob, helpers).
2. stream walkglob  (A): avfs on MemFS / RoFS / FailFS / BasePathFS / OrefaFS versus the extracted model of the avfs code.
3. stream walkglobos: avfs over OsFS and RoFS / FailFS / BasePathFS over OsFS in the chroot (directories listed unsorted by
   the kernel) versus the host's functions and versus the model of vfs.go, whose ReadDir sorts any listing order.
4. stream walkglobo (B/O): the same trees materialised in a chroot on tmpfs, filepath.WalkDir / filepath.Glob /
   os.ReadDir there (oracle) versus avfs on MemFS (O) and versus the Go reference algorithms over the Linux
   specification model (B); A once more on those cases.
Every case line carries many queries; a differing line is reduced to its first differing query and the tree-building
history is shrunk before it is reported.
"""
import os
from ..props import CHECKS
from .. import ML, sh, build_coq, build_ml, build_go, GOENV


def _queries(case):
    parts = case.split(" | ")
    hd = parts[0]
    ops = [p for p in parts[1:] if not p.startswith("Q ")]
    qs = [p for p in parts[1:] if p.startswith("Q ")]
    return hd, ops, qs


def _first_diff(case, a, b):
    """(query, a-result, b-result) of the first differing query of a line, or None."""
    hd, ops, qs = _queries(case)
    ra, rb = a.split(" | "), b.split(" | ")
    for k, q in enumerate(qs):
        x = ra[k] if k < len(ra) else "<none>"
        y = rb[k] if k < len(rb) else "<none>"
        if x != y:
            return q, x, y
    if len(ra) != len(rb):
        return "<line>", a[:200], b[:200]
    return None


def _is_orefa_root(case, q, model, observed):
    """The OrefaFS root directory is not found by Stat/Lstat/OpenFile (node map key "" instead of "/")."""
    return case.startswith("orefafs ")


def _run_case(ctx, stream, case, binp):
    """Execute one case line through the harness (replay) and the driver; returns (model, observed) or None."""
    name = stream["name"] + "-shrink"
    rf = os.path.join(ctx.dir, name + ".replayin")
    with open(rf, "w") as f:
        f.write(case + "\n")
    rc, out = sh([binp, stream["harness"], "-seed", str(ctx.seed), "-tier", ctx.tier, "-out", ctx.dir, "-name", name, "-replay", rf],
                 cwd=ctx.dir, env=GOENV, timeout=120)
    if rc != 0:
        return None
    base = os.path.join(ctx.dir, name)
    rc, out = sh("%s/driver %s < %s.cases > %s.model" % (ML, stream["driver"], base, base), timeout=120)
    if rc != 0:
        return None
    m = open(base + ".model").read().rstrip("\n")
    o = open(base + ".observed").read().rstrip("\n")
    return m, o


def _shrink(ctx, stream, hd, ops, q, binp):
    """Greedy removal of tree-building operations (chunks, then single operations) while the query still differs.
    Runs the already built harness and driver directly: a step costs a few tens of milliseconds."""
    def bad(ops_):
        r = _run_case(ctx, stream, " | ".join([hd] + ops_ + [q]), binp)
        return r is not None and r[0] != r[1] and "INVALID" not in r[1] and "BUILDFAILED" not in r[1]
    if not bad(ops):
        return ops
    chunk = max(1, len(ops) // 2)
    budget = 400
    while chunk >= 1 and budget > 0:
        i = 0
        while i < len(ops) and budget > 0:
            cand = ops[:i] + ops[i + chunk:]
            budget -= 1
            if bad(cand):
                ops = cand
            else:
                i += chunk
        chunk //= 2
    return ops


def _report(ctx, stream, mm, what, classify=None):
    """Reduce mismatching lines to single-query cases, shrink the history and report (at most 2 violations per stream)."""
    seen = 0
    kinds = {}
    ok, out, binp = build_go(stream.get("tags", ""))
    for (i, c, m, o) in mm:
        d = _first_diff(c, m, o)
        if d is None:
            continue
        q, x, y = d
        hd, ops, qs = _queries(c)
        kf = classify(c, q, x, y) if classify else None
        if kf:
            kinds.setdefault(kf, (hd, ops, q, x, y))
            continue
        seen += 1
        if seen > 2:
            break
        if q.startswith("Q ") and ok:
            ops = _shrink(ctx, stream, hd, ops, q, binp)
            case = " | ".join([hd] + ops + [q])
            r = _run_case(ctx, stream, case, binp)
            if r is not None and r[0] != r[1]:
                x, y = r
        else:
            case = c
        ctx.violation(stream["name"], what % len(mm), {"stream": stream, "case": case, "query": q, "model": x, "observed": y,
                                                     "mismatching_lines_in_run": len(mm)})
    return kinds


def _oracle_streams(ctx, name, harness_cmd="walkglobo"):
    # only the model files are needed; another property's broken obligation must not raise an alarm for this one
    build_coq(target="theories/Extract/Extract.vo")
    ok, out = build_ml()
    if not ok:
        ctx.broken("model-build", "extraction / OCaml build of the model failed", out[-3000:])
        return None
    ok, out, binp = build_go("")
    if not ok:
        ctx.broken("harness-build", "the Go harness does not build against /repo's working tree", out[-3000:])
        return None
    rc, out = sh([binp, harness_cmd, "-seed", str(ctx.seed), "-tier", ctx.tier, "-out", ctx.dir, "-name", name], cwd=ctx.dir, env=GOENV, timeout=3000)
    if rc != 0:
        ctx.broken("harness-run:" + name, "the oracle harness failed (rc=%d)" % rc, out[-3000:])
        return None
    base = os.path.join(ctx.dir, name)
    for drv, ext in (("walkglob", ".model"), ("walkglobref", ".ref")):
        rc, out = sh("%s/driver %s < %s.cases > %s%s" % (ML, drv, base, base, ext), timeout=3000)
        if rc != 0:
            ctx.broken("model-run:" + name, "the model driver (%s) failed" % drv, out[-3000:])
            return None
    rd = lambda ext: open(base + ext).read().splitlines()
    return rd(".cases"), rd(".observed"), rd(".oracle"), rd(".model"), rd(".ref")


def _drop_helpers(line_case, line):
    return line


PARTIAL = {
    "C14_walk_all_partial": "root restricted to a clean absolute path resolving through searchable real directories (relative, unclean and symlinked spellings of the root: C14_walk + correspondence only)",
    "C14_walk_all_admin_partial": "same restriction on the root",
}


def _corpus_lines():
    d = os.path.join(os.path.dirname(ML), "corpus", "C14")
    out = []
    if os.path.isdir(d):
        for f in sorted(os.listdir(d)):
            if f.endswith(".cases"):
                out += [l for l in open(os.path.join(d, f)).read().splitlines() if l.strip()]
    return out


def check_C14(ctx):
    ctx.proofs()
    names = ctx.coverage.get("theorems", [])
    ctx.coverage["theorem_status"] = {
        "proved": [n for n in names if n not in PARTIAL and not n.endswith("_refuted")],
        "partial": {n: PARTIAL[n] for n in names if n in PARTIAL},
        "refuted_for_pinned_code": [n for n in names if n.endswith("_refuted")],
    }
    ctx.coverage["trusted_base"] += [
        "Coq models Fs/Walk.v, Fs/Glob.v (hand translations of vfs.go WalkDir/walkDir/Glob/glob/cleanGlobPath/hasMeta, vfs_aferoutils.go and of Go 1.23.5 path/filepath WalkDir/walkDir/Glob/glob), POSIX flavour only; callback = a deterministic policy that does not modify the file system",
        "the MemFS world model (MemFS.v/MemFile.v/World.v, tied by the fs stream) and the Linux specification model Posix.v (tied to the kernel by stream B of this check and by the fso stream) supply the primitives",
        "oracle: Linux tmpfs + Go 1.23.5 filepath.WalkDir / filepath.Glob / os.ReadDir in a chroot, acting identity set with setfsuid/setfsgid/setgroups; operands of the oracle stream are non-empty and lexically clean (C01's universe) and the mode/owner of '/' is left as created",
    ]
    # ---- the fixed witness corpus first (the two repaired WalkDir defects, unreadable / dangling / looping entries)
    st = {"name": "walkglob", "harness": "walkglob", "driver": "walkglob"}
    cl = _corpus_lines()
    if cl:
        mm = ctx.stream("walkglob-corpus", "walkglob", "walkglob", replay_lines=cl)
        if mm is None:
            return
        ctx.coverage["streams"]["walkglob-corpus"] = {"lines": len(cl), "mismatches": len(mm)}
        _report(ctx, st, mm, "WalkDir/Glob/ReadDir/helpers of avfs differ from the model of vfs.go on %d lines of the witness corpus (corpus/C14)")
        if ctx.violations:
            return      # the generated streams would only repeat it
    # ---- A: implementation versus the model of the implementation
    mm = ctx.stream("walkglob", "walkglob", "walkglob")
    if mm is None:
        return
    _report(ctx, st, mm, "WalkDir/Glob/ReadDir/helpers of avfs differ from the model of vfs.go (proved equal to Go's filepath.WalkDir/Glob algorithms on the same primitives, theorems C14_walk/C14_glob) on %d case lines")
    if ctx.violations:
        return
    if ctx.tier == "thorough":
        # the build with avfs' own path functions (Match, Join, Split, Clean of vfs_ostype_on.go)
        stt = {"name": "walkglob-tagged", "harness": "walkglob", "driver": "walkglob", "tags": "avfs_setostype"}
        mm = ctx.stream("walkglob-tagged", "walkglob", "walkglob", tags="avfs_setostype")
        if mm is None:
            return
        _report(ctx, stt, mm, "WalkDir/Glob/ReadDir/helpers of avfs built with -tags avfs_setostype differ from the model of vfs.go on %d case lines")
    # ---- B / O: the oracle
    r = _oracle_streams(ctx, "walkglobo")
    if r is None:
        return
    cases, obs, ora, mod, ref = r
    import json
    try:
        stt = json.load(open(os.path.join(ctx.dir, "walkglobo.stats.json")))
    except Exception:
        stt = {}
    ctx.coverage["evaluations"] += stt.get("evaluations", 0)
    ctx.coverage["distinct_nontrivial"] += stt.get("distinct_nontrivial", 0)
    if stt.get("rule"):
        ctx.coverage["rule"] += "; [walkglobo] " + stt["rule"]
    sto = {"name": "walkglobo", "harness": "walkglobo", "driver": "walkglobref"}
    sta = {"name": "walkglobo", "harness": "walkglobo", "driver": "walkglob"}
    A = [(i, c, m, o) for i, (c, m, o) in enumerate(zip(cases, mod, obs)) if m != o]
    B = [(i, c, m, o) for i, (c, m, o) in enumerate(zip(cases, ref, ora)) if m != o]
    O = [(i, c, m, o) for i, (c, m, o) in enumerate(zip(cases, ora, obs)) if m != o]
    ctx.coverage["streams"]["walkglobo"] = dict({k: v for k, v in stt.items() if k not in ("samples", "rule")},
                                                mismatches_A=len(A), mismatches_B=len(B), mismatches_O=len(O))
    if B:
        # the specification side disagrees with the real kernel / standard library: a defect of the machinery's
        # reference model, not of avfs
        i, c, m, o = B[0]
        d = _first_diff(c, m, o)
        ctx.broken("spec-vs-oracle:walkglobo", "the Go reference model over Posix.v disagrees with filepath.WalkDir/Glob/os.ReadDir in the chroot on %d case lines (machinery defect, not a finding); first: %r" % (len(B), d),
                   json.dumps({"case": c, "first_diff": d})[:3000])
    _report(ctx, sta, A, "avfs on MemFS differs from the model of vfs.go on %d case lines of the oracle stream")
    if not B and not A:
        _report(ctx, sto, O, "WalkDir/Glob/ReadDir of avfs on MemFS differ from filepath.WalkDir/filepath.Glob/os.ReadDir on the identical tree on tmpfs on %d case lines")


    if ctx.violations:
        return
    # ---- avfs over the REAL file system (OsFS and RoFS / FailFS / BasePathFS over it): directory order of the kernel
    r = _oracle_streams(ctx, "walkglobos", "walkglobos")
    if r is None:
        return
    cases, obs, ora, mod, ref = r
    try:
        stt = json.load(open(os.path.join(ctx.dir, "walkglobos.stats.json")))
    except Exception:
        stt = {}
    ctx.coverage["evaluations"] += stt.get("evaluations", 0)
    ctx.coverage["distinct_nontrivial"] += stt.get("distinct_nontrivial", 0)
    if stt.get("rule"):
        ctx.coverage["rule"] += "; [walkglobos] " + stt["rule"]
    A = [(i, c, m, o) for i, (c, m, o) in enumerate(zip(cases, mod, obs)) if m != o]
    B = [(i, c, m, o) for i, (c, m, o) in enumerate(zip(cases, mod, ora)) if m != o]
    O = [(i, c, m, o) for i, (c, m, o) in enumerate(zip(cases, ora, obs)) if m != o]
    unsorted = stt.get("distribution", {}).get("dirs-listed-unsorted-by-the-kernel", 0)
    ctx.coverage["streams"]["walkglobos"] = dict({k: v for k, v in stt.items() if k not in ("samples", "rule")},
                                                 mismatches_model_vs_avfs=len(A), mismatches_model_vs_host=len(B),
                                                 mismatches_host_vs_avfs=len(O), dirs_listed_unsorted_by_the_kernel=unsorted)
    if unsorted == 0:
        ctx.broken("vacuous:walkglobos", "no directory of the materialised trees was listed unsorted by the kernel: the stream cannot see a missing sort", json.dumps(stt.get("distribution", {}))[:2000])
    sos = {"name": "walkglobos", "harness": "walkglobos", "driver": "walkglob"}
    if B and not O:
        i, c, m, o = B[0]
        ctx.broken("model-vs-host:walkglobos", "the model of vfs.go over the MemFS model disagrees with filepath.WalkDir/Glob/os.ReadDir in the chroot on %d case lines while avfs over OsFS agrees with the host (machinery defect); first: %r" % (len(B), _first_diff(c, m, o)), json.dumps({"case": c})[:3000])
    _report(ctx, sos, A if A else [(i, c, m, o) for (i, c, m, o) in O],
            "ReadDir/WalkDir/Glob of avfs through OsFS / RoFS / FailFS / BasePathFS over the real file system differ from the model of vfs.go and from os.ReadDir / filepath.WalkDir / filepath.Glob in the same chroot on %d case lines")


CHECKS["C14"] = check_C14
