"""Check of property C04 (symbolic links resolve as in the kernel): proofs + the oracle stream in link-heavy mode
(incl. filepath.EvalSymlinks) + the link-budget witness corpus."""
from ..props import CHECKS
from .c01 import oracle_part, fs_part, corpus_part, fs_corpus_part


def check_C04(ctx):
    ctx.proofs()
    fs_part(ctx)
    fs_corpus_part(ctx)
    oracle_part(ctx, "sym", "fso-sym", "MemFS resolves symbolic links differently from Linux (key %s, %d histories) and the deviation is not a listed known finding")
    corpus_part(ctx, "C04-witness.cases", "fso-c04-corpus")


CHECKS["C04"] = check_C04
