"""Check of property C01 (and the shared machinery of C03, C04): proofs + model-vs-code stream (A) +
oracle stream (B: specification vs kernel, O: implementation vs kernel with keyed known findings)."""
import json, os, re
from ..props import CHECKS, report_mismatches
from .. import oracle, ROOT


def kf_match(kfs, key):
    for e in kfs:
        if re.search(e["key"], key):
            return e
    return None


def oracle_part(ctx, mode, name, a_what, fsname="memfs", driver_cmd="fso"):
    """Runs the oracle stream in [mode]; reports violations / known findings. Returns analysis or None."""
    r = oracle.run_streams(ctx, name, mode, fsname=fsname, driver_cmd=driver_cmd)
    if r is None:
        return None
    cases, obs, ora, mod = r
    a = oracle.analyse(cases, obs, ora, mod)
    st = {}
    try:
        st = json.load(open(os.path.join(ctx.dir, name + ".stats.json")))
    except Exception:
        pass
    cov = ctx.coverage
    cov["evaluations"] += a["steps"]
    cov["distinct_nontrivial"] += st.get("distinct_nontrivial", 0)
    cov["rule"] += ("; " if cov["rule"] else "") + "[%s] %s" % (name, st.get("rule", ""))
    cov["streams"][name] = {"histories": len(cases), "calls_compared": a["steps"], "impl_equals_kernel": a["agree"],
                            "spec_vs_kernel_differences": len(a["B"]),
                            "deviation_keys": {k: len(v) for k, v in a["O"].items()},
                            "distribution": st.get("distribution", {}), "kernel": st.get("kernel", {})}
    for s in st.get("samples", [])[:2]:
        cov["samples"].append({"stream": name, "case": s[:600]})
    # B: the specification must describe the kernel
    for (i, j, op, spec, kern) in a["B"][:2]:
        hist = " | ".join(cases[i].split(" | ")[:j + 2])
        p = ctx.replay_path("spec")
        json.dump({"property": ctx.prop, "broken": "correspondence B: specification model (Posix.v) vs Linux kernel",
                   "what": "the specification model and the kernel disagree", "case": hist, "step": j, "op": op,
                   "spec": spec, "kernel": kern, "seed": ctx.seed, "tier": ctx.tier,
                   "stream": {"name": name, "harness": "fso", "driver": "fso", "mode": mode}}, open(p, "w"), indent=1)
        from .. import Violation
        ctx.violations.append(Violation("correspondence B broken: the specification model does not describe what Linux did (%d cases)" % len(a["B"]), p, False))
    # O: every deviation of the implementation from the kernel must be a listed known finding
    for key, where in a["O"].items():
        e = kf_match(ctx.kf, key)
        i, j = where[0]
        hist = " | ".join(cases[i].split(" | ")[:j + 2])
        if e is not None:
            ctx.known_finding(e["id"], e["what"])
            continue
        ctx.violation(name, a_what % (key, len(where)),
                      {"stream": {"name": name, "harness": "fso", "driver": driver_cmd, "mode": mode, "fs": fsname}, "case": hist, "step": j,
                       "deviation_key": key, "implementation": obs[i].split(" | ")[j] if j < len(obs[i].split(" | ")) else "<none>",
                       "kernel": ora[i].split(" | ")[j], "occurrences_in_run": len(where)})
    # T: where implementation and kernel agree, the implementation MODEL must agree with the specification too
    okeys = {(i, j) for v in a["O"].values() for (i, j) in v}
    bad_t = [t for t in a["T"] if kf_match(ctx.kf, "%s:%s:" % (t[2].split()[0], t[3])) is None and (t[0], t[1]) not in okeys]
    cov["streams"][name]["model_vs_spec_disagreements_unclassified"] = len(bad_t)
    return a


def corpus_part(ctx, fname, name):
    """Fixed witness histories of the known findings outside the generated universe (O only)."""
    path = os.path.join(ROOT, "corpus", fname)
    if not os.path.exists(path):
        return
    lines = [l for l in open(path).read().splitlines() if l.strip()]
    from .. import build_go, sh, GOENV, ML
    ok, out, binp = build_go("")
    if not ok:
        return
    rf = os.path.join(ctx.dir, name + ".in")
    open(rf, "w").write("\n".join(lines) + "\n")
    rc, out = sh([binp, "fso", "-out", ctx.dir, "-name", name, "-replay", rf], cwd=ctx.dir, env=GOENV, timeout=600)
    if rc != 0:
        ctx.broken("harness-run:" + name, "the oracle harness failed on the witness corpus", out[-2000:])
        return
    base = os.path.join(ctx.dir, name)
    rc, out = sh("%s/driver fso < %s.cases > %s.model" % (ML, base, base), timeout=600)
    if rc != 0:
        ctx.broken("model-run:" + name, "the specification driver failed on the witness corpus", out[-2000:])
        return
    rd = lambda ext: open(base + ext).read().splitlines()
    cases, obs, ora, mod = rd(".cases"), rd(".observed"), rd(".oracle"), rd(".model")
    n = 0
    for i, (c, o, k, m) in enumerate(zip(cases, obs, ora, mod)):
        ops = c.split(" | ")[1:]
        os_, ks, ms = o.split(" | "), k.split(" | "), m.split(" | ")
        for j, op in enumerate(ops):
            if j >= len(os_) or j >= len(ks) or j >= len(ms):
                break
            n += 1
            if os_[j] != ks[j]:
                key = oracle.deviation_key(op, ms[j].split(" ~")[3], os_[j], ks[j])
                e = kf_match(ctx.kf, key)
                if e is not None:
                    ctx.known_finding(e["id"], e["what"])
                else:
                    ctx.violation(name, "deviation from Linux with key %s on the witness corpus is not a listed known finding" % key,
                                  {"stream": {"name": name, "harness": "fso", "driver": "fso"}, "case": " | ".join(c.split(" | ")[:j + 2]),
                                   "deviation_key": key, "implementation": os_[j], "kernel": ks[j]})
                break      # states differ from here on
    ctx.coverage["streams"][name] = {"witness_histories": len(cases), "calls": n}


def fs_part(ctx):
    st = {"name": "fs", "harness": "fs", "driver": "fs"}
    mm = ctx.stream("fs", "fs", "fs")
    if mm is None:
        return
    report_mismatches(ctx, mm, st, "MemFS differs from its Coq model (the model the C01-C05 theorems are about) on %d generated histories")


def fsbfs_part(ctx):
    st = {"name": "fsbfs", "harness": "fsbfs", "driver": "fs"}
    mm = ctx.stream("fsbfs", "fsbfs", "fs")
    if mm is None:
        return
    report_mismatches(ctx, mm, st, "MemFS differs from its Coq model on %d (state, call) pairs of the bounded-exhaustive search")


def orefa_part(ctx):
    st = {"name": "orefa", "harness": "orefa", "driver": "orefa"}
    mm = ctx.stream("orefa", "orefa", "orefa")
    if mm is None:
        return
    report_mismatches(ctx, mm, st, "OrefaFS differs from its Coq model (Fs/OrefaFS.v, about which C05_orefa_* / C07_orefa_* are proved) on %d generated histories")


def xcheck_part(ctx):
    """Re-evaluate a sample of the fs histories inside Coq (vm_compute) and compare with the extracted code."""
    import os
    from .. import coqxcheck
    r = coqxcheck.run(ctx, os.path.join(ctx.dir, "fs.cases"), sample=(25 if ctx.tier == "quick" else 150))
    if r is None:
        return
    n, fails = r
    ctx.coverage["extraction_cross_check"] = {"histories_re_evaluated_inside_coq": n, "differences": len(fails)}
    if fails:
        ctx.broken("extraction-cross-check", "the extracted OCaml model and Coq's own evaluation (vm_compute) of World.wrun differ on sampled histories", str(fails)[:2000])


def fs_corpus_part(ctx):
    """Fixed witness histories (corpus/fs-witness.cases: MemFS and OrefaFS lines) replayed on implementation and model."""
    import os
    path = os.path.join(ROOT, "corpus", "fs-witness.cases")
    if not os.path.exists(path):
        return
    lines = [l for l in open(path).read().splitlines() if l.strip() and not l.startswith("#")]
    for fsname, cmd in (("memfs", "fs"), ("orefafs", "orefa")):
        sel = [l for l in lines if l.startswith(fsname + " ")]
        if not sel:
            continue
        st = {"name": cmd + "-corpus", "harness": cmd, "driver": cmd}
        mm = ctx.stream(st["name"], cmd, cmd, replay_lines=sel)
        if mm is None:
            continue
        ctx.coverage["streams"][st["name"]] = {"witness_histories": len(sel), "mismatches": len(mm)}
        report_mismatches(ctx, mm, st, "the implementation differs from its Coq model on %d fixed witness histories (corpus/fs-witness.cases)", shrink=False)


def check_C01(ctx):
    ctx.proofs()
    fs_part(ctx)
    xcheck_part(ctx)
    fsbfs_part(ctx)
    fs_corpus_part(ctx)
    orefa_part(ctx)
    oracle_part(ctx, "admin", "ofso", "OrefaFS deviates from Linux (key %s, %d histories) and the deviation is not a listed known finding",
                fsname="orefafs", driver_cmd="ofso")
    oracle_part(ctx, "admin", "fso", "MemFS deviates from Linux (key %s, %d histories) and the deviation is not a listed known finding")
    corpus_part(ctx, "C01-witness.cases", "fso-corpus")


CHECKS["C01"] = check_C01
