"""Check of property C03 (permissions and ownership equal Linux DAC): proofs + the oracle stream in DAC mode
(the administrator reshuffles owners/groups/modes, non-administrator identities act; the kernel side acts under
setfsuid/setfsgid/setgroups of the calling thread inside the chroot)."""
from ..props import CHECKS
from .c01 import oracle_part, fs_part, corpus_part, fs_corpus_part


def check_C03(ctx):
    ctx.proofs()
    fs_part(ctx)
    fs_corpus_part(ctx)
    oracle_part(ctx, "dac", "fso-dac", "MemFS allows/refuses differently from Linux DAC (key %s, %d histories) and the deviation is not a listed known finding")
    # fixed witness histories of the repaired DAC deviations (set-id clearing, ...): any deviation there is a violation
    corpus_part(ctx, "C03-witness.cases", "fso-c03-corpus")


CHECKS["C03"] = check_C03
