"""Check of property C13."""
from ..props import CHECKS, report_mismatches


def check_C13(ctx):
    ctx.proofs()
    st = {"name": "path", "harness": "path", "driver": "path", "tags": "avfs_setostype"}
    mm = ctx.stream("path", "path", "path", tags="avfs_setostype")
    if mm is None:
        return
    # every line carries, for the POSIX flavour, a second segment with what the host's path/filepath returns;
    # the model prints the same functions in both segments, so a mismatch in either segment is a deviation of
    # the code from the model (segment 1) or of the model from path/filepath (segment 2).
    report_mismatches(ctx, mm, st, "avfs path functions / PathIterator differ from the model or from the host's path/filepath on %d generated inputs", shrink=False)


CHECKS["C13"] = check_C13
