"""Check of property C13.

One stream ("path").  Lines of kind `one` / `two` carry two segments `avfs || oracle`:
  segment 1  what avfs (generic implementation, tag avfs_setostype) returns for a MemFS of the OS type,
  segment 2  what Go's own path/filepath of that OS returns: the host's package for linux, and for windows the
             toolchain's Windows sources retargeted to this host by lib/vcheck/winportgen.py (harness/winfp).
The extracted Coq model prints its answer in both segments (avfs claims equality), so per line
  avfs != oracle            the implementation deviates from Go's path/filepath of the emulated OS,
  avfs == oracle != model   the model (what the theorems speak about) does not describe the code,
and `pi` lines (PathIterator) compare avfs with the model only.  Every deviation is a VIOLATION.
"""
import os
import re

from ..props import CHECKS
from .. import winportgen

STREAM = {"name": "path", "harness": "path", "driver": "path", "tags": "avfs_setostype"}


def untok(t):
    if re.fullmatch(r"s([0-9a-f]{2})*", t):
        return bytes.fromhex(t[1:]).decode("utf-8", "backslashreplace")
    return t


def fields(seg):
    return dict(x.split("=", 1) for x in seg.split() if "=" in x)


def diff_fields(a, b):
    """names of the differing fields; `rel` is written rel(hang) when avfs' Rel did not return although the
    reference did, and rel(notcalled) for the inputs after the harness stopped calling a hanging Rel."""
    fa, fb = fields(a), fields(b)
    d = sorted(k for k in set(fa) | set(fb) if fa.get(k) != fb.get(k))
    if "rel" in d and "notcalled" in (fa.get("rel"), fb.get("rel")):
        d[d.index("rel")] = "rel(notcalled)"
    elif "rel" in d and "loop" in (fa.get("rel"), fb.get("rel")):
        d[d.index("rel")] = "rel(hang)"
    return d


def classify(case, model, observed):
    """-> (kind, differing fields)."""
    if " || " not in observed or " || " not in model:
        return "model", diff_fields(model, observed)
    impl, oracle = observed.split(" || ", 1)
    m1 = model.split(" || ", 1)[0]
    if impl != oracle:
        return "oracle", diff_fields(impl, oracle)
    return "model", diff_fields(m1, impl)


def readable(case):
    f = case.split()
    return " ".join(f[:2] + [repr(untok(x)) for x in f[2:]])


def check_C13(ctx):
    ctx.proofs()
    tr = ctx.coverage.setdefault("windows_oracle", {})
    tr.update({"translator": "lib/vcheck/winportgen.py", "package": "harness/winfp (generated on this run)",
               "toolchain": winportgen.INFO.get("toolchain"), "goroot": winportgen.INFO.get("goroot"),
               "sources": winportgen.INFO.get("sources"), "error": winportgen.LAST_ERROR})
    if winportgen.LAST_ERROR or not winportgen.INFO.get("sources"):
        # fail closed: without the translated package there is no oracle for the Windows flavour
        ctx.broken("winport-translator", "the toolchain's Windows path/filepath could not be retargeted (lib/vcheck/winportgen.py): "
                   "no oracle for the Windows flavour", str(winportgen.LAST_ERROR or "translator did not run"))
        return
    ok, out = winportgen.selftest()
    tr["selftest"] = dict(winportgen.INFO.get("selftest", {}), cmd="go test -count=1 -vet=off -v ./winfp/  (the toolchain's own "
                          "TestClean/TestJoin/TestSplit/TestDir/TestBase/TestIsAbs/TestRel/TestVolumeName/TestMatch/... with their Windows tables, "
                          "copied from path/filepath/{path,match}_test.go, runtime.GOOS bound to \"windows\")")
    if not ok:
        ctx.broken("winport-selftest", "the retargeted Windows path/filepath (harness/winfp) does not pass the toolchain's own tests of these "
                   "functions: it is not a faithful copy and cannot serve as the oracle", out[-3000:])
        return
    ctx.coverage["trusted_base"] += [
        "oracle of the Windows flavour: %s sources internal/filepathlite/{path,path_windows}.go and path/filepath/{path,path_windows,match}.go, "
        "copied declaration by declaration by lib/vcheck/winportgen.py (import paths re-pointed, OS-dependent declarations dropped, "
        "one iteration budget added to the loop of Rel; design.d/C13-windows.md); trusted: the translator's declaration splitter and the "
        "five shim packages harness/winfp/shim/{os,runtime,syscall,bytealg,stringslite} (a few lines each: PathSeparator, "
        "PathListSeparator, IsPathSeparator, GOOS, a failing FullPath, five helpers delegating to package strings)" % winportgen.INFO.get("toolchain"),
        "oracle of the POSIX flavour: the host's path/filepath",
        "Abs: Windows' own Abs asks the system (GetFullPathName) and cannot be retargeted; avfs.Abs(path, curDir) is compared with "
        "path/filepath's portable definition (unixAbs: Clean if IsAbs, else Join(curDir, path)) over the Windows functions",
    ]
    mm = ctx.stream("path", "path", "path", tags="avfs_setostype")
    if mm is None:
        return
    # known finding: Rel does not return where the toolchain's Windows Rel does not either.  Reproduced on its
    # witness by a real call (the main stream really calls avfs on the first few such inputs only).
    for kf in ctx.kf:
        if kf.get("id") != "C13-rel-unc-root-loop":
            continue
        w = kf["witness"]
        wit = " ".join((w.get("case", "") if isinstance(w, dict) else w).split()[:4])
        mmk = ctx.stream("path-kf", "path", "path", tags="avfs_setostype", replay_lines=[wit])
        if mmk is None:
            return
        try:
            obs = open(os.path.join(ctx.dir, "path-kf.observed")).read().strip()
        except OSError:
            obs = ""
        segs = obs.split(" || ")
        if len(segs) == 2 and fields(segs[0]).get("rel") == "loop" and fields(segs[1]).get("rel") == "loop":
            ctx.known_finding(kf["id"], kf["what"])
            ctx.coverage["samples"].append({"stream": "path (windows, known finding witness, avfs || toolchain's Windows path/filepath)",
                                            "case": wit + " => " + obs})
            ctx.coverage["streams"]["path"]["rel_nonterminating_inputs"] = \
                ctx.coverage["streams"]["path"].get("distribution", {}).get("outcome:rel-loop", 0)
        mm = mm + [(-1, c, m, o) for (_, c, m, o) in mmk]
    kinds = {"oracle": [], "model": []}
    byfield = {"oracle": {}, "model": {}}
    for (i, c, m, o) in mm:
        k, fs = classify(c, m, o)
        kinds[k].append((i, c, m, o, fs))
        osn = c.split()[1] if len(c.split()) > 1 else "?"
        for f in fs or ["?"]:
            key = osn + ":" + f
            byfield[k][key] = byfield[k].get(key, 0) + 1
    ctx.coverage["streams"]["path"]["deviations_from_path_filepath"] = len(kinds["oracle"])
    ctx.coverage["streams"]["path"]["deviations_from_model_only"] = len(kinds["model"])
    what = {
        "oracle": "avfs path functions differ from Go's path/filepath of the emulated OS on %d generated inputs (per OS type and function: %s); first: %s",
        "model": "avfs path functions / PathIterator differ from the Coq model on %d generated inputs where no oracle contradicts avfs (per OS type and function: %s); first: %s",
    }
    for k in ("oracle", "model"):
        if not kinds[k]:
            continue
        # one replay per kind: the shortest case, so that the witness is readable
        i, c, m, o, fs = min(kinds[k], key=lambda x: (x[4] == ["rel(notcalled)"], len(x[1]), x[0]))
        summ = ", ".join("%s %d" % kv for kv in sorted(byfield[k].items()))
        ctx.violation("path-" + k, what[k] % (len(kinds[k]), summ, readable(c)),
                      {"stream": STREAM, "case": c, "case_readable": readable(c), "model": m, "observed": o,
                       "differing_fields": fs, "kind": k, "mismatching_cases_in_run": len(kinds[k]), "per_function": byfield[k]})


CHECKS["C13"] = check_C13
