"""Development entry: runs the ostype world stream (both OS types, tagged build) without proofs."""
from ..props import CHECKS


def check_osdev(ctx):
    mm = ctx.stream("ostype", "ostype", "ostype", tags="avfs_setostype")
    if mm is None:
        return
    import collections
    kinds = collections.Counter()
    for (i, c, m, o) in mm:
        ms, os_ = m.split(" | "), o.split(" | ")
        ops = c.split(" | ")[1:]
        for k in range(max(len(ms), len(os_))):
            a = ms[k] if k < len(ms) else "<none>"
            b = os_[k] if k < len(os_) else "<none>"
            if a != b:
                key = "%s %s %s: model %s / observed %s" % (c.split()[0], c.split()[1], ops[k].split()[0] if k < len(ops) else "?", a.split(" #")[0], b.split(" #")[0])
                kinds[key] += 1
                if kinds[key] <= 1:
                    print("history %d step %d op: %s\n   model:    %s\n   observed: %s" % (i, k, ops[k] if k < len(ops) else "?", a, b))
                break
    for k, v in kinds.most_common(40):
        print("%5d  %s" % (v, k))
    print("mismatching histories: %d" % len(mm))


CHECKS["OSDEV"] = check_osdev
