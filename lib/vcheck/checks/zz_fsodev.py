"""Development entry: oracle stream (MemFS vs Linux vs the Coq specification model) without proofs."""
import collections, os
from ..props import CHECKS
from .. import ML, sh, build_coq, build_ml, build_go, GOENV


def run_fso(ctx, name="fso", mode="admin"):
    ok, out, failing = build_coq()
    assert ok, out[-2000:]
    ok, out = build_ml()
    assert ok, out[-3000:]
    ok, out, binp = build_go("")
    assert ok, out[-3000:]
    env = dict(GOENV, VERIF_FSO_MODE=mode)
    rc, out = sh([binp, "fso", "-seed", str(ctx.seed), "-tier", ctx.tier, "-out", ctx.dir, "-name", name], cwd=ctx.dir, env=env, timeout=3000)
    assert rc == 0, out[-3000:]
    cases = os.path.join(ctx.dir, name + ".cases")
    rc, out = sh("%s/driver fso < %s > %s.model" % (ML, cases, os.path.join(ctx.dir, name)), timeout=3000)
    assert rc == 0, out[-3000:]
    rd = lambda ext: open(os.path.join(ctx.dir, name + ext)).read().splitlines()
    return rd(".cases"), rd(".observed"), rd(".oracle"), rd(".model")


def check_fsodev(ctx):
    mode = os.environ.get("VERIF_FSO_MODE", "admin")
    cases, obs, ora, mod = run_fso(ctx, mode=mode)
    nb = no = nt = 0
    bex, oex, tex = [], collections.Counter(), []
    oshow = {}
    for i, (c, o, k, m) in enumerate(zip(cases, obs, ora, mod)):
        ops = c.split(" | ")[1:]
        os_, ks, ms = o.split(" | "), k.split(" | "), m.split(" | ")
        bdone = odone = False
        for j, op in enumerate(ops):
            if j >= len(ms) or j >= len(ks):
                break
            spec, kf, thm = ms[j].split(" ~")
            if not bdone and spec != ks[j]:
                nb += 1
                bdone = True
                if len(bex) < 6:
                    bex.append((i, j, op, spec, ks[j]))
            if not odone and (j >= len(os_) or os_[j] != ks[j]):
                no += 1
                odone = True
                key = (op.split()[0], (os_[j] if j < len(os_) else "-").split(" #")[0][:12], ks[j].split(" #")[0][:12], kf)
                oex[key] += 1
                oshow.setdefault(key, (i, j, op))
            if not bdone and thm == "F" and kf == "-":
                nt += 1
                if len(tex) < 5:
                    tex.append((i, j, op, spec))
            if bdone:
                break
    print("histories %d; B (spec != kernel): %d; O (impl != kernel) %d; T (impl-model != spec, kf none) %d" % (len(cases), nb, no, nt))
    for e in bex:
        print(" B hist %d step %d %s\n    spec:   %s\n    kernel: %s" % e)
    for k, n in oex.most_common(40):
        print(" O %4d x %s   e.g. hist %d step %d: %s" % ((n, k) + oshow[k]))
    for e in tex:
        print(" T hist %d step %d %s  spec: %s" % e)


CHECKS["FSODEV"] = check_fsodev
