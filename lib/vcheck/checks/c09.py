"""Check of property C09 (RoFS never lets the base change)."""
from ..props import CHECKS
from .. import wrapcheck


def check_C09(ctx):
    wrapcheck.run(ctx, wrapper="rofs", table="rofs_table", gen_file="Gen_rofs.v", check_fn="rofs_check",
                  imports="RoFSProofs Gen_rofs",
                  what_model="RoFS differs from the wrapper model (table regenerated from vfs/rofs) on %d histories",
                  what_prop="a history through RoFS (or through a file / sub file system it returned) changed the base, was not refused, or did not return the base's answer: %s")


CHECKS["C09"] = check_C09
