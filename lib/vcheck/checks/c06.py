"""Check of property C06 (concurrent namespace operations are linearizable) - partial by nature."""
from ..props import CHECKS, REPLAYERS
from .. import conccheck

KINDS = ("nonlin", "tempdup")


def check_C06(ctx):
    ctx.level = "proof"
    ctx.coverage["level_claimed"] = {
        "text": "PARTIAL: proved for all thread counts and schedules: C06_excl_mkdir, C06_excl_create, C06_excl_live, C06_temp_unique; "
                "refuted by vm_compute witnesses: C06_refuted_* and C06_lin_full_refuted (C06_lin_full is a Definition); "
                "everything else is explored on the real code (bounded schedules), not proved"}
    ctx.proofs()
    if not conccheck.lockprog(ctx):
        return
    conccheck.run(ctx, KINDS)


def replay_C06(ctx, obj):
    return conccheck.replay(ctx, obj, KINDS)


CHECKS["C06"] = check_C06
REPLAYERS["C06"] = replay_C06
