"""Check of property C08 - no data race under the documented concurrent use.

1. lockgen (harness/tools/lockgen, go/ast + go/types) regenerates coq/theories/Conc/Gen_access.v from the
   working tree of the repository: per-function lock/access summaries, field classes, open known findings.
2. Coq re-proves the finite obligation C08_discipline over that table (Conc/AccessObl.v) and the theorems of
   Properties/C08.v (generic lockset theorem + soundness of the checker w.r.t. the trace denotation).
3. If the obligation breaks, Coq's own diagnosis names the (function, field) pairs; for each pair that is
   not a listed finding the race detector SEARCHES for a concrete racing schedule (harness/cmd/racecheck,
   `go build -race`, focused on the entry points that reach the function and those that touch the field).
4. The listed findings are re-confirmed by the same search (thorough tier: each one; quick tier: a general
   stress run in which every race report must be attributable to a listed finding).
"""
import json, os, re, subprocess, time
from .. import ROOT, COQ, HARNESS, WORK, REPO, GOENV, Lock, sh, log
from .. import gen
from ..props import CHECKS, REPLAYERS

GEN_V = os.path.join(COQ, "theories", "Conc", "Gen_access.v")
SIDE = os.path.join(WORK, "C08", "lockgen.json")
KF = os.path.join(ROOT, "known_findings.jsonl")
RACE_ENV = dict(GOENV, CGO_ENABLED="1")


def _gomod():
    gen.write_if_changed(os.path.join(HARNESS, "go.mod"),
                         "module verifharness\n\ngo 1.22\n\nrequire github.com/avfs/avfs v0.0.0\n\nreplace github.com/avfs/avfs => %s\n" % REPO)


def build_lockgen():
    with Lock("go"):
        _gomod()
        binp = os.path.join(HARNESS, "bin", "lockgen")
        rc, out = sh(["go", "build", "-o", binp, "./tools/lockgen"], cwd=HARNESS, env=GOENV, timeout=600)
        return rc == 0, out, binp


def run_lockgen():
    """Regenerate Gen_access.v (written only when its content changes). Returns (ok, text)."""
    os.makedirs(os.path.dirname(SIDE), exist_ok=True)
    ok, out, binp = build_lockgen()
    if not ok:
        return False, out
    rc, out = sh([binp, "-repo", REPO, "-out", GEN_V, "-json", SIDE, "-kf", KF], cwd=HARNESS, env=GOENV, timeout=600)
    return rc == 0, out


def _generator():
    ok, out = run_lockgen()
    if not ok:
        # fail closed: a table that makes the obligation false, with the reason in it
        gen.write_if_changed(GEN_V, "(* GENERATED - lockgen FAILED on the current source:\n%s\n*)\n"
                             "From Coq Require Import List String.\nFrom Avfs Require Import Lockset Discipline.\nImport ListNotations.\nOpen Scope string_scope.\n"
                             "Definition tbl : list (field * cls) := [].\nDefinition known : list (string * field) := [].\n"
                             "Definition summaries : list summary := [ {| s_name := \"lockgen-failed\"; s_owner := \"lockgen-failed\"; s_api := true; s_recv := \"\"; s_recvty := \"\"; s_borrowed := []; s_paths := [[IUnknown \"lockgen failed\"]] |} ].\n"
                             % out[-1500:].replace("*)", "* )"))


gen.GENERATORS.append(_generator)


# --------------------------------------------------------------------------- Coq side

def coq_diagnose(ctx):
    """Compile only what the obligation needs and let Coq list the failing (function, what) pairs.
    Returns (ok, pairs | None, log)."""
    th = os.path.join(COQ, "theories")
    with Lock("coq"):
        for rel in ("Conc/Lockset.v", "Conc/Discipline.v", "Conc/Gen_access.v"):
            src = os.path.join(th, rel)
            vo = src[:-2] + ".vo"
            deps = [src] + ([os.path.join(th, "Conc", "Lockset.vo")] if "Lockset" not in rel else []) \
                + ([os.path.join(th, "Conc", "Discipline.vo")] if "Gen_access" in rel else [])
            if not os.path.exists(vo) or any(os.path.getmtime(d) > os.path.getmtime(vo) for d in deps if os.path.exists(d)):
                rc, out = sh(["timeout", "900", "coqc", "-Q", th, "Avfs", src], cwd=th, timeout=1000)
                if rc != 0:
                    return False, None, out
        dv = os.path.join(ctx.dir, "Diag_C08.v")
        with open(dv, "w") as f:
            f.write("From Coq Require Import List String.\nFrom Avfs Require Import Lockset Discipline Gen_access.\n"
                    "Set Printing Depth 1000000.\nSet Printing Width 100000.\n"
                    "Eval vm_compute in (policy_okb tbl summaries).\n"
                    "Eval vm_compute in (diagnose tbl known summaries).\n")
        rc, out = sh(["timeout", "600", "coqc", "-Q", th, "Avfs", dv], cwd=ctx.dir, timeout=700)
    if rc != 0:
        return False, None, out
    pol = re.search(r"=\s*(true|false)\s*:\s*bool", out)
    pairs = re.findall(r'\("((?:[^"]|"")*)",\s*"((?:[^"]|"")*)"\)', out)
    pairs = [(a.replace('""', '"'), b.replace('""', '"')) for a, b in pairs]
    if pol and pol.group(1) == "false":
        pairs.append(("policy", "a field is classed owned outside a view type, or a pseudo lock is acquired"))
    return True, pairs, out


# --------------------------------------------------------------------------- race search

def build_racecheck():
    with Lock("go"):
        _gomod()
        binp = os.path.join(HARNESS, "bin", "racecheck")
        rc, out = sh(["go", "build", "-race", "-tags", "avfs_setostype", "-o", binp, "./cmd/racecheck"], cwd=HARNESS, env=RACE_ENV, timeout=900)
        return rc == 0, out, binp


def parse_reports(text):
    reps = []
    for blk in text.split("=================="):
        if "WARNING: DATA RACE" not in blk:
            continue
        stacks, cur = [], None
        for ln in blk.splitlines():
            if re.match(r"^(Read|Write|Previous read|Previous write|Atomic read|Atomic write|Previous atomic read|Previous atomic write) at 0x", ln):
                cur = {"kind": ln.split(" at ")[0], "frames": []}
                stacks.append(cur)
                continue
            if ln.startswith("Goroutine "):
                cur = None
                continue
            if cur is None:
                continue
            m = re.match(r"^  (\S+)\(.*\)$", ln)
            if m:
                cur["frames"].append([m.group(1), ""])
                continue
            m = re.match(r"^      (\S+):(\d+)", ln)
            if m and cur["frames"]:
                cur["frames"][-1][1] = m.group(1).replace(REPO + "/", "") + ":" + m.group(2)
        reps.append({"stacks": stacks[:2], "text": blk.strip()[:6000]})
    if "fatal error: concurrent map" in text:
        i = text.index("fatal error: concurrent map")
        names = re.findall(r"^(github\.com/avfs/avfs\S+)\(", text[i:i + 8000], flags=re.M)
        reps.append({"stacks": [{"kind": "fatal", "frames": [[n, ""] for n in names[:12]]}], "text": text[i:i + 4000]})
    return reps


def sym2name(sym):
    m = re.match(r"github\.com/avfs/avfs(?:/[\w/]+)?/(\w+)\.\(\*?(\w+)\)\.(\w+)", sym)
    if m:
        return "%s.%s.%s" % m.groups()
    m = re.match(r"github\.com/avfs/avfs\.\(\*?(\w+)(?:\[.*\])?\)\.(\w+)", sym)
    if m:
        return "avfs.%s.%s" % m.groups()
    m = re.match(r"github\.com/avfs/avfs(?:/[\w/]+)?/(\w+)\.(\w+)", sym)
    if m:
        return "%s.%s" % m.groups()
    return None


def report_functions(rep):
    """Names (as in Gen_access.v) of the avfs functions on the two stacks of a report, innermost first."""
    out = []
    for st in rep["stacks"]:
        names = []
        for fr in st["frames"]:
            n = sym2name(fr[0])
            if n:
                names.append(n)
        out.append(names)
    return out


def matches(rep, fn, pos=None):
    """Does the report involve function fn?  2 = a frame of fn at source position pos (the access the
    obligation names), 1 = fn is on one of the two stacks, 0 = no.  Entry points inherited from a
    configuration struct of package avfs (orefafs.OrefaFS.SetUser) have no symbol of their own: match
    the struct's method."""
    best = 0
    for st in rep["stacks"]:
        for fr in st["frames"]:
            n = sym2name(fr[0])
            if n == fn:
                best = max(best, 1)
                if pos and fr[1] and fr[1].endswith(pos):
                    return 2
    if best:
        return best
    meth = fn.split(".")[-1]
    for names in report_functions(rep):
        if any(n.startswith("avfs.") and n.endswith("." + meth) for n in names[:1]) and meth.startswith("Set"):
            return 1
    return 0


def side():
    try:
        return json.load(open(SIDE))
    except Exception:
        return {}


def focus_ops(fn, what, known_ops):
    sd = side()
    pk = fn.split(".")[0]
    a = [x for x in sd.get("api_reach", {}).get(fn, [fn])]
    touch = sd.get("api_touch", {}).get(what, {})
    b = list(touch.get("w", []))
    if any(x in b for x in a) or not b:
        b += touch.get("r", [])[:12]
    ops = []
    for x in a + b:
        if x.split(".")[0] != pk and ":" not in what:
            continue
        if ":" in what and x.split(".")[0] != what.split(".")[0]:
            continue
        if x in known_ops and x not in ops:
            ops.append(x)
    if any("Volume" in x for x in ops):
        ops += [x for x in known_ops if x.startswith("win:")]
    if what.endswith("CurUserFn.user"):
        ops += [x for x in known_ops if x.split(".")[-1] in ("SetUser", "User", "Mkdir") and x.split(".")[0] == what.split(".")[0]]
    if what.endswith("IdmFn.idm"):
        ops += [x for x in known_ops if x.split(".")[-1] in ("SetIdm", "Idm") and x.split(".")[0] == what.split(".")[0]]
    if what.endswith("CurDirFn.curDir"):
        ops += [x for x in known_ops if x.split(".")[-1] in ("Abs", "Chdir", "Getwd", "Stat") and x.split(".")[0] == what.split(".")[0] and "File" not in x]
    return sorted(set(ops))


class Racer:
    def __init__(self, ctx):
        self.ctx = ctx
        self.ok, self.log, self.bin = build_racecheck()
        self.ops = []
        self.runs = 0
        self.reports = 0
        self.operations = 0
        if self.ok:
            rc, out = sh([self.bin, "-list"], env=RACE_ENV, timeout=60)
            self.ops = out.split()

    def run(self, ops, seed, dur, g=8):
        env = dict(RACE_ENV, GORACE="halt_on_error=0 exitcode=0 history_size=2")
        args = [self.bin, "-seed", str(seed), "-dur", dur, "-g", str(g)]
        if ops:
            args += ["-ops", ",".join(ops)]
        rc, out = sh(args, env=env, timeout=120)
        self.runs += 1
        m = re.search(r"racecheck: \d+ goroutines, (\d+) operations", out)
        if m:
            self.operations += int(m.group(1))
        reps = parse_reports(out)
        self.reports += len(reps)
        return reps, {"cmd": " ".join(args), "ops": ops, "seed": seed, "dur": dur, "goroutines": g}

    def search(self, fn, what, budget_s):
        """Look for a race report involving fn. Returns (report | None, scenario, tried)."""
        ops = focus_ops(fn, what, self.ops)
        if not ops:
            return None, {"ops": []}, 0
        pos = None
        for f in side().get("failures", []):
            if f["fn"] == fn and f["what"] == what and re.search(r":\d+$", f.get("pos", "")) and f["pos"].count(":") == 1:
                pos = f["pos"]
        t0 = time.time()
        tried = 0
        sc, best = {}, (None, {})
        for i, (dur, g) in enumerate([("300ms", 4), ("700ms", 8), ("1500ms", 16), ("3s", 8), ("5s", 16)]):
            if time.time() - t0 > budget_s or (best[0] is not None and i >= 2):
                break
            reps, sc = self.run(ops, self.ctx.seed + i, dur, g)
            tried += 1
            for r in reps:
                m = matches(r, fn, pos)
                if m == 2:
                    return r, sc, tried
                if m == 1 and best[0] is None:
                    best = (r, sc)
        if best[0] is not None:
            return best[0], best[1], tried
        return None, sc, tried


# --------------------------------------------------------------------------- the check

def check_C08(ctx):
    ctx.coverage["checker_cmd"] = ("harness/bin/lockgen -repo <tree> -out coq/theories/Conc/Gen_access.v (every run) && "
                                   + ctx.coverage["checker_cmd"])
    ctx.coverage["trusted_base"] = [t for t in ctx.coverage["trusted_base"] if "extraction" not in t and "hand-written Gallina model" not in t] + [
        "translator harness/tools/lockgen (go/ast + go/types, standard library only): the abstraction of a Go function into paths of lock operations, field accesses and calls (syntactic pairing of lock and object through SSA-versioned names; path enumeration of if/switch/for/defer/return; an object created by the call is private for the rest of the call; calls through interfaces declared outside the three packages and into the generic helpers of package avfs are not followed); it emits IUnknown - which makes the obligation false - on shapes it does not understand",
        "Conc/Discipline.v [den]: the trace semantics given to summaries; Conc/Lockset.v [valid]: sync.RWMutex semantics (W excludes all, R excludes W); the step from a release/acquire chain to happens-before is Go's memory model, not formalised",
        "scoping: a MemFS view (and its configuration: user, current directory, identity manager) is used by one goroutine - its owner; promoted setters that are not part of avfs.VFS (SetOSType, SetFeatures, SetCurDir) are construction-time only",
        "Go race detector (runtime/race, go build -race) is used only to search for a replay and to re-confirm listed findings",
    ]
    ctx.assumptions = ["the lock/access summaries are produced by a translator from the Go source, not proved equivalent to it; what the theorems cover is every program built from those summaries"]
    ok, out = run_lockgen()
    if not ok:
        ctx.broken("lockgen", "the translator harness/tools/lockgen failed on the current source (fails closed)", out[-3000:])
        return
    sd = side()
    st = sd.get("stats", {})
    ctx.coverage["translator"] = dict(st, classes=len(sd.get("classes", {})), summary=out.strip()[-300:])
    listed = {(k["function"], k["field"]): k for k in ctx.kf if "function" in k}

    ok, pairs, dlog = coq_diagnose(ctx)
    if not ok:
        ctx.broken("coq-build", "Gen_access.v regenerated from the current source does not compile", dlog[-3000:])
        return
    new_pairs = [p for p in pairs if p not in listed]
    # pairs that Coq tolerates because they are listed do not show up in [diagnose]; the translator's
    # own list (same algorithm) tells which listed findings are still present
    present = {(f["fn"], f["what"]) for f in sd.get("failures", [])}
    ctx.coverage["undisciplined_pairs"] = {"listed_and_present": len([p for p in listed if p in present]),
                                           "listed_but_gone": sorted("%s %s" % p for p in listed if p not in present),
                                           "not_listed": ["%s %s" % p for p in new_pairs]}
    racer = None
    quick = ctx.tier == "quick"

    def get_racer():
        nonlocal racer
        if racer is None:
            racer = Racer(ctx)
        return racer

    if new_pairs:
        r = get_racer()
        if not r.ok:
            ctx.broken("racecheck-build", "the race-search driver does not build against the current tree", r.log[-3000:])
        for (fn, what) in new_pairs[:12]:
            desc = "proof obligation C08_discipline (Conc/AccessObl.v) is false on the regenerated summaries: %s accesses %s without the lock its class requires" % (fn, what)
            if what.startswith("unknown:") or what.startswith("unknown-callee") or fn == "policy":
                desc = "proof obligation C08_discipline is false: the translator does not understand %s (%s) and fails closed" % (fn, what)
            rep, sc, tried = (None, {}, 0)
            if r.ok and not what.startswith(("unknown", "unbalanced", "release-not-held")) and fn != "policy":
                rep, sc, tried = r.search(fn, what, 12 if quick else 60)
            if rep is not None:
                ctx.violation("race", desc + "; the race detector reproduces it", {
                    "engine": "racecheck", "obligation": "C08_discipline", "function": fn, "field": what,
                    "scenario": sc, "race_report": rep["text"], "functions_on_stacks": report_functions(rep)})
            else:
                ctx.broken("C08_discipline", desc + " (race search: %d focused runs, no report involving the function)" % tried,
                           "pair: %s %s\nscenario: %s" % (fn, what, json.dumps(sc)))
        ctx.coverage["obligations"] = len(pairs) + 1
        ctx.coverage["discharged"] = 0
        _race_cov(ctx, racer)
        return

    # the obligation holds on the current source: full build + assumptions
    if not ctx.proofs(extra_obligations=1):
        return
    ctx.coverage["obligations_detail"] = {
        "C08_discipline": "table_okb tbl known summaries = true by vm_compute over %d summaries / %d paths / %d items regenerated this run" % (
            st.get("functions", 0), st.get("paths", 0), st.get("items", 0))}
    ctx.coverage["evaluations"] = st.get("paths", 0)
    ctx.coverage["distinct_nontrivial"] = len([s for s in sd.get("summaries", []) if s.get("paths", 0) > 0])
    ctx.coverage["rule"] = ("evaluations = paths of the regenerated summaries checked by the Coq checker inside C08_discipline; distinct_nontrivial = summaries (functions and loops) with at least one path; "
                            "exhaustive over the function list of memfs, orefafs, memidm and the embedded configuration structs")
    ctx.coverage["exhaustive"] = True
    ctx.coverage["samples"] = [{"summary": s["name"], "paths": s["paths"], "api": s["api"], "borrowed": s.get("borrowed", [])}
                               for s in sd.get("summaries", []) if s["name"] in ("memfs.MemFS.Chmod", "orefafs.OrefaFS.Mkdir", "memidm.MemIdm.AddGroup", "memfs.dirNode.addChild")]

    # ---- dynamic part: listed findings re-confirmed, no race outside them
    r = get_racer()
    if not r.ok:
        ctx.broken("racecheck-build", "the race-search driver does not build (cgo / race runtime needed)", r.log[-3000:])
        return
    confirmed, unconfirmed = {}, []
    # a general stress run: every report must be attributable to a listed finding
    gen_runs = [("2s", 8)] if quick else [("4s", 8), ("4s", 16), ("4s", 2), ("4s", 12)]
    foreign = []
    for i, (dur, g) in enumerate(gen_runs):
        reps, sc = r.run([], ctx.seed + 100 + i, dur, g)
        for rep in reps:
            hit = [k for k in listed if matches(rep, k[0])]
            if not hit:
                foreign.append((rep, sc))
            for k in hit:
                confirmed.setdefault(k, rep)
    for rep, sc in foreign[:3]:
        ctx.violation("race", "the race detector reports a data race that involves no function of a listed finding, although the discipline obligation holds (translator gap or undocumented use): %s" % report_functions(rep), {
            "engine": "racecheck", "scenario": sc, "race_report": rep["text"], "functions_on_stacks": report_functions(rep)})
    # focused re-confirmation of each listed finding (thorough: all; quick: those not seen yet, small budget)
    t0 = time.time()
    for k, e in sorted(listed.items()):
        if k not in present:
            continue
        if k in confirmed:
            continue
        if quick and time.time() - t0 > 20:
            break
        rep, sc, tried = r.search(k[0], k[1], 4 if quick else 40)
        if rep is not None:
            confirmed[k] = rep
        elif not quick:
            unconfirmed.append(k)
    for k, e in sorted(listed.items()):
        if k in present:
            ctx.known_finding(e["id"], e["what"] + (" [race report reproduced in this run]" if k in confirmed else " [undisciplined access present; race not re-run in this tier]" if quick else " [undisciplined access present; race NOT reproduced in this run]"))
    ctx.coverage["known_findings_confirmed_by_race_detector"] = sorted(listed[k]["id"] for k in confirmed)
    ctx.coverage["known_findings_not_reproduced"] = sorted(listed[k]["id"] for k in unconfirmed)
    if confirmed:
        k0 = sorted(confirmed)[0]
        ctx.coverage["samples"].append({"race_report_for": listed[k0]["id"], "report": confirmed[k0]["text"][:1500]})
    _race_cov(ctx, r)


def _race_cov(ctx, r):
    if r is None:
        return
    ctx.coverage["race_search"] = {"runs": r.runs, "operations_executed": r.operations, "race_reports_parsed": r.reports,
                                   "entry_points_drivable": len(r.ops), "build": "go build -race -tags avfs_setostype ./cmd/racecheck"}


def replay_C08(ctx, obj):
    """Re-execute a replay file: the recorded scenario is run again under the race detector, and the
    obligation is re-derived from the current tree."""
    sc = obj.get("scenario") or {}
    fn = obj.get("function")
    r = Racer(ctx)
    if r.ok and sc.get("ops"):
        for i in range(3):
            reps, sc2 = r.run(sc["ops"], int(sc.get("seed", 1)) + i, sc.get("dur", "1s"), int(sc.get("goroutines", 8)))
            hit = [x for x in reps if fn is None or matches(x, fn)]
            if hit:
                print("replay: the race is still reported\n" + hit[0]["text"][:3000])
                ctx.violation("replay", obj.get("what", "replayed race still reported"), dict(obj, race_report=hit[0]["text"]))
                return ctx.finish(write_evidence=False)
        print("replay: no race report involving %s in 3 runs of the recorded scenario; re-deriving the obligation" % fn)
    check_C08(ctx)
    return ctx.finish(write_evidence=False)


CHECKS["C08"] = check_C08
REPLAYERS["C08"] = replay_C08
