"""Translator for property C13 (Windows flavour): retargets the toolchain's Windows path/filepath to this host.

Go's Windows `path/filepath` cannot run on a Linux host: the Windows halves live in files selected by the
`_windows` file-name constraint and sit on `internal/...` packages and on `syscall.FullPath`.  This module
re-homes the toolchain's own sources (GOROOT located with `go env GOROOT`) MECHANICALLY into the generated,
gitignored package tree harness/winfp/ - nothing of the algorithms is rewritten by hand:

  internal/filepathlite/path.go          -> harness/winfp/filepathlite/path.go       (every declaration)
  internal/filepathlite/path_windows.go  -> harness/winfp/filepathlite/path_win.go   (every declaration)
  path/filepath/path.go                  -> harness/winfp/path.go       (declarations of KEEP only)
  path/filepath/path_windows.go          -> harness/winfp/path_win.go   (declarations of KEEP only)
  path/filepath/match.go                 -> harness/winfp/match.go      (declarations of KEEP only)

Textual operations, all of them (design.d/C13-windows.md documents each one):
  1. the file is cut into top-level declarations (gofmt layout: a declaration starts in column 0 with
     func/var/const/type and ends with the first following line that is `}` or `)` in column 0, or on its
     own line when it has no block); the doc comment directly above stays with its declaration;
  2. declarations that need the operating system are dropped (DROP below), all others must be in KEEP:
     an unknown declaration or a missing expected one makes the translator FAIL (fail-closed);
  3. `//go:build` / `// +build` lines are dropped, the output file names carry no GOOS suffix;
  4. the package clause `package filepath` becomes `package winfp` (filepathlite keeps its name);
  5. import paths are re-pointed, the bodies are untouched:
       "os"                    -> "verifharness/winfp/shim/os"          (PathSeparator = '\\', PathListSeparator = ';', IsPathSeparator)
       "runtime"               -> "verifharness/winfp/shim/runtime"     (GOOS = "windows")
       "syscall"               -> "verifharness/winfp/shim/syscall"     (FullPath: always an error)
       "internal/bytealg"      -> "verifharness/winfp/shim/bytealg"     (IndexByteString, CountString over package strings)
       "internal/stringslite"  -> "verifharness/winfp/shim/stringslite" (IndexByte, HasPrefix, Cut over package strings)
       "internal/filepathlite" -> "verifharness/winfp/filepathlite"     (the generated copy)
     imports no longer referenced after step 2 are removed (Go rejects unused imports);
  6. ONE statement is instrumented: the unbounded `for {` of filepath.Rel gets an iteration budget
     (EDITS below).  Go 1.23.5's Windows Rel does not terminate on e.g. Rel(`\\\\a\\b`, `\\\\a\\b\\`): every
     iteration of that loop either breaks, or advances bi or ti (bounded by len(base), len(targ)), or leaves
     the state unchanged for ever, so "more than len(base)+len(targ)+2 iterations" is exactly "never
     returns"; the copy then panics with ErrRelLoop, which the harness prints as rel=loop.
The shims are written here verbatim (SHIMS) - they are the trusted part of the oracle.

On any failure the generator writes a stub package whose functions panic and records the reason in
LAST_ERROR (and harness/winfp/TRANSLATOR_ERROR): the harness of the other properties still builds, C13 reports
the broken translator (lib/vcheck/checks/c13.py) instead of passing without an oracle.
"""
import hashlib, os, re, shutil, subprocess

from . import gen

HARNESS = os.path.join(gen.ROOT, "harness")
OUT = os.path.join(HARNESS, "winfp")
MODULE = "verifharness"
LAST_ERROR = None
INFO = {}

IMPORT_MAP = {
    "os": MODULE + "/winfp/shim/os",
    "runtime": MODULE + "/winfp/shim/runtime",
    "syscall": MODULE + "/winfp/shim/syscall",
    "internal/bytealg": MODULE + "/winfp/shim/bytealg",
    "internal/stringslite": MODULE + "/winfp/shim/stringslite",
    "internal/filepathlite": MODULE + "/winfp/filepathlite",
}
# imports that may stay as they are (pure standard library, identical on every GOOS)
IMPORT_OK = {"errors", "io/fs", "slices", "strings", "unicode/utf8"}

# (source file relative to GOROOT/src, output file relative to harness/winfp, package clause, KEEP, DROP)
# KEEP/DROP name the top-level declarations: functions `name`, methods `Type.name`, var/const/type by their
# (first) name.  Every declaration of the source must be in exactly one of the two sets.
FILES = [
    ("internal/filepathlite/path.go", "filepathlite/path.go", "filepathlite",
     {"errInvalidPath", "lazybuf", "lazybuf.index", "lazybuf.append", "lazybuf.prepend", "lazybuf.string",
      "Clean", "IsLocal", "unixIsLocal", "Localize", "ToSlash", "FromSlash", "replaceStringByte", "Split", "Ext",
      "Base", "Dir", "VolumeName", "VolumeNameLen"}, set()),
    ("internal/filepathlite/path_windows.go", "filepathlite/path_win.go", "filepathlite",
     {"Separator", "IsPathSeparator", "isLocal", "localize", "isReservedName", "isReservedBaseName", "equalFold",
      "toUpper", "IsAbs", "volumeNameLen", "pathHasPrefixFold", "uncLen", "cutPath", "isUNC", "postClean"}, set()),
    ("path/filepath/path.go", "path.go", "winfp",
     {"Separator", "Clean", "IsLocal", "Localize", "ToSlash", "FromSlash", "SplitList", "Split", "Join", "Ext",
      "IsAbs", "Rel", "Base", "Dir", "VolumeName"},
     # need the operating system (file access, working directory, GetFullPathName)
     {"EvalSymlinks", "Abs", "unixAbs", "SkipDir", "SkipAll", "WalkFunc", "lstat", "walkDir", "walk", "WalkDir",
      "Walk", "readDirNames"}),
    ("path/filepath/path_windows.go", "path_win.go", "winfp",
     {"HasPrefix", "splitList", "join", "sameWord"},
     {"abs"}),   # syscall.FullPath = GetFullPathName
    ("path/filepath/match.go", "match.go", "winfp",
     {"ErrBadPattern", "Match", "scanChunk", "matchChunk", "getEsc"},
     {"Glob", "globWithLimit", "cleanGlobPath", "cleanGlobPathWindows", "glob", "hasMeta"}),   # file access
]

# Self-test of the retargeted package: the toolchain's OWN tests of the lexical functions (tables with their
# Windows halves and the Test functions that select them through runtime.GOOS), copied by the same machinery
# into an external test package and run by `go test` on every C13 run (selftest()).  Here DROP is "everything
# not named": the test files are mostly about the file system.
TEST_FILES = [
    ("path/filepath/path_test.go", "go_path_test.go", "winfp_test",
     {"PathTest", "cleantests", "nonwincleantests", "wincleantests", "TestClean",
      "sep", "slashtests", "TestFromAndToSlash",
      "SplitListTest", "lsep", "splitlisttests", "winsplitlisttests", "TestSplitList",
      "SplitTest", "unixsplittests", "winsplittests", "TestSplit",
      "JoinTest", "jointests", "nonwinjointests", "winjointests", "TestJoin",
      "ExtTest", "exttests", "TestExt",
      "basetests", "winbasetests", "TestBase",
      "dirtests", "nonwindirtests", "windirtests", "TestDir",
      "IsAbsTest", "isabstests", "winisabstests", "TestIsAbs",
      "RelTests", "reltests", "winreltests", "TestRel",
      "VolumeNameTest", "volumenametests", "TestVolumeName"}, None),
    ("path/filepath/match_test.go", "go_match_test.go", "winfp_test",
     {"MatchTest", "matchTests", "errp", "TestMatch"}, None),
]
TEST_IMPORT_MAP = {"path/filepath": MODULE + "/winfp", "runtime": MODULE + "/winfp/shim/runtime"}
TEST_IMPORT_OK = {"errors", "fmt", "reflect", "slices", "strings", "testing"}

# (output file, declaration, exact old text, new text): old must occur exactly once in the declaration
EDITS = [
    ("path.go", "Rel", "\n\tfor {\n",
     "\n\tfor winfpFuel := len(base) + len(targ) + 2; ; winfpFuel-- { // budget added by winportgen.py\n"
     "\t\tif winfpFuel < 0 {\n\t\t\tpanic(ErrRelLoop)\n\t\t}\n"),
]

SHIMS = {
    "relloop.go": '''package winfp

import "errors"

// ErrRelLoop is the panic value of the instrumented loop of Rel (see lib/vcheck/winportgen.py, EDITS):
// the toolchain's Rel would never return on this input.
var ErrRelLoop = errors.New("winfp: filepath.Rel does not terminate on this input")
''',
    "shim/os/os.go": '''// Package os binds the three names of package os that path/filepath uses to their Windows values
// (os/path_windows.go of the toolchain: PathSeparator = '\\\\', PathListSeparator = ';',
// IsPathSeparator(c) = c == '\\\\' || c == '/').
package os

const (
	PathSeparator     = '\\\\' // OS-specific path separator
	PathListSeparator = ';'  // OS-specific path list separator
)

// IsPathSeparator reports whether c is a directory separator character.
func IsPathSeparator(c uint8) bool {
	// NOTE: Windows accepts / as path separator.
	return c == '\\\\' || c == '/'
}
''',
    "shim/runtime/runtime.go": '''// Package runtime binds runtime.GOOS to the emulated operating system.
package runtime

import "runtime"

const GOOS = "windows"

// GOMAXPROCS is the real one (used by the toolchain's TestClean only).
func GOMAXPROCS(n int) int { return runtime.GOMAXPROCS(n) }
''',
    "shim/syscall/syscall.go": '''// Package syscall stands in for the one system call the lexical functions reach: GetFullPathName, used by
// filepathlite.isReservedName to ask the running Windows version whether a device name WITH an extension
// ("NUL.txt") is reserved.  There is no Windows here: the call fails, isReservedName answers false for such
// names (IsLocal/Localize on them are therefore not an oracle; C13 does not use them).
package syscall

import "errors"

func FullPath(name string) (path string, err error) {
	return "", errors.New("winfp: GetFullPathName is not available on this host")
}
''',
    "shim/bytealg/bytealg.go": '''// Package bytealg maps the two internal/bytealg functions used by path/filepath onto package strings.
package bytealg

import "strings"

func IndexByteString(s string, c byte) int { return strings.IndexByte(s, c) }

func CountString(s string, c byte) int { return strings.Count(s, string(rune(c))) }
''',
    "shim/stringslite/stringslite.go": '''// Package stringslite maps the internal/stringslite functions used by filepathlite onto package strings
// (internal/stringslite is documented as the subset of strings that os may import, same semantics).
package stringslite

import "strings"

func IndexByte(s string, c byte) int { return strings.IndexByte(s, c) }

func HasPrefix(s, prefix string) bool { return strings.HasPrefix(s, prefix) }

func Cut(s, sep string) (before, after string, found bool) { return strings.Cut(s, sep) }
''',
}

# the API the harness uses; the stub written on failure has the same one
STUB = '''// GENERATED STUB: the translator lib/vcheck/winportgen.py FAILED (%(err)s).
package winfp

import "errors"

var ErrRelLoop = errors.New("winfp: stub")

func fail() { panic("winfp: translator failed: " + %(qerr)s) }

func Clean(path string) string                     { fail(); return "" }
func Join(elem ...string) string                   { fail(); return "" }
func Split(path string) (dir, file string)         { fail(); return "", "" }
func Dir(path string) string                       { fail(); return "" }
func Base(path string) string                      { fail(); return "" }
func Ext(path string) string                       { fail(); return "" }
func IsAbs(path string) bool                       { fail(); return false }
func VolumeName(path string) string                { fail(); return "" }
func Rel(basepath, targpath string) (string, error) { fail(); return "", nil }
func FromSlash(path string) string                 { fail(); return "" }
func ToSlash(path string) string                   { fail(); return "" }
func Match(pattern, name string) (bool, error)     { fail(); return false, nil }
'''
STUB_LITE = '''// GENERATED STUB: the translator lib/vcheck/winportgen.py FAILED.
package filepathlite

func VolumeNameLen(path string) int { panic("winfp: translator failed") }
'''


class TranslateError(Exception):
    pass


def goroot():
    p = subprocess.run(["go", "env", "GOROOT"], stdout=subprocess.PIPE, stderr=subprocess.PIPE, timeout=60,
                       env=dict(os.environ, GOFLAGS="-mod=mod", GOTOOLCHAIN="local"))
    r = p.stdout.decode().strip()
    if p.returncode != 0 or not r or not os.path.isdir(os.path.join(r, "src")):
        raise TranslateError("cannot locate GOROOT (go env GOROOT: rc=%d %r)" % (p.returncode, r))
    return r


DECL_START = re.compile(r'^(func|var|const|type)\b')


def decl_names(first_line, block):
    """Names declared by a top-level declaration."""
    m = re.match(r'^func\s+\(\s*\w+\s+\*?(\w+)\s*\)\s*(\w+)', first_line)
    if m:
        return [m.group(1) + "." + m.group(2)]
    m = re.match(r'^func\s+(\w+)', first_line)
    if m:
        return [m.group(1)]
    m = re.match(r'^(var|const|type)\s+(\w+)', first_line)
    if m:
        return [m.group(2)]
    if re.match(r'^(var|const|type)\s*\($', first_line):
        # grouped declaration: named after its first member
        for l in block[1:]:
            mm = re.match(r'^\t(\w+)', l)
            if mm:
                return [mm.group(1)]
    raise TranslateError("cannot name the declaration starting with %r" % first_line)


def split_decls(src, path):
    """-> (header lines up to and including the package clause, import specs, [(names, text)])."""
    lines = src.split("\n")
    i, n = 0, len(lines)
    header = []
    while i < n and not lines[i].startswith("package "):
        header.append(lines[i])
        i += 1
    if i == n:
        raise TranslateError(path + ": no package clause")
    pkgline = lines[i]
    i += 1
    imports = []
    decls = []
    pending = []   # comment / blank lines waiting for the next declaration
    while i < n:
        l = lines[i]
        if l.startswith("import "):
            if l.rstrip() == "import (":
                i += 1
                while lines[i] != ")":
                    s = lines[i].strip()
                    if s:
                        imports.append(s)
                    i += 1
                i += 1
            else:
                imports.append(l[len("import "):].strip())
                i += 1
            pending = []
            continue
        if DECL_START.match(l):
            block = [l]
            # single-line declaration or block up to the closing line in column 0
            l0 = re.sub(r'([{(])\s*//.*$', r'\1', l).rstrip()   # `func T(t *testing.T) { // comment`
            opens = l0.endswith("{") or l0.endswith("(")
            if opens:
                i += 1
                while i < n and lines[i] not in ("}", ")"):
                    block.append(lines[i])
                    i += 1
                if i == n:
                    raise TranslateError("%s: unterminated declaration %r" % (path, l))
                block.append(lines[i])
            i += 1
            # doc comment = the comment lines directly above (no blank line in between)
            doc = []
            while pending and pending[-1].startswith("//"):
                doc.insert(0, pending.pop())
            pending = []
            decls.append((decl_names(l, block), "\n".join(doc + block)))
            continue
        if l.startswith("//") or l.strip() == "":
            pending.append(l)
            i += 1
            continue
        raise TranslateError("%s:%d: line outside any declaration: %r" % (path, i + 1, l))
    return header, pkgline, imports, decls


def import_ident(spec):
    """identifier under which an import spec is referenced."""
    m = re.match(r'^(?:(\w+|\.)\s+)?"([^"]+)"$', spec)
    if not m:
        raise TranslateError("unparsable import spec %r" % spec)
    return (m.group(1) or m.group(2).rsplit("/", 1)[-1]), m.group(2)


def translate_file(root, rel, outrel, pkg, keep, drop, imap=None, iok=None):
    """drop=None: every declaration not in keep is dropped (test files)."""
    imap = IMPORT_MAP if imap is None else imap
    iok = IMPORT_OK if iok is None else iok
    path = os.path.join(root, "src", rel)
    try:
        src = open(path).read()
    except OSError as e:
        raise TranslateError("cannot read %s: %s" % (path, e))
    header, pkgline, imports, decls = split_decls(src, rel)
    seen = set()
    body = []
    edits_done = set()
    for names, text in decls:
        nm = names[0]
        seen.add(nm)
        if nm in keep:
            for (efile, edecl, old, new) in EDITS:
                if efile == outrel and edecl == nm:
                    if text.count(old) != 1:
                        raise TranslateError("%s: %s: the statement to instrument (%r) occurs %d times" % (rel, nm, old, text.count(old)))
                    text = text.replace(old, new)
                    edits_done.add((efile, edecl))
            body.append(text)
        elif drop is None or nm in drop:
            continue
        else:
            raise TranslateError("%s declares %s, which the translator does not know (neither kept nor dropped): "
                                 "the toolchain differs from the one the translator was written for" % (rel, nm))
    missing = (keep | (drop or set())) - seen
    if missing:
        raise TranslateError("%s no longer declares %s" % (rel, ", ".join(sorted(missing))))
    for (efile, edecl, _, _) in EDITS:
        if efile == outrel and (efile, edecl) not in edits_done:
            raise TranslateError("%s: declaration %s to instrument not found" % (rel, edecl))
    code = "\n\n".join(body)
    # imports still referenced (string literals and comments do not count)
    bare = re.sub(r'"(\\.|[^"\\\n])*"|`[^`]*`|\'(\\.|[^\'\\\n])+\'', '""', code)
    bare = re.sub(r'//[^\n]*', '', bare)
    specs = []
    for sp in imports:
        ident, ipath = import_ident(sp)
        if ident != "." and not re.search(r'\b%s\.' % re.escape(ident), bare):
            continue
        if ipath in imap:
            # the identifier under which the bodies refer to the package stays the original one
            new = imap[ipath]
            alias = "" if new.rsplit("/", 1)[-1] == ident else ident + " "
            specs.append('\t%s"%s"' % (alias, new))
        elif ipath in iok:
            specs.append('\t"%s"' % ipath)
        else:
            raise TranslateError("%s imports %s, for which the translator has no rule" % (rel, ipath))
    header = [h for h in header if not re.match(r'^//\s*(go:build|\+build)\b', h)]
    out = ("// Code generated by lib/vcheck/winportgen.py from $GOROOT/src/%s (sha256 %s); DO NOT EDIT.\n"
           "// Declarations are verbatim; see design.d/C13-windows.md for the list of substitutions.\n\n"
           % (rel, hashlib.sha256(src.encode()).hexdigest()[:16]))
    out += "\n".join(h for h in header if h.startswith("//")) + "\n\n"
    out += "package %s\n\n" % pkg
    if specs:
        out += "import (\n" + "\n".join(sorted(specs)) + "\n)\n\n"
    out += code + "\n"
    INFO.setdefault("sources", {})[rel] = {"sha256": hashlib.sha256(src.encode()).hexdigest(),
                                            "kept": sorted(seen & keep),
                                            "dropped": sorted(seen & drop) if drop is not None else "all other declarations (%d)" % len(seen - keep)}
    return outrel, out


def selftest(timeout=600):
    """Run the toolchain's own tests (TEST_FILES) against the retargeted package.  -> (ok, output)"""
    env = dict(os.environ, GOFLAGS="-mod=mod", GOPROXY="off", GOSUMDB="off", GOTOOLCHAIN="local", CGO_ENABLED="0")
    try:
        p = subprocess.run(["go", "test", "-count=1", "-vet=off", "-v", "./winfp/"], cwd=HARNESS, env=env,
                           stdout=subprocess.PIPE, stderr=subprocess.STDOUT, timeout=timeout)
    except subprocess.TimeoutExpired:
        return False, "go test ./winfp/ timed out"
    out = p.stdout.decode("utf-8", "replace")
    INFO["selftest"] = {"passed": re.findall(r'^--- PASS: (\w+)', out, flags=re.M),
                        "failed": re.findall(r'^--- FAIL: (\w+)', out, flags=re.M),
                        "skipped": re.findall(r'^--- SKIP: (\w+)', out, flags=re.M)}
    want = sorted(n for f in TEST_FILES for n in f[3] if n.startswith("Test"))
    missing = [n for n in want if n not in INFO["selftest"]["passed"]]
    if missing:
        out += "\nselftest: not passed: " + ", ".join(missing)
    return p.returncode == 0 and not missing, out


def prune(keepset):
    """remove everything under OUT that is not in keepset"""
    for d, _, fs in os.walk(OUT, topdown=False):
        for f in fs:
            rel = os.path.relpath(os.path.join(d, f), OUT)
            if rel not in keepset:
                os.remove(os.path.join(d, f))
        if d != OUT and not os.listdir(d):
            os.rmdir(d)


def generate():
    """Regenerate harness/winfp/.  Never raises: on failure a panicking stub is written and LAST_ERROR set."""
    global LAST_ERROR
    INFO.clear()
    try:
        root = goroot()
        INFO["goroot"] = root
        try:
            INFO["toolchain"] = open(os.path.join(root, "VERSION")).read().split("\n")[0].strip()
        except OSError:
            INFO["toolchain"] = "unknown"
        outs = dict(translate_file(root, *f) for f in FILES)
        outs.update(dict(translate_file(root, *f, imap=TEST_IMPORT_MAP, iok=TEST_IMPORT_OK) for f in TEST_FILES))
        outs.update(SHIMS)
        for rel, content in outs.items():
            gen.write_if_changed(os.path.join(OUT, rel), content)
        prune(set(outs))
        LAST_ERROR = None
    except Exception as e:   # fail closed, but contained: the other properties' harness must still build
        LAST_ERROR = "%s: %s" % (type(e).__name__, e)
        shutil.rmtree(OUT, ignore_errors=True)
        q = '"' + LAST_ERROR.replace("\\", "\\\\").replace('"', '\\"').replace("\n", " ") + '"'
        gen.write_if_changed(os.path.join(OUT, "stub.go"), STUB % {"err": LAST_ERROR.replace("\n", " "), "qerr": q})
        gen.write_if_changed(os.path.join(OUT, "filepathlite", "stub.go"), STUB_LITE)
        gen.write_if_changed(os.path.join(OUT, "TRANSLATOR_ERROR"), LAST_ERROR + "\n")
    return LAST_ERROR


gen.GENERATORS.append(generate)
