"""Shared driver of the wrapper checks C09 (RoFS) and C12 (FailFS).

 1. regenerate the tables from the Go source and build the proofs;
 2. if an obligation is broken: ask Coq which methods fail their table obligation and run the
    correspondence FOCUSED on them (many calls through the wrapper on a populated base, base
    snapshot diffed around every call) to find a concrete failing input; only if none is
    found report the broken obligation with no-failing-input-found;
 3. run the correspondence (model = wrapper semantics over the scripted base, with the
    regenerated table; implementation = the Go wrapper over MemFS/OrefaFS behind a recording
    proxy); any PROPFAIL marker (the property evaluated directly by the harness) or any
    model/implementation difference is a violation, shrunk;
 4. every method of the regenerated table must have been exercised.
"""
import os, re, json
from . import COQ, WORK, sh, log
from . import GOENV


def table_methods(gen_file):
    p = os.path.join(COQ, "theories", "Wrap", gen_file)
    try:
        src = open(p).read()
    except OSError:
        return []
    return ["%s.%s" % (t, n) for t, n in re.findall(r"\(M([VF]) [VF]_(\w+),", src)]


def offending_methods(ctx, table, check_fn, imports):
    """Methods whose table obligation evaluates to false (computed by Coq itself)."""
    d = os.path.join(WORK, ctx.prop)
    os.makedirs(d, exist_ok=True)
    vf = os.path.join(d, "Offend_%s.v" % ctx.prop)
    with open(vf, "w") as f:
        f.write("From Avfs Require Import Base Wrapper %s.\n" % imports)
        f.write("Eval vm_compute in (filter (fun m => negb (%s %s m)) all_meth).\n" % (check_fn, table))
    rc, out = sh(["coqc", "-Q", os.path.join(COQ, "theories"), "Avfs", vf], cwd=d, timeout=600)
    if rc != 0:
        return None, out
    return ["%s.%s" % (t, n) for t, n in re.findall(r"M([VF]) [VF]_(\w+)", out)], out


def has_propfail(obs):
    return "PROPFAIL" in obs or "HANG" in obs


def dep_slice(case):
    """header | ops...: keep the last op and, transitively, the ops that bound the objects it is called on."""
    parts = case.split(" | ")
    head, ops = parts[0], parts[1:]
    if not ops:
        return case
    def obj_bind(op):
        f = op.split(" ~ ")[0].split(" ^ ")[0].split()
        try:
            return int(f[0][1:]), int(f[2])
        except (IndexError, ValueError):
            return None, None
    need, keep = set(), [len(ops) - 1]
    need.add(obj_bind(ops[-1])[0])
    for i in range(len(ops) - 2, -1, -1):
        o, b = obj_bind(ops[i])
        if b in need and b != 0:
            keep.append(i)
            need.discard(b)
            need.add(o)
    return " | ".join([head] + [ops[i] for i in sorted(keep)])


def report(ctx, st, mm, what_model, what_prop, known_swallow=None):
    """Turn mismatching histories into violations: at most two of each kind, shrunk."""
    prop = [x for x in mm if has_propfail(x[3])]
    other = [x for x in mm if not has_propfail(x[3])]
    # the strongest witnesses first: the base changed
    prop.sort(key=lambda x: (0 if "base-changed" in x[3] else 1, len(x[1])))
    found = False
    for group, is_prop in ((prop, True), (other, False)):
        for (i, c, m, o) in group[:1]:
            keep = None
            if is_prop:
                mark = "base-changed" if "base-changed" in o else ("PROPFAIL" if "PROPFAIL" in o else "HANG")
                keep = (lambda x, mark=mark: mark in x[3])
                # the failure shows at one step: everything after it is irrelevant
                cs, os_ = c.split(" | "), o.split(" | ")
                for j, part in enumerate(os_):
                    if mark in part and 0 < j < len(cs):
                        c = " | ".join(cs[:j + 1])
                        break
            else:
                cs, ms, os_ = c.split(" | "), m.split(" | "), o.split(" | ")
                for j, (a, b) in enumerate(zip(ms, os_)):
                    if a != b and 0 < j < len(cs):
                        c = " | ".join(cs[:j + 1])
                        break
            # first candidate: the failing call and the calls that produced the objects it uses
            sl = dep_slice(c)
            # under a fault plan "F:k" the slice has fewer invocations of F: also try it with k = 0
            parts = sl.split(" | ")
            sl0 = " | ".join([re.sub(r"(Fn\w+):\d+", r"\1:0", parts[0])] + parts[1:])
            for cand in ([sl, sl0] if sl0 != sl else [sl]):
                if cand == c:
                    continue
                mm1 = ctx.stream(st["name"] + "-shrink", st["harness"], st["driver"], replay_lines=[cand])
                if mm1 and (keep is None or keep(mm1[0])):
                    c = cand
                    break
            case = ctx.shrink(st["name"], st["harness"], st["driver"], c, still_bad=keep)
            mm2 = ctx.stream(st["name"] + "-shrink", st["harness"], st["driver"], replay_lines=[case])
            if mm2:
                _, case, m, o = mm2[0]
            marks = sorted(set(re.findall(r"PROPFAIL:[a-z-]+", o)))
            what = (what_prop % (", ".join(marks) or "HANG")) if is_prop else (what_model % len(other))
            ctx.violation(st["name"], what, {"stream": st, "case": case, "model": m, "observed": o,
                                             "mismatching_cases_in_run": len(group)})
            found = True
    return found


WRAP_TRUSTED = [
    "assumption on the base file system (Section Hypothesis base_nonwrite of C09_history / C12_readonly): calls outside the write class of Wrapper.bclass (write class = Chmod Chown Chtimes Create CreateTemp Lchown Link Mkdir MkdirAll MkdirTemp OpenFile(flag != O_RDONLY) Remove RemoveAll Rename Symlink Truncate WriteFile, File.Chmod/Chown/Truncate/Write/WriteAt/WriteString) leave the base's tree (names, bytes, modes, owners, mtimes) unchanged; checked on MemFS and OrefaFS by the snapshot comparison around EVERY call of the correspondence run, not proved against a MemFS model",
    "translator lib/vcheck/wrapgen.py + harness/tools/wrapgen (go/ast dump of canonical method bodies, shape matching by regular expressions, fails closed with KUnrecognised): that a recognised shape means what Wrapper.v says the kind means",
    "KPure methods (avfs.Clean(vfs, ...) etc. over the wrapper's own getters) and the getters are modelled as forwarding; equality with the base's answer is tested per call (direct base answer in the case line), not proved",
    "'the base driven directly' for composites is the generic program of vfs.go over the base's primitives: Gen_failfs.base_composites_generic records that memfs.go / orefafs.go define Create/CreateTemp/Glob/MkdirTemp/ReadDir/ReadFile/WalkDir/WriteFile as avfs.X(vfs, ...)",
    "recording proxy + executors (harness/cmd/avfscheck/wrap_gen.go, generated by harness/tools/mkwrapgo.py), the property oracle and snapshot code of harness/cmd/avfscheck/wrap.go, ml/drv_wrap.ml (scripted base, printing)",
    "class CConfig (Features, HasFeature, SetFeatures, Idm, Name, Type, OSType, SetFailFunc) is exempt from 'returns what the base returns': these describe the wrapper object itself; class CSession (Chdir, SetUMask, SetUser, SetUserByName, SetIdm, File.Sync, File.Chdir) changes no tree: a wrapper may forward or refuse",
]


def run(ctx, wrapper, table, gen_file, check_fn, imports, what_model, what_prop, extra=None):
    st = {"name": wrapper, "harness": "wrap-" + wrapper, "driver": "wrap"}
    ctx.coverage["trusted_base"] += WRAP_TRUSTED
    ok = ctx.proofs()
    if not ok:
        broken = ctx.violations.pop()       # keep it aside: first look for a concrete failing input
        found = False
        offenders, out = offending_methods(ctx, table, check_fn, imports)
        ctx.coverage["broken_obligation"] = {"methods_failing_their_table_obligation": offenders}
        if offenders:
            log("  table obligation fails for: " + ", ".join(offenders) + " - focused search")
            GOENV["VERIF_WRAP_FOCUS"] = ",".join(offenders[:12])
            try:
                mm = ctx.stream(st["name"] + "-focus", st["harness"], st["driver"])
            finally:
                GOENV.pop("VERIF_WRAP_FOCUS", None)
            if mm:
                pf = [x for x in mm if has_propfail(x[3])]
                if pf:
                    found = report(ctx, dict(st, name=st["name"] + "-focus"), pf, what_model, what_prop)
        if not found:
            mm = ctx.stream(st["name"], st["harness"], st["driver"])
            if mm:
                pf = [x for x in mm if has_propfail(x[3])]
                if pf:
                    found = report(ctx, st, pf, what_model, what_prop)
        if not found:
            ctx.violations.append(broken)
        else:
            try:
                os.remove(broken.replay)
            except OSError:
                pass
        return
    mm = ctx.stream(st["name"], st["harness"], st["driver"])
    if mm is None:
        return
    if extra:
        mm = extra(ctx, st, mm)
    report(ctx, st, mm, what_model, what_prop)
    # coverage of the regenerated method table
    try:
        stats = json.load(open(os.path.join(ctx.dir, st["name"] + ".stats.json")))
    except Exception:
        stats = {}
    dist = stats.get("distribution", {})
    methods = table_methods(gen_file)
    missing = [m for m in methods if dist.get("method:" + m, 0) == 0]
    ctx.coverage["method_table"] = {"methods_in_regenerated_table": len(methods),
                                    "exercised_through_the_wrapper": len(methods) - len(missing),
                                    "not_exercised": missing,
                                    "calls_per_method": {m: dist.get("method:" + m, 0) for m in methods}}
    ctx.coverage["calls"] = stats.get("calls", 0)
    if missing and stats.get("stopped_after_hangs"):
        ctx.coverage["method_table"]["note"] = "the run stopped after two calls that never returned; coverage of the table is incomplete"
    elif missing:
        ctx.broken("coverage", "methods of the regenerated table were never called by the correspondence run: " + ", ".join(missing), "")
