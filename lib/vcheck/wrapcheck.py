"""Shared driver of the wrapper checks C09 (RoFS) and C12 (FailFS).

 1. regenerate the tables from the Go source and build the proofs;
 2. if an obligation is broken: ask Coq which methods fail their table obligation and run the
    correspondence FOCUSED on them (many calls through the wrapper on a populated base, base
    snapshot diffed around every call) to find a concrete failing input; only if none is
    found report the broken obligation with no-failing-input-found;
 3. run the correspondence (model = wrapper semantics over the scripted base, with the
    regenerated table; implementation = the Go wrapper over MemFS/OrefaFS behind a recording
    proxy); any PROPFAIL marker (the property evaluated directly by the harness) or any
    model/implementation difference is a violation, shrunk;
 4. every method of the regenerated table must have been exercised.
"""
import os, re, json
from . import COQ, WORK, sh, log
from . import GOENV


def table_methods(gen_file):
    p = os.path.join(COQ, "theories", "Wrap", gen_file)
    try:
        src = open(p).read()
    except OSError:
        return []
    return ["%s.%s" % (t, n) for t, n in re.findall(r"\(M([VF]) [VF]_(\w+),", src)]


def offending_methods(ctx, table, check_fn, imports):
    """Methods whose table obligation evaluates to false (computed by Coq itself)."""
    d = os.path.join(WORK, ctx.prop)
    os.makedirs(d, exist_ok=True)
    vf = os.path.join(d, "Offend_%s.v" % ctx.prop)
    with open(vf, "w") as f:
        f.write("From Avfs Require Import Base Wrapper %s.\n" % imports)
        f.write("Eval vm_compute in (filter (fun m => negb (%s %s m)) all_meth).\n" % (check_fn, table))
    rc, out = sh(["coqc", "-Q", os.path.join(COQ, "theories"), "Avfs", vf], cwd=d, timeout=600)
    if rc != 0:
        return None, out
    return ["%s.%s" % (t, n) for t, n in re.findall(r"M([VF]) [VF]_(\w+)", out)], out


def has_propfail(obs):
    return "PROPFAIL" in obs or "HANG" in obs


def report(ctx, st, mm, what_model, what_prop, known_swallow=None):
    """Turn mismatching histories into violations: at most two of each kind, shrunk."""
    prop = [x for x in mm if has_propfail(x[3])]
    other = [x for x in mm if not has_propfail(x[3])]
    found = False
    for group, is_prop in ((prop, True), (other, False)):
        for (i, c, m, o) in group[:1]:
            keep = (lambda x: has_propfail(x[3])) if is_prop else None
            case = ctx.shrink(st["name"], st["harness"], st["driver"], c, still_bad=keep)
            mm2 = ctx.stream(st["name"] + "-shrink", st["harness"], st["driver"], replay_lines=[case])
            if mm2:
                _, case, m, o = mm2[0]
            marks = sorted(set(re.findall(r"PROPFAIL:[a-z-]+", o)))
            what = (what_prop % (", ".join(marks) or "HANG")) if is_prop else (what_model % len(other))
            ctx.violation(st["name"], what, {"stream": st, "case": case, "model": m, "observed": o,
                                             "mismatching_cases_in_run": len(group)})
            found = True
    return found


def run(ctx, wrapper, table, gen_file, check_fn, imports, what_model, what_prop, extra=None):
    st = {"name": wrapper, "harness": "wrap-" + wrapper, "driver": "wrap"}
    ok = ctx.proofs()
    if not ok:
        broken = ctx.violations.pop()       # keep it aside: first look for a concrete failing input
        found = False
        offenders, out = offending_methods(ctx, table, check_fn, imports)
        ctx.coverage["broken_obligation"] = {"methods_failing_their_table_obligation": offenders}
        if offenders:
            log("  table obligation fails for: " + ", ".join(offenders) + " - focused search")
            GOENV["VERIF_WRAP_FOCUS"] = ",".join(offenders[:12])
            try:
                mm = ctx.stream(st["name"] + "-focus", st["harness"], st["driver"])
            finally:
                GOENV.pop("VERIF_WRAP_FOCUS", None)
            if mm:
                pf = [x for x in mm if has_propfail(x[3])]
                if pf:
                    found = report(ctx, dict(st, name=st["name"] + "-focus"), pf, what_model, what_prop)
        if not found:
            mm = ctx.stream(st["name"], st["harness"], st["driver"])
            if mm:
                pf = [x for x in mm if has_propfail(x[3])]
                if pf:
                    found = report(ctx, st, pf, what_model, what_prop)
        if not found:
            ctx.violations.append(broken)
        else:
            try:
                os.remove(broken.replay)
            except OSError:
                pass
        return
    mm = ctx.stream(st["name"], st["harness"], st["driver"])
    if mm is None:
        return
    if extra:
        mm = extra(ctx, st, mm)
    report(ctx, st, mm, what_model, what_prop)
    # coverage of the regenerated method table
    try:
        stats = json.load(open(os.path.join(ctx.dir, st["name"] + ".stats.json")))
    except Exception:
        stats = {}
    dist = stats.get("distribution", {})
    methods = table_methods(gen_file)
    missing = [m for m in methods if dist.get("method:" + m, 0) == 0]
    ctx.coverage["method_table"] = {"methods_in_regenerated_table": len(methods),
                                    "exercised_through_the_wrapper": len(methods) - len(missing),
                                    "not_exercised": missing,
                                    "calls_per_method": {m: dist.get("method:" + m, 0) for m in methods}}
    ctx.coverage["calls"] = stats.get("calls", 0)
    if missing:
        ctx.broken("coverage", "methods of the regenerated table were never called by the correspondence run: " + ", ".join(missing), "")
