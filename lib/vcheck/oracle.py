"""The oracle streams (C01, C03, C04): MemFS (implementation) vs Linux in a chroot (oracle) vs Posix.v (specification).

For every generated history:
  B  specification == kernel, call by call (validates the specification; a difference is a defect of the
     machinery's model of Linux and is reported as a broken correspondence, never as a finding);
  O  implementation == kernel, call by call up to the first deviation; the deviation is identified by its KEY
     op : operand shapes : implementation outcome : kernel outcome : tree same/different
     (operand shapes are computed by the Coq model on the specification state) and must be listed, as an open
     known finding of the property, in known_findings.jsonl; any other deviation is a VIOLATION;
  T  wherever no deviation key applies, the implementation MODEL started from the specification's state must give
     the specification's answer (the statement of the step theorem, evaluated as a test on every generated state).
A history is cut where the working directory has been unlinked (outside the modelled universe).
"""
import collections, os, re
from . import ML, sh, build_coq, build_ml, build_go, GOENV


def res_kind(r):
    r = r.split(" #")[0]
    f = r.split()
    if not f:
        return "?"
    if f[0] in ("E", "EP"):
        return "E" + f[1]
    return f[0]


def deviation_key(op, shapes, impl, kern):
    ik, kk = res_kind(impl), res_kind(kern)
    isnap = impl.split(" #")[1] if " #" in impl else ""
    ksnap = kern.split(" #")[1] if " #" in kern else ""
    tree = "=" if isnap == ksnap else "T"
    if ik == kk and impl.split(" #")[0] != kern.split(" #")[0]:
        ik, kk = ik + "a", kk + "b"          # same kind, different payload
    return "%s:%s:%s:%s:%s" % (op.split()[0], shapes, ik, kk, tree)


def run_streams(ctx, name, mode, fsname="memfs", driver_cmd="fso"):
    # only the model files are needed here; another property's broken obligation must not raise an alarm for this one
    build_coq(target="theories/Extract/Extract.vo")
    ok, out = build_ml()
    if not ok:
        ctx.broken("model-build", "extraction / OCaml build of the model failed", out[-3000:])
        return None
    ok, out, binp = build_go("")
    if not ok:
        ctx.broken("harness-build", "the Go harness does not build against /repo's working tree", out[-3000:])
        return None
    env = dict(GOENV, VERIF_FSO_MODE=mode, VERIF_FSO_FS=fsname)
    rc, out = sh([binp, "fso", "-seed", str(ctx.seed), "-tier", ctx.tier, "-out", ctx.dir, "-name", name], cwd=ctx.dir, env=env, timeout=3000)
    if rc != 0:
        ctx.broken("harness-run:" + name, "the oracle harness failed (rc=%d)" % rc, out[-3000:])
        return None
    base = os.path.join(ctx.dir, name)
    rc, out = sh("%s/driver %s < %s.cases > %s.model" % (ML, driver_cmd, base, base), timeout=3000)
    if rc != 0:
        ctx.broken("model-run:" + name, "the specification driver failed", out[-3000:])
        return None
    rd = lambda ext: open(base + ext).read().splitlines()
    return rd(".cases"), rd(".observed"), rd(".oracle"), rd(".model")


def analyse(cases, obs, ora, mod):
    """Returns dict with B, O, T lists and counters."""
    B, T = [], []
    O = collections.OrderedDict()     # key -> list of (hist, step)
    steps = 0
    agree = 0
    for i, (c, o, k, m) in enumerate(zip(cases, obs, ora, mod)):
        ops = c.split(" | ")[1:]
        os_, ks, ms = o.split(" | "), k.split(" | "), m.split(" | ")
        odone = False
        for j, op in enumerate(ops):
            if j >= len(ms) or j >= len(ks):
                break
            f = ms[j].split(" ~")
            spec, kf, thm, shapes, alive = f[0], f[1], f[2], f[3], f[4]
            steps += 1
            if spec != ks[j]:
                B.append((i, j, op, spec, ks[j]))
                break
            impl = os_[j] if j < len(os_) else "<none>"
            if not odone:
                if impl != ks[j]:
                    odone = True
                    O.setdefault(deviation_key(op, shapes, impl, ks[j]), []).append((i, j))
                else:
                    agree += 1
            if thm == "F":
                T.append((i, j, op, shapes, spec))
            if alive == "D":
                break
    return {"B": B, "O": O, "T": T, "steps": steps, "agree": agree}
