"""Core of bin/check: builds, stream runner, shrinker, evidence, violation protocol."""
import fcntl, glob, hashlib, json, os, re, shutil, subprocess, sys, time

ROOT = os.path.dirname(os.path.dirname(os.path.dirname(os.path.abspath(__file__))))
WORK = os.path.join(ROOT, "work")
COQ = os.path.join(ROOT, "coq")
ML = os.path.join(ROOT, "ml")
HARNESS = os.path.join(ROOT, "harness")
EVID = os.path.join(ROOT, "evidence")
REPO = os.environ.get("VERIF_REPO", "/repo")   # override only for development against a scratch worktree

GOENV = dict(os.environ, GOFLAGS="-mod=mod", GOPROXY="off", GOSUMDB="off", GOTOOLCHAIN="local",
             CGO_ENABLED="0")

TRUSTED_BASE = [
    "Coq 8.16.1 kernel (coqc; vm_compute used for finite sweeps and witnesses; native_compute not used)",
    "no Axiom/Parameter/Admitted in the development; Print Assumptions output per theorem is recorded under 'assumptions_report'",
    "extraction: Coq's OCaml extraction with ExtrOcamlBasic only (bool, option, unit, list, prod, sumbool, sumor mapped to OCaml's; andb/orb inlined); N/Z/positive/nat stay extracted inductives; OCaml 4.13.1; ml/conv.ml + ml/driver.ml parsing/printing glue",
    "hand-written Gallina model of the Go code: agreement with /repo is tested by the correspondence run of this check (differential, not proved)",
    "Go harness (generators, canonicalisation of results) in /verif/harness; Go 1.23.5 toolchain and runtime",
]


def log(*a):
    print(*a, file=sys.stderr, flush=True)


def sh(cmd, cwd=None, timeout=3600, env=None, stdin=None):
    """Run a command (list or shell string); returns (rc, combined output)."""
    try:
        p = subprocess.run(cmd, cwd=cwd, env=env, shell=isinstance(cmd, str), stdin=stdin,
                           stdout=subprocess.PIPE, stderr=subprocess.STDOUT, timeout=timeout)
        return p.returncode, p.stdout.decode("utf-8", "replace")
    except subprocess.TimeoutExpired as e:
        return 124, (e.stdout or b"").decode("utf-8", "replace") + "\nTIMEOUT"


class Lock:
    def __init__(self, name="build"):
        os.makedirs(WORK, exist_ok=True)
        self.path = os.path.join(WORK, "." + name + ".lock")

    def __enter__(self):
        self.f = open(self.path, "w")
        fcntl.flock(self.f, fcntl.LOCK_EX)
        return self

    def __exit__(self, *a):
        fcntl.flock(self.f, fcntl.LOCK_UN)
        self.f.close()


def newest_mtime(paths):
    m = 0.0
    for p in paths:
        try:
            m = max(m, os.path.getmtime(p))
        except OSError:
            pass
    return m


# --------------------------------------------------------------------------
# builds

def coq_sources():
    return sorted(glob.glob(os.path.join(COQ, "theories", "**", "*.v"), recursive=True))


def build_coq(clean=False, target=None):
    """Full .vo build of the Coq development. Returns (ok, log, failing_file).
    A table regenerated from a mutated source may break ANOTHER property's obligation; with a target
    (theories/Properties/Cxx.vo) the build keeps going (-k) and succeeds iff that target is built."""
    with Lock("coq"):
        from . import gen
        gen.regenerate_all()
        if clean:
            sh("make clean >/dev/null 2>&1; find theories -name '*.vo' -o -name '*.glob' -o -name '*.vok' -o -name '*.vos' -o -name '.*.aux' | xargs rm -f", cwd=COQ)
        mk = os.path.join(COQ, "Makefile")
        cp = os.path.join(COQ, "_CoqProject")
        if not os.path.exists(mk) or os.path.getmtime(mk) < os.path.getmtime(cp):
            rc, out = sh(["coq_makefile", "-f", "_CoqProject", "-o", "Makefile"], cwd=COQ)
            if rc != 0:
                return False, out, None
        rc, out = sh(["timeout", "3000", "make", "-j16"] + (["-k"] if target else []), cwd=COQ, timeout=3100)
        if rc != 0 and target:
            rc2, out2 = sh(["timeout", "3000", "make", target], cwd=COQ, timeout=3100)
            if rc2 == 0:
                rc, out = 0, out + "\n(other targets failed; %s is built)\n" % target
            else:
                out = out2
        with open(os.path.join(WORK, "coq-build.log"), "w") as f:
            f.write(out)
        failing = None
        if rc != 0:
            m = re.search(r'File "\./([^"]+)"', out)
            if m:
                failing = m.group(1)
        return rc == 0, out, failing


def property_files(prop):
    """Properties/<prop>.v and its continuation files Properties/<prop><Suffix>.v (suffix starts with a letter or _)."""
    d = os.path.join(COQ, "theories", "Properties")
    try:
        off = {os.path.basename(l.strip()) for l in open(os.path.join(COQ, "disabled.txt")) if l.strip() and not l.startswith("#")}
    except OSError:
        off = set()
    fs = []
    for f in sorted(os.listdir(d)) if os.path.isdir(d) else []:
        if f not in off and re.match(r'^%s([A-Za-z_][A-Za-z0-9_]*)?\.v$' % re.escape(prop), f):
            fs.append(os.path.join(d, f))
    return fs


def property_theorems(prop):
    """Names of the Theorem statements of the property's statement files, in order."""
    names = []
    for p in property_files(prop):
        names += re.findall(r'^\s*Theorem\s+([A-Za-z0-9_\']+)', open(p).read(), flags=re.M)
    return names


def coq_assumptions(prop):
    """Print Assumptions for every theorem of the property file.
    Returns (ok, {theorem: 'closed' | [axioms]}, raw log)."""
    names = property_theorems(prop)
    d = os.path.join(WORK, prop)
    os.makedirs(d, exist_ok=True)
    vf = os.path.join(d, "Assum_%s.v" % prop)
    with open(vf, "w") as f:
        f.write("From Avfs Require Import %s.\n" % " ".join(os.path.basename(x)[:-2] for x in property_files(prop)))
        for n in names:
            f.write('Goal True. idtac "@@THEOREM %s". Abort.\nPrint Assumptions %s.\n' % (n, n))
    rc, out = sh(["coqc", "-Q", os.path.join(COQ, "theories"), "Avfs", vf], cwd=d, timeout=600)
    rep = {}
    if rc != 0:
        return False, rep, out
    cur = None
    for line in out.splitlines():
        m = re.match(r'@@THEOREM (\S+)', line)
        if m:
            cur = m.group(1)
            rep[cur] = []
            continue
        if cur is None:
            continue
        if "Closed under the global context" in line:
            rep[cur] = "closed"
        elif re.match(r'^\S+ :', line) and rep[cur] != "closed":
            rep[cur].append(line.split(" :")[0])
    ok = all(n in rep for n in names)
    return ok, rep, out


def build_ml():
    """Extraction + OCaml driver (rebuilt when the Coq sources or the glue changed)."""
    with Lock("ml"):
        drv = os.path.join(ML, "driver")
        model = os.path.join(ML, "model.ml")
        from . import gen
        gen.regenerate_all()
        src_m = newest_mtime(coq_sources())
        if not os.path.exists(model) or os.path.getmtime(model) < src_m:
            rc, out = sh(["coqc", "-Q", os.path.join(COQ, "theories"), "Avfs",
                          os.path.join(COQ, "theories", "Extract", "Extract.v")], cwd=ML, timeout=900)
            if rc != 0:
                return False, out
        glue = [model, os.path.join(ML, "conv.ml"), os.path.join(ML, "driver.ml")]
        drvs = sorted(glob.glob(os.path.join(ML, "drv_*.ml")))
        glue += drvs
        if not os.path.exists(drv) or os.path.getmtime(drv) < newest_mtime(glue):
            rc, out = sh(["ocamlfind", "ocamlopt", "-w", "-a", "-package", "str", "-linkpkg",
                          "model.mli", "model.ml", "conv.ml"] + [os.path.basename(d) for d in drvs] + ["driver.ml", "-o", "driver"], cwd=ML, timeout=900)
            if rc != 0:
                return False, out
        return True, ""


def build_go(tags=""):
    """Build the Go harness against /repo's current working tree."""
    with Lock("go"):
        key = tags.replace(",", "_") or "base"
        from . import gen
        gen.write_if_changed(os.path.join(HARNESS, "go.mod"),
                             "module verifharness\n\ngo 1.22\n\nrequire github.com/avfs/avfs v0.0.0\n\nreplace github.com/avfs/avfs => %s\n" % REPO)
        binp = os.path.join(HARNESS, "bin", "avfscheck-" + key)
        cmd = ["go", "build", "-o", binp]
        if tags:
            cmd += ["-tags", tags]
        cmd += ["./cmd/avfscheck"]
        rc, out = sh(cmd, cwd=HARNESS, env=GOENV, timeout=900)
        return rc == 0, out, binp


def run_driver_sharded(driver_cmd, cases, model, shards=16):
    """Run ml/driver over the case file, in parallel shards of whole lines; returns an
    error text or None. Output lines stay in input order."""
    lines = open(cases).read().splitlines(True)
    n = len(lines)
    k = max(1, min(shards, n // 64))
    env = dict(os.environ, OCAMLRUNPARAM="s=8M")
    if k == 1:
        with open(cases) as fin, open(model, "w") as fout:
            p = subprocess.run([os.path.join(ML, "driver"), driver_cmd], stdin=fin, stdout=fout, stderr=subprocess.PIPE, timeout=3000, env=env)
        return None if p.returncode == 0 else p.stderr.decode()
    procs = []
    per = (n + k - 1) // k
    for i in range(k):
        part = cases + ".part%d" % i
        with open(part, "w") as f:
            f.writelines(lines[i * per:(i + 1) * per])
        fin = open(part)
        fout = open(model + ".part%d" % i, "w")
        procs.append((subprocess.Popen([os.path.join(ML, "driver"), driver_cmd], stdin=fin, stdout=fout, stderr=subprocess.PIPE, env=env), fin, fout, part))
    err = None
    for (p, fin, fout, part) in procs:
        _, e = p.communicate(timeout=3000)
        fin.close()
        fout.close()
        if p.returncode != 0:
            err = (err or "") + e.decode()
    with open(model, "w") as out:
        for i in range(k):
            mp = model + ".part%d" % i
            out.write(open(mp).read())
            os.remove(mp)
            os.remove(cases + ".part%d" % i)
    return err


# --------------------------------------------------------------------------
# a check run

class Violation:
    def __init__(self, what, replay, found_input=True):
        self.what, self.replay, self.found_input = what, replay, found_input


class Ctx:
    def __init__(self, prop, tier, seed):
        self.prop, self.tier, self.seed = prop, tier, seed
        self.t0 = time.time()
        self.dir = os.path.join(WORK, prop)
        os.makedirs(self.dir, exist_ok=True)
        os.makedirs(os.path.join(EVID, "replay"), exist_ok=True)
        self.violations = []
        self.known = []
        self.coverage = {"evaluations": 0, "distinct_nontrivial": 0, "rule": "", "samples": [],
                         "streams": {}, "obligations": 0, "discharged": 0,
                         "checker_cmd": "coq_makefile -f _CoqProject -o Makefile && make -j16 (coqc 8.16.1, full .vo build); thorough tier adds a clean rebuild and coqchk -silent -o",
                         "trusted_base": list(TRUSTED_BASE)}
        self.assumptions = []
        self.level = "proof"
        self.nreplay = 0
        self.kf = load_known_findings(prop)

    # ---- proofs
    def proofs(self, extra_obligations=0):
        """Build the Coq development, count the property's theorems, record assumptions."""
        ok, out, failing = build_coq(clean=(self.tier == "thorough" and os.environ.get("VERIF_NO_CLEAN") != "1"),
                                     target="theories/Properties/%s.vo" % self.prop)
        names = property_theorems(self.prop)
        self.coverage["obligations"] = len(names) + extra_obligations
        self.coverage["theorems"] = names
        if not ok:
            self.coverage["discharged"] = 0
            tail = "\n".join(out.splitlines()[-40:])
            self.broken("coq-build", "the Coq development does not build; first failing file: %s" % failing, tail)
            return False
        aok, rep, raw = coq_assumptions(self.prop)
        self.coverage["assumptions_report"] = rep
        if not aok:
            self.coverage["discharged"] = 0
            self.broken("coq-assumptions", "Print Assumptions failed for Properties/%s.v" % self.prop, raw[-3000:])
            return False
        self.coverage["discharged"] = len(names) + extra_obligations
        axioms = sorted({a for v in rep.values() if v != "closed" for a in v})
        if axioms:
            self.coverage["trusted_base"].append("axioms reported by Print Assumptions: " + ", ".join(axioms))
        else:
            self.coverage["trusted_base"].append("Print Assumptions: every theorem of Properties/%s.v is closed under the global context" % self.prop)
        if self.tier == "thorough" and os.environ.get("VERIF_NO_COQCHK") != "1":
            rc, out = sh(["timeout", "3000", "coqchk", "-silent", "-o", "-Q", "theories", "Avfs",
                          "Avfs.Properties." + self.prop], cwd=COQ, timeout=3100)
            self.coverage["coqchk"] = out[-1500:]
            if rc != 0:
                self.broken("coqchk", "coqchk rejected Properties/%s.vo" % self.prop, out[-3000:])
                return False
        return True

    # ---- correspondence streams
    def stream(self, name, harness_cmd, driver_cmd, tags="", extra_args=None, replay_lines=None):
        """Run one generator stream through implementation and model, return mismatches
        as a list of (index, case, model, observed)."""
        built = getattr(self, "_built", None)
        if built is None:
            built = self._built = {}
        if replay_lines is not None and tags in built:
            binp = built[tags]        # replays / shrinking inside one run: everything was built by the first call
        else:
            # (re)build what can be built: a broken proof obligation must not stop the correspondence run that
            # searches for a concrete failing input - extraction only needs the model files
            build_coq(target="theories/Extract/Extract.vo")
            ok, out = build_ml()
            if not ok:
                self.broken("model-build", "extraction / OCaml build of the model failed", out[-3000:])
                return None
            ok, out, binp = build_go(tags)
            if not ok:
                self.broken("harness-build", "the Go harness does not build against /repo's working tree", out[-3000:])
                return None
            built[tags] = binp
        args = [binp, harness_cmd, "-seed", str(self.seed), "-tier", self.tier, "-out", self.dir, "-name", name]
        if extra_args:
            args += extra_args
        if replay_lines is not None:
            rf = os.path.join(self.dir, name + ".replayin")
            with open(rf, "w") as f:
                f.write("\n".join(replay_lines) + "\n")
            args += ["-replay", rf]
        rc, out = sh(args, cwd=self.dir, env=GOENV, timeout=3000)
        if rc != 0:
            self.broken("harness-run:" + name, "the harness command %s failed (rc=%d)" % (harness_cmd, rc), out[-3000:])
            return None
        cases = os.path.join(self.dir, name + ".cases")
        model = os.path.join(self.dir, name + ".model")
        err = run_driver_sharded(driver_cmd, cases, model)
        if err:
            self.broken("model-run:" + name, "the model driver failed on stream " + name, err[-3000:])
            return None
        mism = []
        n = 0
        with open(cases) as fc, open(model) as fm, open(os.path.join(self.dir, name + ".observed")) as fo:
            for i, (c, m, o) in enumerate(zip(fc, fm, fo)):
                n += 1
                if m != o:
                    mism.append((i, c.rstrip("\n"), m.rstrip("\n"), o.rstrip("\n")))
        if replay_lines is None:
            try:
                st = json.load(open(os.path.join(self.dir, name + ".stats.json")))
            except Exception:
                st = {"evaluations": n}
            self.coverage["evaluations"] += st.get("evaluations", n)
            self.coverage["distinct_nontrivial"] += st.get("distinct_nontrivial", 0)
            if st.get("rule"):
                self.coverage["rule"] += ("; " if self.coverage["rule"] else "") + "[%s] %s" % (name, st["rule"])
            for s in st.get("samples", [])[:3]:
                self.coverage["samples"].append({"stream": name, "case": s[:600]})
            self.coverage["streams"][name] = {k: v for k, v in st.items() if k not in ("samples", "rule")}
            self.coverage["streams"][name]["mismatches"] = len(mism)
        return mism

    def shrink(self, name, harness_cmd, driver_cmd, case, tags="", sep=" | ", still_bad=None):
        """Delta-debug a failing history: header | op | op | ...  (ops removable)."""
        parts = case.split(sep)
        head, ops = parts[0], parts[1:]

        def bad(ops_):
            line = sep.join([head] + ops_)
            mm = self.stream(name + "-shrink", harness_cmd, driver_cmd, tags=tags, replay_lines=[line])
            if not mm:
                return False
            return still_bad(mm[0]) if still_bad else True
        n = 2
        budget = 200
        while len(ops) >= 2 and budget > 0:
            chunk = max(1, len(ops) // n)
            reduced = False
            for i in range(0, len(ops), chunk):
                cand = ops[:i] + ops[i + chunk:]
                budget -= 1
                if cand and bad(cand):
                    ops = cand
                    n = max(n - 1, 2)
                    reduced = True
                    break
                if budget <= 0:
                    break
            if not reduced:
                if chunk == 1:
                    break
                n = min(len(ops), n * 2)
        return sep.join([head] + ops)

    # ---- reporting
    def replay_path(self, tag):
        self.nreplay += 1
        return os.path.join(EVID, "replay", "%s-%s-%d.json" % (self.prop, tag, self.nreplay))

    def violation(self, tag, what, replay_obj):
        p = self.replay_path(tag)
        replay_obj = dict(replay_obj, property=self.prop, what=what, seed=self.seed, tier=self.tier)
        with open(p, "w") as f:
            json.dump(replay_obj, f, indent=1)
        self.violations.append(Violation(what, p, True))

    def broken(self, name, what, logtail):
        """A proof obligation / correspondence no longer checks and no failing input is at hand."""
        p = self.replay_path("broken")
        with open(p, "w") as f:
            json.dump({"property": self.prop, "broken": name, "what": what, "log": logtail,
                       "seed": self.seed, "tier": self.tier}, f, indent=1)
        self.violations.append(Violation(what, p, False))

    def known_finding(self, kf_id, what):
        if kf_id not in [k[0] for k in self.known]:
            self.known.append((kf_id, what))

    def finish(self, write_evidence=True):
        wall = time.time() - self.t0
        cov = self.coverage
        cov["known_findings_reproduced"] = [k[0] for k in self.known]
        ev = {"property_id": self.prop, "tier": self.tier, "seed": self.seed, "level": self.level,
              "coverage": cov, "assumptions": self.assumptions + [
                  "the Gallina model is a hand translation of the Go code; its agreement with the code is established by the differential run reported under coverage.streams, not proved",
              ], "wall_s": round(wall, 2), "violations": len(self.violations)}
        if write_evidence and os.environ.get("VERIF_NO_EVIDENCE") != "1" and REPO == "/repo":
            # evidence is only written by runs against /repo itself (never against a scratch worktree)
            os.makedirs(EVID, exist_ok=True)
            with open(os.path.join(EVID, self.prop + ".json"), "w") as f:
                json.dump(ev, f, indent=1)
        for kid, what in self.known:
            print("KNOWN-FINDING: property=%s %s %s" % (self.prop, kid, what))
        for v in self.violations:
            line = "VIOLATION property=%s replay=%s" % (self.prop, v.replay)
            if not v.found_input:
                line += " no-failing-input-found"
            print(line)
            log("  " + v.what)
        print("%s %s: %d evaluations, %d obligations/%d discharged, %d violations, %.1fs" % (
            self.prop, self.tier, cov["evaluations"], cov["obligations"], cov["discharged"], len(self.violations), wall))
        return 1 if self.violations else 0


def load_known_findings(prop):
    p = os.path.join(ROOT, "known_findings.jsonl")
    res = []
    if os.path.exists(p):
        for line in open(p):
            line = line.strip()
            if not line or line.startswith("#") or line.startswith("fixed:"):
                continue
            try:
                e = json.loads(line)
            except Exception:
                continue
            props_ = e.get("property")
            if not isinstance(props_, list):
                props_ = [props_]
            if prop in props_ and e.get("status", "open") == "open":
                res.append(e)
    return res


def sweep_stale():
    for d in glob.glob("/dev/shm/verif-*"):
        try:
            if time.time() - os.path.getmtime(d) > 7200:
                shutil.rmtree(d, ignore_errors=True)
        except OSError:
            pass


def setup():
    os.makedirs(WORK, exist_ok=True)
    ok, out, failing = build_coq()
    if not ok:
        print(out[-4000:])
        print("setup: Coq build failed (%s)" % failing)
        return 1
    ok, out = build_ml()
    if not ok:
        print(out[-4000:])
        print("setup: model extraction/OCaml build failed")
        return 1
    from . import props
    for tags in sorted(props.ALL_TAGS):
        ok, out, _ = build_go(tags)
        if not ok:
            print(out[-4000:])
            print("setup: Go harness build failed (tags=%r)" % tags)
            return 1
    print("setup ok")
    return 0


def main(argv):
    if not argv:
        print(__doc__)
        return 2
    if argv[0] == "--setup":
        return setup()
    prop = argv[0]
    tier = os.environ.get("VERIF_TIER", "quick")
    replay = None
    i = 1
    while i < len(argv):
        if argv[i] == "--tier":
            tier = argv[i + 1]
            i += 2
        elif argv[i] == "--replay":
            replay = argv[i + 1]
            i += 2
        else:
            print("unknown argument", argv[i])
            return 2
    if tier not in ("quick", "thorough"):
        tier = "quick"
    try:
        seed = int(os.environ.get("VERIF_SEED", "1"))
    except ValueError:
        seed = 1
    from . import props
    props.load_all()
    if prop not in props.CHECKS:
        print("no check for", prop)
        return 2
    sweep_stale()
    ctx = Ctx(prop, tier, seed)
    if replay:
        return props.replay(ctx, replay)
    try:
        props.CHECKS[prop](ctx)
    except Exception as e:  # a crash of the machinery must not look like a pass
        import traceback
        ctx.broken("check-crash", "the check itself crashed: %r" % (e,), traceback.format_exc()[-3000:])
    return ctx.finish(write_evidence=not prop.startswith("FS") and not prop.endswith("DEV"))
