(* driver commands for C10 (see driver.ml): the string-level model of BasePathFS *)
open Conv

module Bp = struct
  open Model
  let t = tok_of_str
  let opt o = match o with Some v -> t v | None -> "PANIC"
  let toks l = String.concat "," (List.map t l)
  let untoks s = if s = "" then [] else List.map str_of_tok (String.split_on_char ',' s)

  (* str B cwd p *)
  (* NewWithErr: basePath = baseFS.Abs(given); the base's current directory at construction is "/" *)
  let base_of given = abs Linux [n_of_int 47] given

  let str_line given cwd p =
    let b = base_of given in
    let tb = to_base_path Linux b cwd p in
    let ab = match tb with
      | Some x -> t (from_base_safe Linux b (abs Linux cwd x))   (* base.Abs(x) = avfs.Abs(base, x, base cwd) *)
      | None -> "PANIC" in
    Printf.sprintf "tb=%s ab=%s fb=%s wd=%s fe=%s,%s,%s" (opt tb) ab (opt (from_base_path Linux b p)) (opt (bp_getwd Linux b cwd))
      (t (from_base_safe Linux b p)) (t (from_base_safe Linux b p)) (t (from_base_safe Linux b (given @ p)))

  let forward = ["Stat"; "Lstat"; "Abs"; "Mkdir"; "MkdirAll"; "Chmod"; "Chown"; "Lchown"; "Chtimes"; "Truncate";
                 "Chdir"; "Remove"; "RemoveAll"; "Sub"; "Link"; "Rename"; "Getwd"]
  let first = ["ReadFile"; "ReadDir"; "Open"; "WalkDir"; "WriteFile"; "Create"; "OpenFileC"; "FChdir"]
  let refused = ["Symlink"; "Readlink"; "EvalSymlinks"]
  let has_meta s = List.exists (fun c -> String.contains s c) ['*'; '?'; '['; '\\']

  (* fields "k=v" after the op *)
  let field fs k =
    let pre = k ^ "=" in
    let n = String.length pre in
    match List.find_opt (fun f -> String.length f >= n && String.sub f 0 n = pre) fs with
    | Some f -> Some (String.sub f n (String.length f - n))
    | None -> None

  let op_line b (part : string) : string =
    let segs = List.map String.trim (Str.split_delim (Str.regexp_string " ; ") part) in
    match segs with
    | [] -> "BADOP"
    | call :: fs ->
      if List.mem "skip" fs then "skip"
      else if List.mem "basepanic" fs then "basepanic"
      else if List.mem "ext" fs then "ext"
      else
        match split_ws call with
        | [] -> "BADOP"
        | op :: argtoks ->
          let args = List.map str_of_tok argtoks in
          let cwd = match field fs "c" with Some c -> str_of_tok c | None -> [] in
          let ins = match field fs "in" with Some s -> untoks s | None -> [] in
          let raw = match field fs "raw" with Some s -> untoks s | None -> [] in
          let tb_of l = String.concat "," (List.map (fun p -> opt (to_base_path Linux b cwd p)) l) in
          let lead =
            if List.mem op forward then begin
              let empty_guard = (op = "Mkdir" || op = "RemoveAll") && args = [[]] in
              if empty_guard then
                (* early return on the empty name: the base is not called; Mkdir reports the empty path *)
                Printf.sprintf "tb= back=%s" (if op = "Mkdir" then "s" else "")
              else if (op = "Remove" || op = "RemoveAll") && is_root Linux b cwd (List.hd args) then
                (* the root directory is refused before anything reaches the base; the error carries the path as given *)
                Printf.sprintf "tb= back=%s" (t (List.hd args))
              else if op = "Getwd" then
                Printf.sprintf "tb= back=%s" (String.concat "," (List.map (fun r -> opt (cur_dir Linux b r)) raw))
              else
                Printf.sprintf "tb=%s back=%s" (tb_of args) (toks (List.map (from_base_safe Linux b) raw))
            end
            else if op = "FileR" || op = "FileW" then
              (* open with ToBasePath of the name; every path the base file returns comes back through fromBasePath *)
              Printf.sprintf "tb=%s back=%s" (tb_of [List.hd args]) (toks (List.map (from_base_safe Linux b) raw))
            else if List.mem op first || (op = "Glob" && not (has_meta (string_of_str (List.hd args)))) then
              Printf.sprintf "tb=%s back=-" (tb_of [List.hd args])
            else if List.mem op refused then "tb= back=-"
            else "tb=- back=-" in
          let conf = List.for_all (fun p -> has_base_path Linux b (clean Linux p)) ins in
          Printf.sprintf "%s conf=%s ref=ok out=ok leak=0" lead (if conf then "1" else "0")

  let hist_line line =
    match split_bar line with
    | [] -> "BADLINE"
    | head :: ops ->
      (match split_ws head with
       | ["bpfs"; _; bt] ->
         let b = base_of (str_of_tok bt) in
         String.concat " | " ("bpfs" :: List.map (op_line b) ops)
       | _ -> "BADLINE")

  let run_str () =
    iter_lines (fun line ->
      match split_ws line with
      | ["str"; b; cwd; p] -> print_endline (str_line (str_of_tok b) (str_of_tok cwd) (str_of_tok p))
      | _ -> print_endline "BADLINE")
  let run_fs () = iter_lines (fun line -> print_endline (hist_line line))
end

let () = Conv.register "bpstr" Bp.run_str
let () = Conv.register "bpfs" Bp.run_fs
