(* driver support for the OrefaFS world model (OrefaFS.v / OrefaWorld.v).
   Same line protocol as drv_fs.ml; the header names the file system:
     orefafs linux <umask> <snapmode> | op | op ...
   The command "fs" is re-registered here so that a stream may mix memfs and orefafs histories;
   "orefa" is the same command under its own name. *)
open Conv
open Model

(* canonical snapshot text: the renderer of drv_fs.ml plus the lines the harness prints for a path
   that could not be read *)
let snapshot_text (w : oworld) : string =
  let b = Buffer.create 256 in
  let os = oworld_os w in
  let classes = ref [] in
  let cls id = match List.assoc_opt id !classes with
    | Some k -> k
    | None -> let k = List.length !classes in classes := (id, k) :: !classes; k in
  List.iter (fun e -> match e with
    | OS (SDir (p, m, u, g)) ->
        Buffer.add_string b (Printf.sprintf "D %s %d %d %d\n" (tok_of_str p) (int_of_n m) (int_of_z u) (int_of_z g))
    | OS (SFile (p, m, u, g, d, k, id)) ->
        Buffer.add_string b (Printf.sprintf "F %s %d %d %d %d %d %s\n" (tok_of_str p) (int_of_n m) (int_of_z u) (int_of_z g)
                               (int_of_z k) (cls (int_of_n id)) (tok_of_str d))
    | OS (SSym (p, m, u, g, t)) ->
        Buffer.add_string b (Printf.sprintf "L %s %d %d %d %s\n" (tok_of_str p) (int_of_n m) (int_of_z u) (int_of_z g) (tok_of_str t))
    | OSErr (k, p, e) ->
        (match int_of_nat k with
         | 0 -> Buffer.add_string b (Printf.sprintf "!lstat-root %s\n" (Drv_fs.show_code os e))
         | 1 -> Buffer.add_string b (Printf.sprintf "!readdir %s %s\n" (tok_of_str p) (Drv_fs.show_code os e))
         | _ -> Buffer.add_string b (Printf.sprintf "!lstat %s %s\n" (tok_of_str p) (Drv_fs.show_code os e))))
    (osnapshot w);
  Buffer.contents b

let show_snap mode w = match mode with
  | "none" -> ""
  | "full" -> " #" ^ String.concat ";" (String.split_on_char '\n' (snapshot_text w))
  | _ -> " #" ^ Digest.to_hex (Digest.string (snapshot_text w))

let init_world os um = match os with
  | "linux" -> o_init_world_linux (n_of_int um)
  | _ -> failwith "orefa: unsupported os"

let run_line line =
  match split_bar line with
  | hd :: ops ->
      (match split_ws hd with
       | ["orefafs"; os; um; snapmode] ->
           let w = ref (init_world os (int_of_string um)) in
           let osv = if os = "windows" then Windows else Linux in
           let outs = ref [] in
           (try
             List.iter (fun o ->
               let c = Drv_fs.parse_op (split_ws o) in
               let (w', r) = ostep !w c in
               w := w';
               (match r with
                | RPanic | RDeadlock ->
                    outs := (Drv_fs.show_res osv c r ^ (if snapmode = "none" then "" else " #-")) :: !outs; raise Exit
                | _ -> outs := (Drv_fs.show_res osv c r ^ show_snap snapmode w') :: !outs)) ops
           with Exit -> ());
           print_endline (String.concat " | " (List.rev !outs))
       | _ -> Drv_fs.run_line line)
  | _ -> print_endline "BADLINE"

let run () = iter_lines run_line

let () = Conv.register "fs" run
let () = Conv.register "orefa" run

(* driver command "ofso": the oracle stream with OrefaFS as implementation.  As "fso" (drv_fso.ml): runs the
   SPECIFICATION model on the history and prints  <spec result> #<snapshot> ~<kf> ~<T|F> ~<shapes> ~<A|D>
   where T/F says whether the OrefaFS model, started from the specification's state (OrefaSpec.oworld_of_sworld),
   gives the same projected result and the same tree. *)
let run_ofso () =
  iter_lines (fun line ->
    match split_bar line with
    | hd :: ops ->
        (match split_ws hd with
         | [_; _; um; snapmode] ->
             let w = ref (spec_init (n_of_int (int_of_string um))) in
             let outs = ref [] in
             (* the working directory as OrefaFS keeps it: the path string at the time of the last Chdir *)
             let cwdstr = ref (str_of_string "/") in
             let cur_path (w : sworld) =
               let v = w.sw_sv.sv_view and h = w.sw_fs.f_heap in
               path_of (S (nat_of_int (List.length h))) h v.v_root w.sw_sv.sv_cwd [] in
             List.iter (fun o ->
               let c = Drv_fs.parse_op (split_ws o) in
               let moved = not (Drv_fso.cwd_alive !w) || cur_path !w <> !cwdstr in
               let (w', r) = spec_step true !w c in
               let sr = Drv_fso.show_sres r and ss = Drv_fso.snap snapmode w' in
               let (wi, ri) = o_impl_step_proj (oworld_of_sworld !w) c in
               let same = Drv_fso.show_sres ri = sr
                          && snapshot_text wi = Drv_fs.snapshot_text (Drv_fso.world_of w') in
               (match c, r with CChdir _, SOk -> cwdstr := cur_path w' | _ -> ());
               outs := (Printf.sprintf "%s%s ~- ~%s ~%s%s ~%s" sr ss (if same then "T" else "F")
                          (if Drv_fso.uses_cwd c then (if moved then "m" else "c") else "") (Drv_fso.shapes !w c)
                          (if Drv_fso.cwd_alive w' then "A" else "D")) :: !outs;
               w := w') ops;
             print_endline (String.concat " | " (List.rev !outs))
         | _ -> print_endline "BADLINE")
    | _ -> print_endline "BADLINE")

let () = Conv.register "ofso" run_ofso
