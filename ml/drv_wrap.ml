(* driver commands for C09 / C12: the generic wrapper semantics (Wrapper.v) run with the
   table regenerated from the Go source, over a SCRIPTED base: the case line carries, per
   client call, the calls the recording proxy saw reach the base and their answers; the
   model must make exactly these calls (same base object, method, arguments) and turns
   their answers into the wrapper's answer. *)
open Conv

module Wrap = struct
  open Model

  let vnames = ["Abs"; "Base"; "Chdir"; "Chmod"; "Chown"; "Chtimes"; "Clean"; "Create"; "CreateTemp"; "Dir";
    "EvalSymlinks"; "Features"; "FromSlash"; "Getwd"; "Glob"; "HasFeature"; "Idm"; "IsAbs"; "IsPathSeparator"; "Join";
    "Lchown"; "Link"; "Lstat"; "Match"; "Mkdir"; "MkdirAll"; "MkdirTemp"; "Name"; "OSType"; "Open"; "OpenFile";
    "PathSeparator"; "ReadDir"; "ReadFile"; "Readlink"; "Rel"; "Remove"; "RemoveAll"; "Rename"; "SameFile"; "SetIdm";
    "SetUMask"; "SetUser"; "SetUserByName"; "Split"; "Stat"; "Sub"; "Symlink"; "TempDir"; "ToSlash"; "ToSysStat";
    "Truncate"; "Type"; "UMask"; "User"; "WalkDir"; "WriteFile"; "SetFeatures"; "SetFailFunc"]
  let fnames = ["Chdir"; "Chmod"; "Chown"; "Close"; "Fd"; "Name"; "Read"; "ReadAt"; "ReadDir"; "Readdirnames"; "Seek";
    "Stat"; "Sync"; "Truncate"; "Write"; "WriteAt"; "WriteString"]
  let fnnames = ["FnAbs"; "FnChdir"; "FnChmod"; "FnChown"; "FnChtimes"; "FnCreateTemp"; "FnEvalSymlinks"; "FnFileChdir";
    "FnFileChmod"; "FnFileChown"; "FnFileClose"; "FnFileRead"; "FnFileReadAt"; "FnFileReadDir"; "FnFileReaddirnames";
    "FnFileSeek"; "FnFileStat"; "FnFileSync"; "FnFileTruncate"; "FnFileWrite"; "FnFileWriteAt"; "FnGetwd"; "FnLchown";
    "FnLink"; "FnLstat"; "FnMkdir"; "FnMkdirAll"; "FnMkdirTemp"; "FnOpenFile"; "FnReadDir"; "FnReadFile"; "FnReadlink";
    "FnRemove"; "FnRemoveAll"; "FnRename"; "FnSetUser"; "FnSetUserByName"; "FnStat"; "FnSub"; "FnSymlink"; "FnTruncate";
    "FnWalkDir"; "FnWriteFile"]
  (* the names are listed in the order of the Inductives of Wrapper.v; all_vmeth etc. are extracted *)
  let vtab = List.combine vnames all_vmeth
  let ftab = List.combine fnames all_fmeth
  let fntab = List.combine fnnames all_fnvfs
  let meth_of (s : string) : meth =
    let n = String.sub s 2 (String.length s - 2) in
    if s.[0] = 'V' then MV (List.assoc n vtab) else MF (List.assoc n ftab)
  let fn_name (f : fnvfs) = fst (List.find (fun (_, g) -> g = f) fntab)
  let fn_of (s : string) = List.assoc s fntab

  (* not recorded by the proxy: answered from the "^" direct answer of the case line *)
  let getters_v = ["Base"; "Clean"; "Dir"; "FromSlash"; "IsAbs"; "IsPathSeparator"; "Join"; "Match"; "Rel"; "Split"; "ToSlash";
    "PathSeparator"; "TempDir"; "OSType"; "User"; "UMask"; "SameFile"; "ToSysStat"; "Features"; "HasFeature"; "Name"; "Type"; "Idm"]
  let is_getter (m : meth) = match m with
    | MV v -> List.mem (fst (List.find (fun (_, g) -> g = v) vtab)) getters_v
    | MF f -> List.mem (fst (List.find (fun (_, g) -> g = f) ftab)) ["Fd"; "Name"]

  let hexstr (h : string) : string =
    String.init (String.length h / 2) (fun i -> Char.chr (16 * hv h.[2 * i] + hv h.[2 * i + 1]))
  let strhex (s : string) : string =
    let b = Buffer.create (2 * String.length s) in
    String.iter (fun c -> let k = Char.code c in Buffer.add_char b hexdig.[k lsr 4]; Buffer.add_char b hexdig.[k land 15]) s;
    Buffer.contents b

  let parse_arg (t : string) : arg =
    if t = "_" then AW
    else if t <> "" && t.[0] = 's' then AS (str_of_string (hexstr (String.sub t 1 (String.length t - 1))))
    else AI (z_of_int (int_of_string t))

  let tail s = String.sub s 1 (String.length s - 1)
  let split_list (s : string) : string list = (* "[a,b]" *)
    let inner = String.sub s 1 (String.length s - 2) in
    if inner = "" then [] else String.split_on_char ',' inner

  let parse_val (t : string) : wval =
    if t = "u" then VUnit
    else if t = "L" then VLocal
    else match t.[0] with
      | 't' -> VTok (str_of_string (hexstr (tail t)))
      | 'b' -> VBytes (str_of_string (hexstr (tail t)))
      | 'i' -> VInt (z_of_int (int_of_string (tail t)))
      | 'n' -> VNames (List.map (fun h -> str_of_string (hexstr h)) (split_list (tail t)))
      | 'e' -> VEntries (List.map (fun e -> match String.split_on_char ':' e with
                 | [h; ty] -> (str_of_string (hexstr h), str_of_string ty)
                 | _ -> failwith "wrap: bad entry") (split_list (tail t)))
      | 'f' -> VInfo (t.[1] = '1', str_of_string (hexstr (String.sub t 3 (String.length t - 3))))
      | _ -> failwith ("wrap: bad value " ^ t)

  let show_val (v : wval) : string = match v with
    | VUnit -> "u"
    | VLocal -> "L"
    | VTok s -> "t" ^ strhex (string_of_str s)
    | VBytes s -> "b" ^ strhex (string_of_str s)
    | VInt z -> "i" ^ string_of_int (int_of_z z)
    | VNames l -> "n[" ^ String.concat "," (List.map (fun s -> strhex (string_of_str s)) l) ^ "]"
    | VEntries l -> "e[" ^ String.concat "," (List.map (fun (n, ty) -> strhex (string_of_str n) ^ ":" ^ string_of_str ty) l) ^ "]"
    | VInfo (d, s) -> "f" ^ (if d then "1" else "0") ^ ":" ^ strhex (string_of_str s)

  let parse_err (t : string) : werr option =
    if t = "-" then None
    else if t = "EOF" then Some EEOF
    else match t.[0] with
      | 'E' -> Some (EErrno (n_of_int (int_of_string (tail t))))
      | 'J' when String.length t > 1 && t.[1] <> 'w' -> Some (EInj (nat_of_int (int_of_string (tail t))))
      | 'S' -> Some (EStuck (n_of_int (int_of_string (tail t))))
      | _ -> Some (EOther (str_of_string t))

  let show_err (e : werr option) : string = match e with
    | None -> "-"
    | Some EEOF -> "EOF"
    | Some (EErrno n) -> "E" ^ string_of_int (int_of_n n)
    | Some (EInj k) -> "J" ^ string_of_int (int_of_nat k)
    | Some (EStuck n) -> "S" ^ string_of_int (int_of_n n)
    | Some (EOther s) -> string_of_str s

  let parse_ans (t : string) : ans =
    let i = String.index t '!' in
    let j = String.rindex t '@' in
    let o = String.sub t (j + 1) (String.length t - j - 1) in
    { a_val = parse_val (String.sub t 0 i); a_err = parse_err (String.sub t (i + 1) (j - i - 1));
      a_obj = if o = "-" then None else Some (nat_of_int (int_of_string o)) }

  (* zero values that accompany an error are not observable (the harness prints them as "u" too) *)
  let show_ans (a : ans) : string =
    let v = show_val a.a_val in
    let v = if a.a_err <> None && List.mem v ["u"; "t"; "i0"; "b"; "n[]"; "e[]"] then "u" else v in
    v ^ "!" ^ show_err a.a_err ^ "@" ^ (match a.a_obj with None -> "-" | Some n -> string_of_int (int_of_nat n))

  (* the scripted base *)
  type bcall = { bo : int; bm : meth; ba : arg list; bans : ans }
  type bstate = { script : bcall list; direct : ans option; bad : bool }

  let rec args_match (a : arg list) (b : arg list) = match a, b with
    | [], [] -> true
    | AW :: a', _ :: b' | _ :: a', AW :: b' -> args_match a' b'
    | x :: a', y :: b' -> x = y && args_match a' b'
    | _, _ -> false

  (* AW as the argument of File.Read (the inner Read of the ReadFile composite, whose buffer length the
     model does not compute) stands for SOME NON-EMPTY buffer: a recorded Read with length <= 0 does not match *)
  let nonempty_read (m : meth) (a : arg list) (b : arg list) = match m, a, b with
    | MF F_Read, [AW], [AI z] -> int_of_z z > 0
    | _ -> true

  let base_step (s : bstate) (b : nat) (m : meth) (a : arg list) : ans * bstate =
    if is_getter m then
      (match s.direct with Some d -> (d, s) | None -> ({ a_val = VUnit; a_err = Some (EStuck (n_of_int 5)); a_obj = None }, { s with bad = true }))
    else match s.script with
      | c :: rest when c.bo = int_of_nat b && c.bm = m && args_match a c.ba && nonempty_read m a c.ba -> (c.bans, { s with script = rest })
      | _ -> ({ a_val = VUnit; a_err = Some (EStuck (n_of_int 6)); a_obj = None }, { s with script = []; bad = true })

  let parse_bcall (s : string) : bcall =
    match Str.bounded_split_delim (Str.regexp_string " = ") s 2 with
    | [l; r] ->
        (match split_ws l with
         | o :: m :: args ->
             let mt = if List.mem_assoc m vtab && not (List.mem_assoc m ftab) then MV (List.assoc m vtab)
               else if List.mem_assoc m ftab && not (List.mem_assoc m vtab) then MF (List.assoc m ftab)
               else MV (List.assoc m vtab) (* ambiguous name: fixed up below by the object kind *) in
             { bo = int_of_string (tail o); bm = mt; ba = List.map parse_arg args; bans = parse_ans (String.trim r) }
         | _ -> failwith "wrap: bad base call")
    | _ -> failwith ("wrap: bad base call " ^ s)

  let count_occ f l = List.length (List.filter (fun x -> x = f) l)

  let plan_ff (plan : string) : ffun =
    if plan = "none" then ok_func
    else begin
      let faults = List.mapi (fun i p ->
        let j = String.rindex p ':' in
        (fn_of (String.sub p 0 j), int_of_string (String.sub p (j + 1) (String.length p - j - 1)), i + 1))
        (String.split_on_char ',' plan) in
      fun hist fn _ ->
        List.fold_left (fun acc (f, k, i) -> if f = fn && count_occ fn hist = k then Some (EInj (nat_of_int i)) else acc) None faults
    end

  let no_prog : comp -> arg list -> prog = fun _ _ -> PRet { a_val = VUnit; a_err = Some (EStuck (n_of_int 2)); a_obj = None }

  let bad_pattern : werr = EOther (str_of_string ("X" ^ strhex "*errors.errorString:syntax error in pattern"))
  let fuel = nat_of_int 10000

  (* the composites of FailFS for one call: MkdirTemp's random names are canonicalised to
     <dir>/<prefix>#<suffix> by the harness, so every attempt has the same printed name *)
  let failfs_prog (m : string) (args : arg list) : comp -> arg list -> prog =
    let tmp = match m, args with
      | "V.MkdirTemp", [AS dir; AS pat] ->
          let d = string_of_str dir and p = string_of_str pat in
          let (pre, suf) = (match String.rindex_opt p '*' with
            | Some i -> (String.sub p 0 i, String.sub p (i + 1) (String.length p - i - 1))
            | None -> (p, "")) in
          let sep = if d <> "" && d.[String.length d - 1] = '/' then "" else "/" in
          str_of_string (d ^ sep ^ pre ^ "#" ^ suf)
      | _ -> [] in
    comp_prog (fun _ -> tmp) bad_pattern fuel

  let extra_tables = Stdlib.ref ([] : (string * (string -> table * ffun option * (string -> arg list -> comp -> arg list -> prog))) list)

  let run () =
    iter_lines (fun line ->
      match split_bar line with
      | hd :: ops ->
          (match split_ws hd with
           | [kind; _; _; plan] ->
               let (tbl, ffo, cprog) =
                 if kind = "rofs" then (rofs_table, None, (fun _ _ -> no_prog))
                 else (List.assoc kind !extra_tables) plan in
               let ff = match ffo with Some f -> f | None -> plan_ff plan in
               let w = Stdlib.ref { w_base = { script = []; direct = None; bad = false };
                             w_objs = [(O, { wo_kind = OVfs; wo_wrapped = true; wo_base = O })]; w_hist = [] } in
               (* base object kinds, to resolve method names shared by VFS and File *)
               let bkinds = Hashtbl.create 16 in
               Hashtbl.replace bkinds 0 false;
               let outs = List.map (fun op ->
                 let (op, direct) = match Str.bounded_split_delim (Str.regexp_string " ^ ") op 2 with
                   | [a; d] -> (a, Some (parse_ans (String.trim d)))
                   | _ -> (op, None) in
                 match Str.split_delim (Str.regexp_string " ~ ") op with
                 | call :: bcs ->
                     (match split_ws call with
                      | o :: m :: bind :: args ->
                          let script = List.map (fun s ->
                            let c = parse_bcall s in
                            let isfile = (try Hashtbl.find bkinds c.bo with Not_found -> false) in
                            let name = (match split_ws s with _ :: n :: _ -> n | _ -> "") in
                            let c = { c with bm = if isfile then MF (List.assoc name ftab) else MV (List.assoc name vtab) } in
                            (match c.bans.a_obj, returns_obj c.bm with
                             | Some nb, Some OFile -> Hashtbl.replace bkinds (int_of_nat nb) true
                             | Some nb, Some OVfs -> Hashtbl.replace bkinds (int_of_nat nb) false
                             | _ -> ());
                            c) bcs in
                          let mt = meth_of m in
                          let cargs = List.map parse_arg args in
                          let w0 = { !w with w_base = { script; direct; bad = false } } in
                          let c = { c_obj = nat_of_int (int_of_string (tail o)); c_meth = mt; c_args = cargs;
                                    c_bind = nat_of_int (int_of_string bind) } in
                          let (r, w1) = wrap_wstep base_step tbl ff (cprog m cargs) w0 c in
                          w := w1;
                          let x = if w1.w_base.bad then "mismatch"
                            else if w1.w_base.script <> [] then Printf.sprintf "extra%d" (List.length w1.w_base.script)
                            else "ok" in
                          let noobj = (match r.r_ans.a_err with Some (EStuck n) -> int_of_n n = 1 | _ -> false) in
                          let rtxt = (match bclass mt cargs with CConfig when not noobj -> "cfg" | _ -> show_ans r.r_ans) in
                          (* a composite that returned nil although a primitive inside it was failed *)
                          let failed = List.filter_map (fun (f, b) -> if b then Some (fn_name f) else None) r.r_cons in
                          let composite = List.mem m ["V.Create"; "V.WriteFile"; "V.ReadFile"; "V.ReadDir"; "V.Glob"; "V.MkdirTemp"] in
                          let own_first = (match r.r_cons with (f, true) :: _ -> "V." ^ String.sub (fn_name f) 2 (String.length (fn_name f) - 2) = m | _ -> false) in
                          let swallow = if composite && failed <> [] && not own_first && r.r_ans.a_err = None && plan <> "ro"
                            then " SWALLOW:" ^ String.sub m 2 (String.length m - 2) ^ ":" ^ String.concat "+" failed else "" in
                          Printf.sprintf "r=%s c=%s x=%s%s" rtxt
                            (String.concat "," (List.map (fun (f, failed) -> fn_name f ^ (if failed then "*" else "")) r.r_cons)) x swallow
                      | _ -> "BADOP")
                 | [] -> "BADOP") ops in
               print_endline (String.concat " | " ("ok" :: outs))
           | _ -> print_endline "BADLINE")
      | [] -> print_endline "BADLINE")
end

let () =
  Wrap.extra_tables := [("failfs", fun plan ->
    (Model.failfs_table,
     (if plan = "ro" then Some (Model.readonly_func Model.ro_cases Model.ro_default) else None),
     Wrap.failfs_prog))];
  Conv.register "wrap" Wrap.run
