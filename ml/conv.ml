(* Conversions between OCaml values and the extracted Coq datatypes, and the
   token syntax shared with the Go harness.  Trusted glue (see DESIGN 8). *)
open Model

let rec pos_of_int (i : int) : positive =
  if i <= 1 then XH
  else if i land 1 = 0 then XO (pos_of_int (i lsr 1))
  else XI (pos_of_int (i lsr 1))

let rec int_of_pos (p : positive) : int =
  match p with XH -> 1 | XO q -> 2 * int_of_pos q | XI q -> 2 * int_of_pos q + 1

let n_of_int i : n = if i <= 0 then N0 else Npos (pos_of_int i)
let int_of_n (x : n) = match x with N0 -> 0 | Npos p -> int_of_pos p

let z_of_int i : z = if i = 0 then Z0 else if i > 0 then Zpos (pos_of_int i) else Zneg (pos_of_int (-i))
let int_of_z (x : z) = match x with Z0 -> 0 | Zpos p -> int_of_pos p | Zneg p -> - (int_of_pos p)

let rec nat_of_int i : nat = if i <= 0 then O else S (nat_of_int (i - 1))
let rec int_of_nat (x : nat) = match x with O -> 0 | S y -> 1 + int_of_nat y

(* strings: token "s" followed by hex bytes; "s" alone is the empty string *)
let str_of_string (s : string) : str =
  List.init (String.length s) (fun i -> n_of_int (Char.code s.[i]))
let string_of_str (s : str) : string =
  let b = Buffer.create 16 in
  List.iter (fun c -> Buffer.add_char b (Char.chr (int_of_n c land 255))) s;
  Buffer.contents b

let hexdig = "0123456789abcdef"
let tok_of_string (s : string) : string =
  let b = Buffer.create (1 + 2 * String.length s) in
  Buffer.add_char b 's';
  String.iter (fun c -> let k = Char.code c in
                Buffer.add_char b hexdig.[k lsr 4]; Buffer.add_char b hexdig.[k land 15]) s;
  Buffer.contents b
let tok_of_str (s : str) = tok_of_string (string_of_str s)

let hv c = match c with
  | '0'..'9' -> Char.code c - 48
  | 'a'..'f' -> Char.code c - 87
  | _ -> failwith "bad hex"
let string_of_tok (t : string) : string =
  if String.length t = 0 || t.[0] <> 's' then failwith ("bad string token " ^ t);
  let n = (String.length t - 1) / 2 in
  String.init n (fun i -> Char.chr (16 * hv t.[1 + 2 * i] + hv t.[2 + 2 * i]))
let str_of_tok t = str_of_string (string_of_tok t)

let split_ws (line : string) : string list =
  List.filter (fun s -> s <> "") (String.split_on_char ' ' line)

(* split a line on the op separator " | " *)
let split_bar (line : string) : string list =
  List.map String.trim (Str.split_delim (Str.regexp_string " | ") line)

let iter_lines (f : string -> unit) =
  try while true do f (input_line stdin) done with End_of_file -> ()

(* command registry: each drv_*.ml registers its commands at link time *)
let commands : (string, unit -> unit) Hashtbl.t = Hashtbl.create 16
let register (name : string) (f : unit -> unit) = Hashtbl.replace commands name f
let dispatch (name : string) =
  match Hashtbl.find_opt commands name with
  | Some f -> f ()
  | None -> prerr_endline ("driver: unknown command " ^ name); exit 2
