(* driver commands of property C02 (open-file I/O):
     fileio     - per step: result of the IMPLEMENTATION model (World.wstep through FileKf.impl_call) for MemFS and
                  OrefaFS, result of the SPECIFICATION (FileSpec.fspec_step), and what every name and descriptor shows
     fileio-kf  - per step: the classification FileKf.kf02 / kfdir of the step (evaluated on the specification state)
   case line:   file | op | op ...          or   dir <name,name,...> | op | op ...
   output line: one field group per step, " | " separated (see show_step) *)
open Conv
open Model

let zi s = z_of_int (int_of_string s)
let ni s = n_of_int (int_of_string s)
let nat s = nat_of_int (int_of_string s)

let parse_fop (t : string list) : fop =
  match t with
  | ["OP"; name; flag; perm] -> Open (str_of_tok name, ni flag, ni perm)
  | ["R"; fd; n] -> Read (nat fd, zi n)
  | ["RA"; fd; n; off] -> ReadAt (nat fd, zi n, zi off)
  | ["W"; fd; d] -> Write (nat fd, str_of_tok d)
  | ["WS"; fd; d] -> WriteString (nat fd, str_of_tok d)
  | ["WA"; fd; d; off] -> WriteAt (nat fd, str_of_tok d, zi off)
  | ["SK"; fd; off; wh] -> Seek (nat fd, zi off, zi wh)
  | ["TR"; fd; size] -> Ftruncate (nat fd, zi size)
  | ["ST"; fd] -> Fstat (nat fd)
  | ["SY"; fd] -> Fsync (nat fd)
  | ["CM"; fd; perm] -> Fchmod (nat fd, ni perm)
  | ["CO"; fd; u; g] -> Fchown (nat fd, zi u, zi g)
  | ["CD"; fd] -> Fchdir (nat fd)
  | ["CL"; fd] -> Close (nat fd)
  | ["PT"; name; size] -> PTruncate (str_of_tok name, zi size)
  | ["PRN"; o; n] -> PRename (str_of_tok o, str_of_tok n)
  | ["PLN"; o; n] -> PLink (str_of_tok o, str_of_tok n)
  | ["PRM"; name] -> PRemove (str_of_tok name)
  | ["PRF"; name] -> PReadFile (str_of_tok name)
  | ["PST"; name] -> PStat (str_of_tok name)
  | _ -> failwith ("fileio: bad op " ^ String.concat " " t)

let show_serr (e : serr) : string = match e with
  | X_EOF -> "EOF" | X_Closed -> "CLOSED" | X_BADF -> "EBADF" | X_INVAL -> "EINVAL" | X_ISDIR -> "EISDIR"
  | X_NOTDIR -> "ENOTDIR" | X_EXIST -> "EEXIST" | X_NOENT -> "ENOENT" | X_NegOff -> "NEGOFF"
  | X_AppendWriteAt -> "APPENDWRITEAT" | X_Other -> "OTHER"
let show_oserr = function None -> "nil" | Some e -> show_serr e

let show_sres (r : sres) : string = match r with
  | S_Ok -> "ok"
  | S_Err e -> "E:" ^ show_serr e
  | S_Data (n, b, e) -> Printf.sprintf "B:%d:%s:%s" (int_of_z n) (tok_of_str b) (show_oserr e)
  | S_Int z -> Printf.sprintf "N:%d" (int_of_z z)
  | S_Info i -> Printf.sprintf "I:%d:%d:%d:%d:%d" (int_of_z i.si_size) (int_of_z i.si_nlink) (int_of_n i.si_perm)
                  (int_of_z i.si_uid) (int_of_z i.si_gid)
  | S_Fd k -> Printf.sprintf "H:%d" (int_of_nat k)
  | S_BadIndex -> "BADINDEX"

(* the type of findings is empty: kf02 always answers None *)
let show_finding _ : string = "Kf?"

let names_universe = List.map str_of_string ["a"; "b"]

(* what every name and every descriptor shows, asked through query operations (none of them changes the state) *)
let view_ops (nfds : int) (size_of : int -> int) : fop list =
  List.concat_map (fun nm -> [PStat nm; PReadFile nm]) names_universe
  @ List.concat_map (fun k -> [Fstat (nat_of_int k); ReadAt (nat_of_int k, z_of_int (size_of k + 1), z_of_int 0)])
      (List.init nfds (fun k -> k))

let full_view = (try Sys.getenv "VERIF_FIO_FULLVIEW" = "1" with Not_found -> false)
let digest v = if full_view || String.length v <= 32 then v else Digest.to_hex (Digest.string v)

let info_size = function S_Info i -> int_of_z i.si_size | _ -> 0

let spec_view (st : fstate) : string =
  let nfds = List.length st.st_fds in
  let size_of k = info_size (snd (fspec_step st (Fstat (nat_of_int k)))) in
  digest (String.concat "," (List.map (fun o -> show_sres (snd (fspec_step st o))) (view_ops nfds size_of)))

let impl_step (w : world) (o : fop) : world * sres =
  let (w', r) = wstep w (impl_call o) in (w', fproj_res r)

let impl_view (w : world) : string =
  let nfds = List.length w.w_handles in
  let size_of k = info_size (snd (impl_step w (Fstat (nat_of_int k)))) in
  digest (String.concat "," (List.map (fun o -> show_sres (snd (impl_step w o))) (view_ops nfds size_of)))

let orefa_istep (w : world) (o : fop) : world * sres =
  let (w', r) = orefa_step w o in (w', fproj_res r)

let show_ofinding = show_finding

let umask = 18

type mode = Full | Kf | Oproj

(* the O projection of one step: does the implementation show what os.File shows? *)
let proj_dev (r : string) (rs : string) (v : string) (vs : string) : string =
  if r <> rs then Printf.sprintf "DEV:r:%s/%s" r rs
  else if v <> vs then Printf.sprintf "DEV:v:%s/%s" v vs
  else "eq"

let run_file (ops : string list) (mode : mode) : string =
  let wm = ref (init_world_linux (n_of_int umask)) in
  let wo = ref (init_world_linux (n_of_int umask)) in
  let st = ref empty_state in
  let cut_m = ref false and cut_o = ref false in
  let outs = ref [] in
  List.iter (fun os ->
    let o = parse_fop (split_ws os) in
    let km = match kf02 !st o with None -> "-" | Some k -> show_finding k in
    let ko = match kf02_orefa !st o with None -> "-" | Some k -> show_ofinding k in
    match mode with
    | Kf ->
        outs := (km ^ "," ^ ko) :: !outs;
        st := fst (fspec_step !st o)
    | Full | Oproj ->
        let (wm', rm) = impl_step !wm o in
        let (wo', ro) = orefa_istep !wo o in
        let (st', rs) = fspec_step !st o in
        wm := wm'; wo := wo'; st := st';
        let (rm, ro, rs) = (show_sres rm, show_sres ro, show_sres rs) in
        let (vm, vo, vs) = (impl_view wm', impl_view wo', spec_view st') in
        if mode = Full then
          outs := (Printf.sprintf "m:%s o:%s s:%s vm:%s vo:%s vs:%s" rm ro rs vm vo vs) :: !outs
        else begin
          if km <> "-" then cut_m := true;
          if ko <> "-" then cut_o := true;
          (* before the first classified step the property demands equality; from there on the models say
             what is seen *)
          let pm = if !cut_m then proj_dev rm rs vm vs else "eq" in
          let po = if !cut_o then proj_dev ro rs vo vs else "eq" in
          outs := (Printf.sprintf "m=%s o=%s" pm po) :: !outs
        end) ops;
  String.concat " | " (List.rev !outs)

(* ---- directory handles ----------------------------------------------------------- *)
type dcmd = DOpen | DOp of int * dop | DCreate of str | DRemove of str

let parse_dop (t : string list) : dcmd =
  match t with
  | ["DOP"] -> DOpen
  | ["DMK"; name] -> DCreate (str_of_tok name)
  | ["DRM"; name] -> DRemove (str_of_tok name)
  | ["DRD"; h; n] -> DOp (int_of_string h, DReadDir (zi n))
  | ["DRN"; h; n] -> DOp (int_of_string h, DReaddirnames (zi n))
  | ["DSK"; h] -> DOp (int_of_string h, DRewind)
  | ["DR"; h; n] -> DOp (int_of_string h, DRead (zi n))
  | ["DCL"; h] -> DOp (int_of_string h, DClose)
  | _ -> failwith ("fileio: bad dir op " ^ String.concat " " t)

let show_names l = String.concat "," (List.map tok_of_str l)

(* exact rendering of a directory result *)
let show_exact (names : str list) (e : serr option) = Printf.sprintf "NS:%s:%s" (show_names names) (show_oserr e)

(* order-independent rendering: count and error of the batch; the sorted set of everything delivered in
   the pass when the pass is complete (io.EOF, or n <= 0) *)
let canon (acc : string list Stdlib.ref) (n : int) (names : str list) (e : serr option) : string =
  acc := List.map tok_of_str names @ !acc;
  let complete = (e = Some X_EOF) || n <= 0 in
  let s = Printf.sprintf "NS#%d:%s" (List.length names) (show_oserr e) in
  if complete then begin
    let all = List.sort compare !acc in
    acc := [];
    s ^ ":all=" ^ String.concat "," all
  end else s

let dirpath = str_of_string "/tmp/d"

(* A directory that changes while handles are open on it.  The implementation model is exact for every history
   (both take the listing at the first read after open / rewind).  The specification side follows dir_step_live; what
   os.File shows of a change made after a handle's first read and before its next rewind is unspecified, so the handle
   is "dirty" from the change to its next Seek(0,0) and its reads are rendered "?" on the specification side (the
   harness does the same for os.File): no comparison there. *)
let run_dir (names : str list) (ops : string list) (mode : mode) : string =
  let kfmode = (mode = Kf) in
  let sorted l = List.map str_of_string (List.sort_uniq compare (List.map string_of_str l)) in
  let cur = ref (sorted names) in      (* the directory now, bytewise order *)
  let w = ref (init_world_linux (n_of_int umask)) in
  let call c = let (w', r) = wstep !w c in w := w'; r in
  let entry nm = dirpath @ str_of_string "/" @ nm in
  ignore (call (CMkdir (O, dirpath, n_of_int 493)));
  List.iter (fun nm -> ignore (call (CWriteFile (O, entry nm, [], n_of_int 420)))) !cur;
  let specs : ldfd array Stdlib.ref = ref [||] in
  let started : bool array Stdlib.ref = ref [||] in
  let dirty : bool array Stdlib.ref = ref [||] in
  let acc_i : string list Stdlib.ref array Stdlib.ref = ref [||] in
  let acc_s : string list Stdlib.ref array Stdlib.ref = ref [||] in
  let outs = ref [] in
  let emit s = outs := s :: !outs in
  let emit_same (s : string) (sp : string) =
    if kfmode then emit "-,-"
    else if mode = Full then emit (Printf.sprintf "m:%s o:%s s:%s cm:%s co:%s" s s sp s s)
    else emit "m=eq o=eq" in
  let changed () = Array.iteri (fun h st -> if st then !dirty.(h) <- true) !started in
  List.iter (fun os ->
    match parse_dop (split_ws os) with
    | DOpen ->
        let r = call (COpenFile (O, dirpath, N0, N0)) in
        specs := Array.append !specs [| ldfd0 |];
        started := Array.append !started [| false |];
        dirty := Array.append !dirty [| false |];
        acc_i := Array.append !acc_i [| Stdlib.ref [] |];
        acc_s := Array.append !acc_s [| Stdlib.ref [] |];
        emit_same (show_sres (fproj_res r)) (Printf.sprintf "H:%d" (Array.length !specs - 1))
    | DCreate nm ->
        let r = call (CWriteFile (O, entry nm, [], n_of_int 420)) in
        cur := sorted (nm :: !cur); changed ();
        emit_same (show_sres (fproj_res r)) "ok"
    | DRemove nm ->
        let r = call (CRemove (O, entry nm)) in
        let present = List.mem nm !cur in
        cur := List.filter (fun x -> x <> nm) !cur; changed ();
        emit_same (show_sres (fproj_res r)) (if present then "ok" else "E:ENOENT")
    | DOp (h, o) ->
        if h >= Array.length !specs then emit (if kfmode then "-,-" else if mode = Full then "m:BADINDEX o:BADINDEX s:BADINDEX cm:BADINDEX co:BADINDEX" else "m=eq o=eq")
        else begin
          let x = !specs.(h) in
          let (x', rs) = dir_step_live !cur x o in
          !specs.(h) <- x';
          let isread = (match o with DReadDir _ | DReaddirnames _ -> true | _ -> false) in
          let open_ = not x.l_d.d_closed in
          (match o with DRewind when open_ -> !started.(h) <- false; !dirty.(h) <- false | _ -> ());
          let unspecified = isread && !dirty.(h) in
          if isread && open_ then !started.(h) <- true;
          if kfmode then emit "-,-"
          else begin
            let r = call (impl_dcall (nat_of_int h) o) in
            let nreq = match o with DReadDir n | DReaddirnames n -> int_of_z n | _ -> 1 in
            (match o with DRewind -> !acc_i.(h) := []; !acc_s.(h) := [] | _ -> ());
            let (exact, cn) = match r with
              | RInfos (l, e) -> let ns = List.map (fun i -> i.fi_name) l in
                  (show_exact ns (Option.map fproj_err e), canon !acc_i.(h) nreq ns (Option.map fproj_err e))
              | RNames (l, e) -> (show_exact l (Option.map fproj_err e), canon !acc_i.(h) nreq l (Option.map fproj_err e))
              | _ -> let s = show_sres (fproj_res r) in (s, s) in
            let sp = if unspecified then "?" else match rs with
              | D_Batch (l, e) -> canon !acc_s.(h) nreq l e
              | D_Data (n, e) -> Printf.sprintf "B:%d:s:%s" (int_of_z n) (show_oserr e)
              | D_Int z -> Printf.sprintf "N:%d" (int_of_z z)
              | D_Ok -> "ok"
              | D_Err e -> "E:" ^ show_serr e in
            if mode = Full then emit (Printf.sprintf "m:%s o:%s s:%s cm:%s co:%s" exact exact sp cn cn)
            else emit "m=eq o=eq"
          end
        end) ops;
  String.concat " | " (List.rev !outs)

let run (kfmode : mode) () =
  iter_lines (fun line ->
    match split_bar line with
    | hd :: ops ->
        (match split_ws hd with
         | ["file"] -> print_endline (run_file ops kfmode)
         | ["dir"; names] ->
             let ns = if names = "-" then [] else List.map str_of_tok (String.split_on_char ',' names) in
             print_endline (run_dir ns ops kfmode)
         | _ -> print_endline "BADLINE")
    | _ -> print_endline "BADLINE")

let () = Conv.register "fileio" (run Full); Conv.register "fileio-kf" (run Kf); Conv.register "fileio-o" (run Oproj)
