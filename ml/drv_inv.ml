(* driver command "fsinv" (property C05): replays the case lines of the fs stream through the world model and
   evaluates the proved-sound executable invariant check (InvCheck.inv_check) on the model state after every call.
   case line:   <fs> <os> <umask> <snapmode> | op | op ...      (same syntax as "fs")
   output line: 1 | 1 | ...   (0 where the check fails).  Unlike "fs" the history goes on after a RemoveAll that a
   permission error interrupted: model and implementation may then hold different trees (Go map order), both
   must satisfy the invariant. *)
open Conv
open Model

let run () =
  iter_lines (fun line ->
    match split_bar line with
    | hd :: ops ->
        (match split_ws hd with
         | [fs; os; um; _] ->
             let w = ref (Drv_fs.init_world fs os (int_of_string um)) in
             let outs = ref [] in
             (try
               List.iter (fun o ->
                 let c = Drv_fs.parse_op (split_ws o) in
                 let (w', r) = wstep !w c in
                 w := w';
                 outs := (if inv_check w' then "1" else "0") :: !outs;
                 (match r with
                  | RPanic | RDeadlock -> raise Exit
                  | _ -> ())) ops
             with Exit -> ());
             print_endline (String.concat " | " (List.rev !outs))
         | _ -> print_endline "BADLINE")
    | _ -> print_endline "BADLINE")

let () = Conv.register "fsinv" run
