(* driver commands for the file-system world model (MemFS): C01-C05, C07, C11, C14 streams.
   case line:   <fs> <os> <umask> <snapmode> | op | op ...
   output line: <result> #<snap> | <result> #<snap> ...
   snapmode: md5 (digest of the canonical snapshot text after every call), full (the text itself), none *)
open Conv
open Model

let zi s = z_of_int (int_of_string s)
let ni s = n_of_int (int_of_string s)
let nat s = nat_of_int (int_of_string s)
let bytes_of_tok t = str_of_tok t

let parse_op (toks : string list) : call =
  match toks with
  | ["MK"; v; p; perm] -> CMkdir (nat v, str_of_tok p, ni perm)
  | ["MA"; v; p; perm] -> CMkdirAll (nat v, str_of_tok p, ni perm)
  | ["OP"; v; p; flag; perm] -> COpenFile (nat v, str_of_tok p, ni flag, ni perm)
  | ["RM"; v; p] -> CRemove (nat v, str_of_tok p)
  | ["RA"; v; p] -> CRemoveAll (nat v, str_of_tok p)
  | ["RN"; v; o; n] -> CRename (nat v, str_of_tok o, str_of_tok n)
  | ["LN"; v; o; n] -> CLink (nat v, str_of_tok o, str_of_tok n)
  | ["SL"; v; o; n] -> CSymlink (nat v, str_of_tok o, str_of_tok n)
  | ["RL"; v; p] -> CReadlink (nat v, str_of_tok p)
  | ["TR"; v; p; size] -> CTruncate (nat v, str_of_tok p, zi size)
  | ["CM"; v; p; mode] -> CChmod (nat v, str_of_tok p, ni mode)
  | ["CO"; v; p; u; g] -> CChown (nat v, str_of_tok p, zi u, zi g)
  | ["LC"; v; p; u; g] -> CLchown (nat v, str_of_tok p, zi u, zi g)
  | ["CT"; v; p] -> CChtimes (nat v, str_of_tok p)
  | ["CD"; v; p] -> CChdir (nat v, str_of_tok p)
  | ["WD"; v] -> CGetwd (nat v)
  | ["ST"; v; p] -> CStat (nat v, str_of_tok p)
  | ["LS"; v; p] -> CLstat (nat v, str_of_tok p)
  | ["ES"; v; p] -> CEvalSymlinks (nat v, str_of_tok p)
  | ["RD"; v; p] -> CReadDir (nat v, str_of_tok p)
  | ["RF"; v; p] -> CReadFile (nat v, str_of_tok p)
  | ["WF"; v; p; d; perm] -> CWriteFile (nat v, str_of_tok p, bytes_of_tok d, ni perm)
  | ["SB"; v; p] -> CSub (nat v, str_of_tok p)
  | ["SU"; v; u; g; a] -> CSetUser (nat v, zi u, zi g, a = "1")
  | ["UM"; v; m] -> CSetUMask (nat v, ni m)
  | ["fR"; h; n] -> FRead (nat h, zi n)
  | ["fRA"; h; n; off] -> FReadAt (nat h, zi n, zi off)
  | ["fW"; h; d] -> FWrite (nat h, bytes_of_tok d)
  | ["fWA"; h; d; off] -> FWriteAt (nat h, bytes_of_tok d, zi off)
  | ["fSK"; h; off; wh] -> FSeek (nat h, zi off, zi wh)
  | ["fTR"; h; size] -> FTruncate (nat h, zi size)
  | ["fST"; h] -> FStat (nat h)
  | ["fSY"; h] -> FSync (nat h)
  | ["fCM"; h; m] -> FChmod (nat h, ni m)
  | ["fCO"; h; u; g] -> FChown (nat h, zi u, zi g)
  | ["fCD"; h] -> FChdir (nat h)
  | ["fCL"; h] -> FClose (nat h)
  | ["fRD"; h; n] -> FReadDir (nat h, zi n)
  | ["fRN"; h; n] -> FReaddirnames (nat h, zi n)
  | _ -> failwith ("fs: bad op " ^ String.concat " " toks)

let show_code os e =
  let (c, x) = ecode os e in
  let x = int_of_n x in
  match int_of_n c with
  | 0 -> Printf.sprintf "L%d" x
  | 1 -> Printf.sprintf "W%d" x
  | 2 -> Printf.sprintf "C%d" x
  | 3 -> (match x with 1 -> "Gclosed" | 2 -> "Ginvalid" | _ -> "Geof")
  | _ -> "FUEL"
let show_oerr os e = match e with None -> "nil" | Some e -> show_code os e
let show_info i =
  Printf.sprintf "%s:%d:%d:%d:%d:%d" (tok_of_str i.fi_name) (int_of_z i.fi_size) (int_of_n i.fi_mode)
    (int_of_z i.fi_uid) (int_of_z i.fi_gid) (int_of_z i.fi_nlink)

(* which calls report the error path (compared) *)
let path_arg (c : call) : str option = match c with
  | CMkdirAll (_, p, _) | CEvalSymlinks (_, p) -> Some p
  | _ -> None

let show_res os (c : call) (r : res) : string =
  match r with
  | ROk -> "ok"
  | RFail e -> (match path_arg c with
               | Some p -> Printf.sprintf "EP %s %s" (show_code os e) (tok_of_str p)
               | None -> "E " ^ show_code os e)
  | RErrPath (e, p) -> Printf.sprintf "EP %s %s" (show_code os e) (tok_of_str p)
  | RInfo i -> "I " ^ show_info i
  | RStr s -> "S " ^ tok_of_str s
  | RBytes (n, b, e) -> Printf.sprintf "B %d %s %s" (int_of_z n) (tok_of_str b) (show_oerr os e)
  | RInt z -> Printf.sprintf "N %d" (int_of_z z)
  | RNames (l, e) -> Printf.sprintf "NS %s %s" (String.concat "," (List.map tok_of_str l)) (show_oerr os e)
  | RInfos (l, e) -> Printf.sprintf "IS %s %s" (String.concat "," (List.map show_info l)) (show_oerr os e)
  | RHandle h -> Printf.sprintf "H %d" (int_of_nat h)
  | RView v -> Printf.sprintf "V %d" (int_of_nat v)
  | RPanic -> "PANIC"
  | RDeadlock -> "DEADLOCK"

(* canonical snapshot text: same-file classes numbered by first occurrence *)
let snapshot_text (w : world) : string =
  let b = Buffer.create 256 in
  let classes = ref [] in
  let cls id = match List.assoc_opt id !classes with
    | Some k -> k
    | None -> let k = List.length !classes in classes := (id, k) :: !classes; k in
  List.iter (fun e -> match e with
    | SDir (p, m, u, g) -> Buffer.add_string b (Printf.sprintf "D %s %d %d %d\n" (tok_of_str p) (int_of_n m) (int_of_z u) (int_of_z g))
    | SFile (p, m, u, g, d, k, id) ->
        Buffer.add_string b (Printf.sprintf "F %s %d %d %d %d %d %s\n" (tok_of_str p) (int_of_n m) (int_of_z u) (int_of_z g)
                               (int_of_z k) (cls (int_of_n id)) (tok_of_str d))
    | SSym (p, m, u, g, t) -> Buffer.add_string b (Printf.sprintf "L %s %d %d %d %s\n" (tok_of_str p) (int_of_n m) (int_of_z u) (int_of_z g) (tok_of_str t)))
    (snapshot w O);
  Buffer.contents b

let show_snap mode w = match mode with
  | "none" -> ""
  | "full" -> " #" ^ String.concat ";" (String.split_on_char '\n' (snapshot_text w))
  | _ -> " #" ^ Digest.to_hex (Digest.string (snapshot_text w))

let os_of_call (w : world) (c : call) : ostype = match c with
  | FRead (h, _) | FReadAt (h, _, _) | FWrite (h, _) | FWriteAt (h, _, _) | FSeek (h, _, _) | FTruncate (h, _)
  | FStat h | FSync h | FChmod (h, _) | FChown (h, _, _) | FChdir h | FClose h | FReadDir (h, _) | FReaddirnames (h, _) ->
      view_os w (handle_view w h)
  | _ -> Linux

let init_world fs os um = match fs, os with
  | "memfs", "linux" -> init_world_linux (n_of_int um)
  | _ -> failwith "fs: unsupported fs/os"

let run_line line =
    match split_bar line with
    | hd :: ops ->
        (match split_ws hd with
         | [fs; os; um; snapmode] ->
             let w = ref (init_world fs os (int_of_string um)) in
             let osv = if os = "windows" then Windows else Linux in
             let outs = ref [] in
             (try
               List.iter (fun o ->
                 let c = parse_op (split_ws o) in
                 let (w', r) = wstep !w c in
                 w := w';
                 (match r with
                  | RPanic | RDeadlock ->
                      outs := (show_res osv c r ^ (if snapmode = "none" then "" else " #-")) :: !outs; raise Exit
                  | RFail EPermDenied when (match c with CRemoveAll _ -> true | _ -> false) ->
                      (* RemoveAll interrupted by a permission failure has removed an unspecified part of the
                         tree (Go map iteration order): the history ends here on both sides *)
                      outs := (show_res osv c r ^ (if snapmode = "none" then "" else " #?")) :: !outs; raise Exit
                  | _ -> outs := (show_res osv c r ^ show_snap snapmode w') :: !outs)) ops
             with Exit -> ());
             print_endline (String.concat " | " (List.rev !outs))
         | _ -> print_endline "BADLINE")
    | _ -> print_endline "BADLINE"

(* lines whose header names another file system are handled by that file system's driver (drv_orefa.ml) *)
let run () = iter_lines run_line

let () = Conv.register "fs" run
