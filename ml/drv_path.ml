(* driver commands for C13 (see driver.ml) *)
open Conv

module Path = struct
  open Model
  let os_of s = match s with "linux" -> Linux | "windows" -> Windows | _ -> failwith "bad os"
  let t = tok_of_str
  let b x = if x then "1" else "0"
  let show_rel r = match r with RelOk s -> "ok:" ^ t s | RelErr -> "err" | RelLoop -> "loop"
  let show_match r = match r with MVal true -> "1" | MVal false -> "0" | MBad -> "bad"
  let curdir os = match os with Linux -> str_of_string "/cur/dir" | Windows -> str_of_string "C:\\cur"
  let one os s =
    let (d, f) = split os s in
    Printf.sprintf "clean=%s split=%s,%s dir=%s base=%s isabs=%s from=%s to=%s vol=%s vnl=%d abs=%s"
      (t (clean os s)) (t d) (t f) (t (dir os s)) (t (base os s)) (b (is_abs os s))
      (t (from_slash os s)) (t (to_slash os s)) (t (volume_name os s)) (int_of_nat (volume_name_len os s))
      (t (abs os (curdir os) s))
  let two os a c check_rest =
    Printf.sprintf "join=%s join3=%s rel=%s match=%s"
      (t (join os [a; c])) (t (join os [c; a; c])) (show_rel (rel os a c)) (show_match (path_match os check_rest a c))
  let show_pi p =
    Printf.sprintf "%d:%d:%s:%s:%s:%s" (int_of_nat p.pi_start) (int_of_nat p.pi_end)
      (t (pi_part p)) (t (pi_left p)) (t (pi_right p)) (b (pi_is_last p))
  (* iterate to the end (bounded), returning the shown positions *)
  let rec iter os p fuel acc =
    if fuel = 0 then List.rev ("FUEL" :: acc) else
    let (ok, p') = pi_next os p in
    if ok then iter os p' (fuel - 1) (show_pi p' :: acc) else List.rev acc
  let pi os path np =
    let p0 = pi_new os path in
    let parts = iter os p0 64 [] in
    let n = List.length parts in
    let reps = List.init n (fun k ->
      (* advance k+1 times, then ReplacePart *)
      let rec adv p j = if j = 0 then p else adv (snd (pi_next os p)) (j - 1) in
      let p = adv p0 (k + 1) in
      let (reset, p') = pi_replace_part os p np in
      Printf.sprintf "%s>%s:%d:%d>%s" (b reset) (t p'.pi_path) (int_of_nat p'.pi_start) (int_of_nat p'.pi_end)
        (String.concat "," (iter os p' 64 []))) in
    Printf.sprintf "parts=%s repl=%s" (String.concat "," parts) (String.concat ";" reps)
  let run () =
    iter_lines (fun line ->
      match split_ws line with
      | ["one"; os; s] -> let os = os_of os in let s = str_of_tok s in
          (* second segment: what path/filepath must return (same functions: avfs claims equality) *)
          let r = one os s in
          print_endline (r ^ " || " ^ r)
      | ["two"; os; a; c] -> let os = os_of os in let a = str_of_tok a and c = str_of_tok c in
          let r = two os a c false in print_endline (r ^ " || " ^ r)
      | ["pi"; os; path; np] -> print_endline (pi (os_of os) (str_of_tok path) (str_of_tok np))
      | _ -> print_endline "BADLINE")
end

let () = Conv.register "path" Path.run
