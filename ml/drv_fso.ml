(* driver command "fso": runs the SPECIFICATION model (Posix.v) on the histories of the oracle stream.
   Per call it prints   <spec result> #<snapshot> ~<kf class or -> ~<T|F>
   where T/F says whether the IMPLEMENTATION model, started from the specification's state, gives the
   same projected result and the same tree (the statement of theorem C01_step, evaluated as a test). *)
open Conv
open Model

let show_pinfo (i : finfo) =
  let m = int_of_n i.fi_mode in
  let isdir = m land (1 lsl 31) <> 0 and issym = m land (1 lsl 27) <> 0 in
  if isdir then Printf.sprintf "%s:-:%d:%d:%d:-" (tok_of_str i.fi_name) m (int_of_z i.fi_uid) (int_of_z i.fi_gid)
  else if issym then Printf.sprintf "%s:%d:%d:%d:%d:-" (tok_of_str i.fi_name) (int_of_z i.fi_size) m (int_of_z i.fi_uid) (int_of_z i.fi_gid)
  else Printf.sprintf "%s:%d:%d:%d:%d:%d" (tok_of_str i.fi_name) (int_of_z i.fi_size) m (int_of_z i.fi_uid) (int_of_z i.fi_gid) (int_of_z i.fi_nlink)

let show_sres (r : pres) : string = match r with
  | SOk -> "ok"
  | SErr e -> if int_of_n e = 9998 then "E Gtoomany" else Printf.sprintf "E L%d" (int_of_n e)
  | SInfo i -> "I " ^ show_pinfo i
  | SStr s -> "S " ^ tok_of_str s
  | SBytes b -> Printf.sprintf "B %d %s nil" (List.length b) (tok_of_str b)
  | SInfos l ->
      let ty (i : finfo) = (int_of_n i.fi_mode) land ((1 lsl 31) lor (1 lsl 27)) in
      Printf.sprintf "IS %s nil" (String.concat "," (List.map (fun i -> Printf.sprintf "%s:%d" (tok_of_str i.fi_name) (ty i)) l))

let world_of (w : sworld) : world =
  let v = w.sw_sv.sv_view in
  let h = w.sw_fs.f_heap in
  let cwd = path_of (S (nat_of_int (List.length h))) h v.v_root w.sw_sv.sv_cwd [] in
  { w_fs = w.sw_fs; w_views = [ { v with v_cwd = cwd } ]; w_handles = [] }

(* the shape of a path operand on the specification state: e empty, r the root, d last element "." or "..",
   s symbolic link (not followed), D directory, F file, n missing last element, x the walk fails earlier *)
let shape (w : sworld) (p : str) : string =
  if p = [] then "e" else
  match klookup w.sw_fs w.sw_sv false false p with
  | WNode (_, LRoot, _, _) -> "r"
  | WNode (_, (LDot | LDotDot), _, _) -> "d"
  | WNode (_, _, _, n) ->
      (match List.nth_opt w.sw_fs.f_heap (int_of_nat n) with
       | Some (NSym _) -> "s" | Some (NDir _) -> "D" | Some (NFile _) -> "F" | None -> "?")
  | WNeg (par, _, _) ->
      (* missing last element; N when its parent directory has the set-group-id bit *)
      (match List.nth_opt w.sw_fs.f_heap (int_of_nat par) with
       | Some (NDir (_, m)) when (int_of_n m.m_mode) land (1 lsl 22) <> 0 -> "N"
       | _ -> "n")
  | WParent _ -> "?"
  | WErr _ -> "x"

let shapes (w : sworld) (c : call) : string =
  let sh = shape w in
  match c with
  | CMkdir (_, p, _) | CMkdirAll (_, p, _) | COpenFile (_, p, _, _) | CRemove (_, p) | CRemoveAll (_, p)
  | CReadlink (_, p) | CTruncate (_, p, _) | CChmod (_, p, _) | CChown (_, p, _, _) | CLchown (_, p, _, _)
  | CChtimes (_, p) | CChdir (_, p) | CStat (_, p) | CLstat (_, p) | CEvalSymlinks (_, p) | CReadDir (_, p)
  | CReadFile (_, p) | CWriteFile (_, p, _, _) | CSub (_, p) -> sh p
  | CRename (_, o, n) | CLink (_, o, n) -> sh o ^ sh n
  | CSymlink (_, t, n) -> (if t = [] then "e" else "t") ^ sh n
  | _ -> "-"

let is_rel (p : str) = match p with c :: _ -> int_of_n c <> 47 | [] -> true
let uses_cwd (c : call) : bool =
  match c with
  | CGetwd _ -> true
  | CMkdir (_, p, _) | CMkdirAll (_, p, _) | COpenFile (_, p, _, _) | CRemove (_, p) | CRemoveAll (_, p)
  | CReadlink (_, p) | CTruncate (_, p, _) | CChmod (_, p, _) | CChown (_, p, _, _) | CLchown (_, p, _, _)
  | CChtimes (_, p) | CChdir (_, p) | CStat (_, p) | CLstat (_, p) | CEvalSymlinks (_, p) | CReadDir (_, p)
  | CReadFile (_, p) | CWriteFile (_, p, _, _) -> is_rel p
  | CRename (_, o, n) | CLink (_, o, n) -> is_rel o || is_rel n
  | CSymlink (_, _, n) -> is_rel n
  | _ -> false

let cwd_alive (w : sworld) : bool =
  let v = w.sw_sv.sv_view and h = w.sw_fs.f_heap in
  is_ancestor (S (nat_of_int (List.length h))) h v.v_root v.v_root w.sw_sv.sv_cwd

let snap mode (w : sworld) = Drv_fs.show_snap mode (world_of w)

let run () =
  iter_lines (fun line ->
    match split_bar line with
    | hd :: ops ->
        (match split_ws hd with
         | [_; _; um; snapmode] ->
             let w = ref (spec_init (n_of_int (int_of_string um))) in
             let outs = ref [] in
             (* the working directory as MemFS keeps it: the path string at the time of the last Chdir *)
             let cwdstr = ref (str_of_string "/") in
             let cur_path (w : sworld) =
               let v = w.sw_sv.sv_view and h = w.sw_fs.f_heap in
               path_of (S (nat_of_int (List.length h))) h v.v_root w.sw_sv.sv_cwd [] in
             List.iter (fun o ->
               let c = Drv_fs.parse_op (split_ws o) in
               let moved = not (cwd_alive !w) || cur_path !w <> !cwdstr in
               (* the working directory is where MemFS thinks it is, but the acting user cannot walk to it from the
                  root (an ancestor is not searchable): MemFS resolves relative paths through that walk, the kernel
                  starts at the directory itself *)
               let unreach = (not moved) &&
                             (match klookup !w.sw_fs !w.sw_sv false true (cur_path !w) with WErr _ -> true | _ -> false) in
               let kf = match kf_class !w c with None -> "-" | Some k -> string_of_int (int_of_n k) in
               let (w', r) = spec_step true !w c in
               let sr = show_sres r and ss = snap snapmode w' in
               (* the implementation model from the same state *)
               let (wi, ri) = impl_step_proj (world_of !w) c in
               let same = show_sres ri = sr
                          && Drv_fs.snapshot_text wi = Drv_fs.snapshot_text (world_of w') in
               (match c, r with CChdir _, SOk -> cwdstr := cur_path w' | _ -> ());
               outs := (Printf.sprintf "%s%s ~%s ~%s ~%s%s ~%s" sr ss kf (if same then "T" else "F")
                          (if uses_cwd c then (if moved then "m" else if unreach then "u" else "c") else "") (shapes !w c)
                          (if cwd_alive w' then "A" else "D")) :: !outs;
               w := w') ops;
             print_endline (String.concat " | " (List.rev !outs))
         | _ -> print_endline "BADLINE")
    | _ -> print_endline "BADLINE")

let () = Conv.register "fso" run
