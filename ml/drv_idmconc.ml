(* driver command for the concurrent half of C15 (Idm/MemIdmConc.v), see harness/cmd/avfscheck/concidm.go *)
open Conv

module IdmConc = struct
  open Model
  let split_on (sep : string) (s : string) : string list =
    List.map String.trim (Str.split_delim (Str.regexp_string sep) s)
  let parse_prog (s : string) : iop list =
    List.concat_map (fun o -> if o = "-" || o = "" then [] else Drv_idm.Idm.parse_ops (split_ws o)) (split_on " , " s)
  let cmp_str a b = compare (string_of_str a) (string_of_str b)
  let show_dump (s : idm) : string =
    let g (gr : grp) = Printf.sprintf "%s:%d" (tok_of_str gr.g_name) (int_of_z gr.g_gid) in
    let u (us : usr) = Printf.sprintf "%s:%d:%d" (tok_of_str us.u_name) (int_of_z us.u_uid) (int_of_z us.u_gid) in
    let gn = List.sort (fun (a, _) (b, _) -> cmp_str a b) s.groupsByName in
    let gi = List.sort (fun (a, _) (b, _) -> compare (int_of_z a) (int_of_z b)) s.groupsById in
    let un = List.sort (fun (a, _) (b, _) -> cmp_str a b) s.usersByName in
    let ui = List.sort (fun (a, _) (b, _) -> compare (int_of_z a) (int_of_z b)) s.usersById in
    "GN" ^ String.concat "" (List.map (fun (k, v) -> " " ^ tok_of_str k ^ "=" ^ g v) gn) ^
    " GI" ^ String.concat "" (List.map (fun (k, v) -> " " ^ string_of_int (int_of_z k) ^ "=" ^ g v) gi) ^
    " UN" ^ String.concat "" (List.map (fun (k, v) -> " " ^ tok_of_str k ^ "=" ^ u v) un) ^
    " UI" ^ String.concat "" (List.map (fun (k, v) -> " " ^ string_of_int (int_of_z k) ^ "=" ^ u v) ui) ^
    Printf.sprintf " MAX %d %d" (int_of_z s.maxGid) (int_of_z s.maxUid)
  let run () =
    iter_lines (fun line ->
      match split_on " | " line with
      | [hd; setup; progs; sched] ->
          (match split_ws hd with
           | [an; gn] ->
               let (s0, _) = idm_run (idm_init (str_of_tok an) (str_of_tok gn)) (parse_prog setup) in
               let ps = List.map parse_prog (split_on " ; " progs) in
               let sc = List.filter_map (fun x -> if x = "-" then None else Some (nat_of_int (int_of_string x))) (split_ws sched) in
               let ((s, ths), evs) = crun_traced (s0, mk_threads ps) sc in
               let results = String.concat " ; " (List.mapi (fun i t ->
                 let n = List.length (List.nth ps i) in
                 let rs = List.map Drv_idm.Idm.show_res t.t_out in
                 let rs = rs @ List.init (max 0 (n - List.length rs)) (fun _ -> "noreturn") in
                 if rs = [] then "-" else String.concat " , " rs) ths) in
               let traces = String.concat " ; " (List.mapi (fun i _ ->
                 let n = List.length (List.nth ps i) in
                 let cs = List.init n (fun k ->
                   let acq = List.filter_map (fun (((ti, ci), l), w) ->
                     if int_of_nat ti = i && int_of_nat ci = k then Some ((if w then "W" else "R") ^ string_of_int (int_of_nat l)) else None) evs in
                   if acq = [] then "-" else String.concat "." acq) in
                 if cs = [] then "-" else String.concat "," cs) ths) in
               print_endline ("done | " ^ results ^ " | " ^ traces ^ " | " ^ show_dump s)
           | _ -> print_endline "BADLINE")
      | _ -> print_endline "BADLINE")
end

let () = Conv.register "concidm" IdmConc.run
