(* driver command for property C17: the file-system world model under both OS types,
   with the volume-management calls and caller-supplied system directories.
   case line:   <fs> <os> <umask> <snapmode> [sd=<tok>:<perm>,...] | op | op ...
   ops: those of drv_fs.ml plus  VA <view> <path> | VD <view> <path> | VL <view>
   output line: <result> #<snap> | ...      (snapshot = every volume of a Windows-typed file system) *)
open Conv
open Model

let parse_oop (toks : string list) : ocall =
  match toks with
  | ["VA"; v; p] -> OVolumeAdd (Drv_fs.nat v, str_of_tok p)
  | ["VD"; v; p] -> OVolumeDelete (Drv_fs.nat v, str_of_tok p)
  | ["VL"; v] -> OVolumeList (Drv_fs.nat v)
  | _ -> OCall (Drv_fs.parse_op toks)

let snapshot_text (w : world) : string =
  let b = Buffer.create 256 in
  let classes = ref [] in
  let cls id = match List.assoc_opt id !classes with
    | Some k -> k
    | None -> let k = List.length !classes in classes := (id, k) :: !classes; k in
  List.iter (fun e -> match e with
    | SDir (p, m, u, g) -> Buffer.add_string b (Printf.sprintf "D %s %d %d %d\n" (tok_of_str p) (int_of_n m) (int_of_z u) (int_of_z g))
    | SFile (p, m, u, g, d, k, id) ->
        Buffer.add_string b (Printf.sprintf "F %s %d %d %d %d %d %s\n" (tok_of_str p) (int_of_n m) (int_of_z u) (int_of_z g)
                               (int_of_z k) (cls (int_of_n id)) (tok_of_str d))
    | SSym (p, m, u, g, t) -> Buffer.add_string b (Printf.sprintf "L %s %d %d %d %s\n" (tok_of_str p) (int_of_n m) (int_of_z u) (int_of_z g) (tok_of_str t)))
    (vol_snapshot w O);
  Buffer.contents b

(* the OS-independent view (IsoView.iso_view): paths spelled /c1/c2, link targets normalised *)
let norm_text (w : world) : string =
  let b = Buffer.create 256 in
  let classes = ref [] in
  let cls id = match List.assoc_opt id !classes with
    | Some k -> k
    | None -> let k = List.length !classes in classes := (id, k) :: !classes; k in
  let path cs = if cs = [] then "/" else String.concat "" (List.map (fun c -> "/" ^ string_of_str c) cs) in
  List.iter (fun e -> match e with
    | NEDir p -> Buffer.add_string b (Printf.sprintf "D %s\n" (tok_of_string (path p)))
    | NEFile (p, d, k, id) ->
        Buffer.add_string b (Printf.sprintf "F %s %d %d %s\n" (tok_of_string (path p)) (int_of_z k) (cls (int_of_n id)) (tok_of_str d))
    | NESym (p, t) -> Buffer.add_string b (Printf.sprintf "L %s %s\n" (tok_of_string (path p)) (tok_of_str t)))
    (iso_view w O);
  Buffer.contents b

let show_snap mode w = match mode with
  | "none" -> ""
  | "full" -> " #" ^ String.concat ";" (String.split_on_char '\n' (snapshot_text w))
  | "norm" -> " #" ^ Digest.to_hex (Digest.string (snapshot_text w)) ^ "/" ^ Digest.to_hex (Digest.string (norm_text w))
  | "normfull" -> " #" ^ String.concat ";" (String.split_on_char '\n' (snapshot_text w)) ^ "/" ^ String.concat ";" (String.split_on_char '\n' (norm_text w))
  | _ -> " #" ^ Digest.to_hex (Digest.string (snapshot_text w))

let parse_dirs (s : string) : (str * n) list =
  (* sd=<tok>:<perm>,<tok>:<perm> *)
  let body = String.sub s 3 (String.length s - 3) in
  List.map (fun e -> match String.split_on_char ':' e with
    | [t; p] -> (str_of_tok t, n_of_int (int_of_string p))
    | _ -> failwith "ostype: bad sd= entry")
    (List.filter (fun x -> x <> "") (String.split_on_char ',' body))

let init_world fs os um dirs =
  if fs <> "memfs" then failwith "ostype: unsupported fs";
  let osv = match os with "linux" -> Linux | "windows" -> Windows | _ -> failwith "ostype: unsupported os" in
  match dirs with
  | None -> init_world_os osv (n_of_int um)
  | Some d -> init_world_dirs osv (n_of_int um) d

let show_ores osv (c : ocall) (r : ores) : string =
  match r with
  | ORes r -> (match c with
               | OCall c -> Drv_fs.show_res osv c r
               | _ -> Drv_fs.show_res osv (CGetwd O) r)
  | OVErr e -> Printf.sprintf "E C%d" (int_of_n (vcode e))
  | OVols l -> "VS " ^ String.concat "," (List.map tok_of_str l)

(* ---- OrefaFS (model OrefaFS.v / OrefaWorld.v, initial world and snapshot of OrefaWin.v) ------------------- *)
let o_entries (w : oworld) = ovsnapshot w

let o_snapshot_text (w : oworld) : string =
  let b = Buffer.create 256 in
  let os = oworld_os w in
  let classes = ref [] in
  let cls id = match List.assoc_opt id !classes with
    | Some k -> k
    | None -> let k = List.length !classes in classes := (id, k) :: !classes; k in
  List.iter (fun e -> match e with
    | OS (SDir (p, m, u, g)) ->
        Buffer.add_string b (Printf.sprintf "D %s %d %d %d\n" (tok_of_str p) (int_of_n m) (int_of_z u) (int_of_z g))
    | OS (SFile (p, m, u, g, d, k, id)) ->
        Buffer.add_string b (Printf.sprintf "F %s %d %d %d %d %d %s\n" (tok_of_str p) (int_of_n m) (int_of_z u) (int_of_z g)
                               (int_of_z k) (cls (int_of_n id)) (tok_of_str d))
    | OS (SSym (p, m, u, g, t)) ->
        Buffer.add_string b (Printf.sprintf "L %s %d %d %d %s\n" (tok_of_str p) (int_of_n m) (int_of_z u) (int_of_z g) (tok_of_str t))
    | OSErr (k, p, e) ->
        (match int_of_nat k with
         | 0 -> Buffer.add_string b (Printf.sprintf "!lstat-root %s %s\n" (tok_of_str p) (Drv_fs.show_code os e))
         | 1 -> Buffer.add_string b (Printf.sprintf "!readdir %s %s\n" (tok_of_str p) (Drv_fs.show_code os e))
         | _ -> Buffer.add_string b (Printf.sprintf "!lstat %s %s\n" (tok_of_str p) (Drv_fs.show_code os e))))
    (o_entries w);
  Buffer.contents b

(* the harness's normalisation of a path: volume dropped, '/' for the separator *)
let norm_path os (p : str) : string =
  let s = string_of_str p in
  if os = Windows then
    let s = if String.length s >= 2 && s.[1] = ':' then String.sub s 2 (String.length s - 2) else s in
    String.map (fun c -> if c = '\\' then '/' else c) s
  else s

let o_norm_text (w : oworld) : string =
  let b = Buffer.create 256 in
  let os = oworld_os w in
  let classes = ref [] in
  let cls id = match List.assoc_opt id !classes with
    | Some k -> k
    | None -> let k = List.length !classes in classes := (id, k) :: !classes; k in
  List.iter (fun e -> match e with
    | OS (SDir (p, _, _, _)) -> Buffer.add_string b (Printf.sprintf "D %s\n" (tok_of_string (norm_path os p)))
    | OS (SFile (p, _, _, _, d, k, id)) ->
        Buffer.add_string b (Printf.sprintf "F %s %d %d %s\n" (tok_of_string (norm_path os p)) (int_of_z k) (cls (int_of_n id)) (tok_of_str d))
    | OS (SSym (p, _, _, _, t)) ->
        Buffer.add_string b (Printf.sprintf "L %s %s\n" (tok_of_string (norm_path os p)) (tok_of_string (norm_path os t)))
    | OSErr (_, p, _) -> Buffer.add_string b (Printf.sprintf "! %s\n" (tok_of_string (norm_path os p))))
    (o_entries w);
  Buffer.contents b

let o_show_snap mode w = match mode with
  | "none" -> ""
  | "full" -> " #" ^ String.concat ";" (String.split_on_char '\n' (o_snapshot_text w))
  | "norm" -> " #" ^ Digest.to_hex (Digest.string (o_snapshot_text w)) ^ "/" ^ Digest.to_hex (Digest.string (o_norm_text w))
  | "normfull" -> " #" ^ String.concat ";" (String.split_on_char '\n' (o_snapshot_text w)) ^ "/" ^ String.concat ";" (String.split_on_char '\n' (o_norm_text w))
  | _ -> " #" ^ Digest.to_hex (Digest.string (o_snapshot_text w))

let run_orefa_line os um snapmode dirs ops =
  let osv = match os with "linux" -> Linux | "windows" -> Windows | _ -> failwith "ostype: unsupported os" in
  let w = ref (match dirs with None -> o_init_os osv (n_of_int um) | Some d -> o_init_dirs osv (n_of_int um) d) in
  let outs = ref [] in
  (try
    List.iter (fun o ->
      match split_ws o with
      | ("VA" | "VD" | "VL") :: _ -> outs := ("NOVM" ^ o_show_snap snapmode !w) :: !outs
      | toks ->
          let c = Drv_fs.parse_op toks in
          let (w', r) = ostep !w c in
          w := w';
          (match r, c with
           | (RPanic | RDeadlock), _ ->
               outs := (Drv_fs.show_res osv c r ^ (if snapmode = "none" then "" else " #-")) :: !outs; raise Exit
           | RFail EW_NotSupported, CSymlink _ when osv = Windows ->
               (* OrefaFS.o_symlink: the Windows value of Symlink is ErrWinPrivilegeNotHeld (1314, errors.go), which has
                  no constructor in MemFS.ekind; the model stands for it with EW_NotSupported *)
               outs := ("E W1314" ^ o_show_snap snapmode w') :: !outs
           | _ -> outs := (Drv_fs.show_res osv c r ^ o_show_snap snapmode w') :: !outs)) ops
  with Exit -> ());
  print_endline (String.concat " | " (List.rev !outs))

let run () =
  iter_lines (fun line ->
    match split_bar line with
    | hd :: ops ->
        let hdt = split_ws hd in
        (match hdt with
         | fs :: os :: um :: snapmode :: rest ->
             let dirs = match rest with
               | [s] when String.length s >= 3 && String.sub s 0 3 = "sd=" -> Some (parse_dirs s)
               | [] -> None
               | _ -> failwith "ostype: bad header" in
             if fs = "orefafs" then run_orefa_line os (int_of_string um) snapmode dirs ops else
             let w = ref (init_world fs os (int_of_string um) dirs) in
             let osv = if os = "windows" then Windows else Linux in
             let outs = ref [] in
             (try
               List.iter (fun o ->
                 let c = parse_oop (split_ws o) in
                 let (w', r) = vstep !w c in
                 w := w';
                 (match r, c with
                  | ORes (RPanic | RDeadlock), _ ->
                      outs := (show_ores osv c r ^ (if snapmode = "none" then "" else " #-")) :: !outs; raise Exit
                  | ORes (RFail EPermDenied), (OCall (CRemoveAll _) | OVolumeDelete _) ->
                      (* RemoveAll interrupted by a permission failure has removed an unspecified part of the
                         tree (Go map iteration order): the history ends here on both sides *)
                      outs := (show_ores osv c r ^ (if snapmode = "none" then "" else " #?")) :: !outs; raise Exit
                  | _ -> outs := (show_ores osv c r ^ show_snap snapmode w') :: !outs)) ops
             with Exit -> ());
             print_endline (String.concat " | " (List.rev !outs))
         | _ -> print_endline "BADLINE")
    | _ -> print_endline "BADLINE")

let () = Conv.register "ostype" run

(* what a freshly constructed file system reports, according to the model:
   SetOSType modelled by OsTypeCfg.set_os_type over the REGENERATED shape (Gen_ostype.gen_setos), the host being Linux *)
let run_info () =
  iter_lines (fun line ->
    match split_ws line with
    | ["info"; fs; os; tag] ->
        let req = if os = "windows" then OsWindows else OsLinux in
        let feat = if tag = "tag" then feat_tag else feat_notag in
        (match set_os_type gen_setos feat OsLinux req with
         | SetOk (t, sep) ->
             let osv = flavour t in
             let w = init_world_os osv (n_of_int 18) in
             let cwd = match w.w_views with v :: _ -> v.v_cwd | [] -> [] in
             let volmgr = fs = "memfs" in
             let vols = if not volmgr then [] else
               (match volume_list w.w_fs (List.hd w.w_views) with OVols l -> l | _ -> []) in
             let cfg = if fs = "memfs" then gen_cfg_memfs else gen_cfg_orefafs in
             Printf.printf "type=%d sep=%d feat=%d cwd=%s vols=%s dmode=%d fmode=%d volmgr=%d\n"
               (match t with OsUnknown -> 0 | OsLinux -> 1 | OsWindows -> 2 | OsDarwin -> 3)
               (int_of_n sep) (if feat then 1 else 0) (tok_of_str cwd)
               (String.concat "," (List.map tok_of_str vols))
               (int_of_n (cfg_dir_mode cfg osv)) (int_of_n (cfg_file_mode cfg osv)) (if volmgr then 1 else 0)
         | SetRefused -> print_endline "refused type=0 sep=0"   (* the fields keep the zero values of the Go struct *)
         | SetUnknownShape -> print_endline "unknown-shape")
    | _ -> print_endline "BADLINE")

let () = Conv.register "ostypeinfo" run_info
