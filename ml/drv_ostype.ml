(* driver command for property C17: the file-system world model under both OS types,
   with the volume-management calls and caller-supplied system directories.
   case line:   <fs> <os> <umask> <snapmode> [sd=<tok>:<perm>,...] | op | op ...
   ops: those of drv_fs.ml plus  VA <view> <path> | VD <view> <path> | VL <view>
   output line: <result> #<snap> | ...      (snapshot = every volume of a Windows-typed file system) *)
open Conv
open Model

let parse_oop (toks : string list) : ocall =
  match toks with
  | ["VA"; v; p] -> OVolumeAdd (Drv_fs.nat v, str_of_tok p)
  | ["VD"; v; p] -> OVolumeDelete (Drv_fs.nat v, str_of_tok p)
  | ["VL"; v] -> OVolumeList (Drv_fs.nat v)
  | _ -> OCall (Drv_fs.parse_op toks)

let snapshot_text (w : world) : string =
  let b = Buffer.create 256 in
  let classes = ref [] in
  let cls id = match List.assoc_opt id !classes with
    | Some k -> k
    | None -> let k = List.length !classes in classes := (id, k) :: !classes; k in
  List.iter (fun e -> match e with
    | SDir (p, m, u, g) -> Buffer.add_string b (Printf.sprintf "D %s %d %d %d\n" (tok_of_str p) (int_of_n m) (int_of_z u) (int_of_z g))
    | SFile (p, m, u, g, d, k, id) ->
        Buffer.add_string b (Printf.sprintf "F %s %d %d %d %d %d %s\n" (tok_of_str p) (int_of_n m) (int_of_z u) (int_of_z g)
                               (int_of_z k) (cls (int_of_n id)) (tok_of_str d))
    | SSym (p, m, u, g, t) -> Buffer.add_string b (Printf.sprintf "L %s %d %d %d %s\n" (tok_of_str p) (int_of_n m) (int_of_z u) (int_of_z g) (tok_of_str t)))
    (vol_snapshot w O);
  Buffer.contents b

let show_snap mode w = match mode with
  | "none" -> ""
  | "full" -> " #" ^ String.concat ";" (String.split_on_char '\n' (snapshot_text w))
  | _ -> " #" ^ Digest.to_hex (Digest.string (snapshot_text w))

let parse_dirs (s : string) : (str * n) list =
  (* sd=<tok>:<perm>,<tok>:<perm> *)
  let body = String.sub s 3 (String.length s - 3) in
  List.map (fun e -> match String.split_on_char ':' e with
    | [t; p] -> (str_of_tok t, n_of_int (int_of_string p))
    | _ -> failwith "ostype: bad sd= entry")
    (List.filter (fun x -> x <> "") (String.split_on_char ',' body))

let init_world fs os um dirs =
  if fs <> "memfs" then failwith "ostype: unsupported fs";
  let osv = match os with "linux" -> Linux | "windows" -> Windows | _ -> failwith "ostype: unsupported os" in
  match dirs with
  | None -> init_world_os osv (n_of_int um)
  | Some d -> init_world_dirs osv (n_of_int um) d

let show_ores osv (c : ocall) (r : ores) : string =
  match r with
  | ORes r -> (match c with
               | OCall c -> Drv_fs.show_res osv c r
               | _ -> Drv_fs.show_res osv (CGetwd O) r)
  | OVErr e -> Printf.sprintf "E C%d" (int_of_n (vcode e))
  | OVols l -> "VS " ^ String.concat "," (List.map tok_of_str l)

let run () =
  iter_lines (fun line ->
    match split_bar line with
    | hd :: ops ->
        let hdt = split_ws hd in
        (match hdt with
         | fs :: os :: um :: snapmode :: rest ->
             let dirs = match rest with
               | [s] when String.length s >= 3 && String.sub s 0 3 = "sd=" -> Some (parse_dirs s)
               | [] -> None
               | _ -> failwith "ostype: bad header" in
             let w = ref (init_world fs os (int_of_string um) dirs) in
             let osv = if os = "windows" then Windows else Linux in
             let outs = ref [] in
             (try
               List.iter (fun o ->
                 let c = parse_oop (split_ws o) in
                 let (w', r) = ostep !w c in
                 w := w';
                 (match r, c with
                  | ORes (RPanic | RDeadlock), _ ->
                      outs := (show_ores osv c r ^ (if snapmode = "none" then "" else " #-")) :: !outs; raise Exit
                  | ORes (RFail EPermDenied), (OCall (CRemoveAll _) | OVolumeDelete _) ->
                      (* RemoveAll interrupted by a permission failure has removed an unspecified part of the
                         tree (Go map iteration order): the history ends here on both sides *)
                      outs := (show_ores osv c r ^ (if snapmode = "none" then "" else " #?")) :: !outs; raise Exit
                  | _ -> outs := (show_ores osv c r ^ show_snap snapmode w') :: !outs)) ops
             with Exit -> ());
             print_endline (String.concat " | " (List.rev !outs))
         | _ -> print_endline "BADLINE")
    | _ -> print_endline "BADLINE")

let () = Conv.register "ostype" run
