(* driver commands for C14 (WalkDir / Glob / ReadDir / existence helpers).
   case line:   <kind> <check_rest 0|1> <umask> <basepath token or -> | op | op ... | Q <query> | Q <query> ...
     ops are the calls of the fs world stream (drv_fs.ml), executed on the MemFS world model to build the tree;
     queries:  W <root> C | W <root> D|A|E <i>     WalkDir with the policy "always continue" / "SkipDir, SkipAll,
                                                   a custom error at callback invocation i"
               G <pattern>                         Glob
               R <path>                            ReadDir
               H <path>                            Exists, DirExists, IsDir, IsEmpty
   output line: one result per query, separated by " | "
   commands: walkglob     the model of the avfs code on the MemFS model            (variant 0)
             walkglobpin  the model of the code as pinned                          (variant 1)
             walkglobref  the Go 1.23.5 reference algorithms on the Linux specification model (Posix.v) *)
open Conv
open Model

let nat = nat_of_int

let parse_query (t : string list) : query =
  match t with
  | ["Q"; "W"; root; "C"] -> QWalk (str_of_tok root, PolContinue)
  | ["Q"; "W"; root; k; i] ->
      let a = match k with "D" -> 0 | "A" -> 1 | "E" -> 2 | _ -> failwith "walkglob: bad policy" in
      QWalk (str_of_tok root, PolAt (nat (int_of_string i), nat a))
  | ["Q"; "G"; pat] -> QGlob (str_of_tok pat)
  | ["Q"; "R"; p] -> QReadDir (str_of_tok p)
  | ["Q"; "H"; p] -> QHelpers (str_of_tok p)
  | _ -> failwith ("walkglob: bad query " ^ String.concat " " t)

let show_type (m : n) = string_of_int ((int_of_n m) land 2401763328)   (* fs.ModeType *)

let show_visit v =
  let e = match v.vi_err with None -> "1" | Some _ -> "0" in
  match v.vi_ent with
  | None -> Printf.sprintf "%s,-,-,%s" (tok_of_str v.vi_path) e
  | Some d -> Printf.sprintf "%s,%s,%s,%s" (tok_of_str v.vi_path) (tok_of_str d.de_name) (show_type d.de_mode) e

let show_wret r = match r with
  | WrNil -> "nil" | WrSkipDir -> "skipdir" | WrSkipAll -> "skipall" | WrErr _ -> "custom" | WrFuel -> "fuel"

let show_gres g = match g with
  | GOk [] -> "nil"
  | GOk l -> String.concat "," (List.map tok_of_str l)
  | GBad -> "bad"
  | GOutOfFuel -> "fuel"

let show_dent d = Printf.sprintf "%s:%s" (tok_of_str d.de_name) (show_type d.de_mode)

let show_qres (show_e : 'e -> string) (r : 'e qres) : string =
  match r with
  | QRWalk (log, ret) -> "W " ^ String.concat ";" (List.map show_visit log) ^ " => " ^ show_wret ret
  | QRGlob g -> "G " ^ show_gres g
  | QRReadDir (l, e) ->
      "R " ^ String.concat "," (List.map show_dent l) ^ (match e with None -> " nil" | Some e -> " " ^ show_e e)
  | QRHelpers (a, b, c, d) ->
      let sh (x, e) = (if x then "1" else "0") ^ "/" ^
        (match e with None -> "nil" | Some (HPrim e) -> show_e e | Some HNoPath -> "nopath") in
      Printf.sprintf "H %s %s %s %s" (sh a) (sh b) (sh c) (sh d)

let show_mem_err e = Drv_fs.show_code Linux e
let show_px_err (e : n) = Printf.sprintf "L%d" (int_of_n e)

let is_query s = String.length s > 1 && s.[0] = 'Q' && s.[1] = ' '

let run (mode : int) () =
  iter_lines (fun line ->
    match split_bar line with
    | hd :: parts ->
        (match split_ws hd with
         | [_kind; cr; um; bp] ->
             let w = ref (init_world_linux (n_of_int (int_of_string um))) in
             let outs = ref [] in
             let bpo = if bp = "-" then None else Some (str_of_tok bp) in
             List.iter (fun p ->
               if is_query p then begin
                 let q = parse_query (split_ws p) in
                 let s = match mode with
                   | 2 -> show_qres show_px_err (run_query_px !w (nat 2) q)
                   | m -> show_qres show_mem_err (run_query_mem (cr = "1") !w (nat m) bpo q) in
                 outs := s :: !outs
               end else begin
                 let c = Drv_fs.parse_op (split_ws p) in
                 let (w', _) = wstep !w c in
                 w := w'
               end) parts;
             print_endline (String.concat " | " (List.rev !outs))
         | _ -> print_endline "BADLINE")
    | _ -> print_endline "BADLINE")

let () = Conv.register "walkglob" (run 0)
let () = Conv.register "walkglobpin" (run 1)
let () = Conv.register "walkglobref" (run 2)
