(* driver commands for C16 (see driver.ml) *)
open Conv

module Copy = struct
  open Model
  let prim_of s = match s with
    | "SO" -> SrcOpen | "SR" -> SrcRead | "SC" -> SrcClose | "SS" -> SrcStat
    | "DO" -> DstOpen | "DW" -> DstWrite | "DY" -> DstSync | "DM" -> DstChmod | "DC" -> DstClose
    | _ -> failwith ("copy: bad prim " ^ s)
  let show_prim p = match p with
    | SrcOpen -> "SO" | SrcRead -> "SR" | SrcClose -> "SC" | SrcStat -> "SS"
    | DstOpen -> "DO" | DstWrite -> "DW" | DstSync -> "DY" | DstChmod -> "DM" | DstClose -> "DC"
  let content size cseed : str =
    List.init size (fun i -> n_of_int ((i * 131 + cseed * 17 + (i lsr 8)) land 255))
  let md5hex (s : str) = Digest.to_hex (Digest.string (string_of_str s))
  let show_err e = match e with None -> "nil" | Some k -> Printf.sprintf "E%d" (int_of_n k)
  let show_trace tr = String.concat "," (List.map (fun (p, i) -> show_prim p ^ string_of_int (int_of_nat i)) tr)
  let bufsize = nat_of_int 32768
  let run () =
    iter_lines (fun line ->
      match split_bar line with
      | hd :: faults ->
          let faults = List.mapi (fun k f -> match split_ws f with
            | [p; i] -> ((prim_of p, nat_of_int (int_of_string i)), n_of_int (k + 1))
            | _ -> failwith "copy: bad fault") faults in
          (match split_ws hd with
           | ["copy"; _; _; h; size; cseed; smode; dperm] ->
               let c = content (int_of_string size) (int_of_string cseed) in
               let dperm = int_of_string dperm in
               let dst0 = if dperm < 0 then None else Some (str_of_string (String.concat "" (List.init ((int_of_string size + 100) / 12 + 1) (fun _ -> "old-content."))), n_of_int dperm) in
               let r = copy_transcript faults (h = "1") bufsize c (n_of_int (int_of_string smode)) dst0 (n_of_int 0o644) in
               let sum = match r.c_sum with None -> "nil" | Some t -> md5hex t in
               let dst = match r.c_dst with
                 | None -> "absent"
                 | Some (b, p) -> Printf.sprintf "%d:%s:%o" (List.length b) (md5hex b) (int_of_n p) in
               Printf.printf "err=%s sum=%s dst=%s trace=%s\n" (show_err r.c_err) sum dst (show_trace r.c_trace)
           | ["hash"; _; _; _; size; cseed; _; _] ->
               let c = content (int_of_string size) (int_of_string cseed) in
               let ((sum, e), tr) = hash_transcript faults bufsize c in
               let sum = match sum with None -> "nil" | Some t -> md5hex t in
               Printf.printf "err=%s sum=%s trace=%s\n" (show_err e) sum (show_trace tr)
           | _ -> print_endline "BADLINE")
      | _ -> print_endline "BADLINE")
end

let () = Conv.register "copy" Copy.run
