(* Line-protocol driver around the extracted models.
   usage: driver <command> < cases > model-output
   One output line per input line, in the same canonical syntax the Go harness
   uses for what it observed on the implementation.  The commands live in the
   drv_*.ml files, each of which registers itself with Conv.register. *)
let () =
  match Sys.argv with
  | [| _; cmd |] -> Conv.dispatch cmd
  | _ -> prerr_endline "usage: driver <command>"; exit 2
