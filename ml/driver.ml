(* Line-protocol driver around the extracted models.
   usage: driver <command> < cases > model-output
   One output line per input line, in the same canonical syntax the Go harness
   uses for what it observed on the implementation. *)
open Conv

(* ---- C15 MemIdm ------------------------------------------------------ *)
module Idm = struct
  open Model
  let rec parse_ops toks = match toks with
    | [] -> []
    | "AG" :: n :: r -> AddGroup (str_of_tok n) :: parse_ops r
    | "AU" :: n :: g :: r -> AddUser (str_of_tok n, str_of_tok g) :: parse_ops r
    | "DG" :: n :: r -> DelGroup (str_of_tok n) :: parse_ops r
    | "DU" :: n :: r -> DelUser (str_of_tok n) :: parse_ops r
    | "LG" :: n :: r -> LookupGroup (str_of_tok n) :: parse_ops r
    | "LGI" :: i :: r -> LookupGroupId (z_of_int (int_of_string i)) :: parse_ops r
    | "LU" :: n :: r -> LookupUser (str_of_tok n) :: parse_ops r
    | "LUI" :: i :: r -> LookupUserId (z_of_int (int_of_string i)) :: parse_ops r
    | t :: _ -> failwith ("idm: bad op " ^ t)
  let show_res r = match r with
    | RGroup (n, g) -> Printf.sprintf "G %s %d" (tok_of_str n) (int_of_z g)
    | RUser (n, u, g, a) -> Printf.sprintf "U %s %d %d %d" (tok_of_str n) (int_of_z u) (int_of_z g) (if a then 1 else 0)
    | RNil -> "NIL"
    | RErr (AlreadyExistsGroup n) -> "E AEG " ^ tok_of_str n
    | RErr (AlreadyExistsUser n) -> "E AEU " ^ tok_of_str n
    | RErr (UnknownGroup n) -> "E UG " ^ tok_of_str n
    | RErr (UnknownUser n) -> "E UU " ^ tok_of_str n
    | RErr (UnknownGroupId i) -> Printf.sprintf "E UGI %d" (int_of_z i)
    | RErr (UnknownUserId i) -> Printf.sprintf "E UUI %d" (int_of_z i)
  (* line: <an> <gn> | op | op ... ; prints results joined by " | " *)
  let run () =
    iter_lines (fun line ->
      match split_bar line with
      | hd :: ops ->
          (match split_ws hd with
           | [an; gn] ->
               let ops = List.concat_map (fun o -> parse_ops (split_ws o)) ops in
               let (_, outs) = idm_run (idm_init (str_of_tok an) (str_of_tok gn)) ops in
               print_endline (String.concat " | " (List.map show_res outs))
           | _ -> print_endline "BADLINE")
      | _ -> print_endline "BADLINE")
  (* concurrent: <an> <gn> T op... T op... S i i i ... ; prints per-thread results *)
  let run_conc () =
    iter_lines (fun line ->
      match split_ws line with
      | an :: gn :: rest ->
          let rec split_threads acc cur toks = match toks with
            | [] -> (List.rev (List.rev cur :: acc), [])
            | "T" :: r -> split_threads (if cur = [] && acc = [] then acc else List.rev cur :: acc) [] r
            | "S" :: r -> (List.rev (List.rev cur :: acc), r)
            | t :: r -> split_threads acc (t :: cur) r in
          let (ths, sched) = split_threads [] [] rest in
          let threads = List.map (fun toks -> { t_todo = parse_ops toks; t_pend = PNone; t_out = [] }) ths in
          let sched = List.map (fun s -> nat_of_int (int_of_string s)) sched in
          let (_, ths') = crun (idm_init (str_of_tok an) (str_of_tok gn), threads) sched in
          print_endline (String.concat " | " (List.map (fun t ->
            String.concat " ; " (List.map show_res t.t_out)) ths'))
      | _ -> print_endline "BADLINE")
end

(* ---- C16 copy ---------------------------------------------------------- *)
module Copy = struct
  open Model
  let prim_of s = match s with
    | "SO" -> SrcOpen | "SR" -> SrcRead | "SC" -> SrcClose | "SS" -> SrcStat
    | "DO" -> DstOpen | "DW" -> DstWrite | "DY" -> DstSync | "DM" -> DstChmod | "DC" -> DstClose
    | _ -> failwith ("copy: bad prim " ^ s)
  let show_prim p = match p with
    | SrcOpen -> "SO" | SrcRead -> "SR" | SrcClose -> "SC" | SrcStat -> "SS"
    | DstOpen -> "DO" | DstWrite -> "DW" | DstSync -> "DY" | DstChmod -> "DM" | DstClose -> "DC"
  let content size cseed : str =
    List.init size (fun i -> n_of_int ((i * 131 + cseed * 17 + (i lsr 8)) land 255))
  let md5hex (s : str) = Digest.to_hex (Digest.string (string_of_str s))
  let show_err e = match e with None -> "nil" | Some k -> Printf.sprintf "E%d" (int_of_n k)
  let show_trace tr = String.concat "," (List.map (fun (p, i) -> show_prim p ^ string_of_int (int_of_nat i)) tr)
  let bufsize = nat_of_int 32768
  let run () =
    iter_lines (fun line ->
      match split_bar line with
      | hd :: faults ->
          let faults = List.mapi (fun k f -> match split_ws f with
            | [p; i] -> ((prim_of p, nat_of_int (int_of_string i)), n_of_int (k + 1))
            | _ -> failwith "copy: bad fault") faults in
          (match split_ws hd with
           | ["copy"; _; _; h; size; cseed; smode; dperm] ->
               let c = content (int_of_string size) (int_of_string cseed) in
               let dperm = int_of_string dperm in
               let dst0 = if dperm < 0 then None else Some (str_of_string "old-content", n_of_int dperm) in
               let r = copy_transcript faults (h = "1") bufsize c (n_of_int (int_of_string smode)) dst0 (n_of_int 0o644) in
               let sum = match r.c_sum with None -> "nil" | Some t -> md5hex t in
               let dst = match r.c_dst with
                 | None -> "absent"
                 | Some (b, p) -> Printf.sprintf "%d:%s:%o" (List.length b) (md5hex b) (int_of_n p) in
               Printf.printf "err=%s sum=%s dst=%s trace=%s\n" (show_err r.c_err) sum dst (show_trace r.c_trace)
           | ["hash"; _; _; _; size; cseed; _; _] ->
               let c = content (int_of_string size) (int_of_string cseed) in
               let ((sum, e), tr) = hash_transcript faults bufsize c in
               let sum = match sum with None -> "nil" | Some t -> md5hex t in
               Printf.printf "err=%s sum=%s trace=%s\n" (show_err e) sum (show_trace tr)
           | _ -> print_endline "BADLINE")
      | _ -> print_endline "BADLINE")
end

(* ---- C13 paths --------------------------------------------------------- *)
module Path = struct
  open Model
  let os_of s = match s with "linux" -> Linux | "windows" -> Windows | _ -> failwith "bad os"
  let t = tok_of_str
  let b x = if x then "1" else "0"
  let show_rel r = match r with RelOk s -> "ok:" ^ t s | RelErr -> "err" | RelLoop -> "loop"
  let show_match r = match r with MVal true -> "1" | MVal false -> "0" | MBad -> "bad"
  let curdir os = match os with Linux -> str_of_string "/cur/dir" | Windows -> str_of_string "C:\\cur"
  let one os s =
    let (d, f) = split os s in
    Printf.sprintf "clean=%s split=%s,%s dir=%s base=%s isabs=%s from=%s to=%s vol=%s vnl=%d abs=%s"
      (t (clean os s)) (t d) (t f) (t (dir os s)) (t (base os s)) (b (is_abs os s))
      (t (from_slash os s)) (t (to_slash os s)) (t (volume_name os s)) (int_of_nat (volume_name_len os s))
      (t (abs os (curdir os) s))
  let two os a c check_rest =
    Printf.sprintf "join=%s join3=%s rel=%s match=%s"
      (t (join os [a; c])) (t (join os [c; a; c])) (show_rel (rel os a c)) (show_match (path_match os check_rest a c))
  let show_pi p =
    Printf.sprintf "%d:%d:%s:%s:%s:%s" (int_of_nat p.pi_start) (int_of_nat p.pi_end)
      (t (pi_part p)) (t (pi_left p)) (t (pi_right p)) (b (pi_is_last p))
  (* iterate to the end (bounded), returning the shown positions *)
  let rec iter os p fuel acc =
    if fuel = 0 then List.rev ("FUEL" :: acc) else
    let (ok, p') = pi_next os p in
    if ok then iter os p' (fuel - 1) (show_pi p' :: acc) else List.rev acc
  let pi os path np =
    let p0 = pi_new os path in
    let parts = iter os p0 64 [] in
    let n = List.length parts in
    let reps = List.init n (fun k ->
      (* advance k+1 times, then ReplacePart *)
      let rec adv p j = if j = 0 then p else adv (snd (pi_next os p)) (j - 1) in
      let p = adv p0 (k + 1) in
      let (reset, p') = pi_replace_part os p np in
      Printf.sprintf "%s>%s:%d:%d>%s" (b reset) (t p'.pi_path) (int_of_nat p'.pi_start) (int_of_nat p'.pi_end)
        (String.concat "," (iter os p' 64 []))) in
    Printf.sprintf "parts=%s repl=%s" (String.concat "," parts) (String.concat ";" reps)
  let run () =
    iter_lines (fun line ->
      match split_ws line with
      | ["one"; os; s] -> let os = os_of os in let s = str_of_tok s in
          (* second segment: what path/filepath must return (same functions: avfs claims equality) *)
          let r = one os s in
          print_endline (if os = Linux then r ^ " || " ^ r else r)
      | ["two"; os; a; c] -> let os = os_of os in let a = str_of_tok a and c = str_of_tok c in
          print_endline (if os = Linux then two os a c false ^ " || " ^ two os a c false else two os a c false)
      | ["pi"; os; path; np] -> print_endline (pi (os_of os) (str_of_tok path) (str_of_tok np))
      | _ -> print_endline "BADLINE")
end

let () =
  match Sys.argv with
  | [| _; "path" |] -> Path.run ()
  | [| _; "copy" |] -> Copy.run ()
  | [| _; "idm" |] -> Idm.run ()
  | [| _; "idm-conc" |] -> Idm.run_conc ()
  | _ -> prerr_endline "usage: driver <command>"; exit 2
