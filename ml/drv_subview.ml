(* driver command for the Sub-view stream (property C11): the same histories as
   harness/cmd/avfscheck/subview.go runs on MemFS, on the extracted world model.
   case line:   sv <umask> <twin|links> | op | op ...   (views and handles are named by explicit ids:
                "SB v path newid", "OP v path flag perm newhid")
   output line: <result> T=ok I=<id:uid:gid:admin:umask:cwd,...> C=ok F=ok #<digest> | ...
   T (twin run), C (confinement) and F (frame) are checks the harness makes on the implementation; the model's
   line says "ok" for both, so that a failed check shows as a differing line. *)
open Conv
open Model

let show_views (w : world) (order : int list) (vmap : (int, int) Hashtbl.t) : string =
  String.concat "," (List.map (fun id ->
    let v = List.nth w.w_views (Hashtbl.find vmap id) in
    Printf.sprintf "%d:%d:%d:%d:%d:%s" id (int_of_z v.v_user.us_uid) (int_of_z v.v_user.us_gid)
      (if v.v_user.us_admin then 1 else 0) (int_of_n v.v_umask) (tok_of_str v.v_cwd)) order)

let run () =
  iter_lines (fun line ->
    match split_bar line with
    | hd :: ops ->
        (match split_ws hd with
         | ["sv"; um; _mode] ->
             let w = ref (init_world_linux (n_of_int (int_of_string um))) in
             let vmap : (int, int) Hashtbl.t = Hashtbl.create 8 in
             let hmap : (int, int) Hashtbl.t = Hashtbl.create 8 in
             Hashtbl.replace vmap 0 0;
             let order = ref [0] in
             let outs = ref [] in
             let suffix w' = " T=ok I=" ^ show_views w' !order vmap ^ " C=ok F=ok" ^ Drv_fs.show_snap "md5" w' in
             (try
               List.iter (fun o ->
                 let toks = split_ws o in
                 match toks with
                 | kind :: id :: rest ->
                     let is_h = String.length kind > 0 && kind.[0] = 'f' in
                     let tbl = if is_h then hmap else vmap in
                     (match Hashtbl.find_opt tbl (int_of_string id) with
                      | None -> outs := ("BADID" ^ suffix !w) :: !outs
                      | Some ix ->
                          let (rest', newid) =
                            if kind = "SB" || kind = "OP" then
                              (match List.rev rest with
                               | n :: r -> (List.rev r, int_of_string n)
                               | [] -> failwith "subview: missing id")
                            else (rest, -1) in
                          let c = Drv_fs.parse_op (kind :: string_of_int ix :: rest') in
                          let (w', r) = wstep !w c in
                          w := w';
                          (match r with
                           | RPanic | RDeadlock -> outs := (Drv_fs.show_res Linux c r ^ " #-") :: !outs; raise Exit
                           | RFail EPermDenied when (match c with CRemoveAll _ -> true | _ -> false) ->
                               outs := (Drv_fs.show_res Linux c r ^ " #?") :: !outs; raise Exit
                           | RView n ->
                               if Hashtbl.mem vmap newid then (outs := "BADID-DUP #-" :: !outs; raise Exit);
                               Hashtbl.replace vmap newid (int_of_nat n);
                               order := !order @ [newid];
                               outs := (Printf.sprintf "V %d" newid ^ suffix w') :: !outs
                           | RHandle n ->
                               Hashtbl.replace hmap newid (int_of_nat n);
                               outs := (Printf.sprintf "H %d" newid ^ suffix w') :: !outs
                           | _ -> outs := (Drv_fs.show_res Linux c r ^ suffix w') :: !outs))
                 | _ -> failwith ("subview: bad op " ^ o)) ops
             with Exit -> ());
             print_endline (String.concat " | " (List.rev !outs))
         | _ -> print_endline "BADLINE")
    | _ -> print_endline "BADLINE")

let () = Conv.register "subview" run
