(* driver commands for C15 (see driver.ml) *)
open Conv

module Idm = struct
  open Model
  let rec parse_ops toks = match toks with
    | [] -> []
    | "AG" :: n :: r -> AddGroup (str_of_tok n) :: parse_ops r
    | "AU" :: n :: g :: r -> AddUser (str_of_tok n, str_of_tok g) :: parse_ops r
    | "DG" :: n :: r -> DelGroup (str_of_tok n) :: parse_ops r
    | "DU" :: n :: r -> DelUser (str_of_tok n) :: parse_ops r
    | "LG" :: n :: r -> LookupGroup (str_of_tok n) :: parse_ops r
    | "LGI" :: i :: r -> LookupGroupId (z_of_int (int_of_string i)) :: parse_ops r
    | "LU" :: n :: r -> LookupUser (str_of_tok n) :: parse_ops r
    | "LUI" :: i :: r -> LookupUserId (z_of_int (int_of_string i)) :: parse_ops r
    | t :: _ -> failwith ("idm: bad op " ^ t)
  let show_res r = match r with
    | RGroup (n, g) -> Printf.sprintf "G %s %d" (tok_of_str n) (int_of_z g)
    | RUser (n, u, g, a) -> Printf.sprintf "U %s %d %d %d" (tok_of_str n) (int_of_z u) (int_of_z g) (if a then 1 else 0)
    | RNil -> "NIL"
    | RErr (AlreadyExistsGroup n) -> "E AEG " ^ tok_of_str n
    | RErr (AlreadyExistsUser n) -> "E AEU " ^ tok_of_str n
    | RErr (UnknownGroup n) -> "E UG " ^ tok_of_str n
    | RErr (UnknownUser n) -> "E UU " ^ tok_of_str n
    | RErr (UnknownGroupId i) -> Printf.sprintf "E UGI %d" (int_of_z i)
    | RErr (UnknownUserId i) -> Printf.sprintf "E UUI %d" (int_of_z i)
  (* line: <an> <gn> | op | op ... ; prints results joined by " | " *)
  let run () =
    iter_lines (fun line ->
      match split_bar line with
      | hd :: ops ->
          (match split_ws hd with
           | [an; gn] ->
               let ops = List.concat_map (fun o -> parse_ops (split_ws o)) ops in
               let (_, outs) = idm_run (idm_init (str_of_tok an) (str_of_tok gn)) ops in
               print_endline (String.concat " | " (List.map show_res outs))
           | _ -> print_endline "BADLINE")
      | _ -> print_endline "BADLINE")
  (* concurrent: <an> <gn> T op... T op... S i i i ... ; prints per-thread results *)
  let run_conc () =
    iter_lines (fun line ->
      match split_ws line with
      | an :: gn :: rest ->
          let rec split_threads acc cur toks = match toks with
            | [] -> (List.rev (List.rev cur :: acc), [])
            | "T" :: r -> split_threads (if cur = [] && acc = [] then acc else List.rev cur :: acc) [] r
            | "S" :: r -> (List.rev (List.rev cur :: acc), r)
            | t :: r -> split_threads acc (t :: cur) r in
          let (ths, sched) = split_threads [] [] rest in
          let threads = List.map (fun toks -> { t_todo = parse_ops toks; t_pend = PNone; t_out = [] }) ths in
          let sched = List.map (fun s -> nat_of_int (int_of_string s)) sched in
          let (_, ths') = crun (idm_init (str_of_tok an) (str_of_tok gn), threads) sched in
          print_endline (String.concat " | " (List.map (fun t ->
            String.concat " ; " (List.map show_res t.t_out)) ths'))
      | _ -> print_endline "BADLINE")
end

let () = Conv.register "idm" Idm.run; Conv.register "idm-conc" Idm.run_conc
