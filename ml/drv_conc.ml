(* driver command for the concurrent model of C06/C07 (Conc/MemConc.v), see harness/cmd/avfscheck/conc.go *)
open Conv

module Conc = struct
  open Model

  let name_of_string (s : string) : cname = str_of_string s
  let path_of_string (s : string) : cpath =
    List.map name_of_string (List.filter (fun x -> x <> "") (String.split_on_char '/' s))
  let string_of_path (p : cpath) : string =
    String.concat "" (List.map (fun n -> "/" ^ string_of_str n) p)

  (* "0:D[a=1,b=4] 1:D[] 3:F1 7:L/a/f" *)
  let parse_tree (s : string) : cheap =
    let toks = split_ws s in
    let nodes = List.map (fun t ->
      let i = String.index t ':' in
      let id = int_of_string (String.sub t 0 i) in
      let body = String.sub t (i + 1) (String.length t - i - 1) in
      let nd = match body.[0] with
        | 'D' ->
            let inner = String.sub body 2 (String.length body - 3) in
            let ents = List.filter (fun x -> x <> "") (String.split_on_char ',' inner) in
            KDir (List.map (fun e ->
              let j = String.index e '=' in
              (name_of_string (String.sub e 0 j), nat_of_int (int_of_string (String.sub e (j + 1) (String.length e - j - 1))))) ents)
        | 'F' -> KFile (z_of_int (int_of_string (String.sub body 1 (String.length body - 1))))
        | 'L' -> KSym (path_of_string (String.sub body 1 (String.length body - 1)))
        | _ -> failwith ("conc: bad node " ^ t) in
      (id, nd)) toks in
    let n = List.fold_left (fun m (i, _) -> max m (i + 1)) 0 nodes in
    List.init n (fun i -> match List.assoc_opt i nodes with Some nd -> nd | None -> KFile (z_of_int 0))

  let parse_call (s : string) : qcall =
    (* "@<spelling>" tokens: how the path was spelled for the implementation; the machines take the clean path *)
    match List.filter (fun t -> String.length t = 0 || t.[0] <> '@') (split_ws s) with
    | ["mkdir"; p] -> QMkdir (path_of_string p)
    | ["create"; p] -> QCreate (path_of_string p)
    | ["remove"; p] -> QRemove (path_of_string p)
    | ["rename"; o; n] -> QRename (path_of_string o, path_of_string n)
    | ["link"; o; n] -> QLink (path_of_string o, path_of_string n)
    | ["symlink"; t; n] -> QSymlink (path_of_string t, path_of_string n)
    | ["mkdirall"; p] -> QMkdirAll (path_of_string p)
    | ["removeall"; p] -> QRemoveAll (path_of_string p)
    | ["createtemp"; d; pat] -> QCreateTemp (path_of_string d, name_of_string pat)
    | ["mkdirtemp"; d; pat] -> QMkdirTemp (path_of_string d, name_of_string pat)
    | _ -> failwith ("conc: bad call " ^ s)

  let split_on (sep : string) (s : string) : string list =
    List.map String.trim (Str.split_delim (Str.regexp_string sep) s)

  let errno = function
    | XEEXIST -> "L17" | XENOENT -> "L2" | XENOTDIR -> "L20" | XENOTEMPTY -> "L39" | XEINVAL -> "L22"
    | XEPERM -> "L1" | XELOOP -> "L40" | XEFUEL -> "EFUEL" | XERAND -> "ERAND"
  let show_res = function
    | KOk -> "ok" | KErr e -> errno e | KOkName p -> "ok:" ^ string_of_path p
  let show_req (r : req) = (if r.r_write then "W" else "R") ^ string_of_int (int_of_nat r.r_lock)
  let show_hold ((l, w) : hold) = (if w then "W" else "R") ^ string_of_int (int_of_nat l)

  let show_dump (d : (nat * cnode) list) : string =
    String.concat " " (List.map (fun (i, nd) ->
      string_of_int (int_of_nat i) ^ ":" ^
      (match nd with
       | KDir ch -> "D[" ^ String.concat "," (List.map (fun (n, c) -> string_of_str n ^ "=" ^ string_of_int (int_of_nat c)) ch) ^ "]"
       | KFile n -> "F" ^ string_of_int (int_of_z n)
       | KSym t -> "L" ^ string_of_path t)) d)

  let run () =
    iter_lines (fun line ->
      match split_on " | " line with
      | [fs; tree; rnd; prog; sched] when fs = "memfs" ->
          let h = parse_tree tree in
          let rnds = List.map (fun r -> if r = "-" || r = "" then [] else List.map name_of_string (String.split_on_char ',' r)) (split_on " ; " rnd) in
          let progs = List.map (fun th -> List.map parse_call (List.filter (fun x -> x <> "") (split_on " , " th))) (split_on " ; " prog) in
          let sc = List.filter_map (fun x -> if x = "-" then None else Some (nat_of_int (int_of_string x))) (split_ws sched) in
          let c = mc_exec h progs rnds sc in
          let ths = c.c_th in
          let status =
            if mc_finished c then "done"
            else "deadlock " ^ String.concat " " (List.concat (List.mapi (fun i t ->
              match mc_request t.th_ls with
              | Some r -> [Printf.sprintf "t%d:c%d:wants=%s:holds=%s" i (int_of_nat (mc_cur_call t.th_ls)) (show_req r)
                             (String.concat "," (List.map show_hold (mc_holds t.th_ls)))]
              | None -> []) ths)) in
          let results = String.concat " ; " (List.mapi (fun i t ->
            let n = List.length (List.nth progs i) in
            let rs = List.map show_res t.th_ls.l_res in
            let rs = rs @ List.init (max 0 (n - List.length rs)) (fun _ -> "noreturn") in
            String.concat "," rs) ths) in
          let traces = String.concat " ; " (List.mapi (fun i t ->
            let n = List.length (List.nth progs i) in
            String.concat "," (List.init n (fun k ->
              let acqs = List.filter_map (fun (ci, r) -> if int_of_nat ci = k then Some (show_req r) else None) t.th_trace in
              if acqs = [] then "-" else String.concat "." acqs))) ths) in
          print_endline (status ^ " | " ^ results ^ " | " ^ traces ^ " | " ^ show_dump (k_dump c.c_sh))
      | fs :: _ when fs <> "memfs" -> print_endline "unmodelled"
      | _ -> print_endline "BADLINE")
end

let () = Conv.register "conc" Conc.run

(* lockprog: "<fs> | <call>"  ->  the acquire/release sequence of the table of Conc/LockProg.v *)
module LockProgDrv = struct
  open Model
  let show_op = function
    | LAcq (l, w) -> "A" ^ (if w then "W" else "R") ^ string_of_int (int_of_nat l)
    | LRel (l, w) -> "r" ^ (if w then "W" else "R") ^ string_of_int (int_of_nat l)
  let run () =
    iter_lines (fun line ->
      match Conc.split_on " | " line with
      | [fs; call] ->
          let key = fs ^ " " ^ String.concat " " (split_ws call) in
          (match lockprog_lookup (str_of_string key) with
           | Some p -> print_endline (String.concat " " (List.map show_op p))
           | None -> print_endline "not-in-table")
      | _ -> print_endline "BADLINE")
end

let () = Conv.register "lockprog" LockProgDrv.run
