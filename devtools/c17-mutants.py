#!/usr/bin/env python3
"""Mutation trials for property C17: applies each mutant to a scratch worktree of avfs (VERIF_REPO), runs
the pinned test suite of the touched packages and `bin/check C17`, records what caught it, reverts.
usage: VERIF_REPO=/tmp/rw-ostype devtools/c17-mutants.py [name ...]"""
import json, os, subprocess, sys

ROOT = os.path.dirname(os.path.dirname(os.path.abspath(__file__)))
REPO = os.environ["VERIF_REPO"]
ENV = dict(os.environ, GOFLAGS="-mod=mod", GOPROXY="off", GOSUMDB="off", GOTOOLCHAIN="local")

MUTANTS = [
    ("guard-inverted", "ostype.go",
     "if BuildFeatures()&FeatSetOSType == 0 && osType != CurrentOSType() {",
     "if BuildFeatures()&FeatSetOSType != 0 && osType != CurrentOSType() {",
     "the pinned defect again: a foreign type refused exactly when the tag is set"),
    ("link-dir-ok-on-windows", "vfs/memfs/memfs.go",
     "\t\terr := error(avfs.ErrOpNotPermitted)\n\t\tif vfs.OSType() == avfs.OsWindows {\n\t\t\terr = avfs.ErrWinAccessDenied\n\t\t}\n",
     "\t\terr := error(avfs.ErrOpNotPermitted)\n\t\tif vfs.OSType() == avfs.OsWindows {\n\t\t\treturn nil\n\t\t}\n",
     "a Windows branch returns nil where the Linux-typed file system fails (Link of a directory)"),
    ("volumedelete-keeps-entry", "vfs/memfs/memfs_cfg.go",
     "\tdelete(vfs.volumes, vol)\n", "\t_ = vol\n",
     "VolumeDelete forgets to delete the map entry"),
    ("rename-dir-onto-file-windows", "vfs/memfs/memfs.go",
     "\t\tif !vfs.isNotExist(nErr) {\n\t\t\tnErr = vfs.err.NotADirectory\n",
     "\t\tif !vfs.isNotExist(nErr) && vfs.OSType() != avfs.OsWindows {\n\t\t\tnErr = vfs.err.NotADirectory\n",
     "Windows-typed Rename lets a directory replace an existing file"),
    ("table-windows-fileexists-linux", "errors.go",
     "\t\te.FileExists = ErrWinFileExists\n", "\t\te.FileExists = ErrFileExists\n",
     "the Windows branch of Errors.SetOSType uses a LinuxError value"),
    ("windows-dirmode-no-default", "vfs/memfs/memfs_cfg.go",
     "\t\tvfs.dirMode |= avfs.DefaultDirPerm\n", "",
     "NewWithOptions no longer gives Windows directories the default permission bits"),
    ("truncate-negative-ok-on-windows", "vfs/memfs/memfs.go",
     "\tif size < 0 && vfs.OSType() != avfs.OsWindows {",
     "\tif size < 0 && vfs.OSType() == avfs.OsWindows {\n\t\treturn nil\n\t}\n\n\tif size < 0 && vfs.OSType() != avfs.OsWindows {",
     "Truncate with a negative size succeeds on the Windows-typed file system"),
    ("harmless-rename-locals", "ostype.go",
     None, None,
     "harmless refactoring of SetOSType (parameter and local variable renamed): must NOT raise an alarm"),
]


def sh(cmd, cwd=None, env=None, timeout=3000):
    p = subprocess.run(cmd, cwd=cwd, env=env or ENV, shell=isinstance(cmd, str), stdout=subprocess.PIPE, stderr=subprocess.STDOUT, timeout=timeout)
    return p.returncode, p.stdout.decode("utf-8", "replace")


def apply(name, rel, old, new):
    path = os.path.join(REPO, rel)
    src = open(path).read()
    if name == "harmless-rename-locals":
        import re
        i = src.index("func (osf *OSTypeFn) SetOSType(osType OSType) error {")
        j = src.index("\n}\n", i)
        body = src[i:j]
        body = re.sub(r"\bosType\b", "t", body).replace("osf.t = t", "osf.osType = t")
        body = re.sub(r"\bsep\b", "separator", body)
        src = src[:i] + body + src[j:]
    else:
        assert src.count(old) == 1, (name, src.count(old))
        src = src.replace(old, new)
    open(path, "w").write(src)


def main():
    want = sys.argv[1:]
    rep = []
    for (name, rel, old, new, what) in MUTANTS:
        if want and name not in want:
            continue
        sh(["git", "checkout", "--", "."], cwd=REPO)
        apply(name, rel, old, new)
        pk = "./" + os.path.dirname(rel) if os.path.dirname(rel) else "."
        rc_t, out_t = sh("go vet ./... >/dev/null 2>&1; go test -mod=mod -vet=off -count=1 . ./vfs/memfs ./vfs/orefafs 2>&1 | tail -5", cwd=REPO)
        suite_ok = "FAIL" not in out_t
        rc_tt, out_tt = sh("go test -mod=mod -vet=off -count=1 -tags avfs_setostype . ./vfs/memfs ./vfs/orefafs 2>&1 | tail -5", cwd=REPO)
        suite_tag_ok = "FAIL" not in out_tt
        rc, out = sh([os.path.join(ROOT, "bin", "check"), "C17"], cwd=ROOT)
        lines = [l for l in out.splitlines() if l.startswith("VIOLATION") or l.startswith("  ") or l.startswith("C17 ")]
        rep.append({"mutant": name, "what": what, "suite_passes": suite_ok, "suite_passes_with_tag": suite_tag_ok, "check_exit": rc,
                    "check_output": lines[:14]})
        print(json.dumps(rep[-1], indent=1), flush=True)
        sh(["git", "checkout", "--", "."], cwd=REPO)
    json.dump(rep, open(os.path.join(ROOT, "work", "c17-mutants.json"), "w"), indent=1)


if __name__ == "__main__":
    main()
