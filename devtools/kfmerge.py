s=open('/verif/known_findings.jsonl').read()
seen=set(); res=[]
for l in s.split("\n"):
    if l.startswith("<<<<<<<") or l.startswith("=======") or l.startswith(">>>>>>>") or not l.strip(): continue
    if l in seen: continue
    seen.add(l); res.append(l)
open('/verif/known_findings.jsonl','w').write("\n".join(res)+"\n")
