#!/usr/bin/env python3
"""Coordinator's confirmation of a seeded change delivered by a mutant sub-agent in its scratch worktree.
usage: devtools/confirm-mutant.py <worktree> <name> <property> [check-property ...]
  <worktree>/out/<name>/{patch.diff, meta.json, demo...}
Steps (all in the scratch worktree, never in /repo): patch applies on HEAD, builds (with and without the OS-type tag),
pinned suite keeps the stable-pass set, the demonstration FAILS with the patch and PASSES without it, then the quick
check of the property (and of the extra properties given) is run against the patched worktree.
Prints a JSON summary; copies nothing (the coordinator decides what to keep under seeded/)."""
import json, os, re, subprocess, sys

wt, name, prop = sys.argv[1], sys.argv[2], sys.argv[3]
extra = sys.argv[4:]
d = os.path.join(wt, "out", name)
env = dict(os.environ, GOFLAGS="-mod=mod", GOPROXY="off", GOSUMDB="off", GOTOOLCHAIN="local")
ROOT = os.path.dirname(os.path.dirname(os.path.abspath(__file__)))


def sh(cmd, cwd=wt, timeout=3000, e=env):
    try:
        r = subprocess.run(cmd, shell=True, cwd=cwd, env=e, capture_output=True, text=True, timeout=timeout)
        return r.returncode, r.stdout + r.stderr
    except subprocess.TimeoutExpired:
        return 124, "TIMEOUT"


def clean():
    sh("git checkout -q -- . && git clean -fdq -e out")


def suite():
    p = subprocess.run(["go", "test", "-json", "-vet=off", "-count=1", "-timeout", "25m", "./..."], cwd=wt, env=env,
                       stdout=subprocess.PIPE, stderr=subprocess.STDOUT)
    passed = set()
    for line in p.stdout.decode("utf-8", "replace").splitlines():
        try:
            ev = json.loads(line)
        except Exception:
            continue
        if "Test" in ev and ev.get("Action") == "pass":
            passed.add(ev["Package"] + "::" + ev["Test"])
    base = set(json.load(open("/root/.vp/BASELINE.json"))["stable_pass"])
    return sorted(base - passed)


res = {"name": name, "property": prop}
meta = json.load(open(os.path.join(d, "meta.json")))
demo = meta.get("demo", "")
# the demo field is free text: extract "cp out/<name>/<file> <dest>", "-run <Test>", "-tags <tags>" and rebuild the command
mcp = re.search(r"cp\s+(?:\S*/)?out/%s/(\S+)\s+(\S+_test\.go)" % re.escape(name), demo)
mrun = re.search(r"-run\s+'?\"?([\w^$|.]+)", demo)
mtags = re.search(r"-tags[ =](\S+)", demo)
if mcp and mrun:
    dest = mcp.group(2)
    dest = dest[len(wt) + 1:] if dest.startswith(wt + "/") else dest
    demo = "cp out/%s/%s %s && go test %s -vet=off -count=1 -run '%s' ./%s; rc=$?; rm -f %s; exit $rc" % (
        name, mcp.group(1), dest, ("-tags " + mtags.group(1)) if mtags else "", mrun.group(1), os.path.dirname(dest), dest)
res["demo_cmd"] = demo
clean()
rc, out = sh("git apply out/%s/patch.diff" % name)
res["applies"] = rc == 0
if rc != 0:
    print(json.dumps(res, indent=1)); sys.exit(1)
rc1, o1 = sh("go build ./... && go build -tags avfs_setostype ./...")
res["builds"] = rc1 == 0
ONLY = os.environ.get("CONFIRM_ONLY_CHECK") == "1"
missing = (suite() if rc1 == 0 else ["(not run)"]) if not ONLY else []
res["suite_missing"] = missing[:5]
res["suite_ok"] = not missing
# demonstration with the patch
rcd, od = sh(demo, timeout=900) if not ONLY else (1, "")
res["demo_with_patch_fails"] = rcd != 0
res["demo_with_patch_tail"] = od[-300:]
sh("git apply -R out/%s/patch.diff" % name)
rcd2, od2 = sh(demo, timeout=900) if not ONLY else (0, "")
res["demo_without_patch_passes"] = rcd2 == 0
if rcd2 != 0:
    res["demo_without_patch_tail"] = od2[-300:]
clean()
# the checks against the patched worktree
sh("git apply out/%s/patch.diff" % name)
res["checks"] = {}
for p in ([prop] + extra if os.environ.get("CONFIRM_NO_CHECK") != "1" else []):
    e2 = dict(env, VERIF_REPO=wt, VERIF_NO_EVIDENCE="1")
    rc, out = sh("timeout 2400 bin/check %s --tier quick" % p, cwd=ROOT, e=e2, timeout=2500)
    vio = [l for l in out.splitlines() if l.startswith("VIOLATION")]
    det = []
    for l in out.splitlines():
        if l.startswith("  ") and l.strip() not in det:
            det.append(l.strip())
    res["checks"][p] = {"exit": rc, "violations": len(vio), "concrete": len([l for l in vio if "no-failing-input-found" not in l]),
                        "first": det[:2]}
clean()
print(json.dumps(res, indent=1))
