"""Development aid: apply textual edits to /repo, run gofmt/build/baseline, commit as one fix: commit or revert."""
import subprocess, sys
def step(edits, msg):
    for path, old, new in edits:
        s = open('/repo/'+path).read()
        assert s.count(old) == 1, (path, old[:50], s.count(old))
        open('/repo/'+path, 'w').write(s.replace(old, new))
    r = subprocess.run("cd /repo && gofmt -l vfs *.go; go build ./... && /verif/bin/baseline-check | tail -3", shell=True, capture_output=True, text=True)
    print(r.stdout[-400:], r.stderr[-300:])
    if "missing from pass set: 0" in r.stdout:
        subprocess.run(["git", "-C", "/repo", "commit", "-qam", msg], check=True)
        print("COMMITTED", msg.splitlines()[0])
    else:
        subprocess.run("git -C /repo checkout -- .", shell=True)
        print("REVERTED", msg.splitlines()[0])
