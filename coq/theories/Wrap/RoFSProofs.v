(* C09: what a table must satisfy for the wrapper to be a read-only view
   ([rofs_ok], a boolean over the finite method set) and the proof that under
   such a table NO history through the wrapper, through any file it returned or
   any sub file system it returned changes the base's tree. *)
From Avfs Require Import Base Wrapper.

Definition mclass_eqb (a b : mclass) : bool :=
  match a, b with
  | CWrite, CWrite | CRead, CRead | CSession, CSession | CConfig, CConfig => true
  | _, _ => false
  end.

Lemma mclass_eqb_eq a b : mclass_eqb a b = true <-> a = b.
Proof. destruct a, b; cbn; split; congruence. Qed.

Definition is_refuse (k : kind) : bool := match k with KRefuse _ => true | _ => false end.

Definition open_guard_ok (k : kind) : bool :=
  match k with KOpenGuard g _ fflag _ => Z.eqb g O_RDONLY && Z.eqb fflag O_RDONLY | _ => false end.

(* the obligation of one method *)
Definition rofs_check (T : table) (m : meth) : bool :=
  match kind_of T m with
  | KFwd => negb (mclass_eqb (mclass_of m) CWrite) && (match returns_obj m with None => true | Some _ => false end)
  | KFwdWrap => negb (mclass_eqb (mclass_of m) CWrite)
  | KRefuse _ => (mclass_eqb (mclass_of m) CWrite && negb (meth_eqb m (MV V_OpenFile))) || mclass_eqb (mclass_of m) CSession
  | KLocal => mclass_eqb (mclass_of m) CConfig
  | KOpenGuard _ _ _ _ => meth_eqb m (MV V_OpenFile) && open_guard_ok (kind_of T m)
  | KSelfOpenFile fl _ => meth_eqb m (MV V_Open) && Z.eqb fl O_RDONLY && open_guard_ok (kind_of T (MV V_OpenFile))
  | KSelfWrite => meth_eqb m (MF F_WriteString) && is_refuse (kind_of T (MF F_Write))
  | KUnrecognised => meth_eqb m (MV V_SetFeatures) || meth_eqb m (MV V_SetFailFunc)   (* not declared on the type *)
  | KPure | KConsult _ _ _ | KComposite _ => false
  end.

Definition rofs_ok (T : table) : bool := forallb (rofs_check T) all_meth.

Lemma rofs_ok_check T m : rofs_ok T = true -> rofs_check T m = true.
Proof. intros H. unfold rofs_ok in H. rewrite forallb_forall in H. apply H, all_meth_complete. Qed.

(* facts about the classification *)
Lemma bclass_write_mclass m a : bclass m a = CWrite -> mclass_of m = CWrite.
Proof.
  destruct m as [v|f]; [destruct v|destruct f]; cbn; try congruence; auto.
Qed.

Lemma bclass_not_openfile m a : m <> MV V_OpenFile -> bclass m a = mclass_of m.
Proof.
  destruct m as [v|f]; [destruct v|destruct f]; cbn; try congruence; auto.
Qed.

Definition wf_args (m : meth) (a : list arg) : bool :=
  match m with
  | MV V_OpenFile => match a with [AS _; AI _; AI _] => true | _ => false end
  | MV V_Open => match a with [AS _] => true | _ => false end
  | _ => true
  end.

Section RoFS.
  Variables bstate tree : Type.
  Variable base_step : bstate -> nat -> meth -> list arg -> ans * bstate.
  Variable tree_of : bstate -> tree.
  Variable T : table.
  Variable ff : ffun.
  Variable comp_prog : comp -> list arg -> prog.

  (* TRUSTED ASSUMPTION ON THE BASE: calls outside the write class leave the tree
     (names, bytes, modes, owners, times) as it was. *)
  Hypothesis base_nonwrite : forall s b m a,
    bclass m a <> CWrite -> tree_of (snd (base_step s b m a)) = tree_of s.

  Hypothesis T_ok : rofs_ok T = true.

  Notation world := (world bstate).
  Notation forward := (forward base_step).
  Notation run0 := (run0 base_step ff).
  Notation run1 := (run1 base_step T ff).
  Notation call_obj := (call_obj base_step T ff).
  Notation wrap_wstep := (wrap_wstep base_step T ff comp_prog).
  Notation wrun := (wrun base_step T ff comp_prog).

  Definition all_wrapped (os : objs) : Prop := forall id o, In (id, o) os -> wo_wrapped o = true.

  Definition refused (r : wres) : Prop :=
    exists e, a_err (r_ans r) = Some e /\ perm_class e = true.

  Definition reads_as (m : meth) (a : list arg) (m' : meth) (a' : list arg) : Prop :=
    (m' = m /\ a' = a) \/
    (exists n p q, m' = MV V_OpenFile /\ a' = [AS n; AI O_RDONLY; AI q] /\
       ((m = MV V_OpenFile /\ a = [AS n; AI O_RDONLY; AI p]) \/ (m = MV V_Open /\ a = [AS n]))).

  Definition same_answer (r : ans) (bind : nat) (m' : meth) (an : ans) : Prop :=
    a_val r = a_val an /\ a_err r = a_err an /\
    a_obj r = match a_obj an, returns_obj m' with Some _, Some _ => Some bind | _, _ => None end.

  (* the call was answered by exactly one base call - the same method with the same
     arguments (Open / OpenFile: the read-only open of the same name) - and its answer *)
  Definition forwarded (w : world) (o : wobj) (m : meth) (a : list arg) (bind : nat) (r : wres) (w' : world) : Prop :=
    exists m' a', reads_as m a m' a' /\
      same_answer (r_ans r) bind m' (fst (base_step (w_base w) (wo_base o) m' a')) /\
      w_base w' = snd (base_step (w_base w) (wo_base o) m' a').

  Definition step_ok (w : world) (c : ccall) (r : wres) (w' : world) : Prop :=
    tree_of (w_base w') = tree_of (w_base w) /\
    all_wrapped (w_objs w') /\
    r_cons r = [] /\
    (olookup (c_obj c) (w_objs w) = None -> w' = w) /\
    (forall o, olookup (c_obj c) (w_objs w) = Some o -> wf_args (c_meth c) (c_args c) = true ->
       match bclass (c_meth c) (c_args c) with
       | CWrite => refused r /\ w' = w
       | CRead => forwarded w o (c_meth c) (c_args c) (c_bind c) r w'
       | CSession => (refused r /\ w' = w) \/ forwarded w o (c_meth c) (c_args c) (c_bind c) r w'
       | CConfig => True
       end).

  (* ---- forward *)
  Lemma forward_spec wrap (w : world) o m a bind :
    let rw := forward wrap w o m a bind in
    let an := fst (base_step (w_base w) (wo_base o) m a) in
    w_base (snd rw) = snd (base_step (w_base w) (wo_base o) m a) /\
    w_hist (snd rw) = w_hist w /\ r_cons (fst rw) = [] /\
    same_answer (r_ans (fst rw)) bind m an /\
    (w_objs (snd rw) = w_objs w \/
     exists k nb, returns_obj m = Some k /\ w_objs (snd rw) = (bind, mkObj k wrap nb) :: w_objs w).
  Proof.
    unfold forward, same_answer. destruct (base_step (w_base w) (wo_base o) m a) as [an s'] eqn:E. cbn.
    destruct (a_obj an) as [nb|] eqn:Eo; destruct (returns_obj m) as [k|] eqn:Er; cbn;
      repeat split; auto. right. eauto.
  Qed.

  Lemma all_wrapped_cons id o os : wo_wrapped o = true -> all_wrapped os -> all_wrapped ((id, o) :: os).
  Proof. intros H1 H2 i x [E|Hin]; [inversion E; subst; auto | eauto]. Qed.

  Lemma olookup_in id os (o : wobj) : olookup id os = Some o -> In (id, o) os.
  Proof.
    unfold olookup. induction os as [|[i x] os IH]; cbn; [discriminate|].
    destruct (Nat.eqb_spec id i) as [->|Hne]; intros H.
    - inversion H; subst. now left.
    - right. auto.
  Qed.

  Lemma refused_src e : refused (mkRes (ans_err (err_of_src e)) []).
  Proof. exists (err_of_src e). split; [reflexivity|]. destruct e; reflexivity. Qed.

  (* ---- one call on a wrapped object *)
  Lemma run1_ok cb (w : world) o m a bind :
    all_wrapped (w_objs w) ->
    let rw := run1 cb w o m a bind in
    tree_of (w_base (snd rw)) = tree_of (w_base w) /\
    all_wrapped (w_objs (snd rw)) /\
    r_cons (fst rw) = [] /\
    (wf_args m a = true ->
       match bclass m a with
       | CWrite => refused (fst rw) /\ snd rw = w
       | CRead => forwarded w o m a bind (fst rw) (snd rw)
       | CSession => (refused (fst rw) /\ snd rw = w) \/ forwarded w o m a bind (fst rw) (snd rw)
       | CConfig => True
       end).
  Proof.
    intros Hw.
    pose proof (rofs_ok_check T m T_ok) as Hc. unfold rofs_check in Hc.
    (* a verbatim forward of a non-write method *)
    assert (Hfwd : forall wrap, mclass_of m <> CWrite -> (wrap = true \/ returns_obj m = None) ->
      let rw := forward wrap w o m a bind in
      tree_of (w_base (snd rw)) = tree_of (w_base w) /\ all_wrapped (w_objs (snd rw)) /\ r_cons (fst rw) = [] /\
      (wf_args m a = true ->
       match bclass m a with
       | CWrite => refused (fst rw) /\ snd rw = w
       | CRead => forwarded w o m a bind (fst rw) (snd rw)
       | CSession => (refused (fst rw) /\ snd rw = w) \/ forwarded w o m a bind (fst rw) (snd rw)
       | CConfig => True
       end)).
    { intros wrap Hcl Hwr.
      destruct (forward_spec wrap w o m a bind) as (Hb & _ & Hcons & Hans & Hobjs).
      assert (Hnw : bclass m a <> CWrite) by (intros E; apply Hcl; eapply bclass_write_mclass; eauto).
      assert (Hf : forwarded w o m a bind (fst (forward wrap w o m a bind)) (snd (forward wrap w o m a bind))).
      { exists m, a. split; [left; auto|]. split; auto. }
      cbv zeta. split; [rewrite Hb; now apply base_nonwrite|].
      split.
      { destruct Hobjs as [->|(k & nb & Hk & ->)]; auto.
        apply all_wrapped_cons; auto. cbn. destruct Hwr as [->|Hr]; auto. congruence. }
      split; auto. intros _. destruct (bclass m a); auto; congruence. }
    unfold run1. destruct (kind_of T m) as [| |e| | |g e fflag fperm|fl p| |fn flds k'|c|] eqn:Ek; try discriminate.
    - (* KFwd *)
      apply andb_true_iff in Hc as [Hc1 Hc2]. apply negb_true_iff in Hc1.
      cbn [Wrapper.run0]. apply Hfwd.
      + intros E. rewrite E in Hc1. discriminate.
      + right. destruct (returns_obj m); [discriminate Hc2|reflexivity].
    - (* KFwdWrap *)
      apply negb_true_iff in Hc. cbn [Wrapper.run0]. apply Hfwd; auto.
      intros E. rewrite E in Hc. discriminate.
    - (* KRefuse *)
      cbn [Wrapper.run0 fst snd]. split; [|split; [|split]]; auto.
      intros _. apply orb_true_iff in Hc.
      destruct (bclass m a) eqn:Eb; auto.
      + split; [apply refused_src|reflexivity].
      + exfalso. assert (Hm : bclass m a = mclass_of m \/ m = MV V_OpenFile).
        { destruct (meth_eq_dec m (MV V_OpenFile)); [right; auto | left; now apply bclass_not_openfile]. }
        destruct Hm as [Hm| ->].
        * rewrite <- Hm, Eb in Hc. destruct Hc as [Hc|Hc]; [apply andb_true_iff in Hc as [Hc _]|]; discriminate.
        * cbn in Hc. destruct Hc as [Hc|Hc]; discriminate.
      + left. split; [apply refused_src|reflexivity].
    - (* KLocal *)
      cbn [Wrapper.run0 fst snd]. split; [|split; [|split]]; auto. intros _.
      apply mclass_eqb_eq in Hc.
      assert (Hm : bclass m a = CConfig).
      { rewrite bclass_not_openfile; auto. intros ->. cbn in Hc. discriminate. }
      now rewrite Hm.
    - (* KOpenGuard *)
      apply andb_true_iff in Hc as [Hm Hg]. apply meth_eqb_eq in Hm. subst m.
      cbn in Hg. apply andb_true_iff in Hg as [Hg1 Hg2].
      apply Z.eqb_eq in Hg1, Hg2. subst g fflag.
      cbn [Wrapper.run0].
      destruct a as [|[n| |] [|[|fl|] [|[|pp|] [|]]]]; try (cbn; repeat split; auto; discriminate).
      destruct (Z.eqb_spec fl O_RDONLY) as [->|Hne].
      + destruct (forward_spec true w o (MV V_OpenFile) [AS n; AI O_RDONLY; AI fperm] bind) as (Hb & _ & Hcons & Hans & Hobjs).
        split; [rewrite Hb; apply base_nonwrite; cbn; discriminate|].
        split.
        { destruct Hobjs as [->|(k & nb & Hk & ->)]; auto. apply all_wrapped_cons; auto. }
        split; auto. intros _. cbn.
        exists (MV V_OpenFile), [AS n; AI O_RDONLY; AI fperm]. split.
        * right. exists n, pp, fperm. repeat split; auto.
        * split; auto.
      + cbn [fst snd]. repeat split; auto. intros _.
        assert (Eb : bclass (MV V_OpenFile) [AS n; AI fl; AI pp] = CWrite).
        { cbn. destruct (Z.eqb_spec fl O_RDONLY); congruence. }
        rewrite Eb. split; [apply refused_src|reflexivity].
    - (* KSelfOpenFile *)
      apply andb_true_iff in Hc as [Hc Hg]. apply andb_true_iff in Hc as [Hm Hfl].
      apply meth_eqb_eq in Hm. subst m. apply Z.eqb_eq in Hfl. subst fl.
      destruct (kind_of T (MV V_OpenFile)) as [| | | | |g e fflag fperm| | | | |] eqn:Eo; try discriminate.
      cbn in Hg. apply andb_true_iff in Hg as [Hg1 Hg2]. apply Z.eqb_eq in Hg1, Hg2. subst g fflag.
      destruct a as [|[n| |] [|]]; try (cbn; repeat split; auto; discriminate).
      cbn [Wrapper.run0]. rewrite Z.eqb_refl.
      destruct (forward_spec true w o (MV V_OpenFile) [AS n; AI O_RDONLY; AI fperm] bind) as (Hb & _ & Hcons & Hans & Hobjs).
      split; [rewrite Hb; apply base_nonwrite; cbn; discriminate|].
      split.
      { destruct Hobjs as [->|(k & nb & Hk & ->)]; auto. apply all_wrapped_cons; auto. }
      split; auto. intros _. cbn.
      exists (MV V_OpenFile), [AS n; AI O_RDONLY; AI fperm]. split.
      + right. exists n, 0%Z, fperm. repeat split; auto.
      + split; auto.
    - (* KSelfWrite *)
      apply andb_true_iff in Hc as [Hm Hr]. apply meth_eqb_eq in Hm. subst m.
      destruct (kind_of T (MF F_Write)) eqn:Ew; try discriminate.
      cbn [Wrapper.run0 fst snd]. split; [|split; [|split]]; auto. intros _. cbn.
      split; [apply refused_src|reflexivity].
    - (* KUnrecognised: a method the type does not have *)
      cbn [Wrapper.run0 stuck fst snd]. split; [|split; [|split]]; auto. intros _.
      apply orb_true_iff in Hc. destruct Hc as [Hm|Hm]; apply meth_eqb_eq in Hm; subst m; cbn; auto.
  Qed.

  Lemma wstep_ok (w : world) c :
    all_wrapped (w_objs w) ->
    step_ok w c (fst (wrap_wstep w c)) (snd (wrap_wstep w c)).
  Proof.
    intros Hw. unfold wrap_wstep, Wrapper.call_obj, step_ok.
    destruct (olookup (c_obj c) (w_objs w)) as [o|] eqn:Eo.
    - rewrite (Hw _ _ (olookup_in _ _ _ Eo)).
      destruct (run1_ok (comp_cb base_step T ff comp_prog (c_obj c))
                  w o (c_meth c) (c_args c) (c_bind c) Hw) as (H1 & H2 & H3 & H4).
      repeat split; auto; try discriminate.
      intros o' E. inversion E; subst o'. exact H4.
    - cbn. repeat split; auto. discriminate.
  Qed.

  Fixpoint steps_ok (w : world) (cs : list ccall) (rs : list wres) : Prop :=
    match cs, rs with
    | [], [] => True
    | c :: cs', r :: rs' => step_ok w c r (snd (wrap_wstep w c)) /\ steps_ok (snd (wrap_wstep w c)) cs' rs'
    | _, _ => False
    end.

  (* ALL histories: through the wrapper, through every file and every sub file
     system it handed out (every object in the world is a wrapper, and stays so) *)
  Theorem rofs_history : forall cs (w : world),
    all_wrapped (w_objs w) ->
    tree_of (w_base (snd (wrun w cs))) = tree_of (w_base w) /\
    all_wrapped (w_objs (snd (wrun w cs))) /\
    steps_ok w cs (fst (wrun w cs)).
  Proof.
    induction cs as [|c cs IH]; intros w Hw; cbn.
    - auto.
    - pose proof (wstep_ok w c Hw) as Hs.
      destruct (wrap_wstep w c) as [x w1] eqn:E1. cbn [fst snd] in Hs.
      assert (Hw1 : all_wrapped (w_objs w1)) by apply Hs.
      destruct (IH w1 Hw1) as (Ht & Ha & Hrest).
      destruct (wrun w1 cs) as [xs w2] eqn:E2. cbn [fst snd] in *.
      split; [rewrite Ht; apply Hs|]. split; auto.
  Qed.

  (* OpenFile admits exactly flag = O_RDONLY - for every integer flag *)
  Theorem rofs_openflags : forall (w : world) id o n flag perm bind,
    all_wrapped (w_objs w) -> olookup id (w_objs w) = Some o ->
    let rw := wrap_wstep w (mkCall id (MV V_OpenFile) [AS n; AI flag; AI perm] bind) in
    (flag <> O_RDONLY -> refused (fst rw) /\ snd rw = w) /\
    (flag = O_RDONLY -> exists q,
        same_answer (r_ans (fst rw)) bind (MV V_OpenFile)
                    (fst (base_step (w_base w) (wo_base o) (MV V_OpenFile) [AS n; AI O_RDONLY; AI q])) /\
        w_base (snd rw) = snd (base_step (w_base w) (wo_base o) (MV V_OpenFile) [AS n; AI O_RDONLY; AI q])).
  Proof.
    intros w id o n flag perm bind Hw Ho.
    pose proof (wstep_ok w (mkCall id (MV V_OpenFile) [AS n; AI flag; AI perm] bind) Hw) as (_ & _ & _ & _ & H).
    specialize (H o Ho eq_refl). cbn [c_meth c_args c_bind] in H. cbn zeta. split.
    - intros Hne. assert (E : bclass (MV V_OpenFile) [AS n; AI flag; AI perm] = CWrite).
      { cbn. destruct (Z.eqb_spec flag O_RDONLY); congruence. }
      rewrite E in H. exact H.
    - intros ->. cbn in H. destruct H as (m' & a' & Hr & Hs & Hb).
      destruct Hr as [[-> ->]|(n' & p & q & -> & -> & [[_ E]|[E _]])]; try discriminate.
      + exists perm. auto.
      + inversion E; subst. exists q. auto.
  Qed.
End RoFS.
