(* A tiny concrete base used only for the non-vacuity Examples of C09 / C12:
   the "tree" is a counter bumped by every write-class call; object ids are
   handed out from a second counter.  It satisfies the assumption made on
   bases (calls outside the write class leave the tree alone). *)
From Avfs Require Import Base Wrapper.

Record toy := mkToy { toy_tree : nat; toy_next : nat }.

Definition toy_step (s : toy) (b : nat) (m : meth) (a : list arg) : ans * toy :=
  match returns_obj m with
  | Some _ =>
      (mkAns VUnit None (Some (toy_next s)),
       mkToy (match bclass m a with CWrite => S (toy_tree s) | _ => toy_tree s end) (S (toy_next s)))
  | None =>
      (match m with
       | MF F_Read => mkAns (VBytes []) (Some EEOF) None      (* every file is empty *)
       | _ => mkAns (VInt (Z.of_nat (toy_tree s))) None None
       end,
       mkToy (match bclass m a with CWrite => S (toy_tree s) | _ => toy_tree s end) (toy_next s))
  end.

Lemma toy_nonwrite : forall s b m a, bclass m a <> CWrite -> toy_tree (snd (toy_step s b m a)) = toy_tree s.
Proof.
  intros s b m a H. unfold toy_step. destruct (returns_obj m); cbn; destruct (bclass m a); congruence.
Qed.

Definition toy_world0 : world toy := mkWorld (mkToy 0 1) [(0, mkObj OVfs true 0)] [].

Definition no_prog : comp -> list arg -> prog := fun _ _ => PRet (ans_stuck 2).
