(* C12: FailFS is transparent unless told to fail; an injected failure has no effect.
   Generic theorems over an abstract base and an ARBITRARY table / composite
   programs, plus the boolean obligations a table has to meet ([failfs_ok],
   [ro_ok]) that Properties/C12.v discharges on the regenerated table. *)
From Avfs Require Import Base Wrapper RoFSProofs.

(* ------------------------------------------------------------------ *)
(* failfs.ReadOnlyFunc as data: the regenerated case list *)
Definition ro_lookup (cases : list (list fnvfs * rokind)) (default : rokind) (fn : fnvfs) : rokind :=
  match find (fun c => existsb (fnvfs_eqb fn) (fst c)) cases with
  | Some c => snd c
  | None => default
  end.

Definition readonly_func (cases : list (list fnvfs * rokind)) (default : rokind) : ffun :=
  fun _ fn flag =>
    match ro_lookup cases default fn with
    | RoRefuse e => Some (err_of_src e)
    | RoFlagGuard g e =>
        let fl := match flag with Some z => z | None => 0%Z end in   (* an unset FailParam.Flag is 0 *)
        if Z.eqb fl g then None else Some (err_of_src e)
    | RoPass | RoUnrecognised => None
    end.

(* ------------------------------------------------------------------ *)
(* the table obligation *)
Definition expected_fn (m : meth) : option fnvfs :=
  match m with
  | MV V_Abs => Some FnAbs | MV V_Chdir => Some FnChdir | MV V_Chmod => Some FnChmod
  | MV V_Chown => Some FnChown | MV V_Chtimes => Some FnChtimes | MV V_CreateTemp => Some FnCreateTemp
  | MV V_EvalSymlinks => Some FnEvalSymlinks | MV V_Getwd => Some FnGetwd | MV V_Lchown => Some FnLchown
  | MV V_Link => Some FnLink | MV V_Lstat => Some FnLstat | MV V_Mkdir => Some FnMkdir
  | MV V_MkdirAll => Some FnMkdirAll | MV V_MkdirTemp => Some FnMkdirTemp | MV V_OpenFile => Some FnOpenFile
  | MV V_ReadDir => Some FnReadDir | MV V_ReadFile => Some FnReadFile | MV V_Readlink => Some FnReadlink
  | MV V_Remove => Some FnRemove | MV V_RemoveAll => Some FnRemoveAll | MV V_Rename => Some FnRename
  | MV V_SetUser => Some FnSetUser | MV V_SetUserByName => Some FnSetUserByName | MV V_Stat => Some FnStat
  | MV V_Sub => Some FnSub | MV V_Symlink => Some FnSymlink | MV V_Truncate => Some FnTruncate
  | MV V_WalkDir => Some FnWalkDir
  | MF F_Chdir => Some FnFileChdir | MF F_Chmod => Some FnFileChmod | MF F_Chown => Some FnFileChown
  | MF F_Close => Some FnFileClose | MF F_Read => Some FnFileRead | MF F_ReadAt => Some FnFileReadAt
  | MF F_ReadDir => Some FnFileReadDir | MF F_Readdirnames => Some FnFileReaddirnames
  | MF F_Seek => Some FnFileSeek | MF F_Stat => Some FnFileStat | MF F_Sync => Some FnFileSync
  | MF F_Truncate => Some FnFileTruncate | MF F_Write => Some FnFileWrite | MF F_WriteAt => Some FnFileWriteAt
  | _ => None
  end.

Definition comp_of (m : meth) : option comp :=
  match m with
  | MV V_Create => Some CCreate | MV V_WriteFile => Some CWriteFile | MV V_ReadFile => Some CReadFile
  | MV V_ReadDir => Some CReadDir | MV V_Glob => Some CGlob | MV V_MkdirTemp => Some CMkdirTemp
  | _ => None
  end.

Definition comp_eqb (a b : comp) : bool :=
  match a, b with
  | CCreate, CCreate | CWriteFile, CWriteFile | CReadFile, CReadFile | CReadDir, CReadDir
  | CGlob, CGlob | CMkdirTemp, CMkdirTemp => true
  | _, _ => false
  end.

(* what must remain of a method once the consultation is taken away: the identity wrapper *)
Definition ident_kind_ok (m : meth) (k : kind) : bool :=
  match m with
  | MV V_Open => match k with KSelfOpenFile fl p => Z.eqb fl O_RDONLY && Z.eqb p 0 | _ => false end
  | MF F_WriteString => match k with KSelfWrite => true | _ => false end
  | _ =>
    match comp_of m with
    | Some c => match k with KComposite c' => comp_eqb c c' | _ => false end
    | None =>
      match mclass_of m with
      | CConfig => match k with KFwd | KLocal | KPure => true
                              | KUnrecognised => meth_eqb m (MV V_SetFailFunc) || meth_eqb m (MV V_SetFeatures)
                              | _ => false end
      | _ => match returns_obj m with
             | Some _ => match k with KFwdWrap => true | _ => false end
             | None => match k with KFwd | KPure => true | _ => false end
             end
      end
    end
  end.

Definition failfs_check (T : table) (m : meth) : bool :=
  match expected_fn m, kind_of T m with
  | Some fn, KConsult fn' flag k' =>
      fnvfs_eqb fn fn'
      && (match m with MV V_OpenFile => match flag with Some 1 => true | _ => false end | _ => true end)
      && ident_kind_ok m k'
  | Some _, _ => false
  | None, k => ident_kind_ok m k
  end.

Definition failfs_ok (T : table) : bool := forallb (failfs_check T) all_meth.

Lemma failfs_ok_check T m : failfs_ok T = true -> failfs_check T m = true.
Proof. intros H. unfold failfs_ok in H. rewrite forallb_forall in H. apply H, all_meth_complete. Qed.

(* the ids some method consults *)
Fixpoint consults_of (k : kind) : list fnvfs :=
  match k with KConsult fn _ k' => fn :: consults_of k' | _ => [] end.
Definition consulted_ids (T : table) : list fnvfs := flat_map (fun p => consults_of (snd p)) T.

(* ------------------------------------------------------------------ *)
(* taking the consultation away *)
Fixpoint strip (k : kind) : kind := match k with KConsult _ _ k' => strip k' | _ => k end.
Definition strip_table (T : table) : table := map (fun p => (fst p, strip (snd p))) T.

Lemma kind_of_strip T m : kind_of (strip_table T) m = strip (kind_of T m).
Proof.
  unfold kind_of, strip_table. induction T as [|[m' k] T IH]; cbn; [reflexivity|].
  destruct (meth_eqb m m'); auto.
Qed.

(* read-only safety of a kind, for method m, under the failure function ro *)
Section RoSafe.
  Variable cases : list (list fnvfs * rokind).
  Variable default : rokind.

  Fixpoint ro_safe0 (m : meth) (k : kind) : bool :=
    match k with
    | KFwd | KPure => negb (mclass_eqb (mclass_of m) CWrite) && (match returns_obj m with None => true | _ => false end)
    | KFwdWrap => negb (mclass_eqb (mclass_of m) CWrite)
    | KRefuse _ | KLocal | KComposite _ | KSelfOpenFile _ _ | KSelfWrite | KUnrecognised => true
    | KOpenGuard g _ fflag _ => Z.eqb fflag O_RDONLY
    | KConsult fn flag k' =>
        match ro_lookup cases default fn with
        | RoRefuse _ => true
        | RoFlagGuard g _ =>
            Z.eqb g O_RDONLY && meth_eqb m (MV V_OpenFile)
            && (match flag with Some 1 => true | _ => false end)
            && (match k' with KFwdWrap => true | _ => false end)
        | RoPass | RoUnrecognised => ro_safe0 m k'
        end
    end.

  Definition ro_safe (T : table) (m : meth) : bool :=
    match kind_of T m with
    | KSelfOpenFile fl _ => ro_safe0 (MV V_OpenFile) (kind_of T (MV V_OpenFile))
    | KSelfWrite => ro_safe0 (MF F_Write) (kind_of T (MF F_Write))
    | k => ro_safe0 m k
    end.

  Definition ro_ok (T : table) : bool := forallb (ro_safe T) all_meth.
End RoSafe.

Definition simple (k : kind) : bool :=
  match k with KSelfOpenFile _ _ | KSelfWrite | KConsult _ _ _ => false | _ => true end.

Lemma consulted_simple m k' : expected_fn m <> None -> ident_kind_ok m k' = true -> simple k' = true.
Proof.
  destruct m as [v|f]; [destruct v|destruct f]; cbn; intros H1 H2; try congruence;
    destruct k'; cbn in *; congruence.
Qed.

Lemma strip_simple k : simple k = true -> strip k = k.
Proof. destruct k; cbn; congruence. Qed.

(* ================================================================== *)
Section FailFS.
  Variables bstate tree : Type.
  Variable base_step : bstate -> nat -> meth -> list arg -> ans * bstate.
  Variable tree_of : bstate -> tree.
  Variable T : table.
  Variable comp_prog : comp -> list arg -> prog.

  Notation world := (world bstate).
  Notation forward := (forward base_step).

  Definition same_bo (w1 w2 : world) : Prop := w_base w1 = w_base w2 /\ w_objs w1 = w_objs w2.
  Definition same_res (x y : wres * world) : Prop := r_ans (fst x) = r_ans (fst y) /\ same_bo (snd x) (snd y).

  Lemma same_bo_refl w : same_bo w w. Proof. split; reflexivity. Qed.
  Lemma same_bo_push fn w1 w2 : same_bo w1 w2 -> same_bo (push_hist fn w1) w2.
  Proof. intros [H1 H2]; split; auto. Qed.

  Lemma forward_same wrap (w1 w2 : world) o m a bind :
    same_bo w1 w2 -> same_res (forward wrap w1 o m a bind) (forward wrap w2 o m a bind).
  Proof.
    intros [Hb Ho]. unfold Wrapper.forward. rewrite Hb, Ho.
    destruct (base_step (w_base w2) (wo_base o) m a) as [an s'].
    destruct (a_obj an); destruct (returns_obj m); cbn; repeat split; auto.
  Qed.

  (* ---- C12_transparent, part 1: consulting a function that never fails is a no-op ---- *)
  Definition cb_same (cb1 cb2 : comp -> world -> list arg -> nat -> wres * world) : Prop :=
    forall c w1 w2 a bind, same_bo w1 w2 -> same_res (cb1 c w1 a bind) (cb2 c w2 a bind).

  Lemma run0_strip cb1 cb2 k : cb_same cb1 cb2 -> forall (w1 w2 : world) o m a bind,
    same_bo w1 w2 ->
    same_res (run0 base_step ok_func cb1 k w1 o m a bind) (run0 base_step ok_func cb2 (strip k) w2 o m a bind).
  Proof.
    intros Hcb. induction k as [| |e| | |g e fflag fperm|fl p| |fn flag k' IH|c|]; intros w1 w2 o m a bind Hs;
      cbn [Wrapper.run0 strip]; try (apply forward_same; assumption);
      try (split; [reflexivity|exact Hs]).
    - destruct a as [|[n| |] [|[|fl|] [|[|pp|] [|]]]]; try (split; [reflexivity|exact Hs]).
      destruct (Z.eqb fl g); [apply forward_same; assumption|split; [reflexivity|exact Hs]].
    - unfold ok_func. unfold add_cons.
      destruct (IH (push_hist fn w1) w2 o m a bind (same_bo_push fn w1 w2 Hs)) as [H1 H2].
      split; cbn [fst snd r_ans]; auto.
    - apply Hcb; assumption.
  Qed.

  Hypothesis T_ok : failfs_ok T = true.

  Lemma run1_strip cb1 cb2 : cb_same cb1 cb2 -> forall (w1 w2 : world) o m a bind,
    same_bo w1 w2 ->
    same_res (run1 base_step T ok_func cb1 w1 o m a bind)
             (run1 base_step (strip_table T) ok_func cb2 w2 o m a bind).
  Proof.
    intros Hcb w1 w2 o m a bind Hs. unfold Wrapper.run1. rewrite !kind_of_strip.
    pose proof (failfs_ok_check T m T_ok) as Hc. unfold failfs_check in Hc.
    destruct (kind_of T m) as [| |e| | |g e fflag fperm|fl p| |fn flag k'|c|] eqn:Ek;
      cbn [strip];
      try (match goal with |- same_res (run0 _ _ _ ?k _ _ _ _ _) _ => apply (run0_strip cb1 cb2 k Hcb) end; assumption).
    - (* KSelfOpenFile *)
      destruct a as [|[n| |] [|]]; try (split; [reflexivity|exact Hs]).
      apply (run0_strip cb1 cb2 (kind_of T (MV V_OpenFile)) Hcb); assumption.
    - (* KConsult: what remains is neither a Self kind nor another consultation *)
      destruct (expected_fn m) as [fn0|] eqn:Ee.
      + apply andb_true_iff in Hc as [_ Hk].
        assert (Hsim : simple k' = true).
        { apply (consulted_simple m k'); [rewrite Ee; discriminate|exact Hk]. }
        pose proof (run0_strip cb1 cb2 (KConsult fn flag k') Hcb w1 w2 o m a bind Hs) as H.
        cbn [strip] in H. rewrite (strip_simple _ Hsim) in H |- *.
        destruct k'; try discriminate Hsim; exact H.
      + destruct m as [v|f]; [destruct v|destruct f]; cbn in Ee; try discriminate; cbn in Hc; discriminate.
  Qed.

  Lemma call_obj_strip cb1 cb2 : cb_same cb1 cb2 -> forall (w1 w2 : world) id m a bind,
    same_bo w1 w2 ->
    same_res (call_obj base_step T ok_func cb1 w1 id m a bind)
             (call_obj base_step (strip_table T) ok_func cb2 w2 id m a bind).
  Proof.
    intros Hcb w1 w2 id m a bind Hs. unfold Wrapper.call_obj. destruct Hs as [Hb Ho]. rewrite Ho.
    destruct (olookup id (w_objs w2)) as [o|]; [|split; [reflexivity|split; assumption]].
    destruct (wo_wrapped o).
    - apply run1_strip; [assumption|split; assumption].
    - apply forward_same; split; assumption.
  Qed.

  Lemma no_comp_same : cb_same (@no_comp bstate) (@no_comp bstate).
  Proof. intros c w1 w2 a bind Hs. split; [reflexivity|exact Hs]. Qed.

  Lemma run_prog_strip p : forall (w1 w2 : world) self bind acc1 acc2,
    same_bo w1 w2 ->
    same_res (run_prog base_step T ok_func p w1 self bind acc1)
             (run_prog base_step (strip_table T) ok_func p w2 self bind acc2).
  Proof.
    unfold Wrapper.run_prog.
    induction p as [an|osel m a result k IH]; intros w1 w2 self bind acc1 acc2 Hs; cbn [run_prog_with].
    - split; [reflexivity|exact Hs].
    - assert (Hf : fresh (w_objs w1) = fresh (w_objs w2)) by (destruct Hs as [_ ->]; reflexivity).
      rewrite Hf.
      pose proof (call_obj_strip _ _ no_comp_same w1 w2
                    (match osel with None => self | Some i => i end) m a
                    (if result then bind else fresh (w_objs w2)) Hs) as [Ha Hw].
      destruct (call_obj base_step T ok_func (@no_comp bstate) w1 _ m a _) as [r1 w1'].
      destruct (call_obj base_step (strip_table T) ok_func (@no_comp bstate) w2 _ m a _) as [r2 w2'].
      cbn [fst snd] in Ha, Hw. rewrite Ha. apply IH. exact Hw.
  Qed.

  Lemma wstep_strip (w1 w2 : world) c :
    same_bo w1 w2 ->
    same_res (wrap_wstep base_step T ok_func comp_prog w1 c) (wrap_wstep base_step (strip_table T) ok_func comp_prog w2 c).
  Proof.
    intros Hs. unfold Wrapper.wrap_wstep. apply call_obj_strip; [|exact Hs].
    intros cp w1' w2' a bind Hs'. unfold comp_cb.
    pose proof (run_prog_strip (comp_prog cp a) w1' w2' (c_obj c) bind [] [] Hs') as [Ha [Hb Ho]].
    destruct Hs' as [_ Ho'].
    split; cbn [fst snd]; [exact Ha|]. split; cbn [w_base w_objs]; [exact Hb|].
    unfold prune. rewrite Ha, Ho, Ho'. reflexivity.
  Qed.

  (* ALL histories, including the files and sub file systems handed out: with a failure
     function that never fails the answers and the base's state are those of the same
     table with every consultation removed *)
  Theorem failfs_transparent : forall cs (w1 w2 : world),
    same_bo w1 w2 ->
    map (fun r => r_ans r) (fst (wrun base_step T ok_func comp_prog w1 cs)) =
    map (fun r => r_ans r) (fst (wrun base_step (strip_table T) ok_func comp_prog w2 cs)) /\
    same_bo (snd (wrun base_step T ok_func comp_prog w1 cs))
            (snd (wrun base_step (strip_table T) ok_func comp_prog w2 cs)).
  Proof.
    induction cs as [|c cs IH]; intros w1 w2 Hs; cbn [Wrapper.wrun].
    - split; [reflexivity|exact Hs].
    - pose proof (wstep_strip w1 w2 c Hs) as [Ha Hw].
      destruct (wrap_wstep base_step T ok_func comp_prog w1 c) as [x1 w1'].
      destruct (wrap_wstep base_step (strip_table T) ok_func comp_prog w2 c) as [x2 w2'].
      cbn [fst snd] in Ha, Hw. destruct (IH w1' w2' Hw) as [Hr Hf].
      destruct (wrun base_step T ok_func comp_prog w1' cs) as [xs1 w1''].
      destruct (wrun base_step (strip_table T) ok_func comp_prog w2' cs) as [xs2 w2''].
      cbn [fst snd map] in *. split; [rewrite Ha, Hr; reflexivity|exact Hf].
  Qed.
End FailFS.

(* ------------------------------------------------------------------ *)
(* C12_inject: for EVERY failure function *)
Section Inject.
  Variable bstate : Type.
  Variable base_step : bstate -> nat -> meth -> list arg -> ans * bstate.
  Variable T : table.
  Variable ff : ffun.
  Variable comp_prog : comp -> list arg -> prog.

  (* the method run1 actually interprets (Open is OpenFile, WriteString is Write) *)
  Definition target (m : meth) (a : list arg) : option (meth * list arg) :=
    match kind_of T m with
    | KSelfOpenFile fl p => match a with [AS n] => Some (MV V_OpenFile, [AS n; AI fl; AI p]) | _ => None end
    | KSelfWrite => Some (MF F_Write, a)
    | _ => Some (m, a)
    end.

  (* a consulted call whose consultation fails returns exactly that error, consults
     nothing else, and leaves base state and object table as they were *)
  Theorem failfs_inject : forall (w : world bstate) id o m a bind m' a' fn flag k e,
    olookup id (w_objs w) = Some o -> wo_wrapped o = true ->
    target m a = Some (m', a') -> kind_of T m' = KConsult fn flag k ->
    ff (w_hist w) fn (mk_flag flag a') = Some e ->
    wrap_wstep base_step T ff comp_prog w (mkCall id m a bind) = (mkRes (ans_err e) [(fn, true)], push_hist fn w).
  Proof.
    intros w id o m a bind m' a' fn flag k e Ho Hw Ht Hk Hf.
    unfold Wrapper.wrap_wstep, Wrapper.call_obj. cbn [c_obj c_meth c_args c_bind]. rewrite Ho, Hw.
    unfold Wrapper.run1. unfold target in Ht.
    destruct (kind_of T m) eqn:Ek; try (inversion Ht; subst m' a'; rewrite Ek in Hk; discriminate).
    - destruct a as [|[n| |] [|]]; try discriminate. inversion Ht; subst m' a'.
      rewrite Hk. cbn [Wrapper.run0]. rewrite Hf. reflexivity.
    - inversion Ht; subst m' a'. rewrite Hk. cbn [Wrapper.run0]. rewrite Hf. reflexivity.
    - inversion Ht; subst m' a'. rewrite Ek in Hk. inversion Hk; subst.
      cbn [Wrapper.run0]. rewrite Hf. reflexivity.
  Qed.

  (* ... and when the consultation lets it through, a forwarding method behaves as on the base *)
  Theorem failfs_pass : forall (w : world bstate) id o m a bind m' a' fn flag k,
    olookup id (w_objs w) = Some o -> wo_wrapped o = true ->
    target m a = Some (m', a') -> kind_of T m' = KConsult fn flag k ->
    (k = KFwd \/ k = KFwdWrap \/ k = KPure) ->
    ff (w_hist w) fn (mk_flag flag a') = None ->
    wrap_wstep base_step T ff comp_prog w (mkCall id m a bind) =
    add_cons (fn, false) (forward base_step (match k with KFwdWrap => true | _ => false end) (push_hist fn w) o m' a' bind).
  Proof.
    intros w id o m a bind m' a' fn flag k Ho Hw Ht Hk Hkk Hf.
    unfold Wrapper.wrap_wstep, Wrapper.call_obj. cbn [c_obj c_meth c_args c_bind]. rewrite Ho, Hw.
    unfold Wrapper.run1. unfold target in Ht.
    destruct (kind_of T m) eqn:Ek; try (inversion Ht; subst m' a'; rewrite Ek in Hk; discriminate).
    - destruct a as [|[n| |] [|]]; try discriminate. inversion Ht; subst m' a'.
      rewrite Hk. cbn [Wrapper.run0]. rewrite Hf. destruct Hkk as [->|[->| ->]]; reflexivity.
    - inversion Ht; subst m' a'. rewrite Hk. cbn [Wrapper.run0]. rewrite Hf.
      destruct Hkk as [->|[->| ->]]; reflexivity.
    - inversion Ht; subst m' a'. rewrite Ek in Hk. inversion Hk; subst.
      cbn [Wrapper.run0]. rewrite Hf. destruct Hkk as [->|[->| ->]]; reflexivity.
  Qed.
End Inject.

(* ------------------------------------------------------------------ *)
(* C12_readonly: with ReadOnlyFunc's case list the base's tree cannot change *)
Section ReadOnly.
  Variables bstate tree : Type.
  Variable base_step : bstate -> nat -> meth -> list arg -> ans * bstate.
  Variable tree_of : bstate -> tree.
  Variable T : table.
  Variable comp_prog : comp -> list arg -> prog.
  Variable cases : list (list fnvfs * rokind).
  Variable default : rokind.

  Hypothesis base_nonwrite : forall s b m a,
    bclass m a <> CWrite -> tree_of (snd (base_step s b m a)) = tree_of s.
  Hypothesis T_ro : ro_ok cases default T = true.

  Notation world := (world bstate).
  Notation ff := (readonly_func cases default).

  Definition keeps (w : world) (rw : wres * world) : Prop :=
    tree_of (w_base (snd rw)) = tree_of (w_base w) /\ all_wrapped (w_objs (snd rw)).

  Lemma forward_keeps wrap (w : world) o m a bind :
    all_wrapped (w_objs w) -> bclass m a <> CWrite -> (wrap = true \/ returns_obj m = None) ->
    keeps w (forward base_step wrap w o m a bind).
  Proof.
    intros Hw Hc Hr. unfold keeps, forward.
    pose proof (base_nonwrite (w_base w) (wo_base o) m a Hc) as Ht.
    destruct (base_step (w_base w) (wo_base o) m a) as [an s']. cbn [snd] in Ht.
    destruct (a_obj an) as [nb|]; destruct (returns_obj m) as [k|] eqn:Er; cbn [snd w_base w_objs]; split; auto.
    apply all_wrapped_cons; auto. cbn. destruct Hr as [->|Hr]; [reflexivity|discriminate].
  Qed.

  Lemma keeps_push fn (w : world) rw : keeps (push_hist fn w) rw -> keeps w rw.
  Proof. exact (fun H => H). Qed.

  Definition cb_keeps (cb : comp -> world -> list arg -> nat -> wres * world) : Prop :=
    forall c (w : world) a bind, all_wrapped (w_objs w) -> keeps w (cb c w a bind).

  Lemma notwrite_class m a : mclass_eqb (mclass_of m) CWrite = false -> bclass m a <> CWrite.
  Proof.
    intros H E. apply bclass_write_mclass in E. rewrite E in H. discriminate.
  Qed.

  Lemma run0_ro cb k : cb_keeps cb -> forall (w : world) o m a bind,
    ro_safe0 cases default m k = true -> all_wrapped (w_objs w) ->
    keeps w (run0 base_step ff cb k w o m a bind).
  Proof.
    intros Hcb. induction k as [| |e| | |g e fflag fperm|fl p| |fn flag k' IH|c|]; intros w o m a bind Hs Hw;
      cbn [Wrapper.run0]; cbn [ro_safe0] in Hs;
      try (split; [reflexivity|exact Hw]).
    - apply andb_true_iff in Hs as [H1 H2]. apply negb_true_iff in H1.
      apply forward_keeps; auto. { now apply notwrite_class. }
      right. destruct (returns_obj m); [discriminate|reflexivity].
    - apply negb_true_iff in Hs. apply forward_keeps; auto. now apply notwrite_class.
    - apply andb_true_iff in Hs as [H1 H2]. apply negb_true_iff in H1.
      apply forward_keeps; auto. { now apply notwrite_class. }
      right. destruct (returns_obj m); [discriminate|reflexivity].
    - apply Z.eqb_eq in Hs. subst fflag.
      destruct a as [|[n| |] [|[|fl|] [|[|pp|] [|]]]]; try (split; [reflexivity|exact Hw]).
      destruct (Z.eqb fl g); [|split; [reflexivity|exact Hw]].
      apply forward_keeps; auto. cbn. discriminate.
    - unfold readonly_func at 1.
      destruct (ro_lookup cases default fn) as [e|g e| |] eqn:El.
      + split; [reflexivity|exact Hw].
      + apply andb_true_iff in Hs as [Hs Hk]. apply andb_true_iff in Hs as [Hs Hf].
        apply andb_true_iff in Hs as [Hg Hm]. apply Z.eqb_eq in Hg. apply meth_eqb_eq in Hm. subst g m.
        destruct flag as [[|[|?]]|]; try discriminate. destruct k'; try discriminate.
        destruct (Z.eqb (match mk_flag (Some 1) a with Some z => z | None => 0%Z end) O_RDONLY) eqn:Ez.
        * unfold add_cons. cbn [Wrapper.run0 fst snd].
          pose proof (forward_keeps true (push_hist fn w) o (MV V_OpenFile) a bind Hw) as Hk'.
          apply Hk'; [|left; reflexivity].
          cbn [bclass]. cbn [mk_flag] in Ez.
          destruct (nth_error a 1) as [[s|z|]|]; try discriminate.
          apply Z.eqb_eq in Ez. subst z. cbn. discriminate.
        * split; [reflexivity|exact Hw].
      + unfold add_cons. cbn [fst snd]. apply (IH (push_hist fn w) o m a bind Hs Hw).
      + unfold add_cons. cbn [fst snd]. apply (IH (push_hist fn w) o m a bind Hs Hw).
    - apply Hcb. exact Hw.
  Qed.

  Lemma ro_safe_check m : ro_safe cases default T m = true.
  Proof. unfold ro_ok in T_ro. rewrite forallb_forall in T_ro. apply T_ro, all_meth_complete. Qed.

  Lemma run1_ro cb : cb_keeps cb -> forall (w : world) o m a bind,
    all_wrapped (w_objs w) -> keeps w (run1 base_step T ff cb w o m a bind).
  Proof.
    intros Hcb w o m a bind Hw. unfold Wrapper.run1.
    pose proof (ro_safe_check m) as Hs. unfold ro_safe in Hs.
    destruct (kind_of T m) eqn:Ek; try (apply run0_ro; assumption).
    - destruct a as [|[n| |] [|]]; try (split; [reflexivity|exact Hw]).
      apply run0_ro; assumption.
  Qed.

  Lemma call_obj_ro cb : cb_keeps cb -> forall (w : world) id m a bind,
    all_wrapped (w_objs w) -> keeps w (call_obj base_step T ff cb w id m a bind).
  Proof.
    intros Hcb w id m a bind Hw. unfold Wrapper.call_obj.
    destruct (olookup id (w_objs w)) as [o|] eqn:Eo; [|split; [reflexivity|exact Hw]].
    rewrite (Hw _ _ (olookup_in _ _ _ Eo)). apply run1_ro; assumption.
  Qed.

  Lemma no_comp_keeps : cb_keeps (@no_comp bstate).
  Proof. intros c w a bind Hw. split; [reflexivity|exact Hw]. Qed.

  Lemma run_prog_ro p : forall (w : world) self bind acc,
    all_wrapped (w_objs w) -> keeps w (run_prog base_step T ff p w self bind acc).
  Proof.
    unfold Wrapper.run_prog.
    induction p as [an|osel m a result k IH]; intros w self bind acc Hw; cbn [run_prog_with].
    - split; [reflexivity|exact Hw].
    - pose proof (call_obj_ro _ no_comp_keeps w (match osel with None => self | Some i => i end) m a
                    (if result then bind else fresh (w_objs w)) Hw) as [Ht Ha].
      destruct (call_obj base_step T ff (@no_comp bstate) w _ m a _) as [r w'].
      cbn [fst snd] in Ht, Ha.
      destruct (IH (r_ans r) w' self bind (acc ++ r_cons r) Ha) as [Ht' Ha'].
      split; [rewrite Ht'; exact Ht|exact Ha'].
  Qed.

  Lemma wstep_ro (w : world) c :
    all_wrapped (w_objs w) -> keeps w (wrap_wstep base_step T ff comp_prog w c).
  Proof.
    intros Hw. unfold Wrapper.wrap_wstep. apply call_obj_ro; [|exact Hw].
    intros cp w' a bind Hw'. unfold comp_cb.
    destruct (run_prog_ro (comp_prog cp a) w' (c_obj c) bind [] Hw') as [Ht Ha].
    split; cbn [fst snd w_base w_objs]; [exact Ht|].
    intros id o Hin. unfold prune in Hin. apply filter_In in Hin as [Hin _]. eapply Ha; eauto.
  Qed.

  (* ALL histories under the read-only failure function, closure over handed-out objects *)
  Theorem failfs_readonly : forall cs (w : world),
    all_wrapped (w_objs w) ->
    tree_of (w_base (snd (wrun base_step T ff comp_prog w cs))) = tree_of (w_base w) /\
    all_wrapped (w_objs (snd (wrun base_step T ff comp_prog w cs))).
  Proof.
    induction cs as [|c cs IH]; intros w Hw; cbn [Wrapper.wrun].
    - split; [reflexivity|exact Hw].
    - pose proof (wstep_ro w c Hw) as [Ht Ha].
      destruct (wrap_wstep base_step T ff comp_prog w c) as [x w1]. cbn [fst snd] in Ht, Ha.
      destruct (IH w1 Ha) as [Ht' Ha'].
      destruct (wrun base_step T ff comp_prog w1 cs) as [xs w2]. cbn [fst snd] in *.
      split; [rewrite Ht'; exact Ht|exact Ha'].
  Qed.
End ReadOnly.
