(* placeholder, filled below *)
From Avfs Require Import Base Wrapper.
