(* C12_composite: which failed primitives the generic composites report.
   Proved for the programs of Composites.v over ANY primitive step function that
   satisfies [prim_fail] (a failed consultation during a primitive call is that
   method's own id and makes the call return an opaque error), then instantiated
   with the primitives of a table satisfying [failfs_ok]. *)
From Avfs Require Import Base Wrapper RoFSProofs FailFSProofs Composites.

(* errors the composites do not interpret (not io.EOF, not IsExist, not IsNotExist):
   injected faults and ReadOnlyFunc's permission errors are of this kind *)
Definition opaque (e : werr) : bool :=
  match e with EEOF => false | _ => negb (is_exist e || is_not_exist e) end.

(* the failures a composite does NOT report (as the os package's namesakes: ReadFile
   ignores a failed Stat and the deferred Close, ReadDir the deferred Close, Glob every
   I/O error) *)
Definition swallowed (c : comp) (fn : fnvfs) : bool :=
  match c, fn with
  | CReadFile, FnFileStat | CReadFile, FnFileClose | CReadDir, FnFileClose => true
  | CGlob, _ => true
  | _, _ => false
  end.

Definition used (m : meth) : bool :=
  match m with
  | MV V_OpenFile | MV V_Mkdir | MV V_Stat | MV V_Lstat
  | MF F_Write | MF F_Close | MF F_Stat | MF F_Read | MF F_ReadDir | MF F_Readdirnames => true
  | _ => false
  end.

Section CompProofs.
  Variable bstate : Type.
  Variable pstep : world bstate -> nat -> meth -> list arg -> nat -> wres * world bstate.
  Variable tmpname : nat -> str.
  Variable bad_pattern : werr.
  Variable fuel : nat.

  Hypothesis prim_fail : forall w id m a b fn, used m = true ->
    In (fn, true) (r_cons (fst (pstep w id m a b))) ->
    expected_fn m = Some fn /\ exists e, a_err (r_ans (fst (pstep w id m a b))) = Some e /\ opaque e = true.

  Notation run := (run_prog_with pstep).

  Section One.
    Variable c : comp.
    Variables self bind : nat.

    Definition ok_acc (acc : list (fnvfs * bool)) : Prop := forall fn, In (fn, true) acc -> swallowed c fn = true.
    Definition good (rw : wres * world bstate) : Prop :=
      forall fn, In (fn, true) (r_cons (fst rw)) -> swallowed c fn = false -> a_err (r_ans (fst rw)) <> None.

    Lemma ok_acc_app a b : ok_acc a -> ok_acc b -> ok_acc (a ++ b).
    Proof. intros Ha Hb fn H. apply in_app_or in H as [H|H]; auto. Qed.

    Lemma good_ret v e w acc : (e = None -> ok_acc acc) -> good (run (ret v e) w self bind acc).
    Proof.
      intros H fn Hin Hs. cbn in *. destruct e; [discriminate|].
      rewrite (H eq_refl fn Hin) in Hs. discriminate.
    Qed.

    Lemma good_stuck n w acc : good (run (PRet (ans_stuck n)) w self bind acc).
    Proof. intros fn _ _. cbn. discriminate. Qed.

    (* a primitive call that returned no error had no failed consultation *)
    Lemma clean_cons w id m a b : used m = true ->
      a_err (r_ans (fst (pstep w id m a b))) = None -> ok_acc (r_cons (fst (pstep w id m a b))).
    Proof.
      intros Hu He fn Hin. destruct (prim_fail w id m a b fn Hu Hin) as (_ & e & E & _). congruence.
    Qed.

    (* ... nor had one that returned an error the composite interprets *)
    Lemma clean_cons_interp w id m a b e : used m = true ->
      a_err (r_ans (fst (pstep w id m a b))) = Some e -> opaque e = false -> ok_acc (r_cons (fst (pstep w id m a b))).
    Proof.
      intros Hu He Ho fn Hin. destruct (prim_fail w id m a b fn Hu Hin) as (_ & e' & E & Ho'). congruence.
    Qed.

    (* a primitive whose failures the composite swallows *)
    Lemma swallowed_cons w id m a b fn0 : used m = true -> expected_fn m = Some fn0 -> swallowed c fn0 = true ->
      ok_acc (r_cons (fst (pstep w id m a b))).
    Proof.
      intros Hu He Hs fn Hin. destruct (prim_fail w id m a b fn Hu Hin) as (E & _). congruence.
    Qed.
  End One.

  Ltac step E := cbn [run_prog_with]; match goal with |- context [pstep ?w ?id ?m ?a ?b] =>
    destruct (pstep w id m a b) as [?r ?w'] eqn:E end.

  (* ---- Create *)
  Lemma create_good a w self bind : good CCreate (run (p_create a) w self bind []).
  Proof.
    unfold p_create. destruct a as [|[n| |] [|]]; try apply good_stuck.
    cbn [run_prog_with].
    pose proof (prim_fail w self (MV V_OpenFile) [AS n; AI O_RDWR_CREATE_TRUNC; AI DefaultFilePerm] bind) as P.
    destruct (pstep w self (MV V_OpenFile) [AS n; AI O_RDWR_CREATE_TRUNC; AI DefaultFilePerm] bind) as [r w'].
    cbn [fst] in P. intros fn Hin _. cbn in Hin |- *.
    destruct (P fn eq_refl Hin) as (_ & e & E & _). congruence.
  Qed.

  (* ---- WriteFile *)
  Lemma writefile_good a w self bind : good CWriteFile (run (p_writefile a) w self bind []).
  Proof.
    unfold p_writefile. destruct a as [|[n| |] [|[data| |] [|[|perm|] [|]]]]; try apply good_stuck.
    cbn [run_prog_with].
    pose proof (clean_cons CWriteFile w self (MV V_OpenFile) [AS n; AI O_WRONLY_CREATE_TRUNC; AI perm] (fresh (w_objs w)) eq_refl) as C1.
    destruct (pstep w self (MV V_OpenFile) [AS n; AI O_WRONLY_CREATE_TRUNC; AI perm] (fresh (w_objs w))) as [r w1].
    cbn [fst] in C1. cbn [app].
    destruct (a_err (r_ans r)) as [e|] eqn:E1.
    - destruct (a_obj (r_ans r)); intros fn _ _; cbn; discriminate.
    - destruct (a_obj (r_ans r)) as [f|]; [|apply good_stuck].
      cbn [run_prog_with].
      pose proof (prim_fail w1 f (MF F_Write) [AS data] (fresh (w_objs w1))) as P2.
      destruct (pstep w1 f (MF F_Write) [AS data] (fresh (w_objs w1))) as [r1 w2]. cbn [fst] in P2.
      pose proof (prim_fail w2 f (MF F_Close) [] (fresh (w_objs w2))) as P3.
      destruct (pstep w2 f (MF F_Close) [] (fresh (w_objs w2))) as [r2 w3]. cbn [fst] in P3.
      intros fn Hin _. cbn in Hin |- *.
      apply in_app_or in Hin as [Hin|Hin]; [apply in_app_or in Hin as [Hin|Hin]|].
      + specialize (C1 eq_refl fn Hin). discriminate.
      + destruct (P2 fn eq_refl Hin) as (_ & e & E & _). rewrite E. discriminate.
      + destruct (P3 fn eq_refl Hin) as (_ & e & E & _). destruct (a_err (r_ans r1)); [discriminate|]. rewrite E. discriminate.
  Qed.

  (* ---- ReadDir *)
  Lemma readdir_good a w self bind : good CReadDir (run (p_readdir a) w self bind []).
  Proof.
    unfold p_readdir. destruct a as [|[n| |] [|]]; try apply good_stuck.
    cbn [run_prog_with].
    pose proof (clean_cons CReadDir w self (MV V_OpenFile) [AS n; AI O_RDONLY; AI 0] (fresh (w_objs w)) eq_refl) as C1.
    destruct (pstep w self (MV V_OpenFile) [AS n; AI O_RDONLY; AI 0] (fresh (w_objs w))) as [r w1].
    cbn [fst] in C1. cbn [app].
    destruct (a_err (r_ans r)) as [e|] eqn:E1.
    - destruct (a_obj (r_ans r)); intros fn _ _; cbn; discriminate.
    - destruct (a_obj (r_ans r)) as [f|]; [|apply good_stuck].
      cbn [run_prog_with].
      pose proof (prim_fail w1 f (MF F_ReadDir) [AI (-1)] (fresh (w_objs w1))) as P2.
      destruct (pstep w1 f (MF F_ReadDir) [AI (-1)] (fresh (w_objs w1))) as [r1 w2]. cbn [fst] in P2.
      pose proof (prim_fail w2 f (MF F_Close) [] (fresh (w_objs w2))) as P3.
      destruct (pstep w2 f (MF F_Close) [] (fresh (w_objs w2))) as [r2 w3]. cbn [fst] in P3.
      intros fn Hin Hs. cbn in Hin |- *.
      apply in_app_or in Hin as [Hin|Hin]; [apply in_app_or in Hin as [Hin|Hin]|].
      + specialize (C1 eq_refl fn Hin). congruence.
      + destruct (P2 fn eq_refl Hin) as (_ & e & E & _). rewrite E. discriminate.
      + destruct (P3 fn eq_refl Hin) as (E & _). inversion E; subst fn. discriminate.
  Qed.

  (* ---- ReadFile *)
  Lemma read_loop_good self bind fl : forall f data k w acc,
    ok_acc CReadFile acc ->
    (forall data' e w' acc', (e = None -> ok_acc CReadFile acc') -> good CReadFile (run (k data' e) w' self bind acc')) ->
    good CReadFile (run (read_loop fl f data k) w self bind acc).
  Proof.
    induction fl as [|fl IH]; intros f data k w acc Hacc Hk; cbn [read_loop].
    - apply good_stuck.
    - cbn [run_prog_with].
      pose proof (clean_cons CReadFile w f (MF F_Read) [AW] (fresh (w_objs w)) eq_refl) as C.
      pose proof (clean_cons_interp CReadFile w f (MF F_Read) [AW] (fresh (w_objs w)) EEOF eq_refl) as CE.
      destruct (pstep w f (MF F_Read) [AW] (fresh (w_objs w))) as [r w1]. cbn [fst] in C, CE.
      destruct (a_err (r_ans r)) as [e|] eqn:E.
      + destruct e; try (apply Hk; discriminate).
        apply Hk. intros _. apply ok_acc_app; auto.
      + apply IH; auto. apply ok_acc_app; auto.
  Qed.

  Lemma readfile_good a w self bind : good CReadFile (run (p_readfile fuel a) w self bind []).
  Proof.
    unfold p_readfile. destruct a as [|[n| |] [|]]; try apply good_stuck.
    cbn [run_prog_with].
    pose proof (clean_cons CReadFile w self (MV V_OpenFile) [AS n; AI O_RDONLY; AI 0] (fresh (w_objs w)) eq_refl) as C1.
    destruct (pstep w self (MV V_OpenFile) [AS n; AI O_RDONLY; AI 0] (fresh (w_objs w))) as [r w1].
    cbn [fst] in C1. cbn [app].
    destruct (a_err (r_ans r)) as [e|] eqn:E1.
    - destruct (a_obj (r_ans r)); intros fn _ _; cbn; discriminate.
    - destruct (a_obj (r_ans r)) as [f|]; [|apply good_stuck].
      cbn [run_prog_with].
      pose proof (swallowed_cons CReadFile w1 f (MF F_Stat) [] (fresh (w_objs w1)) FnFileStat eq_refl eq_refl eq_refl) as C2.
      destruct (pstep w1 f (MF F_Stat) [] (fresh (w_objs w1))) as [r1 w2]. cbn [fst] in C2.
      apply read_loop_good.
      + apply ok_acc_app; auto.
      + intros data' e w' acc' Hacc. cbn [run_prog_with].
        pose proof (swallowed_cons CReadFile w' f (MF F_Close) [] (fresh (w_objs w')) FnFileClose eq_refl eq_refl eq_refl) as C3.
        destruct (pstep w' f (MF F_Close) [] (fresh (w_objs w'))) as [r2 w3]. cbn [fst] in C3.
        apply good_ret. intros He. apply ok_acc_app; auto.
  Qed.

  (* ---- MkdirTemp *)
  Lemma mkdirtemp_loop_good self bind fl : forall dir try w acc,
    ok_acc CMkdirTemp acc -> good CMkdirTemp (run (mkdirtemp_loop tmpname fl dir try) w self bind acc).
  Proof.
    induction fl as [|fl IH]; intros dir try w acc Hacc; cbn [mkdirtemp_loop].
    - apply good_stuck.
    - cbn [run_prog_with].
      pose proof (clean_cons CMkdirTemp w self (MV V_Mkdir) [AS (tmpname try); AI 448] (fresh (w_objs w)) eq_refl) as C.
      pose proof (fun e => clean_cons_interp CMkdirTemp w self (MV V_Mkdir) [AS (tmpname try); AI 448] (fresh (w_objs w)) e eq_refl) as CE.
      destruct (pstep w self (MV V_Mkdir) [AS (tmpname try); AI 448] (fresh (w_objs w))) as [r w1]. cbn [fst] in C, CE.
      destruct (a_err (r_ans r)) as [e|] eqn:E.
      + destruct (is_exist e) eqn:Ex.
        * apply IH. apply ok_acc_app; auto. apply (CE e eq_refl).
          destruct e; try discriminate Ex. unfold opaque. rewrite Ex. reflexivity.
        * destruct (is_not_exist e) eqn:En.
          -- cbn [run_prog_with].
             destruct (pstep w1 self (MV V_Stat) [AS dir] (fresh (w_objs w1))) as [r2 w2].
             destruct (a_err (r_ans r2)) as [e2|]; [destruct (is_not_exist e2)|];
               intros fn _ _; cbn; discriminate.
          -- intros fn _ _; cbn; discriminate.
      + apply good_ret. intros _. apply ok_acc_app; auto.
  Qed.

  Lemma mkdirtemp_good a w self bind : good CMkdirTemp (run (p_mkdirtemp tmpname fuel a) w self bind []).
  Proof.
    unfold p_mkdirtemp. destruct a as [|[dir| |] [|[pat| |] [|]]]; try apply good_stuck.
    apply mkdirtemp_loop_good. intros fn [].
  Qed.

  (* every composite reports every failed primitive it does not swallow *)
  Theorem composite_good c a w self bind :
    good c (run (comp_prog tmpname bad_pattern fuel c a) w self bind []).
  Proof.
    destruct c; cbn [comp_prog].
    - apply create_good.
    - apply writefile_good.
    - apply readfile_good.
    - apply readdir_good.
    - intros fn _ Hs. discriminate.
    - apply mkdirtemp_good.
  Qed.
End CompProofs.

(* ------------------------------------------------------------------ *)
(* the primitives of a table that satisfies failfs_ok meet [prim_fail] *)
Section Instance.
  Variable bstate : Type.
  Variable base_step : bstate -> nat -> meth -> list arg -> ans * bstate.
  Variable T : table.
  Variable ff : ffun.
  Variable tmpname : nat -> str.
  Variable bad_pattern : werr.
  Variable fuel : nat.

  Hypothesis T_ok : failfs_ok T = true.
  (* the failure function only produces errors the composites do not interpret *)
  Hypothesis ff_opaque : forall h fn fl e, ff h fn fl = Some e -> opaque e = true.

  Lemma forward_cons wrap (w : world bstate) o m a b : r_cons (fst (forward base_step wrap w o m a b)) = [].
  Proof.
    unfold forward. destruct (base_step (w_base w) (wo_base o) m a) as [an s'].
    destruct (a_obj an); destruct (returns_obj m); reflexivity.
  Qed.

  Lemma run0_simple_cons k (w : world bstate) o m a b :
    simple k = true -> r_cons (fst (run0 base_step ff (@no_comp bstate) k w o m a b)) = [].
  Proof.
    destruct k; cbn [Wrapper.run0 simple]; intros H; try discriminate; try apply forward_cons; try reflexivity.
    destruct a as [|[n| |] [|[|fl|] [|[|pp|] [|]]]]; try reflexivity.
    destruct (Z.eqb fl guard); [apply forward_cons|reflexivity].
  Qed.

  Lemma prim_fail_failfs : forall (w : world bstate) id m a b fn, used m = true ->
    In (fn, true) (r_cons (fst (call_obj base_step T ff (@no_comp bstate) w id m a b))) ->
    expected_fn m = Some fn /\
    exists e, a_err (r_ans (fst (call_obj base_step T ff (@no_comp bstate) w id m a b))) = Some e /\ opaque e = true.
  Proof.
    intros w id m a b fn Hu. unfold Wrapper.call_obj.
    destruct (olookup id (w_objs w)) as [o|]; [|cbn; tauto].
    destruct (wo_wrapped o); [|rewrite forward_cons; cbn; tauto].
    unfold Wrapper.run1.
    pose proof (failfs_ok_check T m T_ok) as Hc. unfold failfs_check in Hc.
    assert (He : exists fn0, expected_fn m = Some fn0).
    { destruct m as [v|f]; [destruct v|destruct f]; try discriminate Hu; cbn; eauto. }
    destruct He as (fn0 & He). rewrite He in Hc.
    destruct (kind_of T m) as [| |e| | |g e fflag fperm|fl p| |fn' flag k'|c|] eqn:Ek; try discriminate.
    apply andb_true_iff in Hc as [Hc Hk]. apply andb_true_iff in Hc as [Hf _].
    apply fnvfs_eqb_eq in Hf. subst fn'.
    assert (Hsim : simple k' = true).
    { apply (consulted_simple m k'); [rewrite He; discriminate|exact Hk]. }
    cbn [Wrapper.run0].
    destruct (ff (w_hist w) fn0 (mk_flag flag a)) as [e|] eqn:Ef.
    - cbn [fst r_cons r_ans]. intros [E|[]]. inversion E; subst fn. split; [exact He|].
      exists e. split; [reflexivity|]. eapply ff_opaque; eauto.
    - unfold add_cons. cbn [fst r_cons]. rewrite run0_simple_cons by exact Hsim.
      intros [E|[]]. discriminate.
  Qed.

  (* At the level of a call on the FailFS: a composite method returns an error whenever
     its own consultation or any primitive it is built on (bar the swallowed ones) was failed. *)
  Theorem failfs_composite : forall (w : world bstate) id o m cp a bind fn,
    olookup id (w_objs w) = Some o -> wo_wrapped o = true -> comp_of m = Some cp ->
    let r := fst (wrap_wstep base_step T ff (comp_prog tmpname bad_pattern fuel) w (mkCall id m a bind)) in
    In (fn, true) (r_cons r) -> swallowed cp fn = false -> a_err (r_ans r) <> None.
  Proof.
    intros w id o m cp a bind fn Ho Hw Hcp. cbv zeta.
    unfold Wrapper.wrap_wstep, Wrapper.call_obj. cbn [c_obj c_meth c_args c_bind]. rewrite Ho, Hw.
    unfold Wrapper.run1.
    pose proof (failfs_ok_check T m T_ok) as Hc. unfold failfs_check in Hc.
    assert (Hgood : forall w' acc, acc = [] ->
      @good bstate cp (run_prog base_step T ff (comp_prog tmpname bad_pattern fuel cp a) w' id bind acc)).
    { intros w' acc ->. unfold Wrapper.run_prog. apply composite_good. exact prim_fail_failfs. }
    destruct m as [v|f]; [destruct v|destruct f]; cbn in Hcp; try discriminate; inversion Hcp; subst cp;
      cbn [expected_fn] in Hc;
      destruct (kind_of T _) as [| |e| | |g e fflag fperm|fl p| |fn' flag k'|c|] eqn:Ek; try discriminate Hc;
      try (cbn in Hc; destruct c; try discriminate Hc; cbn [Wrapper.run0]; unfold comp_cb; cbn [fst]; apply Hgood; reflexivity).
    all: apply andb_true_iff in Hc as [_ Hk]; cbn in Hk; destruct k'; try discriminate Hk;
      destruct c; try discriminate Hk; cbn [Wrapper.run0];
      destruct (ff (w_hist w) fn' (mk_flag flag a)) as [e|] eqn:Ef;
      [intros _ _; cbn; discriminate|].
    all: unfold add_cons, comp_cb; cbn [fst r_cons r_ans]; intros [E|Hin] Hs; [discriminate|];
      eapply Hgood; eauto.
  Qed.
End Instance.
