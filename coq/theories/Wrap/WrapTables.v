(* Obligations on the regenerated interface description (Gen_iface.v) shared by
   C09 and C12: the translator mapped everything, the interfaces are exactly the
   method sets Wrapper.v knows, the FnVFS enumeration is the one Wrapper.v knows. *)
From Coq Require Import String.
From Avfs Require Import Base Wrapper Gen_iface.

Definition vmeth_eqb (a b : vmeth) : bool := if vmeth_eq_dec a b then true else false.
Definition fmeth_eqb (a b : fmeth) : bool := if fmeth_eq_dec a b then true else false.

Definition is_extra (m : vmeth) : bool :=
  match m with V_SetFeatures | V_SetFailFunc => true | _ => false end.

Definition string_list_empty (l : list string) : bool := match l with [] => true | _ => false end.

Definition iface_ok : bool :=
  string_list_empty iface_unknown
  && forallb (fun m => is_extra m || existsb (vmeth_eqb m) iface_vfs) all_vmeth
  && forallb (fun m => negb (is_extra m)) iface_vfs
  && forallb (fun m => existsb (fmeth_eqb m) iface_file) all_fmeth
  && list_eqb fnvfs_eqb gen_fnvfs all_fnvfs.

(* every interface method has an entry in a wrapper's table *)
Definition covers_iface (T : table) : bool :=
  forallb (fun m => amem meth_eqb (MV m) T) iface_vfs && forallb (fun m => amem meth_eqb (MF m) T) iface_file.

Lemma iface_ok_vfs : iface_ok = true -> forall m, is_extra m = false -> In m iface_vfs.
Proof.
  unfold iface_ok. intros H m Hm.
  apply andb_true_iff in H as [H _]. apply andb_true_iff in H as [H _]. apply andb_true_iff in H as [H _].
  apply andb_true_iff in H as [_ H2].
  rewrite forallb_forall in H2. specialize (H2 m (all_vmeth_complete m)).
  rewrite Hm in H2. cbn [orb] in H2. apply existsb_exists in H2 as (x & Hx & E).
  unfold vmeth_eqb in E. destruct (vmeth_eq_dec m x); [subst; auto|discriminate].
Qed.

Lemma iface_ok_file : iface_ok = true -> forall m, In m iface_file.
Proof.
  unfold iface_ok. intros H m.
  apply andb_true_iff in H as [H _]. apply andb_true_iff in H as [_ H0].
  rewrite forallb_forall in H0. specialize (H0 m (all_fmeth_complete m)).
  apply existsb_exists in H0 as (x & Hx & E).
  unfold fmeth_eqb in E. destruct (fmeth_eq_dec m x); [subst; auto|discriminate].
Qed.
