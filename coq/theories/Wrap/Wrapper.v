(* Generic semantics of the avfs wrapper file systems (RoFS, FailFS) over an
   ABSTRACT base file system.

   A wrapper method is described by a [kind] (forward verbatim, refuse with an
   error, consult the failure function then ..., wrap the returned object, ...).
   The per-method tables [Gen_rofs.rofs_table], [Gen_failfs.failfs_table] are
   REGENERATED from the current Go source on every run (lib/vcheck/wrapgen.py);
   this file gives the kinds their meaning.  The client of a wrapper holds
   object identifiers (the wrapper itself, files it returned, sub file systems
   it returned); every object is either a wrapper around a base object or -
   when a method hands the base's object out unchanged - the raw base object.

   Standard library only; everything is computable and extracts with
   ExtrOcamlBasic. *)
From Avfs Require Import Base.
Set Implicit Arguments.

(* ------------------------------------------------------------------ *)
(* method sets of avfs.VFS and avfs.File (flattened), plus the two exported
   methods of the wrappers that are not part of the interface.  The generator
   reads these three Inductives to know which names exist; a method of the Go
   interface or of a wrapper type that is not listed here ends up in the
   generated [*_unknown] lists, which the table theorems require to be empty. *)
Inductive vmeth :=
| V_Abs | V_Base | V_Chdir | V_Chmod | V_Chown | V_Chtimes | V_Clean | V_Create
| V_CreateTemp | V_Dir | V_EvalSymlinks | V_Features | V_FromSlash | V_Getwd
| V_Glob | V_HasFeature | V_Idm | V_IsAbs | V_IsPathSeparator | V_Join | V_Lchown
| V_Link | V_Lstat | V_Match | V_Mkdir | V_MkdirAll | V_MkdirTemp | V_Name | V_OSType
| V_Open | V_OpenFile | V_PathSeparator | V_ReadDir | V_ReadFile | V_Readlink | V_Rel
| V_Remove | V_RemoveAll | V_Rename | V_SameFile | V_SetIdm | V_SetUMask | V_SetUser
| V_SetUserByName | V_Split | V_Stat | V_Sub | V_Symlink | V_TempDir | V_ToSlash
| V_ToSysStat | V_Truncate | V_Type | V_UMask | V_User | V_WalkDir | V_WriteFile
| V_SetFeatures | V_SetFailFunc.

Inductive fmeth :=
| F_Chdir | F_Chmod | F_Chown | F_Close | F_Fd | F_Name | F_Read | F_ReadAt | F_ReadDir
| F_Readdirnames | F_Seek | F_Stat | F_Sync | F_Truncate | F_Write | F_WriteAt | F_WriteString.

Inductive fnvfs :=
| FnAbs | FnChdir | FnChmod | FnChown | FnChtimes | FnCreateTemp | FnEvalSymlinks
| FnFileChdir | FnFileChmod | FnFileChown | FnFileClose | FnFileRead | FnFileReadAt
| FnFileReadDir | FnFileReaddirnames | FnFileSeek | FnFileStat | FnFileSync
| FnFileTruncate | FnFileWrite | FnFileWriteAt | FnGetwd | FnLchown | FnLink | FnLstat
| FnMkdir | FnMkdirAll | FnMkdirTemp | FnOpenFile | FnReadDir | FnReadFile | FnReadlink
| FnRemove | FnRemoveAll | FnRename | FnSetUser | FnSetUserByName | FnStat | FnSub
| FnSymlink | FnTruncate | FnWalkDir | FnWriteFile.

Inductive meth := MV (m : vmeth) | MF (m : fmeth).

Definition all_vmeth : list vmeth :=
  [V_Abs; V_Base; V_Chdir; V_Chmod; V_Chown; V_Chtimes; V_Clean; V_Create;
   V_CreateTemp; V_Dir; V_EvalSymlinks; V_Features; V_FromSlash; V_Getwd;
   V_Glob; V_HasFeature; V_Idm; V_IsAbs; V_IsPathSeparator; V_Join; V_Lchown;
   V_Link; V_Lstat; V_Match; V_Mkdir; V_MkdirAll; V_MkdirTemp; V_Name; V_OSType;
   V_Open; V_OpenFile; V_PathSeparator; V_ReadDir; V_ReadFile; V_Readlink; V_Rel;
   V_Remove; V_RemoveAll; V_Rename; V_SameFile; V_SetIdm; V_SetUMask; V_SetUser;
   V_SetUserByName; V_Split; V_Stat; V_Sub; V_Symlink; V_TempDir; V_ToSlash;
   V_ToSysStat; V_Truncate; V_Type; V_UMask; V_User; V_WalkDir; V_WriteFile;
   V_SetFeatures; V_SetFailFunc].

Definition all_fmeth : list fmeth :=
  [F_Chdir; F_Chmod; F_Chown; F_Close; F_Fd; F_Name; F_Read; F_ReadAt; F_ReadDir;
   F_Readdirnames; F_Seek; F_Stat; F_Sync; F_Truncate; F_Write; F_WriteAt; F_WriteString].

Definition all_fnvfs : list fnvfs :=
  [FnAbs; FnChdir; FnChmod; FnChown; FnChtimes; FnCreateTemp; FnEvalSymlinks;
   FnFileChdir; FnFileChmod; FnFileChown; FnFileClose; FnFileRead; FnFileReadAt;
   FnFileReadDir; FnFileReaddirnames; FnFileSeek; FnFileStat; FnFileSync;
   FnFileTruncate; FnFileWrite; FnFileWriteAt; FnGetwd; FnLchown; FnLink; FnLstat;
   FnMkdir; FnMkdirAll; FnMkdirTemp; FnOpenFile; FnReadDir; FnReadFile; FnReadlink;
   FnRemove; FnRemoveAll; FnRename; FnSetUser; FnSetUserByName; FnStat; FnSub;
   FnSymlink; FnTruncate; FnWalkDir; FnWriteFile].

Definition all_meth : list meth := map MV all_vmeth ++ map MF all_fmeth.

Lemma all_vmeth_complete : forall m, In m all_vmeth.
Proof. destruct m; cbv; tauto. Qed.
Lemma all_fmeth_complete : forall m, In m all_fmeth.
Proof. destruct m; cbv; tauto. Qed.
Lemma all_fnvfs_complete : forall f, In f all_fnvfs.
Proof. destruct f; cbv; tauto. Qed.
Lemma all_meth_complete : forall m, In m all_meth.
Proof.
  intros [m|m]; unfold all_meth; apply in_or_app; [left|right]; apply in_map.
  - apply all_vmeth_complete.
  - apply all_fmeth_complete.
Qed.

Definition vmeth_eq_dec : forall a b : vmeth, {a = b} + {a <> b}. Proof. decide equality. Defined.
Definition fmeth_eq_dec : forall a b : fmeth, {a = b} + {a <> b}. Proof. decide equality. Defined.
Definition fnvfs_eq_dec : forall a b : fnvfs, {a = b} + {a <> b}. Proof. decide equality. Defined.
Definition meth_eq_dec : forall a b : meth, {a = b} + {a <> b}.
Proof. decide equality; [apply vmeth_eq_dec | apply fmeth_eq_dec]. Defined.
Definition meth_eqb (a b : meth) : bool := if meth_eq_dec a b then true else false.
Definition fnvfs_eqb (a b : fnvfs) : bool := if fnvfs_eq_dec a b then true else false.

Lemma meth_eqb_eq a b : meth_eqb a b = true <-> a = b.
Proof. unfold meth_eqb; destruct (meth_eq_dec a b); split; congruence. Qed.
Lemma fnvfs_eqb_eq a b : fnvfs_eqb a b = true <-> a = b.
Proof. unfold fnvfs_eqb; destruct (fnvfs_eq_dec a b); split; congruence. Qed.

(* ------------------------------------------------------------------ *)
(* values crossing the interface *)
Inductive arg :=
| AS (s : str)      (* string / byte slice *)
| AI (z : Z)        (* int, flag, mode, offset, time *)
| AW.               (* an argument the model does not determine (buffer length of an inner Read) *)

Inductive werr :=
| EErrno (n : N)    (* avfs.LinuxError value, through *PathError / *LinkError *)
| EEOF
| EInj (k : nat)    (* an error returned by the failure function *)
| EOther (t : str)  (* any other error, identified by an opaque token *)
| EStuck (t : N).   (* not a Go outcome: the model could not interpret the call
                       (1 unknown object, 2 unrecognised kind, 3 bad arguments, 4 out of fuel) *)

Inductive wval :=
| VUnit
| VTok (t : str)                    (* opaque printed value *)
| VBytes (b : str)
| VInt (z : Z)
| VNames (l : list str)
| VEntries (l : list (str * str))   (* directory entries: name, type token *)
| VInfo (isdir : bool) (t : str)    (* fs.FileInfo *)
| VLocal.                           (* a value the wrapper makes up itself (its type name, its feature set, ...) *)

(* what a call returns: a value, an error or both (ReadAt), and - for Open,
   OpenFile, Create, CreateTemp, Sub - the identifier of the new object *)
Record ans := mkAns { a_val : wval; a_err : option werr; a_obj : option nat }.

Definition ans_err (e : werr) : ans := mkAns VUnit (Some e) None.
Definition ans_stuck (n : N) : ans := ans_err (EStuck n).
Definition ans_ok (v : wval) : ans := mkAns v None None.

Inductive okind := OVfs | OFile.

(* which methods return an object *)
Definition returns_obj (m : meth) : option okind :=
  match m with
  | MV V_Open | MV V_OpenFile | MV V_Create | MV V_CreateTemp => Some OFile
  | MV V_Sub => Some OVfs
  | _ => None
  end.

(* ------------------------------------------------------------------ *)
(* Classification of the BASE interface (hand-written; part of the trusted base,
   see the hypothesis [base_nonwrite] in WrapProofs.v and the snapshot check of the harness):
     CWrite   may change the tree (names, bytes, modes, owners, times);
     CRead    never changes the tree; reads it or the session state;
     CSession changes only session state (cwd, umask, current user, identity manager)
              or asks for durability (File.Sync): a wrapper may forward or refuse;
     CConfig  identity of the file system object itself (type, name, features, idm):
              a wrapper may answer itself or forward. *)
Inductive mclass := CWrite | CRead | CSession | CConfig.

Definition O_RDONLY : Z := 0.

Definition bclass (m : meth) (a : list arg) : mclass :=
  match m with
  | MV v =>
    match v with
    | V_Chmod | V_Chown | V_Chtimes | V_Create | V_CreateTemp | V_Lchown | V_Link
    | V_Mkdir | V_MkdirAll | V_MkdirTemp | V_Remove | V_RemoveAll | V_Rename
    | V_Symlink | V_Truncate | V_WriteFile => CWrite
    | V_OpenFile => match nth_error a 1 with
                    | Some (AI fl) => if Z.eqb fl O_RDONLY then CRead else CWrite
                    | _ => CRead   (* no integer flag: not a call the typed Go interface admits *)
                    end
    | V_Chdir | V_SetUMask | V_SetUser | V_SetUserByName | V_SetIdm => CSession
    | V_Features | V_HasFeature | V_SetFeatures | V_Idm | V_Name | V_Type | V_OSType
    | V_SetFailFunc => CConfig
    | _ => CRead
    end
  | MF f =>
    match f with
    | F_Chmod | F_Chown | F_Truncate | F_Write | F_WriteAt | F_WriteString => CWrite
    | F_Sync | F_Chdir => CSession
    | _ => CRead
    end
  end.

(* class of a method over all its arguments (OpenFile counts as a write method) *)
Definition mclass_of (m : meth) : mclass :=
  match m with MV V_OpenFile => CWrite | _ => bclass m [] end.

(* ------------------------------------------------------------------ *)
(* kinds of wrapper methods *)
Inductive errsrc :=
| ES_PermDenied        (* vfs.errPermDenied / avfs.ErrPermDenied (EACCES; ERROR_ACCESS_DENIED on Windows) *)
| ES_OpNotPermitted    (* vfs.errOpNotPermitted / avfs.ErrOpNotPermitted (EPERM) *)
| ES_PermDeniedOrWinPrivilege. (* errPermDenied, on Windows ErrWinPrivilegeNotHeld (Symlink) *)

Definition err_of_src (e : errsrc) : werr :=
  match e with
  | ES_PermDenied => EErrno 13
  | ES_OpNotPermitted => EErrno 1
  | ES_PermDeniedOrWinPrivilege => EErrno 13
  end.

(* the permission class: what errors.Is(werr, fs.ErrPermission) accepts for avfs.LinuxError *)
Definition perm_class (e : werr) : bool :=
  match e with EErrno 13 | EErrno 1 => true | _ => false end.

Inductive fpfield := FpOp | FpPath | FpNewPath | FpPerm | FpFlag | FpUid | FpGid | FpSize | FpATime | FpMTime.
Definition fpfield_eq_dec : forall a b : fpfield, {a = b} + {a <> b}. Proof. decide equality. Defined.

(* the generic composites of vfs.go that FailFS re-instantiates over itself *)
Inductive comp := CCreate | CWriteFile | CReadFile | CReadDir | CGlob | CMkdirTemp.

Inductive kind :=
| KFwd                                   (* return base.M(args) verbatim; an object in the result is handed out RAW *)
| KFwdWrap                               (* base.M(args) verbatim; the returned object is wrapped *)
| KRefuse (e : errsrc)                   (* return an error built from e; the base is not called *)
| KLocal                                 (* answers itself without calling the base *)
| KPure                                  (* avfs.M(vfs, args): generic lexical function over the wrapper's own getters *)
| KOpenGuard (guard : Z) (e : errsrc) (fflag fperm : Z)
                                         (* if flag <> guard then refuse e else base.OpenFile(name, fflag, fperm), wrapped *)
| KSelfOpenFile (flag perm : Z)          (* return vfs.OpenFile(name, flag, perm) - the wrapper's own OpenFile *)
| KSelfWrite                             (* return f.Write([]byte(s)) - the wrapper's own Write *)
| KConsult (fn : fnvfs) (flag : option nat) (k : kind)
                                         (* e := failFunc(fn, &FailParam{..., Flag: <argument number flag>}); if e != nil
                                            return e; then k.  The other FailParam fields only feed error messages; they are
                                            listed, per method, in Gen_failfs.failfs_fields. *)
| KComposite (c : comp)                  (* avfs.C(vfs, args): generic composite over the wrapper's primitives *)
| KUnrecognised.                         (* the translator did not recognise the body: fails every table theorem *)

Definition table := list (meth * kind).

(* the cases of failfs.ReadOnlyFunc (regenerated into Gen_failfs.ro_cases) *)
Inductive rokind :=
| RoRefuse (e : errsrc)
| RoFlagGuard (guard : Z) (e : errsrc)   (* if fp.Flag != guard then refuse *)
| RoPass
| RoUnrecognised.

Definition kind_of (T : table) (m : meth) : kind :=
  match alookup meth_eqb m T with Some k => k | None => KUnrecognised end.

(* the failure function: sees the ids consulted so far (so "the k-th invocation of F" is
   expressible), the id, and FailParam.Flag *)
Definition ffun := list fnvfs -> fnvfs -> option Z -> option werr.

Definition ok_func : ffun := fun _ _ _ => None.

Definition mk_flag (flag : option nat) (a : list arg) : option Z :=
  match flag with
  | Some i => match nth_error a i with Some (AI z) => Some z | _ => None end
  | None => None
  end.

(* ------------------------------------------------------------------ *)
(* programs over wrapper primitives (the generic composites) *)
Inductive prog :=
| PRet (a : ans)
| PCall (o : option nat)      (* None: the file system the composite was called on; Some id: an object bound earlier *)
        (m : meth) (a : list arg)
        (result : bool)       (* true: an object returned by this call is the composite's result *)
        (k : ans -> prog).

(* ------------------------------------------------------------------ *)
Section Semantics.
  Variable bstate : Type.
  (* the base: object id, method, arguments -> answer (new objects carry the base's id) *)
  Variable base_step : bstate -> nat -> meth -> list arg -> ans * bstate.
  Variable T : table.
  Variable ff : ffun.
  Variable comp_prog : comp -> list arg -> prog.

  Record wobj := mkObj { wo_kind : okind; wo_wrapped : bool; wo_base : nat }.
  Definition objs := list (nat * wobj).
  Definition olookup (id : nat) (os : objs) : option wobj := alookup Nat.eqb id os.

  Record world := mkWorld { w_base : bstate; w_objs : objs; w_hist : list fnvfs }.

  (* result of one client call: the answer (a returned object carries the client's id)
     and the ids consulted during the call, each with "did it fail" *)
  Record wres := mkRes { r_ans : ans; r_cons : list (fnvfs * bool) }.

  Definition fresh (os : objs) : nat := S (fold_right (fun p m => Nat.max (fst p) m) 0 os).

  (* forward to the base; register a returned object under [bind] *)
  Definition forward (wrap : bool) (w : world) (o : wobj) (m : meth) (a : list arg) (bind : nat) : wres * world :=
    let '(an, s') := base_step (w_base w) (wo_base o) m a in
    match a_obj an, returns_obj m with
    | Some nb, Some k =>
        (mkRes (mkAns (a_val an) (a_err an) (Some bind)) [],
         mkWorld s' ((bind, mkObj k wrap nb) :: w_objs w) (w_hist w))
    | _, _ => (mkRes (mkAns (a_val an) (a_err an) None) [], mkWorld s' (w_objs w) (w_hist w))
    end.

  Definition stuck (n : N) (w : world) : wres * world := (mkRes (ans_stuck n) [], w).

  Definition add_cons (c : fnvfs * bool) (r : wres * world) : wres * world :=
    (mkRes (r_ans (fst r)) (c :: r_cons (fst r)), snd r).

  Definition push_hist (fn : fnvfs) (w : world) : world :=
    mkWorld (w_base w) (w_objs w) (w_hist w ++ [fn]).

  (* level 0: kinds that do not re-enter the wrapper; composites through [cb] *)
  Fixpoint run0 (cb : comp -> world -> list arg -> nat -> wres * world)
           (k : kind) (w : world) (o : wobj) (m : meth) (a : list arg) (bind : nat) : wres * world :=
    match k with
    | KFwd | KPure => forward false w o m a bind
    | KFwdWrap => forward true w o m a bind
    | KRefuse e => (mkRes (ans_err (err_of_src e)) [], w)
    | KLocal => (mkRes (ans_ok VLocal) [], w)
    | KOpenGuard g e fflag fperm =>
        match a with
        | [AS n; AI fl; AI _] =>
            if Z.eqb fl g then forward true w o (MV V_OpenFile) [AS n; AI fflag; AI fperm] bind
            else (mkRes (ans_err (err_of_src e)) [], w)
        | _ => stuck 3 w
        end
    | KConsult fn flag k' =>
        match ff (w_hist w) fn (mk_flag flag a) with
        | Some e => (mkRes (ans_err e) [(fn, true)], push_hist fn w)
        | None => add_cons (fn, false) (run0 cb k' (push_hist fn w) o m a bind)
        end
    | KComposite c => cb c w a bind
    | KSelfOpenFile _ _ | KSelfWrite | KUnrecognised => stuck 2 w
    end.

  Definition no_comp : comp -> world -> list arg -> nat -> wres * world := fun _ w _ _ => stuck 2 w.

  (* level 1: one method call on a wrapped object, composites excluded (the
     "primitives" the composites are built on) *)
  Definition run1 (cb : comp -> world -> list arg -> nat -> wres * world)
             (w : world) (o : wobj) (m : meth) (a : list arg) (bind : nat) : wres * world :=
    match kind_of T m with
    | KSelfOpenFile fl p =>
        match a with
        | [AS n] => run0 cb (kind_of T (MV V_OpenFile)) w o (MV V_OpenFile) [AS n; AI fl; AI p] bind
        | _ => stuck 3 w
        end
    | KSelfWrite => run0 cb (kind_of T (MF F_Write)) w o (MF F_Write) a bind
    | k => run0 cb k w o m a bind
    end.

  (* a call on any object the client holds: raw objects go straight to the base *)
  Definition call_obj (cb : comp -> world -> list arg -> nat -> wres * world)
             (w : world) (id : nat) (m : meth) (a : list arg) (bind : nat) : wres * world :=
    match olookup id (w_objs w) with
    | None => stuck 1 w
    | Some o => if wo_wrapped o then run1 cb w o m a bind else forward false w o m a bind
    end.

  (* level 2: run a composite over the level-1 primitives *)
  Fixpoint run_prog_with (pstep : world -> nat -> meth -> list arg -> nat -> wres * world)
           (p : prog) (w : world) (self bind : nat) (acc : list (fnvfs * bool)) : wres * world :=
    match p with
    | PRet a => (mkRes a acc, w)
    | PCall osel m a result k =>
        let id := match osel with None => self | Some i => i end in
        let b := if result then bind else fresh (w_objs w) in
        let '(r, w') := pstep w id m a b in
        run_prog_with pstep (k (r_ans r)) w' self bind (acc ++ r_cons r)
    end.

  Definition run_prog : prog -> world -> nat -> nat -> list (fnvfs * bool) -> wres * world :=
    run_prog_with (call_obj no_comp).

  Record ccall := mkCall { c_obj : nat; c_meth : meth; c_args : list arg; c_bind : nat }.

  (* the objects a composite opened for itself are not visible to the client afterwards:
     only what existed before and the object the composite returns stay in the table *)
  Definition prune (old : objs) (r : wres) (new : objs) : objs :=
    filter (fun p => (match a_obj (r_ans r) with Some b => Nat.eqb (fst p) b | None => false end)
                     || amem Nat.eqb (fst p) old) new.

  Definition comp_cb (self : nat) : comp -> world -> list arg -> nat -> wres * world :=
    fun cp w a bind =>
      let rw := run_prog (comp_prog cp a) w self bind [] in
      (fst rw, mkWorld (w_base (snd rw)) (prune (w_objs w) (fst rw) (w_objs (snd rw))) (w_hist (snd rw))).

  (* the step of the wrapped world *)
  Definition wrap_wstep (w : world) (c : ccall) : wres * world :=
    call_obj (comp_cb (c_obj c)) w (c_obj c) (c_meth c) (c_args c) (c_bind c).

  Fixpoint wrun (w : world) (cs : list ccall) : list wres * world :=
    match cs with
    | [] => ([], w)
    | c :: r => let '(x, w') := wrap_wstep w c in
                let '(xs, w'') := wrun w' r in (x :: xs, w'')
    end.

  (* the same world with every object taken as the raw base object: "the base driven directly" *)
  Definition raw_objs (os : objs) : objs :=
    map (fun p => (fst p, mkObj (wo_kind (snd p)) false (wo_base (snd p)))) os.
End Semantics.
