(* The generic composites of vfs.go (Create, WriteFile, ReadFile, ReadDir, Glob,
   MkdirTemp) as programs over the primitives of whatever file system they are
   instantiated with - FailFS instantiates them over itself, so every inner
   primitive consults the failure function.  Mirrors vfs.go function by
   function; loops carry fuel (out of fuel = EStuck 4, never reached by the
   correspondence runs).  Linux-typed file systems only (the bases of the
   harness); the lexical helpers come from the path model of C13. *)
From Avfs Require Import Base Wrapper PathModel PathMatch.

Definition O_WRONLY_CREATE_TRUNC : Z := 577.   (* os.O_WRONLY|os.O_CREATE|os.O_TRUNC *)
Definition O_RDWR_CREATE_TRUNC : Z := 578.     (* os.O_RDWR|os.O_CREATE|os.O_TRUNC *)
Definition DefaultFilePerm : Z := 438.         (* 0o666 *)

Definition is_exist (e : werr) : bool := match e with EErrno 17 | EErrno 39 => true | _ => false end.
Definition is_not_exist (e : werr) : bool := match e with EErrno 2 => true | _ => false end.

Definition bytes_of (v : wval) : str := match v with VBytes b => b | _ => [] end.
Definition names_of (v : wval) : list str := match v with VNames l => l | _ => [] end.
Definition entries_of (v : wval) : list (str * str) := match v with VEntries l => l | _ => [] end.

Fixpoint insert_by {A} (leb : A -> A -> bool) (x : A) (l : list A) : list A :=
  match l with
  | [] => [x]
  | y :: r => if leb x y then x :: l else y :: insert_by leb x r
  end.
Definition sort_by {A} (leb : A -> A -> bool) (l : list A) : list A := fold_right (insert_by leb) [] l.

Definition has_meta (p : str) : bool :=
  existsb (fun c => N.eqb c 42 || N.eqb c 63 || N.eqb c 91 || N.eqb c 92)%N p.   (* * ? [ \ *)
Definition clean_glob_path (p : str) : str :=
  match p with [] => [46%N] | [47%N] => p | _ => removelast p end.

Section Composites.
  Variable tmpname : nat -> str.     (* the name MkdirTemp tries at its i-th attempt (prefix ++ random ++ suffix) *)
  Variable bad_pattern : werr.       (* filepath.ErrBadPattern *)
  Variable fuel : nat.

  Definition ret (v : wval) (e : option werr) : prog := PRet (mkAns v e None).

  (* func Create(vfs, name) = vfs.OpenFile(name, O_RDWR|O_CREATE|O_TRUNC, DefaultFilePerm) *)
  Definition p_create (a : list arg) : prog :=
    match a with
    | [AS n] => PCall None (MV V_OpenFile) [AS n; AI O_RDWR_CREATE_TRUNC; AI DefaultFilePerm] true (fun r => PRet r)
    | _ => PRet (ans_stuck 3)
    end.

  (* f, err := vfs.OpenFile(name, O_WRONLY|O_CREATE|O_TRUNC, perm); if err != nil { return err }
     _, err = f.Write(data); if err1 := f.Close(); err1 != nil && err == nil { err = err1 }; return err *)
  Definition p_writefile (a : list arg) : prog :=
    match a with
    | [AS n; AS data; AI perm] =>
        PCall None (MV V_OpenFile) [AS n; AI O_WRONLY_CREATE_TRUNC; AI perm] false (fun r =>
          match a_err r, a_obj r with
          | None, Some f =>
              PCall (Some f) (MF F_Write) [AS data] false (fun r1 =>
                PCall (Some f) (MF F_Close) [] false (fun r2 =>
                  ret VUnit (match a_err r1 with Some e => Some e | None => a_err r2 end)))
          | Some e, _ => ret VUnit (Some e)
          | None, None => PRet (ans_stuck 3)
          end)
    | _ => PRet (ans_stuck 3)
    end.

  (* the read loop of ReadFile: n, err := f.Read(buf); data += buf[:n]; if err != nil { if err == EOF { err = nil }; return } *)
  Fixpoint read_loop (fl : nat) (f : nat) (data : str) (k : str -> option werr -> prog) : prog :=
    match fl with
    | O => PRet (ans_stuck 4)
    | S fl' =>
        PCall (Some f) (MF F_Read) [AW] false (fun r =>
          let data' := data ++ bytes_of (a_val r) in
          match a_err r with
          | Some EEOF => k data' None
          | Some e => k data' (Some e)
          | None => read_loop fl' f data' k
          end)
    end.

  (* f, err := vfs.OpenFile(name, O_RDONLY, 0); if err != nil { return nil, err }; defer f.Close()
     f.Stat() (result only sizes the buffer; an error is ignored); read loop *)
  Definition p_readfile (a : list arg) : prog :=
    match a with
    | [AS n] =>
        PCall None (MV V_OpenFile) [AS n; AI O_RDONLY; AI 0] false (fun r =>
          match a_err r, a_obj r with
          | None, Some f =>
              PCall (Some f) (MF F_Stat) [] false (fun _ =>
                read_loop fuel f [] (fun data e =>
                  PCall (Some f) (MF F_Close) [] false (fun _ => ret (VBytes data) e)))
          | Some e, _ => ret VUnit (Some e)
          | None, None => PRet (ans_stuck 3)
          end)
    | _ => PRet (ans_stuck 3)
    end.

  (* f, err := vfs.OpenFile(name, O_RDONLY, 0); ...; defer f.Close(); dirs, err := f.ReadDir(-1); sort by name; return dirs, err *)
  Definition p_readdir (a : list arg) : prog :=
    match a with
    | [AS n] =>
        PCall None (MV V_OpenFile) [AS n; AI O_RDONLY; AI 0] false (fun r =>
          match a_err r, a_obj r with
          | None, Some f =>
              PCall (Some f) (MF F_ReadDir) [AI (-1)] false (fun r1 =>
                PCall (Some f) (MF F_Close) [] false (fun _ =>
                  ret (VEntries (sort_by (fun x y => str_leb (fst x) (fst y)) (entries_of (a_val r1)))) (a_err r1)))
          | Some e, _ => ret VUnit (Some e)
          | None, None => PRet (ans_stuck 3)
          end)
    | _ => PRet (ans_stuck 3)
    end.

  (* the loop of MkdirTemp (dir non-empty, pattern without separator: the generator's domain) *)
  Fixpoint mkdirtemp_loop (fl : nat) (dir : str) (try : nat) : prog :=
    match fl with
    | O => PRet (ans_stuck 4)
    | S fl' =>
        PCall None (MV V_Mkdir) [AS (tmpname try); AI 448] false (fun r =>
          match a_err r with
          | None => ret (VTok (tmpname try)) None
          | Some e =>
              if is_exist e then mkdirtemp_loop fl' dir (S try)
              else if is_not_exist e then
                PCall None (MV V_Stat) [AS dir] false (fun r2 =>
                  match a_err r2 with
                  | Some e2 => if is_not_exist e2 then ret VUnit (Some e2) else ret VUnit (Some e)
                  | None => ret VUnit (Some e)
                  end)
              else ret VUnit (Some e)
          end)
    end.

  Definition p_mkdirtemp (a : list arg) : prog :=
    match a with
    | [AS dir; AS _] => mkdirtemp_loop fuel dir 0
    | _ => PRet (ans_stuck 3)
    end.

  (* ---- Glob *)
  Definition match_all (pat dir : str) (names : list str) (matches : list str) : list str * option werr :=
    fold_left (fun (acc : list str * option werr) n =>
      match snd acc with
      | Some _ => acc
      | None => match path_match Linux true pat n with
                | MBad => (fst acc, Some bad_pattern)
                | MVal true => (fst acc ++ [join Linux [dir; n]], None)
                | MVal false => acc
                end
      end) names (matches, None).

  (* func glob(vfs, dir, pattern, matches): every I/O error is ignored *)
  Definition glob1 (dir pat : str) (matches : list str) (k : list str -> option werr -> prog) : prog :=
    PCall None (MV V_Stat) [AS dir] false (fun r =>
      match a_err r, a_val r with
      | None, VInfo true _ =>
          PCall None (MV V_OpenFile) [AS dir; AI O_RDONLY; AI 0] false (fun r2 =>
            match a_err r2, a_obj r2 with
            | None, Some d =>
                PCall (Some d) (MF F_Readdirnames) [AI (-1)] false (fun r3 =>
                  let res := match_all pat dir (sort_by str_leb (names_of (a_val r3))) matches in
                  PCall (Some d) (MF F_Close) [] false (fun _ => k (fst res) (snd res)))
            | _, _ => k matches None
            end)
      | _, _ => k matches None
      end).

  Fixpoint glob_each (ds : list str) (file : str) (matches : list str) (k : list str -> option werr -> prog) : prog :=
    match ds with
    | [] => k matches None
    | d :: r => glob1 d file matches (fun m e => match e with Some _ => k m e | None => glob_each r file m k end)
    end.

  Fixpoint glob_go (fl : nat) (pattern : str) (k : list str -> option werr -> prog) : prog :=
    match fl with
    | O => PRet (ans_stuck 4)
    | S fl' =>
        match path_match Linux true pattern [] with
        | MBad => k [] (Some bad_pattern)
        | MVal _ =>
            if negb (has_meta pattern) then
              PCall None (MV V_Lstat) [AS pattern] false (fun r =>
                match a_err r with Some _ => k [] None | None => k [pattern] None end)
            else
              let dir := clean_glob_path (fst (split Linux pattern)) in
              let file := snd (split Linux pattern) in
              if negb (has_meta dir) then glob1 dir file [] k
              else if str_eqb dir pattern then k [] (Some bad_pattern)
              else glob_go fl' dir (fun m e =>
                     match e with Some _ => k [] e | None => glob_each m file [] k end)
        end
    end.

  Definition p_glob (a : list arg) : prog :=
    match a with
    | [AS pattern] => glob_go (S (length pattern)) pattern (fun m e => ret (VNames m) e)
    | _ => PRet (ans_stuck 3)
    end.

  Definition comp_prog (c : comp) (a : list arg) : prog :=
    match c with
    | CCreate => p_create a
    | CWriteFile => p_writefile a
    | CReadFile => p_readfile a
    | CReadDir => p_readdir a
    | CGlob => p_glob a
    | CMkdirTemp => p_mkdirtemp a
    end.
End Composites.
