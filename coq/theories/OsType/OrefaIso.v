(* Property C17, OrefaFS half: an OrefaFS of the Windows type and one of the Linux
   type on related states and related portable paths, in lock step.

   OrefaFS keys its nodes by absolute path strings: the Windows-typed index holds
   W k = C: ++ map phi k where the Linux-typed one holds k (the root under "" / "/"
   and under C: / C:\), in the same order, pointing to the same heap positions; the
   nodes have the same children, data, link counts, ids and the same type bit. *)
From Avfs Require Import Base PathModel PathSpec PathCleanProofs PathProofs MemFS MemFile World WorldWin IsoView
  OrefaFS OrefaWorld OrefaLemmas OrefaWin PathEquiv IsoIter IsoSearch IsoCalls IsoRun.
Set Implicit Arguments.

Section OPath.
  Variable d : N.
  Hypothesis Hd : is_letter d = true.
  Notation W := (W d).

  Lemma nthb_W (q : str) i : nthb (W q) (2 + i) = phi (nthb q i).
  Proof. unfold PathEquiv.W, vol. cbn [app plus]. unfold nthb. cbn [nth]. fold (nthb (map phi q) i). apply nthb_map. Qed.

  Lemma last_sep_cut_W (q : str) : okstr q -> forall i1,
    last_sep_cut Windows (W q) 2 (2 + i1) = 2 + last_sep_cut Linux q 0 i1.
  Proof.
    intros Hok. induction i1 as [|i IH]; [reflexivity|].
    change (2 + S i) with (S (2 + i)). cbn [last_sep_cut].
    change (Nat.leb 2 (2 + i)) with true. change (Nat.leb 0 i) with true. cbn [andb].
    rewrite nthb_W, is_sep_phi by (apply (@okstr_nthb q i Hok)).
    destruct (negb (is_sep Linux (nthb q i))); [exact IH|reflexivity].
  Qed.

  (* a separator at position j keeps the cut above j *)
  Lemma last_sep_cut_ge os (p : str) lo j : lo <= j -> is_sep os (nthb p j) = true ->
    forall i1, j < i1 -> j < last_sep_cut os p lo i1.
  Proof.
    intros Hlo Hs. induction i1 as [|i IH]; intros Hj; [lia|]. cbn [last_sep_cut].
    destruct (Nat.eq_dec i j) as [->|Hne].
    - rewrite Hs. cbn [negb]. rewrite andb_false_r. lia.
    - destruct (Nat.leb lo i && negb (is_sep os (nthb p i))); [apply IH; lia|lia].
  Qed.

  (* SplitAbs of a rooted portable path *)
  Definition rooted (q : str) : Prop := exists r, q = SLASH :: r.
  Definition keyok (k : str) : Prop := okstr k /\ (k = [] \/ rooted k).

  Lemma osplit_W (q : str) : okstr q -> rooted q ->
    exists dl fl, osplit Linux q = Some (dl, fl) /\ osplit Windows (W q) = Some (W dl, fl)
                  /\ keyok dl /\ okstr fl /\ map phi fl = fl /\ length dl < length q
                  /\ q = dl ++ SLASH :: fl.
  Proof.
    intros Hok (r & Hr). unfold osplit, split_abs.
    change (volume_name_len Linux q) with 0. rewrite (vnl_W d).
    rewrite (length_W d), (last_sep_cut_W Hok (length q)).
    set (cut := last_sep_cut Linux q 0 (length q)).
    assert (Hc1 : 1 <= cut).
    { unfold cut. rewrite Hr. apply (@last_sep_cut_ge Linux (SLASH :: r) 0 0); [lia|reflexivity|cbn [length]; lia]. }
    destruct (@last_sep_cut_spec Linux q 0 (length q) (le_n _)) as (Hle & Hnosep & Hend). fold cut in Hle, Hnosep, Hend.
    destruct (Nat.eqb_spec cut 0) as [E|_]; [lia|]. change (Nat.eqb (2 + cut) 0) with false. cbv iota.
    exists (firstn (cut - 1) q), (skipn cut q).
    assert (Hsep : nthb q (cut - 1) = SLASH).
    { destruct Hend as [E|[E|E]]; try lia. cbn [is_sep] in E. apply N.eqb_eq in E. exact E. }
    assert (Hfl : forall c, In c (skipn cut q) -> c <> SLASH /\ c <> BSLASH).
    { intros c Hc. apply In_nth with (d := 0%N) in Hc as (k & Hk & Ek). rewrite skipn_length in Hk.
      pose proof (nthb_skipn q cut k) as E. unfold nthb in E at 1. rewrite Ek in E. split.
      - intros ->. specialize (Hnosep (cut + k)). rewrite <- E in Hnosep. cbn in Hnosep. assert (H : cut <= cut + k < length q) by lia.
        specialize (Hnosep H). discriminate.
      - assert (Hin : okc c). { rewrite E. apply okstr_nthb, Hok. } exact (proj1 Hin). }
    split; [reflexivity|]. split.
    { replace (2 + cut - 1) with (2 + (cut - 1)) by lia. rewrite (firstn_W d), (skipn_W d).
      rewrite (mp_id _ Hfl). reflexivity. }
    split.
    { split; [apply okstr_firstn, Hok|]. destruct (cut - 1) as [|k] eqn:Ek; [left; reflexivity|right].
      rewrite Hr. cbn [firstn]. eexists; reflexivity. }
    split; [apply okstr_skipn, Hok|]. split; [apply (mp_id _ Hfl)|]. split.
    { rewrite firstn_length. lia. }
    assert (E1 : q = firstn (cut - 1) q ++ skipn (cut - 1) q) by (symmetry; apply firstn_skipn).
    rewrite E1 at 1. f_equal.
    assert (E2 : forall (x : str) n, n < length x -> skipn n x = nthb x n :: skipn (S n) x).
    { clear. intros x n. revert x. induction n as [|n IH]; intros [|c x] Hlt; cbn [length] in Hlt; try lia; [reflexivity|].
      cbn [skipn]. unfold nthb. cbn [nth]. apply IH. lia. }
    rewrite (E2 q (cut - 1)) by lia.
    rewrite Hsep. replace (S (cut - 1)) with cut by lia. reflexivity.
  Qed.
End OPath.

(* ---- related states ------------------------------------------------------------------------------- *)
Section OSim.
  Variable d : N.
  Hypothesis Hd : is_letter d = true.
  Notation W := (W d).
  Notation keyok := keyok.

  Definition onrel (nw nl : onode) : Prop :=
    on_ch nw = on_ch nl /\ on_data nw = on_data nl /\ on_nlink nw = on_nlink nl /\ on_id nw = on_id nl
    /\ on_dir nw = on_dir nl.

  (* child names are portable file names (what SplitAbs cuts off) *)
  Definition names_ok (n : onode) : Prop := Forall (fun e : str * nat => map phi (fst e) = fst e /\ okstr (fst e)) (on_ch n).

  Definition wkey (e : str * nat) : str * nat := (W (fst e), snd e).

  Record orel (sw sl : ofs) : Prop := {
    or_index : o_index sw = map wkey (o_index sl);
    or_keys : Forall (fun e : str * nat => keyok (fst e)) (o_index sl);
    or_heap : Forall2 onrel (o_heap sw) (o_heap sl);
    or_names : Forall names_ok (o_heap sl);
    or_id : o_last_id sw = o_last_id sl;
    or_user : o_user sw = o_user sl;
    or_umask : o_umask sw = o_umask sl;
    or_osw : o_os sw = Windows;
    or_osl : o_os sl = Linux;
    or_root : ikey (o_index sl) [] <> None
  }.

  Lemma ikey_W (idx : list (str * nat)) (k : str) : ikey (map wkey idx) (W k) = ikey idx k.
  Proof.
    unfold ikey. induction idx as [|[k' i] idx IH]; [reflexivity|]. cbn [map wkey alookup fst snd].
    rewrite (str_eqb_W d). destruct (str_eqb k k'); [reflexivity|exact IH].
  Qed.

  Lemma oheap_get hw hl i : Forall2 onrel hw hl ->
    match oget hw i, oget hl i with
    | Some a, Some b => onrel a b
    | None, None => True
    | _, _ => False
    end.
  Proof.
    intros H. revert i. induction H as [|a b hw hl Hab H IH]; intros [|i]; cbn; auto. apply IH.
  Qed.

  (* ofind on related keys *)
  Lemma ofind_W sw sl (k : str) : orel sw sl ->
    match ofind sw (W k), ofind sl k with
    | Some (iw, nw), Some (il, nl) => iw = il /\ onrel nw nl
    | None, None => True
    | _, _ => False
    end.
  Proof.
    intros O. unfold ofind. rewrite (or_index O), ikey_W.
    destruct (ikey (o_index sl) k) as [i|]; [|exact I].
    pose proof (oheap_get i (or_heap O)) as Hg.
    destruct (oget (o_heap sw) i); destruct (oget (o_heap sl) i); try contradiction; auto.
  Qed.

  Lemma oabs_W sw sl (r : str) : orel sw sl -> okstr (SLASH :: r) ->
    oabs sw (W (SLASH :: r)) = W (oabs sl (SLASH :: r)) /\ okstr (oabs sl (SLASH :: r)) /\ rooted (oabs sl (SLASH :: r)).
  Proof.
    intros O Hok. unfold oabs. rewrite (or_osw O), (or_osl O).
    destruct (@abs_W d Hd (o_cwd sw) (o_cwd sl) r Hok) as (E & H1 & H2). split; [exact E|split; assumption].
  Qed.

  (* the error for a missing node: the nearest existing ancestor decides *)
  Lemma o_enf_loop_sim sw sl (O : orel sw sl) (rw rl : res) : okres rw = okres rl ->
    forall fl fw (q : str), keyok q -> length q < fl -> length q < fw ->
    okres (o_enf_loop fw sw (W q) rw) = okres (o_enf_loop fl sl q rl).
  Proof.
    intros Hr. induction fl as [|fl IH]; intros fw q Hq Hl Hw; [lia|]. destruct fw as [|fw]; [lia|].
    cbn [o_enf_loop]. rewrite (or_osw O), (or_osl O), (vnl_W d), (length_W d).
    change (volume_name_len Linux q) with 0.
    destruct Hq as (Hok & [->|Hroot]); [exact Hr|].
    assert (Hlen : Nat.leb (2 + length q) 2 = Nat.leb (length q) 0) by (destruct (length q); reflexivity).
    rewrite Hlen. destruct (Nat.leb (length q) 0); [exact Hr|].
    destruct (osplit_W d Hok Hroot) as (dl & fl' & E1 & E2 & Hkd & _ & _ & Hlt & _). rewrite E1, E2.
    pose proof (ofind_W dl O) as Hf.
    destruct (ofind sw (W dl)) as [[iw nw]|]; destruct (ofind sl dl) as [[il nl]|]; try contradiction.
    - destruct Hf as (_ & _ & _ & _ & _ & Hdir). rewrite Hdir. destruct (on_dir nl); [exact Hr|reflexivity].
    - apply IH; [exact Hkd|lia|lia].
  Qed.

  Lemma o_enf_sim sw sl (O : orel sw sl) (rw rl : res) (q : str) : okres rw = okres rl -> keyok q ->
    okres (o_enf sw (W q) rw) = okres (o_enf sl q rl).
  Proof.
    intros Hr Hq. unfold o_enf. apply o_enf_loop_sim; auto. rewrite (length_W d). lia.
  Qed.

  (* ---- index operations on related indexes ----------------------------------------------------- *)
  Lemma aset_W (idx : list (str * nat)) (k : str) c :
    aset str_eqb (W k) c (map wkey idx) = map wkey (aset str_eqb k c idx).
  Proof.
    induction idx as [|[k' i] idx IH]; [reflexivity|]. cbn [map wkey aset fst snd]. rewrite (str_eqb_W d).
    destruct (str_eqb k k'); cbn [map wkey fst snd]; [reflexivity|]. rewrite IH. reflexivity.
  Qed.

  Lemma aremove_W (idx : list (str * nat)) (k : str) :
    aremove str_eqb (W k) (map wkey idx) = map wkey (aremove str_eqb k idx).
  Proof.
    induction idx as [|[k' i] idx IH]; [reflexivity|]. cbn [map wkey aremove fst snd]. rewrite (str_eqb_W d).
    destruct (str_eqb k k'); cbn [map wkey fst snd]; [exact IH|]. rewrite IH. reflexivity.
  Qed.

  Lemma keys_aset (idx : list (str * nat)) (k : str) c : keyok k ->
    Forall (fun e : str * nat => keyok (fst e)) idx -> Forall (fun e : str * nat => keyok (fst e)) (aset str_eqb k c idx).
  Proof.
    intros Hk H. induction H as [|[k' i] idx Hk' H IH]; cbn [aset]; [constructor; [exact Hk|constructor]|].
    destruct (str_eqb k k'); constructor; auto.
  Qed.

  Lemma keys_aremove (idx : list (str * nat)) (k : str) :
    Forall (fun e : str * nat => keyok (fst e)) idx -> Forall (fun e : str * nat => keyok (fst e)) (aremove str_eqb k idx).
  Proof.
    intros H. induction H as [|[k' i] idx Hk' H IH]; cbn [aremove]; [constructor|].
    destruct (str_eqb k k'); [exact IH|constructor; auto].
  Qed.

  Lemma ikey_aset_other (idx : list (str * nat)) (k k0 : str) c : k0 <> k -> ikey (aset str_eqb k c idx) k0 = ikey idx k0.
  Proof.
    intros Hne. unfold ikey. induction idx as [|[k' i] idx IH]; cbn [aset alookup].
    - destruct (str_eqb_spec k0 k); [contradiction|reflexivity].
    - destruct (str_eqb_spec k k') as [->|Hkk]; cbn [alookup].
      + destruct (str_eqb_spec k0 k'); [contradiction|reflexivity].
      + destruct (str_eqb k0 k'); [reflexivity|exact IH].
  Qed.

  Lemma ikey_aremove_other (idx : list (str * nat)) (k k0 : str) : k0 <> k -> ikey (aremove str_eqb k idx) k0 = ikey idx k0.
  Proof.
    intros Hne. unfold ikey. induction idx as [|[k' i] idx IH]; cbn [aremove alookup]; [reflexivity|].
    destruct (str_eqb_spec k k') as [->|Hkk]; cbn [alookup].
    - destruct (str_eqb_spec k0 k'); [contradiction|exact IH].
    - destruct (str_eqb k0 k'); [reflexivity|exact IH].
  Qed.

  (* ---- heap operations on related heaps ---------------------------------------------------------- *)
  Lemma oheap_upd hw hl i nw nl : Forall2 onrel hw hl -> onrel nw nl -> Forall2 onrel (oupd hw i nw) (oupd hl i nl).
  Proof.
    intros H Hn. revert i. induction H as [|a b hw hl Hab H IH]; intros [|i]; cbn [oupd]; constructor; auto.
  Qed.

  Lemma names_upd hl i nl : Forall names_ok hl -> names_ok nl -> Forall names_ok (oupd hl i nl).
  Proof.
    intros H Hn. revert i. induction H as [|b hl Hb H IH]; intros [|i]; cbn [oupd]; constructor; auto.
  Qed.

  Lemma oheap_length hw hl : Forall2 onrel hw hl -> length hw = length hl.
  Proof. intros H. induction H; cbn [length]; congruence. Qed.

  Lemma names_get hl i n : Forall names_ok hl -> oget hl i = Some n -> names_ok n.
  Proof. intros H E. rewrite Forall_forall in H. apply H. unfold oget in E. eapply nth_error_In, E. Qed.

  Ltac oget_cases hw hl i H Ew El nw nl Hn :=
    let X := fresh in pose proof (@oheap_get hw hl i H) as X;
    destruct (oget hw i) as [nw|] eqn:Ew; destruct (oget hl i) as [nl|] eqn:El; try contradiction; [rename X into Hn|clear X].

  Lemma o_add_child_sim hw hl p name c : Forall2 onrel hw hl -> Forall2 onrel (o_add_child hw p name c) (o_add_child hl p name c).
  Proof.
    intros H. unfold o_add_child. oget_cases hw hl p H Ew El nw nl Hn; [|exact H].
    apply oheap_upd; [exact H|]. destruct Hn as (E1 & E2 & E3 & E4 & E5). unfold onrel, on_with_ch, on_dir. cbn. rewrite E1. auto.
  Qed.

  Lemma names_aset (ch : list (str * nat)) (name : str) c :
    map phi name = name /\ okstr name ->
    Forall (fun e : str * nat => map phi (fst e) = fst e /\ okstr (fst e)) ch ->
    Forall (fun e : str * nat => map phi (fst e) = fst e /\ okstr (fst e)) (aset str_eqb name c ch).
  Proof.
    intros Hn H. induction H as [|[k i] ch Hk H IH]; cbn [aset]; [constructor; [exact Hn|constructor]|].
    destruct (str_eqb name k); constructor; auto.
  Qed.

  Lemma names_aremove (ch : list (str * nat)) (name : str) :
    Forall (fun e : str * nat => map phi (fst e) = fst e /\ okstr (fst e)) ch ->
    Forall (fun e : str * nat => map phi (fst e) = fst e /\ okstr (fst e)) (aremove str_eqb name ch).
  Proof.
    intros H. induction H as [|[k i] ch Hk H IH]; cbn [aremove]; [constructor|].
    destruct (str_eqb name k); [exact IH|constructor; auto].
  Qed.

  Lemma o_add_child_names hl p name c : map phi name = name /\ okstr name -> Forall names_ok hl -> Forall names_ok (o_add_child hl p name c).
  Proof.
    intros Hn H. unfold o_add_child. destruct (oget hl p) as [n|] eqn:E; [|exact H].
    apply names_upd; [exact H|]. unfold names_ok, on_with_ch. cbn [on_ch]. apply names_aset; [exact Hn|]. exact (names_get p H E).
  Qed.

  Lemma o_del_child_sim hw hl p name : Forall2 onrel hw hl -> Forall2 onrel (o_del_child hw p name) (o_del_child hl p name).
  Proof.
    intros H. unfold o_del_child. oget_cases hw hl p H Ew El nw nl Hn; [|exact H].
    apply oheap_upd; [exact H|]. destruct Hn as (E1 & E2 & E3 & E4 & E5). unfold onrel, on_with_ch, on_dir. cbn. rewrite E1. auto.
  Qed.

  Lemma o_del_child_names hl p name : Forall names_ok hl -> Forall names_ok (o_del_child hl p name).
  Proof.
    intros H. unfold o_del_child. destruct (oget hl p) as [n|] eqn:E; [|exact H].
    apply names_upd; [exact H|]. unfold names_ok, on_with_ch. cbn [on_ch]. apply names_aremove. exact (names_get p H E).
  Qed.

  Lemma o_release_sim hw hl c : Forall2 onrel hw hl -> Forall2 onrel (o_release hw c) (o_release hl c).
  Proof.
    intros H. unfold o_release. oget_cases hw hl c H Ew El nw nl Hn; [|exact H].
    apply oheap_upd; [exact H|]. destruct Hn as (E1 & E2 & E3 & E4 & E5). unfold onrel, on_remove, on_dir in *. cbn.
    rewrite E2, E3. auto.
  Qed.

  Lemma o_release_names hl c : Forall names_ok hl -> Forall names_ok (o_release hl c).
  Proof.
    intros H. unfold o_release. destruct (oget hl c) as [n|] eqn:E; [|exact H].
    apply names_upd; [exact H|]. unfold names_ok, on_remove. cbn [on_ch]. constructor.
  Qed.
End OSim.

(* ---- the calls --------------------------------------------------------------------------------------- *)
Section OCalls.
  Variable d : N.
  Hypothesis Hd : is_letter d = true.
  Notation W := (W d).
  Notation orel := (orel d).
  Notation wkey := (wkey d).

  Lemma has_lor x y bit : has (N.lor x y) bit = has x bit || has y bit.
  Proof.
    unfold has. rewrite N.land_lor_distr_l.
    destruct (N.eqb_spec (N.land x bit) 0) as [Ex|Ex]; destruct (N.eqb_spec (N.land y bit) 0) as [Ey|Ey]; cbn [negb orb].
    - rewrite Ex, Ey. reflexivity.
    - rewrite Ex. cbn [N.lor]. destruct (N.eqb_spec (N.land y bit) 0); [contradiction|reflexivity].
    - destruct (N.eqb_spec (N.lor (N.land x bit) (N.land y bit)) 0) as [E|_]; [|reflexivity]. apply N.lor_eq_0_iff in E as [E _]. contradiction.
    - destruct (N.eqb_spec (N.lor (N.land x bit) (N.land y bit)) 0) as [E|_]; [|reflexivity]. apply N.lor_eq_0_iff in E as [E _]. contradiction.
  Qed.

  Lemma dir_mode_dir os x : has (N.lor (dir_mode os) x) MODE_DIR = true.
  Proof. rewrite has_lor. destruct os; reflexivity. Qed.

  Lemma no_dir_bit x m um : N.land m MODE_DIR = 0%N -> has (N.ldiff (N.land x m) um) MODE_DIR = false.
  Proof.
    intros Hm. unfold has. assert (E : N.land (N.ldiff (N.land x m) um) MODE_DIR = 0%N).
    { apply N.bits_inj. intros n. rewrite N.land_spec, N.ldiff_spec, N.land_spec, N.bits_0.
      assert (Hb : N.testbit m n && N.testbit MODE_DIR n = false).
      { rewrite <- N.land_spec, Hm. apply N.bits_0. }
      destruct (N.testbit x n), (N.testbit m n), (N.testbit um n), (N.testbit MODE_DIR n); cbn in *; congruence. }
    rewrite E. reflexivity.
  Qed.

  Lemma file_mode_nodir os x um : has (N.lor (file_mode os) (N.ldiff (N.land x FILE_MODE_MASK) um)) MODE_DIR = false.
  Proof. rewrite has_lor, no_dir_bit by reflexivity. destruct os; reflexivity. Qed.

  (* the set-group-ID bit a new directory inherits does not touch the directory bit *)
  Lemma has_inherit (b : bool) m : has (if b then N.lor m MODE_SETGID else m) MODE_DIR = has m MODE_DIR.
  Proof. destruct b; [|reflexivity]. rewrite has_lor. change (has MODE_SETGID MODE_DIR) with false. apply orb_false_r. Qed.

  (* creation of a node under related states *)
  Lemma o_create_node_sim sw sl (O : orel sw sl) parent (k name : str) mw ml :
    keyok k -> k <> [] -> map phi name = name /\ okstr name -> has mw MODE_DIR = has ml MODE_DIR ->
    orel (fst (o_create_node sw parent (W k) name mw)) (fst (o_create_node sl parent k name ml))
    /\ snd (o_create_node sw parent (W k) name mw) = snd (o_create_node sl parent k name ml).
  Proof.
    intros Hk Hne Hn Hm. unfold o_create_node. cbn [fst snd].
    rewrite (oheap_length (or_heap O)). split; [|reflexivity].
    constructor; cbn [o_index o_heap o_last_id o_user o_umask o_os o_cwd].
    - rewrite (or_index O). apply (aset_W d).
    - apply keys_aset; [exact Hk|apply O].
    - apply o_add_child_sim. apply Forall2_app; [apply O|]. constructor; [|constructor].
      unfold onrel, on_dir. cbn [on_ch on_data on_nlink on_id on_meta m_mode]. rewrite (or_id O), !has_inherit. auto.
    - apply o_add_child_names; [exact Hn|]. apply Forall_app. split; [apply O|]. constructor; [constructor|constructor].
    - rewrite (or_id O). reflexivity.
    - apply O.
    - apply O.
    - apply O.
    - apply O.
    - rewrite (ikey_aset_other _ _ (fun E : [] = k => Hne (eq_sym E))). apply O.
  Qed.

  Lemma o_create_dir_sim sw sl (O : orel sw sl) parent (k name : str) perm :
    keyok k -> k <> [] -> map phi name = name /\ okstr name ->
    orel (fst (o_create_dir sw parent (W k) name perm)) (fst (o_create_dir sl parent k name perm))
    /\ snd (o_create_dir sw parent (W k) name perm) = snd (o_create_dir sl parent k name perm).
  Proof.
    intros Hk Hne Hn. unfold o_create_dir. rewrite (or_umask O). apply o_create_node_sim; auto.
    rewrite !dir_mode_dir. reflexivity.
  Qed.

  Lemma o_create_file_sim sw sl (O : orel sw sl) parent (k name : str) perm :
    keyok k -> k <> [] -> map phi name = name /\ okstr name ->
    orel (fst (o_create_file sw parent (W k) name perm)) (fst (o_create_file sl parent k name perm))
    /\ snd (o_create_file sw parent (W k) name perm) = snd (o_create_file sl parent k name perm).
  Proof.
    intros Hk Hne Hn. unfold o_create_file. rewrite (or_umask O). apply o_create_node_sim; auto.
    rewrite !file_mode_nodir. reflexivity.
  Qed.

  Definition ocrel (xw xl : ofs * res) : Prop := orel (fst xw) (fst xl) /\ okres (snd xw) = okres (snd xl).

  Lemma ocrel_fail sw sl ew el : orel sw sl -> ocrel (sw, RFail ew) (sl, RFail el).
  Proof. intros O. split; [exact O|reflexivity]. Qed.
  Lemma ocrel_same sw sl r : orel sw sl -> ocrel (sw, r) (sl, r).
  Proof. intros O. split; [exact O|reflexivity]. Qed.

  Lemma rooted_ne (q : str) : rooted q -> q <> [].
  Proof. intros (r & ->). discriminate. Qed.

  Lemma keyok_rooted (q : str) : okstr q -> rooted q -> keyok q.
  Proof. intros H1 H2. split; [exact H1|right; exact H2]. Qed.

  (* the search for the nearest existing ancestor (Mkdir) *)
  Lemma ikey_short (idx : list (str * nat)) : ikey (map wkey idx) [d] = None.
  Proof.
    unfold ikey. induction idx as [|[k i] idx IH]; [reflexivity|]. cbn [map alookup]. unfold wkey at 1. cbn [fst snd].
    unfold PathEquiv.W, vol. cbn [app str_eqb]. rewrite N.eqb_refl. cbn [andb]. exact IH.
  Qed.

  Ltac use_abs sw sl r O Hok q Hoka Hra :=
    let Ea := fresh "Ea" in
    destruct (@oabs_W d Hd sw sl r O Hok) as (Ea & Hoka & Hra); rewrite Ea; clear Ea;
    set (q := oabs sl (SLASH :: r)) in *.

  Ltac use_split q Hoka Hra dl fl E1 E2 Hkd Hokf Hmp Hlt Hq :=
    destruct (@osplit_W d q Hoka Hra) as (dl & fl & E1 & E2 & Hkd & Hokf & Hmp & Hlt & Hq).

  Ltac use_find sw sl k O iw nw il nl Hi Hn :=
    let Hf := fresh "Hf" in let Efl := fresh "Efl" in
    pose proof (@ofind_W d sw sl k O) as Hf;
    destruct (ofind sw (W k)) as [[iw nw]|]; destruct (ofind sl k) as [[il nl]|] eqn:Efl; try contradiction;
    [destruct Hf as (Hi & Hn); subst iw|clear Hf].

  Lemma ofind_get sl (k : str) i n : ofind sl k = Some (i, n) -> oget (o_heap sl) i = Some n.
  Proof.
    unfold ofind. destruct (ikey (o_index sl) k) as [j|]; [|discriminate].
    destruct (oget (o_heap sl) j) eqn:E; [|discriminate]. intros [= <- <-]. exact E.
  Qed.

  Lemma ofind_names sw sl (O : orel sw sl) (k : str) i n : ofind sl k = Some (i, n) -> names_ok n.
  Proof. intros E. exact (@names_get (o_heap sl) i n (or_names O) (@ofind_get sl k i n E)). Qed.

  Ltac expose_W :=
    match goal with |- context [PathEquiv.W d (SLASH :: ?r)] =>
      change (PathEquiv.W d (SLASH :: r)) with (d :: COLON :: BSLASH :: map phi r) end.

  (* ---- Mkdir -------------------------------------------------------------------------------------- *)
  Lemma o_mkdir_sim sw sl (O : orel sw sl) (r : str) perm : okstr (SLASH :: r) ->
    ocrel (o_mkdir sw (W (SLASH :: r)) perm) (o_mkdir sl (SLASH :: r) perm).
  Proof.
    intros Hok. unfold o_mkdir.
    destruct (@oabs_W d Hd sw sl r O Hok) as (Ea & Hoka & Hra).
    set (qw := oabs sw (W (SLASH :: r))) in *. set (q := oabs sl (SLASH :: r)) in *. expose_W. cbv iota.
    rewrite Ea, (or_osw O), (or_osl O).
    use_split q Hoka Hra dl fl E1 E2 Hkd Hokf Hmp Hlt Hq. rewrite E1, E2.
    use_find sw sl q O iw nw il nl Hi Hn; [apply ocrel_fail, O|].
    use_find sw sl dl O pw pnw pl pnl Hpi Hpn.
    - destruct Hpn as (_ & _ & _ & _ & Hdir). rewrite Hdir. destruct (negb (on_dir pnl)); [apply ocrel_fail, O|].
      destruct (@o_create_dir_sim sw sl O pl q fl perm (keyok_rooted Hoka Hra) (rooted_ne Hra) (conj Hmp Hokf)) as [O1 _].
      split; [exact O1|reflexivity].
    - split; [exact O|]. cbn [snd]. apply o_enf_sim; [exact O|reflexivity|exact (keyok_rooted Hoka Hra)].
  Qed.

  (* ---- MkdirAll ----------------------------------------------------------------------------------- *)
  Lemma o_missing_sim sw sl (O : orel sw sl) : forall fl fw (q : str) (ds : list str), keyok q ->
    Forall (fun p : str => okstr p /\ rooted p) ds ->
    length q < fl -> length q < fw ->
    match o_missing fw sw (W q) (map W ds), o_missing fl sl q ds with
    | inl rw, inl rl => okres rw = okres rl
    | inr (dsw, iw), inr (dsl, il) => dsw = map W dsl /\ iw = il /\ Forall (fun p : str => okstr p /\ rooted p) dsl
    | _, _ => False
    end.
  Proof.
    induction fl as [|fl IH]; intros fw q ds Hq Hds Hl Hw; [lia|]. destruct fw as [|fw]; [lia|].
    cbn [o_missing].
    use_find sw sl q O iw nw il nl Hi Hn.
    - destruct Hn as (_ & _ & _ & _ & Hdir). rewrite Hdir. destruct (on_dir nl); [auto|reflexivity].
    - rewrite (or_osw O), (or_osl O), (vnl_W d), (length_W d). cbn [volume_name_len].
      destruct Hq as (Hokq & [->|Hrq]).
      + reflexivity.
      + destruct Hrq as (r0 & ->). cbn [length Nat.leb Nat.add].
        assert (Hrq : rooted (SLASH :: r0)) by (exists r0; reflexivity).
        set (q := SLASH :: r0) in *. use_split q Hokq Hrq dl fl' E1 E2 Hkd Hokf Hmp Hlt Hqeq. rewrite E1, E2.
        replace (map W ds ++ [W q]) with (map W (ds ++ [q])) by (rewrite map_app; reflexivity).
        apply IH; [exact Hkd| |lia|lia]. apply Forall_app. split; [exact Hds|constructor; [split; assumption|constructor]].
  Qed.

  Lemma split_abs_file (q : str) : okstr q -> rooted q ->
    snd (split_abs Windows (W q)) = snd (split_abs Linux q)
    /\ map phi (snd (split_abs Linux q)) = snd (split_abs Linux q) /\ okstr (snd (split_abs Linux q)).
  Proof.
    intros Hok Hr. use_split q Hok Hr dl fl E1 E2 Hkd Hokf Hmp Hlt Hq.
    assert (H1 : split_abs Linux q = (dl, fl)).
    { unfold osplit in E1. destruct (Nat.eqb _ 0) in E1; [discriminate|]. congruence. }
    assert (H2 : split_abs Windows (W q) = (W dl, fl)).
    { unfold osplit in E2. destruct (Nat.eqb _ 0) in E2; [discriminate|]. congruence. }
    rewrite H1, H2. cbn [snd]. auto.
  Qed.

  Lemma o_create_chain_sim perm : forall (ps : list str) sw sl parent, orel sw sl ->
    Forall (fun p : str => okstr p /\ rooted p) ps ->
    orel (o_create_chain sw parent (map W ps) perm) (o_create_chain sl parent ps perm).
  Proof.
    induction ps as [|p ps IH]; intros sw sl parent O Hps; [exact O|].
    inversion Hps as [|? ? (Hokp & Hrp) Hps']; subst. cbn [map o_create_chain].
    rewrite (or_osw O), (or_osl O).
    destruct (split_abs_file Hokp Hrp) as (Ef & Hmp & Hokf). rewrite Ef.
    destruct (@o_create_dir_sim sw sl O parent p (snd (split_abs Linux p)) perm (keyok_rooted Hokp Hrp) (rooted_ne Hrp) (conj Hmp Hokf)) as [O1 Ec].
    destruct (o_create_dir sw parent (W p) (snd (split_abs Linux p)) perm) as [sw1 cw].
    destruct (o_create_dir sl parent p (snd (split_abs Linux p)) perm) as [sl1 cl]. cbn [fst snd] in O1, Ec. subst cw.
    apply IH; assumption.
  Qed.

  Lemma o_mkdir_all_sim sw sl (O : orel sw sl) (r : str) perm : okstr (SLASH :: r) ->
    ocrel (o_mkdir_all sw (W (SLASH :: r)) perm) (o_mkdir_all sl (SLASH :: r) perm).
  Proof.
    intros Hok. unfold o_mkdir_all. use_abs sw sl r O Hok q Hoka Hra.
    use_find sw sl q O iw nw il nl Hi Hn.
    - destruct Hn as (_ & _ & _ & _ & Hdir). rewrite Hdir. destruct (on_dir nl); [apply ocrel_same, O|apply ocrel_fail, O].
    - pose proof (@o_missing_sim sw sl O (S (length q)) (S (length (W q))) q [] (keyok_rooted Hoka Hra) (Forall_nil _)) as Hm.
      rewrite (length_W d) in Hm. specialize (Hm ltac:(lia) ltac:(lia)). cbn [map] in Hm. rewrite (length_W d).
      destruct (o_missing (S (2 + length q)) sw (W q) []) as [rw|[dsw iw]];
        destruct (o_missing (S (length q)) sl q []) as [rl|[dsl il]]; try contradiction.
      + split; [exact O|exact Hm].
      + destruct Hm as (-> & -> & Hds). split; [|reflexivity]. cbn [fst]. rewrite <- map_rev.
        apply o_create_chain_sim; [exact O|]. apply Forall_rev, Hds.
  Qed.

  (* ---- updates of one node --------------------------------------------------------------------------- *)
  Lemma orel_with_heap sw sl hw hl : orel sw sl -> Forall2 onrel hw hl -> Forall names_ok hl ->
    orel (o_with_heap sw hw) (o_with_heap sl hl).
  Proof. intros O H Hn. destruct O. constructor; cbn; auto. Qed.

  Lemma orel_with sw sl idx hw hl : orel sw sl -> Forall (fun e : str * nat => keyok (fst e)) idx ->
    ikey idx [] <> None -> Forall2 onrel hw hl -> Forall names_ok hl ->
    orel (o_with sw (map wkey idx) hw) (o_with sl idx hl).
  Proof. intros O Hk Hr H Hn. destruct O. constructor; cbn; auto. Qed.

  Lemma onrel_data nw nl dt : onrel nw nl -> onrel (on_with_data nw dt) (on_with_data nl dt).
  Proof. intros (E1 & E2 & E3 & E4 & E5). unfold onrel, on_with_data, on_dir in *. cbn. auto. Qed.

  Lemma names_data nl dt : names_ok nl -> names_ok (on_with_data nl dt).
  Proof. intros H. exact H. Qed.

  Lemma onrel_meta nw nl mw ml : onrel nw nl -> has (m_mode mw) MODE_DIR = has (m_mode ml) MODE_DIR ->
    onrel (on_with_meta nw mw) (on_with_meta nl ml).
  Proof. intros (E1 & E2 & E3 & E4 & E5) Hm. unfold onrel, on_with_meta, on_dir in *. cbn. auto. Qed.

  Lemma with_mode_dir m mode : has (m_mode (with_mode m mode)) MODE_DIR = has (m_mode m) MODE_DIR.
  Proof.
    unfold with_mode. cbn [m_mode]. rewrite has_lor.
    assert (H1 : has (N.land mode FILE_MODE_MASK) MODE_DIR = false).
    { pose proof (@no_dir_bit mode FILE_MODE_MASK 0 eq_refl) as H. rewrite N.ldiff_0_r in H. exact H. }
    rewrite H1, orb_false_r. unfold has. f_equal. f_equal.
    apply N.bits_inj. intros n. rewrite !N.land_spec, N.ldiff_spec.
    destruct (N.testbit MODE_DIR n) eqn:Eb; [|rewrite !andb_false_r; reflexivity].
    assert (Hf : N.testbit FILE_MODE_MASK n = false).
    { assert (H : N.testbit (N.land FILE_MODE_MASK MODE_DIR) n = false) by (change (N.land FILE_MODE_MASK MODE_DIR) with 0%N; apply N.bits_0).
      rewrite N.land_spec, Eb, andb_true_r in H. exact H. }
    rewrite Hf. cbn. rewrite andb_true_r. reflexivity.
  Qed.

  (* ---- OpenFile ------------------------------------------------------------------------------------- *)
  Definition ohdrel (fw fl : handle) : Prop :=
    hd_node fw = hd_node fl /\ hd_at fw = hd_at fl /\ hd_mode fw = hd_mode fl
    /\ hd_dir_infos fw = None /\ hd_dir_infos fl = None /\ hd_dir_names fw = None /\ hd_dir_names fl = None
    /\ hd_dir_index fw = hd_dir_index fl /\ hd_name fw <> [] /\ hd_name fl <> [] /\ hd_node fl <> None.

  Definition oorel (xw xl : ofs * (res + handle)) : Prop :=
    orel (fst xw) (fst xl) /\
    match snd xw, snd xl with
    | inl a, inl b => okres a = okres b
    | inr fw, inr fl => ohdrel fw fl
    | _, _ => False
    end.

  Lemma ohdrel_new c (r : str) at_ om : ohdrel (new_handle c 0 (W (SLASH :: r)) at_ om) (new_handle c 0 (SLASH :: r) at_ om).
  Proof. unfold ohdrel, new_handle. cbn. repeat split; auto; discriminate. Qed.

  Lemma o_open_file_sim sw sl (O : orel sw sl) (r : str) flag perm : okstr (SLASH :: r) ->
    oorel (o_open_file sw (W (SLASH :: r)) flag perm) (o_open_file sl (SLASH :: r) flag perm).
  Proof.
    intros Hok. unfold o_open_file.
    destruct (@oabs_W d Hd sw sl r O Hok) as (Ea & Hoka & Hra). rewrite Ea.
    set (q := oabs sl (SLASH :: r)) in *. rewrite (or_osw O), (or_osl O).
    use_split q Hoka Hra dl fl E1 E2 Hkd Hokf Hmp Hlt Hq. rewrite E1, E2.
    set (om := to_open_mode flag).
    use_find sw sl q O iw nw il nl Hi Hn.
    - destruct Hn as (Ech & Edt & Enl & Eid & Hdir). rewrite Hdir, Edt. destruct (on_dir nl) eqn:Edir.
      + destruct (has om OpenCreateExcl); [split; [exact O|reflexivity]|].
        destruct (has om OpenWrite || has om OpenCreate || has om OpenTruncate); [split; [exact O|reflexivity]|].
        split; [exact O|apply ohdrel_new].
      + destruct (has om OpenCreateExcl); [split; [exact O|reflexivity]|].
        split; [|apply ohdrel_new]. cbn [fst].
        pose proof (oheap_get il (or_heap O)) as Hg.
        apply orel_with_heap; [exact O| |].
        * apply oheap_upd; [apply O|]. apply onrel_data. unfold onrel. repeat split; try assumption; congruence.
        * apply names_upd; [apply O|]. apply names_data. exact (@ofind_names sw sl O q il nl Efl).
    - use_find sw sl dl O pw pnw pl pnl Hpi Hpn.
      + destruct Hpn as (_ & _ & _ & _ & Hdir). rewrite Hdir.
        destruct (negb (on_dir pnl)); [split; [exact O|reflexivity]|].
        destruct (negb (has om OpenCreate)); [split; [exact O|reflexivity]|].
        destruct (@o_create_file_sim sw sl O pl q fl perm (keyok_rooted Hoka Hra) (rooted_ne Hra) (conj Hmp Hokf)) as [O1 Ec].
        destruct (o_create_file sw pl (W q) fl perm) as [sw1 cw]. destruct (o_create_file sl pl q fl perm) as [sl1 cl].
        cbn [fst snd] in O1, Ec. subst cw. split; [exact O1|apply ohdrel_new].
      + split; [exact O|]. cbn [snd]. apply o_enf_sim; [exact O|reflexivity|exact (keyok_rooted Hoka Hra)].
  Qed.

  Lemma enf_fail sw sl (O : orel sw sl) (q : str) ew el : keyok q ->
    okres (o_enf sw (W q) (RFail ew)) = okres (o_enf sl q (RFail el)).
  Proof. intros Hq. apply o_enf_sim; [exact O|reflexivity|exact Hq]. Qed.

  Lemma o_enf_fails (s : ofs) (p : str) e : okres (o_enf s p (RFail e)) = false.
  Proof.
    unfold o_enf. generalize (S (length p)). intros fuel. revert p. induction fuel as [|f IH]; intros p; [reflexivity|].
    cbn [o_enf_loop]. destruct (Nat.leb _ _); [reflexivity|]. destruct (osplit (o_os s) p) as [[dn fn]|]; [|reflexivity].
    destruct (ofind s dn) as [[i n]|]; [destruct (on_dir n); reflexivity|apply IH].
  Qed.

  (* ---- Remove --------------------------------------------------------------------------------------- *)
  Lemma o_remove_sim sw sl (O : orel sw sl) (r : str) : okstr (SLASH :: r) ->
    ocrel (o_remove sw (W (SLASH :: r))) (o_remove sl (SLASH :: r)).
  Proof.
    intros Hok. unfold o_remove. use_abs sw sl r O Hok q Hoka Hra. rewrite (or_osw O), (or_osl O).
    use_split q Hoka Hra dl fl E1 E2 Hkd Hokf Hmp Hlt Hq. rewrite E1, E2.
    pose proof (keyok_rooted Hoka Hra) as Hkq.
    use_find sw sl q O iw nw il nl Hi Hn.
    2:{ destruct (ofind sw (W dl)) as [[? ?]|]; destruct (ofind sl dl) as [[? ?]|];
          (split; [exact O|cbn [snd]; apply enf_fail; [exact O|exact Hkq]]). }
    use_find sw sl dl O pw pnw pl pnl Hpi Hpn.
    2:{ split; [exact O|cbn [snd]; apply enf_fail; [exact O|exact Hkq]]. }
    destruct (Nat.eqb il pl); [apply ocrel_fail, O|].
    destruct Hn as (Ech & Edt & Enl & Eid & Hdir). rewrite Hdir, Ech.
    destruct (on_dir nl && match on_ch nl with [] => false | _ :: _ => true end); [apply ocrel_fail, O|].
    split; [|reflexivity]. cbn [fst]. rewrite (or_index O), (aremove_W d).
    apply orel_with; [exact O|apply keys_aremove, O| | |].
    - rewrite (ikey_aremove_other _ (fun E : [] = q => rooted_ne Hra (eq_sym E))). apply O.
    - apply o_del_child_sim, o_release_sim, O.
    - apply o_del_child_names, o_release_names, O.
  Qed.

  (* ---- calls on one existing node ----------------------------------------------------------------------- *)
  Lemma o_truncate_sim sw sl (O : orel sw sl) (r : str) size : okstr (SLASH :: r) ->
    ocrel (o_truncate sw (W (SLASH :: r)) size) (o_truncate sl (SLASH :: r) size).
  Proof.
    intros Hok. unfold o_truncate, owin. rewrite (or_osw O), (or_osl O). cbn [ostype_eqb negb]. rewrite andb_false_r.
    destruct (@oabs_W d Hd sw sl r O Hok) as (Ea & Hoka & Hra). rewrite Ea. set (q := oabs sl (SLASH :: r)) in *.
    pose proof (keyok_rooted Hoka Hra) as Hkq.
    destruct (Z.ltb size 0) eqn:Esz; cbn [andb].
    - (* negative size: refused at once on Linux, after the lookup on Windows *)
      split; [|].
      + destruct (ofind sw (W q)) as [[c cn]|]; [|exact O]. destruct (on_dir cn); exact O.
      + destruct (ofind sw (W q)) as [[c cn]|]; cbn [snd].
        * destruct (on_dir cn); reflexivity.
        * rewrite o_enf_fails. reflexivity.
    - use_find sw sl q O iw nw il nl Hi Hn.
      2:{ split; [exact O|cbn [snd]; apply enf_fail; [exact O|exact Hkq]]. }
      destruct Hn as (Ech & Edt & Enl & Eid & Hdir). rewrite Hdir, Edt. destruct (on_dir nl) eqn:Edir; [apply ocrel_fail, O|].
      split; [|reflexivity]. cbn [fst]. apply orel_with_heap; [exact O| |].
      + apply oheap_upd; [apply O|]. apply onrel_data. unfold onrel. repeat split; try assumption; congruence.
      + apply names_upd; [apply O|]. apply names_data. exact (@ofind_names sw sl O q il nl Efl).
  Qed.

  Lemma o_chmod_sim sw sl (O : orel sw sl) (r : str) mode : okstr (SLASH :: r) ->
    ocrel (o_chmod sw (W (SLASH :: r)) mode) (o_chmod sl (SLASH :: r) mode).
  Proof.
    intros Hok. unfold o_chmod. use_abs sw sl r O Hok q Hoka Hra.
    pose proof (keyok_rooted Hoka Hra) as Hkq.
    use_find sw sl q O iw nw il nl Hi Hn.
    2:{ split; [exact O|cbn [snd]; apply enf_fail; [exact O|exact Hkq]]. }
    split; [|reflexivity]. cbn [fst]. apply orel_with_heap; [exact O| |].
    - apply oheap_upd; [apply O|]. apply onrel_meta; [exact Hn|]. rewrite !with_mode_dir. apply Hn.
    - apply names_upd; [apply O|]. exact (@ofind_names sw sl O q il nl Efl).
  Qed.

  (* Chown / Lchown: not supported on Windows (documented); the states stay related *)
  Lemma o_chown_sim sw sl (O : orel sw sl) (r : str) uid gid : okstr (SLASH :: r) ->
    orel (fst (o_chown sw (W (SLASH :: r)) uid gid)) (fst (o_chown sl (SLASH :: r) uid gid))
    /\ okres (snd (o_chown sw (W (SLASH :: r)) uid gid)) = false.
  Proof.
    intros Hok. unfold o_chown, owin. rewrite (or_osw O), (or_osl O). cbn [ostype_eqb fst snd]. split; [|reflexivity].
    destruct (ofind sl (oabs sl (SLASH :: r))) as [[c cn]|] eqn:Efl; [|exact O]. cbn [fst].
    destruct O as [OI OK OH ON OD OU OM OW OL OR]. constructor; cbn [o_with_heap o_with o_index o_heap o_last_id o_user o_umask o_os]; auto.
    - (* only the owner changes, on the Linux side *)
      pose proof (@ofind_get sl _ c cn Efl) as Eg. clear -OH Eg.
      revert c Eg. induction OH as [|a b hw hl Hab H IH]; intros c Eg; [destruct c; discriminate|].
      destruct c; cbn [oupd].
      + cbn in Eg. injection Eg as ->. constructor; [|exact H]. destruct Hab as (E1 & E2 & E3 & E4 & E5).
        unfold onrel, on_with_meta, on_dir in *. cbn [on_ch on_data on_nlink on_id on_meta]. rewrite o_chown_meta_dir. auto.
      + constructor; [exact Hab|]. apply IH. exact Eg.
    - apply names_upd; [exact ON|]. exact (@names_get (o_heap sl) c cn ON (@ofind_get sl _ c cn Efl)).
  Qed.

  Lemma o_chtimes_sim sw sl (O : orel sw sl) (r : str) : okstr (SLASH :: r) ->
    okres (o_chtimes sw (W (SLASH :: r))) = okres (o_chtimes sl (SLASH :: r)).
  Proof.
    intros Hok. unfold o_chtimes. use_abs sw sl r O Hok q Hoka Hra.
    use_find sw sl q O iw nw il nl Hi Hn; [reflexivity|]. apply enf_fail; [exact O|exact (keyok_rooted Hoka Hra)].
  Qed.

  Lemma orel_with_cwd sw sl cw cl : orel sw sl -> orel (o_with_cwd sw cw) (o_with_cwd sl cl).
  Proof. intros O. destruct O. constructor; cbn; auto. Qed.

  Lemma o_chdir_sim sw sl (O : orel sw sl) (r : str) : okstr (SLASH :: r) ->
    ocrel (o_chdir sw (W (SLASH :: r))) (o_chdir sl (SLASH :: r)).
  Proof.
    intros Hok. unfold o_chdir. use_abs sw sl r O Hok q Hoka Hra.
    use_find sw sl q O iw nw il nl Hi Hn.
    2:{ split; [exact O|cbn [snd]; apply enf_fail; [exact O|exact (keyok_rooted Hoka Hra)]]. }
    destruct Hn as (_ & _ & _ & _ & Hdir). rewrite Hdir. destruct (on_dir nl); [|apply ocrel_fail, O].
    split; [apply orel_with_cwd, O|reflexivity].
  Qed.

  Lemma o_stat_sim sw sl (O : orel sw sl) (r : str) : okstr (SLASH :: r) ->
    okres (o_stat sw (W (SLASH :: r))) = okres (o_stat sl (SLASH :: r)).
  Proof.
    intros Hok. unfold o_stat. use_abs sw sl r O Hok q Hoka Hra. rewrite (or_osw O), (or_osl O).
    use_split q Hoka Hra dl fl E1 E2 Hkd Hokf Hmp Hlt Hq. rewrite E1, E2.
    use_find sw sl q O iw nw il nl Hi Hn; [reflexivity|].
    use_find sw sl dl O pw pnw pl pnl Hpi Hpn.
    - destruct Hpn as (_ & _ & _ & _ & Hdir). rewrite Hdir. destruct (on_dir pnl); reflexivity.
    - apply enf_fail; [exact O|exact (keyok_rooted Hoka Hra)].
  Qed.

  (* ---- Link ------------------------------------------------------------------------------------------ *)
  Lemma onrel_nlink nw nl k : onrel nw nl -> onrel (on_with_nlink nw k) (on_with_nlink nl k).
  Proof. intros (E1 & E2 & E3 & E4 & E5). unfold onrel, on_with_nlink, on_dir in *. cbn. auto. Qed.

  Lemma o_link_sim sw sl (O : orel sw sl) (ro rn : str) : okstr (SLASH :: ro) -> okstr (SLASH :: rn) ->
    ocrel (o_link sw (W (SLASH :: ro)) (W (SLASH :: rn))) (o_link sl (SLASH :: ro) (SLASH :: rn)).
  Proof.
    intros Hoko Hokn. unfold o_link, owin.
    destruct (@oabs_W d Hd sw sl ro O Hoko) as (Eao & Hokao & Hrao). rewrite Eao. set (qo := oabs sl (SLASH :: ro)) in *.
    destruct (@oabs_W d Hd sw sl rn O Hokn) as (Ean & Hokan & Hran). rewrite Ean. set (qn := oabs sl (SLASH :: rn)) in *.
    rewrite (or_osw O), (or_osl O). cbn [ostype_eqb].
    use_split qn Hokan Hran dn fn E1 E2 Hkd Hokf Hmp Hlt Hq. rewrite E1, E2.
    pose proof (keyok_rooted Hokao Hrao) as Hkqo. pose proof (keyok_rooted Hokan Hran) as Hkqn.
    use_find sw sl qo O iw nw il nl Hi Hn.
    2:{ use_split qo Hokao Hrao dno fno E3 E4 Hkdo Hokfo Hmpo Hlto Hqo. rewrite E4.
        split; [exact O|]. cbn [snd].
        destruct (ofind sw (W dno)) as [[? ?]|]; [rewrite !o_enf_fails; reflexivity|rewrite o_enf_fails; reflexivity]. }
    use_find sw sl dn O pw pnw pl pnl Hpi Hpn.
    2:{ split; [exact O|cbn [snd]; apply enf_fail; [exact O|exact Hkqn]]. }
    destruct Hpn as (_ & _ & _ & _ & Hdirp). rewrite Hdirp. destruct (negb (on_dir pnl)); [apply ocrel_fail, O|].
    use_find sw sl qn O cw cnw cl cnl Hci Hcn; [apply ocrel_fail, O|].
    destruct Hn as (Ech & Edt & Enl & Eid & Hdir). rewrite Hdir. destruct (on_dir nl) eqn:Edir; [apply ocrel_fail, O|].
    split; [|reflexivity]. cbn [fst]. rewrite (or_index O), (aset_W d).
    assert (H1 : Forall2 onrel (o_add_child (o_heap sw) pl fn il) (o_add_child (o_heap sl) pl fn il)) by (apply o_add_child_sim, O).
    assert (N1 : Forall names_ok (o_add_child (o_heap sl) pl fn il)) by (apply o_add_child_names; [split; assumption|apply O]).
    apply orel_with; [exact O|apply keys_aset; [exact Hkqn|apply O]| | |].
    - rewrite (ikey_aset_other _ _ (fun E : [] = qn => rooted_ne Hran (eq_sym E))). apply O.
    - pose proof (oheap_get il H1) as Hg.
      destruct (oget (o_add_child (o_heap sw) pl fn il) il) as [a|]; destruct (oget (o_add_child (o_heap sl) pl fn il) il) as [b|];
        try contradiction; [|exact H1].
      destruct Hg as (G1 & G2 & G3 & G4 & G5). rewrite G3. apply oheap_upd; [exact H1|]. apply onrel_nlink. unfold onrel. auto.
    - destruct (oget (o_add_child (o_heap sl) pl fn il) il) as [b|] eqn:Eb; [|exact N1].
      apply names_upd; [exact N1|]. exact (@names_get _ il b N1 Eb).
  Qed.

  (* ---- RemoveAll -------------------------------------------------------------------------------------- *)
  Definition strel (stw stl : list (str * nat) * oheap) : Prop :=
    fst stw = map wkey (fst stl) /\ Forall (fun e : str * nat => keyok (fst e)) (fst stl)
    /\ Forall2 onrel (snd stw) (snd stl) /\ Forall names_ok (snd stl) /\ ikey (fst stl) [] <> None.

  Lemma fold_rel (A B X : Type) (Rel : A -> B -> Prop) (P : X -> Prop) (f : A -> X -> A) (g : B -> X -> B) (l : list X) :
    (forall a b x, P x -> Rel a b -> Rel (f a x) (g b x)) -> Forall P l ->
    forall a b, Rel a b -> Rel (fold_left f l a) (fold_left g l b).
  Proof.
    intros Hstep Hl. induction Hl as [|x l Hx Hl IH]; intros a b Hab; [exact Hab|]. cbn [fold_left]. apply IH, Hstep; assumption.
  Qed.

  Lemma o_rm_all_sim : forall fuel stw stl (q : str) i, strel stw stl -> okstr q -> rooted q ->
    strel (o_rm_all fuel Windows stw (W q) i) (o_rm_all fuel Linux stl q i).
  Proof.
    induction fuel as [|fuel IH]; intros stw stl q i St Hok Hr; [exact St|]. cbn [o_rm_all].
    set (st1w := match oget (snd stw) i with
                 | Some n => if on_dir n
                             then fold_left (fun acc (e : str * nat) => o_rm_all fuel Windows acc (W q ++ [sepc Windows] ++ fst e) (snd e)) (on_ch n) stw
                             else stw
                 | None => stw end).
    set (st1l := match oget (snd stl) i with
                 | Some n => if on_dir n
                             then fold_left (fun acc (e : str * nat) => o_rm_all fuel Linux acc (q ++ [sepc Linux] ++ fst e) (snd e)) (on_ch n) stl
                             else stl
                 | None => stl end).
    assert (S1 : strel st1w st1l).
    { unfold st1w, st1l. destruct St as (S1 & S2 & S3 & S4 & S5).
      pose proof (oheap_get i S3) as Hg.
      destruct (oget (snd stw) i) as [nw|]; destruct (oget (snd stl) i) as [nl|] eqn:El; try contradiction;
        [|repeat split; assumption].
      destruct Hg as (Ech & _ & _ & _ & Hdir). rewrite Hdir, Ech. destruct (on_dir nl); [|repeat split; assumption].
      apply (@fold_rel _ _ (str * nat) strel (fun e => map phi (fst e) = fst e /\ okstr (fst e))).
      - intros a b [name c] (Hmp & Hokn) Hab. cbn [fst snd] in *.
        replace (W q ++ [sepc Windows] ++ name) with (W (q ++ [sepc Linux] ++ name)).
        + apply IH; [exact Hab| |].
          * apply okstr_app; [exact Hok|constructor; [exact okc_SLASH|exact Hokn]].
          * destruct Hr as (r' & ->). eexists. reflexivity.
        + rewrite (W_app d). cbn [map app]. rewrite Hmp. reflexivity.
      - exact (@names_get (snd stl) i nl S4 El).
      - repeat split; assumption. }
    destruct S1 as (S1 & S2 & S3 & S4 & S5). unfold strel. cbn [fst snd]. rewrite S1, (aremove_W d).
    split; [reflexivity|]. split; [apply keys_aremove, S2|]. split; [apply o_release_sim, S3|]. split; [apply o_release_names, S4|].
    rewrite (ikey_aremove_other _ (fun E : [] = q => rooted_ne Hr (eq_sym E))). exact S5.
  Qed.

  Lemma o_remove_all_sim sw sl (O : orel sw sl) (r : str) : okstr (SLASH :: r) ->
    ocrel (o_remove_all sw (W (SLASH :: r))) (o_remove_all sl (SLASH :: r)).
  Proof.
    intros Hok. unfold o_remove_all.
    destruct (@oabs_W d Hd sw sl r O Hok) as (Ea & Hoka & Hra).
    set (qw := oabs sw (W (SLASH :: r))) in *. set (q := oabs sl (SLASH :: r)) in *. expose_W. cbv iota.
    rewrite Ea, (or_osw O), (or_osl O).
    use_split q Hoka Hra dl fl E1 E2 Hkd Hokf Hmp Hlt Hq. rewrite E1, E2.
    pose proof (keyok_rooted Hoka Hra) as Hkq.
    assert (Henf : okres (o_enf sw (W q) ROk) = okres (o_enf sl q ROk)) by (apply o_enf_sim; [exact O|reflexivity|exact Hkq]).
    use_find sw sl q O iw nw il nl Hi Hn.
    2:{ destruct (ofind sw (W dl)) as [[? ?]|]; destruct (ofind sl dl) as [[? ?]|]; (split; [exact O|exact Henf]). }
    use_find sw sl dl O pw pnw pl pnl Hpi Hpn; [|split; [exact O|exact Henf]].
    destruct (Nat.eqb il pl); [apply ocrel_fail, O|].
    assert (St : strel (o_index sw, o_heap sw) (o_index sl, o_heap sl)).
    { unfold strel. cbn [fst snd]. split; [apply O|]. split; [apply O|]. split; [apply O|]. split; [apply O|apply O]. }
    rewrite (oheap_length (or_heap O)).
    pose proof (@o_rm_all_sim (S (length (o_heap sl))) _ _ q il St Hoka Hra) as Hrm.
    destruct (o_rm_all (S (length (o_heap sl))) Windows (o_index sw, o_heap sw) (W q) il) as [idxw hw1].
    destruct (o_rm_all (S (length (o_heap sl))) Linux (o_index sl, o_heap sl) q il) as [idxl hl1].
    destruct Hrm as (S1 & S2 & S3 & S4 & S5). cbn [fst snd] in S1, S2, S3, S4, S5. subst idxw.
    split; [|reflexivity]. cbn [fst]. apply orel_with; [exact O|exact S2|exact S5|apply o_del_child_sim, S3|apply o_del_child_names, S4].
  Qed.

  (* ---- Rename ----------------------------------------------------------------------------------------- *)
  Lemma is_prefix_mp' (a b : str) : is_prefix (map phi a) (map phi b) = is_prefix a b.
  Proof.
    revert b. induction a as [|x a IH]; intros [|y b]; cbn [map is_prefix]; try reflexivity.
    rewrite phi_eqb, IH. reflexivity.
  Qed.

  Lemma is_prefix_W' (a b : str) : is_prefix (W a ++ [BSLASH]) (W b) = is_prefix (a ++ [SLASH]) b.
  Proof.
    replace (W a ++ [BSLASH]) with (W (a ++ [SLASH])) by (rewrite (W_app d); reflexivity).
    unfold PathEquiv.W, vol. cbn [app is_prefix]. rewrite !N.eqb_refl. cbn [andb]. apply is_prefix_mp'.
  Qed.

  Lemma o_rekey_W (o n : str) (idx : list (str * nat)) :
    o_rekey Windows (W o) (W n) (map wkey idx) = map wkey (o_rekey Linux o n idx).
  Proof.
    unfold o_rekey. rewrite !map_map. apply map_ext. intros [k i]. unfold wkey at 1 3. cbn [fst snd].
    change (sepc Windows) with BSLASH. change (sepc Linux) with SLASH. rewrite is_prefix_W'.
    destruct (is_prefix (o ++ [SLASH]) k); [|reflexivity]. unfold wkey. cbn [fst snd].
    rewrite (length_W d), (skipn_W d), <- (W_app d). reflexivity.
  Qed.

  Lemma o_rekey_keys (o n : str) (idx : list (str * nat)) : okstr n -> rooted n ->
    Forall (fun e : str * nat => keyok (fst e)) idx -> Forall (fun e : str * nat => keyok (fst e)) (o_rekey Linux o n idx).
  Proof.
    intros Hn (r & Hr) H. unfold o_rekey. induction H as [|[k i] idx Hk H IH]; [constructor|]. cbn [map fst snd].
    constructor; [|exact IH]. destruct (is_prefix (o ++ [sepc Linux]) k); [|exact Hk]. cbn [fst]. split.
    - apply okstr_app; [exact Hn|apply okstr_skipn, Hk].
    - right. rewrite Hr. eexists. reflexivity.
  Qed.

  Lemma o_rekey_root (o n : str) (idx : list (str * nat)) : n <> [] -> ikey (o_rekey Linux o n idx) [] = ikey idx [].
  Proof.
    intros Hn. unfold ikey, o_rekey. induction idx as [|[k i] idx IH]; [reflexivity|]. cbn [map alookup fst snd].
    destruct (is_prefix (o ++ [sepc Linux]) k) eqn:Ep; cbn [alookup].
    - destruct k as [|c k]; [destruct o; discriminate Ep|].
      destruct (n ++ skipn (length o) (c :: k)) eqn:En; [destruct n; [congruence|discriminate]|]. cbn [str_eqb]. exact IH.
    - destruct (str_eqb [] k); [reflexivity|exact IH].
  Qed.

  Lemma o_rename_sim sw sl (O : orel sw sl) (ro rn : str) : okstr (SLASH :: ro) -> okstr (SLASH :: rn) ->
    ocrel (o_rename sw (W (SLASH :: ro)) (W (SLASH :: rn))) (o_rename sl (SLASH :: ro) (SLASH :: rn)).
  Proof.
    intros Hoko Hokn. unfold o_rename, owin.
    destruct (@oabs_W d Hd sw sl ro O Hoko) as (Eao & Hokao & Hrao). rewrite Eao. set (qo := oabs sl (SLASH :: ro)) in *.
    destruct (@oabs_W d Hd sw sl rn O Hokn) as (Ean & Hokan & Hran). rewrite Ean. set (qn := oabs sl (SLASH :: rn)) in *.
    rewrite (or_osw O), (or_osl O), (str_eqb_W d). cbn [ostype_eqb].
    use_split qo Hokao Hrao dno fno E1 E2 Hkdo Hokfo Hmpo Hlto Hqo. rewrite E1, E2.
    use_split qn Hokan Hran dnn fnn E3 E4 Hkdn Hokfn Hmpn Hltn Hqn. rewrite E3, E4.
    pose proof (keyok_rooted Hokao Hrao) as Hkqo. pose proof (keyok_rooted Hokan Hran) as Hkqn.
    assert (Henfo : okres (o_enf sw (W qo) (RFail ENoSuchFile)) = okres (o_enf sl qo (RFail ENoSuchFile))) by (apply enf_fail; assumption).
    assert (Henfn : okres (o_enf sw (W qn) (RFail ENoSuchFile)) = okres (o_enf sl qn (RFail ENoSuchFile))) by (apply enf_fail; assumption).
    use_find sw sl dno O opw opnw op opn Hopi Hopn.
    2:{ destruct (ofind sw (W dnn)) as [[? ?]|]; destruct (ofind sl dnn) as [[? ?]|];
          destruct (ofind sw (W qo)) as [[? ?]|]; destruct (ofind sl qo) as [[? ?]|]; (split; [exact O|exact Henfo]). }
    destruct Hopn as (_ & _ & _ & _ & Hdop). rewrite Hdop.
    use_find sw sl dnn O npw npnw np npn Hnpi Hnpn.
    2:{ destruct (ofind sw (W qo)) as [[? ?]|]; destruct (ofind sl qo) as [[? ?]|];
          (destruct (negb (on_dir opn)); [apply ocrel_fail, O|split; [exact O|exact Henfn]]). }
    destruct Hnpn as (_ & _ & _ & _ & Hdnp). rewrite Hdnp.
    use_find sw sl qo O ocw ocnw oc ocn Hoci Hocn.
    2:{ destruct (negb (on_dir opn) || negb (on_dir npn)); [apply ocrel_fail, O|split; [exact O|exact Henfo]]. }
    destruct (negb (on_dir opn) || negb (on_dir npn)); [apply ocrel_fail, O|].
    destruct Hocn as (Ech & Edt & Enl & Eid & Hdoc). rewrite Hdoc.
    change (sepc Windows) with BSLASH. change (sepc Linux) with SLASH. rewrite is_prefix_W'.
    pose proof (@ofind_W d sw sl qn O) as Hfn.
    destruct (ofind sw (W qn)) as [[ncw nnw]|]; destruct (ofind sl qn) as [[nc nn]|] eqn:Efn; try contradiction.
    - destruct Hfn as (-> & (_ & _ & _ & _ & Hdn)). rewrite Hdn.
      destruct (on_dir nn).
      + destruct (Nat.eqb nc oc && negb (str_eqb (SLASH :: ro) (SLASH :: rn))); [apply ocrel_same, O|apply ocrel_fail, O].
      + destruct (on_dir ocn && (Nat.eqb oc op || is_prefix (qo ++ [SLASH]) qn)); [apply ocrel_fail, O|].
        destruct (on_dir ocn && true); [apply ocrel_fail, O|].
        destruct (Nat.eqb nc oc); [apply ocrel_same, O|].
        split; [|reflexivity]. cbn [fst]. rewrite (or_index O), (aset_W d), (aremove_W d).
        assert (Hidx : Forall (fun e : str * nat => keyok (fst e)) (aremove str_eqb qo (aset str_eqb qn oc (o_index sl))))
          by (apply keys_aremove, keys_aset; [exact Hkqn|apply O]).
        assert (Hroot : ikey (aremove str_eqb qo (aset str_eqb qn oc (o_index sl))) [] <> None).
        { rewrite (ikey_aremove_other _ (fun E : [] = qo => rooted_ne Hrao (eq_sym E))),
                  (ikey_aset_other _ _ (fun E : [] = qn => rooted_ne Hran (eq_sym E))). apply O. }
        assert (Hh : Forall2 onrel (o_del_child (o_add_child (o_release (o_heap sw) nc) np fnn oc) op fno)
                                   (o_del_child (o_add_child (o_release (o_heap sl) nc) np fnn oc) op fno))
          by (apply o_del_child_sim, o_add_child_sim, o_release_sim, O).
        assert (Hnm : Forall names_ok (o_del_child (o_add_child (o_release (o_heap sl) nc) np fnn oc) op fno))
          by (apply o_del_child_names, o_add_child_names; [split; assumption|apply o_release_names, O]).
        destruct (on_dir ocn).
        * rewrite o_rekey_W. apply orel_with; [exact O|apply o_rekey_keys; assumption| |exact Hh|exact Hnm].
          rewrite (o_rekey_root _ _ (rooted_ne Hran)). exact Hroot.
        * apply orel_with; assumption.
    - destruct (on_dir ocn && (Nat.eqb oc op || is_prefix (qo ++ [SLASH]) qn)); [apply ocrel_fail, O|].
      rewrite andb_false_r.
      split; [|reflexivity]. cbn [fst]. rewrite (or_index O), (aset_W d), (aremove_W d).
      assert (Hidx : Forall (fun e : str * nat => keyok (fst e)) (aremove str_eqb qo (aset str_eqb qn oc (o_index sl))))
        by (apply keys_aremove, keys_aset; [exact Hkqn|apply O]).
      assert (Hroot : ikey (aremove str_eqb qo (aset str_eqb qn oc (o_index sl))) [] <> None).
      { rewrite (ikey_aremove_other _ (fun E : [] = qo => rooted_ne Hrao (eq_sym E))),
                (ikey_aset_other _ _ (fun E : [] = qn => rooted_ne Hran (eq_sym E))). apply O. }
      assert (Hh : Forall2 onrel (o_del_child (o_add_child (o_heap sw) np fnn oc) op fno)
                                 (o_del_child (o_add_child (o_heap sl) np fnn oc) op fno))
        by (apply o_del_child_sim, o_add_child_sim, O).
      assert (Hnm : Forall names_ok (o_del_child (o_add_child (o_heap sl) np fnn oc) op fno))
        by (apply o_del_child_names, o_add_child_names; [split; assumption|apply O]).
      destruct (on_dir ocn).
      + rewrite o_rekey_W. apply orel_with; [exact O|apply o_rekey_keys; assumption| |exact Hh|exact Hnm].
        rewrite (o_rekey_root _ _ (rooted_ne Hran)). exact Hroot.
      + apply orel_with; assumption.
  Qed.

  (* ---- the composites over OpenFile -------------------------------------------------------------------- *)
  Lemma o_read_dir_sim sw sl (O : orel sw sl) (r : str) : okstr (SLASH :: r) ->
    okres (o_read_dir sw (W (SLASH :: r))) = okres (o_read_dir sl (SLASH :: r)).
  Proof.
    intros Hok. unfold o_read_dir.
    destruct (@o_open_file_sim sw sl O r 0%N 0%N Hok) as [O1 Hres].
    destruct (o_open_file sw (W (SLASH :: r)) 0 0) as [sw1 [aw|fw]];
      destruct (o_open_file sl (SLASH :: r) 0 0) as [sl1 [al|fl]]; cbn [fst snd] in *; try contradiction; [exact Hres|].
    destruct Hres as (Hn & _ & _ & Hi1 & Hi2 & _ & _ & _ & Hnw & Hnl & Hsome).
    unfold of_read_dir, o_dir_read, o_prologue. destruct (hd_name fw); [congruence|]. destruct (hd_name fl); [congruence|].
    rewrite Hn. destruct (hd_node fl) as [c|]; [|congruence].
    pose proof (oheap_get c (or_heap O1)) as Hg.
    destruct (oget (o_heap sw1) c) as [a|]; destruct (oget (o_heap sl1) c) as [b|]; try contradiction; [|reflexivity].
    destruct Hg as (_ & _ & _ & _ & Hdir). rewrite Hdir. destruct (negb (on_dir b)); [reflexivity|].
    unfold dir_batch. rewrite Hi1, Hi2. reflexivity.
  Qed.

  Lemma o_read_file_sim sw sl (O : orel sw sl) (r : str) : okstr (SLASH :: r) ->
    okres (o_read_file sw (W (SLASH :: r))) = okres (o_read_file sl (SLASH :: r)).
  Proof.
    intros Hok. unfold o_read_file.
    destruct (@o_open_file_sim sw sl O r 0%N 0%N Hok) as [O1 Hres].
    destruct (o_open_file sw (W (SLASH :: r)) 0 0) as [sw1 [aw|fw]];
      destruct (o_open_file sl (SLASH :: r) 0 0) as [sl1 [al|fl]]; cbn [fst snd] in *; try contradiction; [exact Hres|].
    destruct Hres as (Hn & Hat & Hm & _ & _ & _ & _ & _ & Hnw & Hnl & Hsome).
    unfold of_read, o_prologue. destruct (hd_name fw); [congruence|]. destruct (hd_name fl); [congruence|].
    rewrite Hn, Hm, Hat. destruct (hd_node fl) as [c|]; [|congruence].
    pose proof (oheap_get c (or_heap O1)) as Hg.
    destruct (oget (o_heap sw1) c) as [a|]; destruct (oget (o_heap sl1) c) as [b|]; try contradiction; [|reflexivity].
    destruct Hg as (Ech & Edt & _ & _ & Hdir). rewrite Hdir, Ech, Edt.
    match goal with |- context [Z.leb ?n 0] => destruct (Z.leb n 0) end; [reflexivity|].
    destruct (on_dir b); [destruct (owin sw1), (owin sl1); reflexivity|].
    destruct (negb (has (hd_mode fl) OpenRead)); [reflexivity|]. destruct (Z.eqb _ 0); reflexivity.
  Qed.

  Lemma o_write_file_sim sw sl (O : orel sw sl) (r : str) data perm : okstr (SLASH :: r) ->
    ocrel (o_write_file sw (W (SLASH :: r)) data perm) (o_write_file sl (SLASH :: r) data perm).
  Proof.
    intros Hok. unfold o_write_file.
    destruct (@o_open_file_sim sw sl O r (O_WRONLY + O_CREATE + O_TRUNC)%N perm Hok) as [O1 Hres].
    destruct (o_open_file sw (W (SLASH :: r)) (O_WRONLY + O_CREATE + O_TRUNC) perm) as [sw1 [aw|fw]];
      destruct (o_open_file sl (SLASH :: r) (O_WRONLY + O_CREATE + O_TRUNC) perm) as [sl1 [al|fl]];
      cbn [fst snd] in *; try contradiction; [split; [exact O|exact Hres]|].
    destruct Hres as (Hn & Hat & Hm & _ & _ & _ & _ & _ & Hnw & Hnl & Hsome).
    unfold of_write, o_prologue. destruct (hd_name fw); [congruence|]. destruct (hd_name fl); [congruence|].
    rewrite Hn, Hm, Hat. destruct (hd_node fl) as [c|]; [|congruence].
    pose proof (oheap_get c (or_heap O1)) as Hg.
    destruct (oget (o_heap sw1) c) as [a|] eqn:Ea; destruct (oget (o_heap sl1) c) as [b|] eqn:Eb; try contradiction;
      [|split; [exact O1|reflexivity]].
    destruct Hg as (Ech & Edt & Enl & Eid & Hdir). rewrite Hdir, Edt.
    destruct (on_dir b || negb (has (hd_mode fl) OpenWrite)) eqn:Ec;
      [split; [exact O1|destruct (owin sw1), (owin sl1); reflexivity]|].
    destruct data as [|b0 data]; [split; [exact O1|reflexivity]|].
    split; [|reflexivity]. cbn [fst]. apply orel_with_heap; [exact O1| |].
    - apply oheap_upd; [apply O1|]. apply onrel_data. unfold onrel. repeat split; assumption.
    - apply names_upd; [apply O1|]. apply names_data. exact (@names_get (o_heap sl1) c b (or_names O1) Eb).
  Qed.
End OCalls.

(* ---- steps and histories ---------------------------------------------------------------------------------- *)
Section ORun.
  Variable d : N.
  Hypothesis Hd : is_letter d = true.
  Notation W := (W d).
  Notation orel := (orel d).

  Definition owrel (ww wl : oworld) : Prop := orel (ow_fs ww) (ow_fs wl).

  Lemma orel_with_umask sw sl m : orel sw sl -> orel (o_with_umask sw m) (o_with_umask sl m).
  Proof. intros O. destruct O. constructor; cbn; auto. Qed.

  Theorem o_step_sim (ww wl : oworld) (cw cl : call) : owrel ww wl -> pcall d cw cl ->
    owrel (fst (ostep ww cw)) (fst (ostep wl cl))
    /\ (os_specific cl = false -> okres (snd (ostep ww cw)) = okres (snd (ostep wl cl))).
  Proof.
    intros O Hc. unfold owrel in *.
    assert (Hv : forall vi (kw kl : oworld * res),
              (orel (ow_fs (fst kw)) (ow_fs (fst kl)) /\ (os_specific cl = false -> okres (snd kw) = okres (snd kl))) ->
              orel (ow_fs (fst (o_on_view ww vi kw))) (ow_fs (fst (o_on_view wl vi kl)))
              /\ (os_specific cl = false -> okres (snd (o_on_view ww vi kw)) = okres (snd (o_on_view wl vi kl)))).
    { intros vi kw kl Hk. unfold o_on_view. destruct vi; [exact Hk|]. split; [exact O|reflexivity]. }
    assert (Hl : forall xw xl : ofs * res, ocrel d xw xl ->
              orel (ow_fs (fst (olift ww xw))) (ow_fs (fst (olift wl xl)))
              /\ (os_specific cl = false -> okres (snd (olift ww xw)) = okres (snd (olift wl xl)))).
    { intros xw xl [X1 X2]. unfold olift. cbn [fst snd ow_with_fs ow_fs]. split; [exact X1|intros _; exact X2]. }
    assert (Hr : forall rw rl : res, okres rw = okres rl ->
              orel (ow_fs (fst (ww, rw))) (ow_fs (fst (wl, rl))) /\ (os_specific cl = false -> okres (snd (ww, rw)) = okres (snd (wl, rl)))).
    { intros rw rl X. cbn [fst snd]. split; [exact O|intros _; exact X]. }
    destruct Hc; cbn [ostep]; apply Hv.
    - apply Hl, (@o_mkdir_sim d Hd); assumption.
    - apply Hl, (@o_mkdir_all_sim d Hd); assumption.
    - destruct (@o_open_file_sim d Hd (ow_fs ww) (ow_fs wl) O r flag perm H) as [O1 Hres].
      destruct (o_open_file (ow_fs ww) (W (SLASH :: r)) flag perm) as [sw1 [aw|fw]];
        destruct (o_open_file (ow_fs wl) (SLASH :: r) flag perm) as [sl1 [al|fl]]; cbn [fst snd] in *; try contradiction.
      + split; [exact O1|intros _; exact Hres].
      + split; [exact O1|reflexivity].
    - apply Hl, (@o_remove_sim d Hd); assumption.
    - apply Hl, (@o_remove_all_sim d Hd); assumption.
    - apply Hl, (@o_rename_sim d Hd); assumption.
    - apply Hl, (@o_link_sim d Hd); assumption.
    - apply Hr. unfold o_symlink. reflexivity.
    - apply Hr. unfold o_readlink. reflexivity.
    - apply Hl, (@o_truncate_sim d Hd); assumption.
    - apply Hl, (@o_chmod_sim d Hd); assumption.
    - destruct (@o_chown_sim d (ow_fs ww) (ow_fs wl) O r uid gid H) as [O1 _].
      unfold olift. cbn [fst snd ow_with_fs ow_fs]. split; [exact O1|discriminate].
    - destruct (@o_chown_sim d (ow_fs ww) (ow_fs wl) O r uid gid H) as [O1 _].
      unfold olift. cbn [fst snd ow_with_fs ow_fs]. split; [exact O1|discriminate].
    - apply Hr, (@o_chtimes_sim d Hd); assumption.
    - apply Hl, (@o_chdir_sim d Hd); assumption.
    - apply Hr. reflexivity.
    - apply Hr, (@o_stat_sim d Hd); assumption.
    - apply Hr, (@o_stat_sim d Hd); assumption.
    - apply Hr. reflexivity.
    - apply Hr, (@o_read_dir_sim d Hd); assumption.
    - apply Hr, (@o_read_file_sim d Hd); assumption.
    - apply Hl, (@o_write_file_sim d Hd); assumption.
    - cbn [fst snd ow_with_fs ow_fs]. split; [apply orel_with_umask, O|reflexivity].
  Qed.

  Theorem o_run_sim : forall cws cls ww wl, Forall2 (pcall d) cws cls -> owrel ww wl ->
    owrel (fst (orun ww cws)) (fst (orun wl cls))
    /\ agree_except (map os_specific cls) (map okres (snd (orun ww cws))) (map okres (snd (orun wl cls))).
  Proof.
    intros cws cls ww wl H. revert ww wl. induction H as [|cw cl cws cls Hc H IH]; intros ww wl Hw.
    - cbn. split; [exact Hw|exact I].
    - cbn [orun map]. destruct (o_step_sim Hw Hc) as [Hw1 Hok].
      destruct (ostep ww cw) as [ww1 rw]. destruct (ostep wl cl) as [wl1 rl]. cbn [fst snd] in *.
      destruct (IH ww1 wl1 Hw1) as [Hw2 Hag].
      destruct (orun ww1 cws) as [ww2 rws]. destruct (orun wl1 cls) as [wl2 rls]. cbn [fst snd map agree_except] in *.
      split; [exact Hw2|split; [exact Hok|exact Hag]].
  Qed.

  (* ---- the OS-independent view: the tree of children maps below the root node ------------------------------- *)
  Fixpoint onsnap (fuel : nat) (h : oheap) (path : list str) (i : nat) : list nentry :=
    match fuel with
    | O => []
    | S f =>
        match oget h i with
        | Some n =>
            if on_dir n
            then NEDir path :: flat_map (fun e : str * nat => onsnap f h (path ++ [fst e]) (snd e)) (sort_by (fun x => fst x) (on_ch n))
            else [NEFile path (on_data n) (on_nlink n) (on_id n)]
        | None => []
        end
    end.

  Definition o_iso_view (w : oworld) : list nentry :=
    let s := ow_fs w in
    match ikey (o_index s) (o_volume (o_os s)) with
    | Some r => onsnap SNAP_DEPTH (o_heap s) [] r
    | None => []
    end.

  Lemma onsnap_rel hw hl : Forall2 (onrel) hw hl -> forall fuel path i, onsnap fuel hw path i = onsnap fuel hl path i.
  Proof.
    intros H. induction fuel as [|fuel IH]; intros path i; [reflexivity|]. cbn [onsnap].
    pose proof (oheap_get i H) as Hg.
    destruct (oget hw i) as [a|]; destruct (oget hl i) as [b|]; try contradiction; [|reflexivity].
    destruct Hg as (Ech & Edt & Enl & Eid & Hdir). rewrite Hdir, Ech, Edt, Enl, Eid.
    destruct (on_dir b); [|reflexivity]. f_equal. apply flat_map_ext. intros e. apply IH.
  Qed.
End ORun.

Theorem o_iso_view_rel (ww wl : oworld) : owrel DRIVE_C ww wl -> o_iso_view ww = o_iso_view wl.
Proof.
  intros O. unfold o_iso_view, owrel in *. rewrite (or_osw O), (or_osl O), (or_index O).
  change (o_volume Windows) with (W DRIVE_C []). rewrite (ikey_W DRIVE_C). change (o_volume Linux) with (@nil N).
  destruct (ikey (o_index (ow_fs wl)) []); [|reflexivity]. apply onsnap_rel, O.
Qed.

(* ---- the worlds NewWithOptions builds --------------------------------------------------------------------- *)
Lemma o_chmod_right sw sl (p : str) mode : orel DRIVE_C sw sl -> orel DRIVE_C sw (fst (o_chmod sl p mode)).
Proof.
  intros O. unfold o_chmod. destruct (ofind sl (oabs sl p)) as [[c cn]|] eqn:Efl; [|exact O]. cbn [fst].
  pose proof (@ofind_get sl _ c cn Efl) as Eg.
  destruct O as [OI OK OH ON OD OU OM OW OL OR]. constructor; cbn [o_with_heap o_with o_index o_heap o_last_id o_user o_umask o_os]; auto.
  - clear -OH Eg. revert c Eg. induction OH as [|a b hw hl Hab H IH]; intros c Eg; [destruct c; discriminate|].
    destruct c; cbn [oupd].
    + cbn in Eg. injection Eg as ->. constructor; [|exact H]. destruct Hab as (E1 & E2 & E3 & E4 & E5).
      unfold onrel, on_dir in *. cbn [on_with_meta on_ch on_data on_nlink on_id on_meta]. rewrite with_mode_dir. auto.
    + constructor; [exact Hab|]. apply IH. exact Eg.
  - apply names_upd; [exact ON|]. exact (@names_get (o_heap sl) c cn ON Eg).
Qed.

Lemma o_mk_system_dir_windows s (x : str * N) : o_os s = Windows ->
  o_mk_system_dir s x = fst (o_mkdir_all s (fst x) (snd x)).
Proof. intros E. unfold o_mk_system_dir, owin. rewrite E. reflexivity. Qed.

Lemma o_mk_system_dir_linux s (x : str * N) : o_os s = Linux ->
  o_mk_system_dir s x = fst (o_chmod (fst (o_mkdir_all s (fst x) (snd x))) (fst x) (snd x)).
Proof. intros E. unfold o_mk_system_dir, owin. rewrite E. reflexivity. Qed.

Lemma o_step_dir sw sl (x : str * N) : okstr (SLASH :: fst x) -> orel DRIVE_C sw sl ->
  orel DRIVE_C (o_mk_system_dir sw (WC (SLASH :: fst x), snd x)) (o_mk_system_dir sl (SLASH :: fst x, snd x)).
Proof.
  intros Hr O. rewrite (@o_mk_system_dir_windows sw _ (or_osw O)), (@o_mk_system_dir_linux sl _ (or_osl O)). cbn [fst snd].
  apply o_chmod_right. exact (proj1 (@o_mkdir_all_sim DRIVE_C DRIVE_C_letter sw sl O (fst x) (snd x) Hr)).
Qed.

Lemma o_root_rel :
  orel DRIVE_C
    {| o_index := [(o_volume Windows, 0); (o_volume Windows ++ [sepc Windows], 0)];
       o_heap := [{| on_ch := []; on_data := []; on_nlink := 0; on_id := 0;
                     on_meta := {| m_mode := N.lor MODE_DIR 493; m_uid := 0; m_gid := 0 |} |}];
       o_last_id := 0; o_cwd := o_volume Windows ++ [sepc Windows]; o_user := root_user; o_umask := 0; o_os := Windows |}
    {| o_index := [(o_volume Linux, 0); (o_volume Linux ++ [sepc Linux], 0)];
       o_heap := [{| on_ch := []; on_data := []; on_nlink := 0; on_id := 0;
                     on_meta := {| m_mode := N.lor MODE_DIR 493; m_uid := 0; m_gid := 0 |} |}];
       o_last_id := 0; o_cwd := o_volume Linux ++ [sepc Linux]; o_user := root_user; o_umask := 0; o_os := Linux |}.
Proof.
  constructor; cbn [o_index o_heap o_last_id o_user o_umask o_os]; try reflexivity.
  - constructor; [split; [constructor|left; reflexivity]|].
    constructor; [split; [constructor; [exact okc_SLASH|constructor]|right; eexists; reflexivity]|constructor].
  - constructor; [|constructor]. unfold onrel. cbn. auto.
  - constructor; [constructor|constructor].
  - discriminate.
Qed.

Theorem o_init_rel (um : N) (dirs : list (str * N)) : Forall (fun x => okstr (SLASH :: fst x)) dirs ->
  owrel DRIVE_C (o_init_dirs Windows um (dirsW dirs)) (o_init_dirs Linux um (dirsL dirs)).
Proof.
  intros Hds. unfold owrel, o_init_dirs. cbn [ow_fs]. apply orel_with_umask. unfold dirsW, dirsL.
  apply (@fold_left2_rel ofs ofs (str * N) (str * N) (str * N) (orel DRIVE_C) (fun x => okstr (SLASH :: fst x))
           o_mk_system_dir o_mk_system_dir
           (fun x => (WC (SLASH :: fst x), snd x)) (fun x => (SLASH :: fst x, snd x)) dirs); [|exact Hds|exact o_root_rel].
  intros a b x Hx Hab. apply o_step_dir; assumption.
Qed.

(* ---- the OrefaFS half of the property ----------------------------------------------------------------------- *)
Theorem orefa_iso_histories (um : N) (dirs : list (str * N)) (cws cls : list call) :
  Forall (fun x => okstr (SLASH :: fst x)) dirs -> Forall2 (pcall DRIVE_C) cws cls ->
  let ww := o_init_dirs Windows um (dirsW dirs) in
  let wl := o_init_dirs Linux um (dirsL dirs) in
  agree_except (map os_specific cls) (map okres (snd (orun ww cws))) (map okres (snd (orun wl cls)))
  /\ o_iso_view (fst (orun ww cws)) = o_iso_view (fst (orun wl cls)).
Proof.
  intros Hds Hc ww wl.
  destruct (@o_run_sim DRIVE_C DRIVE_C_letter cws cls ww wl Hc (o_init_rel um Hds)) as [Hw Hag].
  split; [exact Hag|apply o_iso_view_rel, Hw].
Qed.
