(* Property C17, OrefaFS half: an OrefaFS of the Windows type and one of the Linux
   type on related states and related portable paths, in lock step.

   OrefaFS keys its nodes by absolute path strings: the Windows-typed index holds
   W k = C: ++ map phi k where the Linux-typed one holds k (the root under "" / "/"
   and under C: / C:\), in the same order, pointing to the same heap positions; the
   nodes have the same children, data, link counts, ids and the same type bit. *)
From Avfs Require Import Base PathModel PathSpec PathCleanProofs PathProofs MemFS MemFile World WorldWin IsoView
  OrefaFS OrefaWorld OrefaWin PathEquiv IsoIter IsoSearch IsoCalls IsoRun.
Set Implicit Arguments.

Section OPath.
  Variable d : N.
  Hypothesis Hd : is_letter d = true.
  Notation W := (W d).

  Lemma nthb_W (q : str) i : nthb (W q) (2 + i) = phi (nthb q i).
  Proof. unfold PathEquiv.W, vol. cbn [app plus]. unfold nthb. cbn [nth]. fold (nthb (map phi q) i). apply nthb_map. Qed.

  Lemma last_sep_cut_W (q : str) : okstr q -> forall i1,
    last_sep_cut Windows (W q) 2 (2 + i1) = 2 + last_sep_cut Linux q 0 i1.
  Proof.
    intros Hok. induction i1 as [|i IH]; [reflexivity|].
    change (2 + S i) with (S (2 + i)). cbn [last_sep_cut].
    change (Nat.leb 2 (2 + i)) with true. change (Nat.leb 0 i) with true. cbn [andb].
    rewrite nthb_W, is_sep_phi by (apply (@okstr_nthb q i Hok)).
    destruct (negb (is_sep Linux (nthb q i))); [exact IH|reflexivity].
  Qed.

  (* a separator at position j keeps the cut above j *)
  Lemma last_sep_cut_ge os (p : str) lo j : lo <= j -> is_sep os (nthb p j) = true ->
    forall i1, j < i1 -> j < last_sep_cut os p lo i1.
  Proof.
    intros Hlo Hs. induction i1 as [|i IH]; intros Hj; [lia|]. cbn [last_sep_cut].
    destruct (Nat.eq_dec i j) as [->|Hne].
    - rewrite Hs. cbn [negb]. rewrite andb_false_r. lia.
    - destruct (Nat.leb lo i && negb (is_sep os (nthb p i))); [apply IH; lia|lia].
  Qed.

  (* SplitAbs of a rooted portable path *)
  Definition rooted (q : str) : Prop := exists r, q = SLASH :: r.
  Definition keyok (k : str) : Prop := okstr k /\ (k = [] \/ rooted k).

  Lemma osplit_W (q : str) : okstr q -> rooted q ->
    exists dl fl, osplit Linux q = Some (dl, fl) /\ osplit Windows (W q) = Some (W dl, fl)
                  /\ keyok dl /\ okstr fl /\ map phi fl = fl /\ length dl < length q
                  /\ q = dl ++ SLASH :: fl.
  Proof.
    intros Hok (r & Hr). unfold osplit, split_abs.
    change (volume_name_len Linux q) with 0. rewrite (vnl_W d).
    rewrite (length_W d), (last_sep_cut_W Hok (length q)).
    set (cut := last_sep_cut Linux q 0 (length q)).
    assert (Hc1 : 1 <= cut).
    { unfold cut. rewrite Hr. apply (@last_sep_cut_ge Linux (SLASH :: r) 0 0); [lia|reflexivity|cbn [length]; lia]. }
    destruct (@last_sep_cut_spec Linux q 0 (length q) (le_n _)) as (Hle & Hnosep & Hend). fold cut in Hle, Hnosep, Hend.
    destruct (Nat.eqb_spec cut 0) as [E|_]; [lia|]. change (Nat.eqb (2 + cut) 0) with false. cbv iota.
    exists (firstn (cut - 1) q), (skipn cut q).
    assert (Hsep : nthb q (cut - 1) = SLASH).
    { destruct Hend as [E|[E|E]]; try lia. cbn [is_sep] in E. apply N.eqb_eq in E. exact E. }
    assert (Hfl : forall c, In c (skipn cut q) -> c <> SLASH /\ c <> BSLASH).
    { intros c Hc. apply In_nth with (d := 0%N) in Hc as (k & Hk & Ek). rewrite skipn_length in Hk.
      pose proof (nthb_skipn q cut k) as E. unfold nthb in E at 1. rewrite Ek in E. split.
      - intros ->. specialize (Hnosep (cut + k)). rewrite <- E in Hnosep. cbn in Hnosep. assert (H : cut <= cut + k < length q) by lia.
        specialize (Hnosep H). discriminate.
      - assert (Hin : okc c). { rewrite E. apply okstr_nthb, Hok. } exact (proj1 Hin). }
    split; [reflexivity|]. split.
    { replace (2 + cut - 1) with (2 + (cut - 1)) by lia. rewrite (firstn_W d), (skipn_W d).
      rewrite (mp_id _ Hfl). reflexivity. }
    split.
    { split; [apply okstr_firstn, Hok|]. destruct (cut - 1) as [|k] eqn:Ek; [left; reflexivity|right].
      rewrite Hr. cbn [firstn]. eexists; reflexivity. }
    split; [apply okstr_skipn, Hok|]. split; [apply (mp_id _ Hfl)|]. split.
    { rewrite firstn_length. lia. }
    assert (E1 : q = firstn (cut - 1) q ++ skipn (cut - 1) q) by (symmetry; apply firstn_skipn).
    rewrite E1 at 1. f_equal.
    assert (E2 : forall (x : str) n, n < length x -> skipn n x = nthb x n :: skipn (S n) x).
    { clear. intros x n. revert x. induction n as [|n IH]; intros [|c x] Hlt; cbn [length] in Hlt; try lia; [reflexivity|].
      cbn [skipn]. unfold nthb. cbn [nth]. apply IH. lia. }
    rewrite (E2 q (cut - 1)) by lia.
    rewrite Hsep. replace (S (cut - 1)) with cut by lia. reflexivity.
  Qed.
End OPath.

(* ---- related states ------------------------------------------------------------------------------- *)
Section OSim.
  Variable d : N.
  Hypothesis Hd : is_letter d = true.
  Notation W := (W d).
  Notation keyok := keyok.

  Definition onrel (nw nl : onode) : Prop :=
    on_ch nw = on_ch nl /\ on_data nw = on_data nl /\ on_nlink nw = on_nlink nl /\ on_id nw = on_id nl
    /\ on_dir nw = on_dir nl.

  (* child names are portable file names (what SplitAbs cuts off) *)
  Definition names_ok (n : onode) : Prop := Forall (fun e : str * nat => map phi (fst e) = fst e /\ okstr (fst e)) (on_ch n).

  Definition wkey (e : str * nat) : str * nat := (W (fst e), snd e).

  Record orel (sw sl : ofs) : Prop := {
    or_index : o_index sw = map wkey (o_index sl);
    or_keys : Forall (fun e : str * nat => keyok (fst e)) (o_index sl);
    or_heap : Forall2 onrel (o_heap sw) (o_heap sl);
    or_names : Forall names_ok (o_heap sl);
    or_id : o_last_id sw = o_last_id sl;
    or_user : o_user sw = o_user sl;
    or_umask : o_umask sw = o_umask sl;
    or_osw : o_os sw = Windows;
    or_osl : o_os sl = Linux;
    or_root : ikey (o_index sl) [] <> None
  }.

  Lemma ikey_W (idx : list (str * nat)) (k : str) : ikey (map wkey idx) (W k) = ikey idx k.
  Proof.
    unfold ikey. induction idx as [|[k' i] idx IH]; [reflexivity|]. cbn [map wkey alookup fst snd].
    rewrite (str_eqb_W d). destruct (str_eqb k k'); [reflexivity|exact IH].
  Qed.

  Lemma oheap_get hw hl i : Forall2 onrel hw hl ->
    match oget hw i, oget hl i with
    | Some a, Some b => onrel a b
    | None, None => True
    | _, _ => False
    end.
  Proof.
    intros H. revert i. induction H as [|a b hw hl Hab H IH]; intros [|i]; cbn; auto. apply IH.
  Qed.

  (* ofind on related keys *)
  Lemma ofind_W sw sl (k : str) : orel sw sl ->
    match ofind sw (W k), ofind sl k with
    | Some (iw, nw), Some (il, nl) => iw = il /\ onrel nw nl
    | None, None => True
    | _, _ => False
    end.
  Proof.
    intros O. unfold ofind. rewrite (or_index O), ikey_W.
    destruct (ikey (o_index sl) k) as [i|]; [|exact I].
    pose proof (oheap_get i (or_heap O)) as Hg.
    destruct (oget (o_heap sw) i); destruct (oget (o_heap sl) i); try contradiction; auto.
  Qed.

  Lemma oabs_W sw sl (r : str) : orel sw sl -> okstr (SLASH :: r) ->
    oabs sw (W (SLASH :: r)) = W (oabs sl (SLASH :: r)) /\ okstr (oabs sl (SLASH :: r)) /\ rooted (oabs sl (SLASH :: r)).
  Proof.
    intros O Hok. unfold oabs. rewrite (or_osw O), (or_osl O).
    destruct (@abs_W d Hd (o_cwd sw) (o_cwd sl) r Hok) as (E & H1 & H2). split; [exact E|split; assumption].
  Qed.

  (* the error for a missing node: the nearest existing ancestor decides *)
  Lemma o_enf_loop_sim sw sl (O : orel sw sl) (rw rl : res) : okres rw = okres rl ->
    forall fl fw (q : str), keyok q -> length q < fl -> length q < fw ->
    okres (o_enf_loop fw sw (W q) rw) = okres (o_enf_loop fl sl q rl).
  Proof.
    intros Hr. induction fl as [|fl IH]; intros fw q Hq Hl Hw; [lia|]. destruct fw as [|fw]; [lia|].
    cbn [o_enf_loop]. rewrite (or_osw O), (or_osl O), (vnl_W d), (length_W d).
    change (volume_name_len Linux q) with 0.
    destruct Hq as (Hok & [->|Hroot]); [exact Hr|].
    assert (Hlen : Nat.leb (2 + length q) 2 = Nat.leb (length q) 0) by (destruct (length q); reflexivity).
    rewrite Hlen. destruct (Nat.leb (length q) 0); [exact Hr|].
    destruct (osplit_W d Hok Hroot) as (dl & fl' & E1 & E2 & Hkd & _ & _ & Hlt & _). rewrite E1, E2.
    pose proof (ofind_W dl O) as Hf.
    destruct (ofind sw (W dl)) as [[iw nw]|]; destruct (ofind sl dl) as [[il nl]|]; try contradiction.
    - destruct Hf as (_ & _ & _ & _ & _ & Hdir). rewrite Hdir. destruct (on_dir nl); [exact Hr|reflexivity].
    - apply IH; [exact Hkd|lia|lia].
  Qed.

  Lemma o_enf_sim sw sl (O : orel sw sl) (rw rl : res) (q : str) : okres rw = okres rl -> keyok q ->
    okres (o_enf sw (W q) rw) = okres (o_enf sl q rl).
  Proof.
    intros Hr Hq. unfold o_enf. apply o_enf_loop_sim; auto. rewrite (length_W d). lia.
  Qed.
End OSim.
