(* Property C17: the decidable comparisons between the tables the models use and the tables
   regenerated from the current Go source (Gen_ostype.v).  Definitions only: the obligations
   (that each comparison evaluates to true) are in OsTypeObl.v, so that the extraction of the
   models does not depend on them. *)
From Coq Require Import String.
From Avfs Require Import Base PathModel MemFS MemFile World WorldWin OsTypeCfg Gen_ostype.
Set Implicit Arguments.
Open Scope list_scope.

Fixpoint slookup {V} (k : string) (m : list (string * V)) : option V :=
  match m with
  | [] => None
  | (k', v) :: m' => if String.eqb k k' then Some v else slookup k m'
  end.

(* ---- where each error kind of the model comes from --------------------------- *)
Inductive esrc :=
| SField (f : string)      (* vfs.err.<f> : Errors field, value set by Errors.SetOSType *)
| SConst (c : string)      (* a constant of errors.go used directly *)
| SGo                      (* a Go-level sentinel (fs.ErrClosed, fs.ErrInvalid, io.EOF): not from errors.go *)
| SModel.                  (* model-only *)

Definition ekind_src (e : ekind) : esrc :=
  match e with
  | EBadFileDesc => SField "BadFileDesc"
  | EDirNotEmpty => SField "DirNotEmpty"
  | EFileExists => SField "FileExists"
  | EInvalidArgument => SField "InvalidArgument"
  | EIsADirectory => SField "IsADirectory"
  | ENoSuchDir => SField "NoSuchDir"
  | ENoSuchFile => SField "NoSuchFile"
  | ENotADirectory => SField "NotADirectory"
  | EOpNotPermitted => SField "OpNotPermitted"
  | EPermDenied => SField "PermDenied"
  | ETooManySymlinks => SField "TooManySymlinks"
  | EC_FileExists => SConst "ErrFileExists"
  | EC_OpNotPermitted => SConst "ErrOpNotPermitted"
  | EC_InvalidArgument => SConst "ErrInvalidArgument"
  | EC_NotADirectory => SConst "ErrNotADirectory"
  | EC_IsADirectory => SConst "ErrIsADirectory"
  | EC_BadFileDesc => SConst "ErrBadFileDesc"
  | EW_DirNameInvalid => SConst "ErrWinDirNameInvalid"
  | EW_AlreadyExists => SConst "ErrWinAlreadyExists"
  | EW_AccessDenied => SConst "ErrWinAccessDenied"
  | EW_NotReparsePoint => SConst "ErrWinNotReparsePoint"
  | EW_IncorrectFunc => SConst "ErrWinIncorrectFunc"
  | EW_InvalidHandle => SConst "ErrWinInvalidHandle"
  | EW_NotSupported => SConst "ErrWinNotSupported"
  | EG_Closed => SGo
  | EG_Invalid => SGo
  | EG_EOF => SGo
  | EG_FileClosing => SConst "ErrFileClosing"
  | EG_NegativeOffset => SConst "ErrNegativeOffset"
  | EG_WriteAtInAppendMode => SConst "ErrWriteAtInAppendMode"
  | EFuel => SModel
  end.

(* the numeric value according to the REGENERATED tables *)
Definition gen_ecode (os : ostype) (e : ekind) : option (N * N) :=
  match ekind_src e with
  | SField f =>
      match slookup f gen_err_fields with
      | Some (dflt, wn) => slookup (match os with Linux => dflt | Windows => wn end) gen_consts
      | None => None
      end
  | SConst c => slookup c gen_consts
  | SGo | SModel => Some (ecode os e)
  end.

Definition all_ekinds : list ekind :=
  [EBadFileDesc; EDirNotEmpty; EFileExists; EInvalidArgument; EIsADirectory; ENoSuchDir; ENoSuchFile;
   ENotADirectory; EOpNotPermitted; EPermDenied; ETooManySymlinks; EC_FileExists; EC_OpNotPermitted;
   EC_InvalidArgument; EC_NotADirectory; EC_IsADirectory; EC_BadFileDesc; EW_DirNameInvalid; EW_AlreadyExists;
   EW_AccessDenied; EW_NotReparsePoint; EW_IncorrectFunc; EW_InvalidHandle; EW_NotSupported; EG_Closed;
   EG_Invalid; EG_EOF; EG_FileClosing; EG_NegativeOffset; EG_WriteAtInAppendMode; EFuel].

Definition all_os : list ostype := [Linux; Windows].

Definition pair_eqb (a b : N * N) : bool := N.eqb (fst a) (fst b) && N.eqb (snd a) (snd b).

Definition ecode_okb : bool :=
  forallb (fun e => forallb (fun os => match gen_ecode os e with
                                      | Some c => pair_eqb c (ecode os e)
                                      | None => false end) all_os) all_ekinds.

(* every field of the regenerated Errors struct is the source of some error kind of the model *)
Definition fields_coveredb : bool :=
  forallb (fun fe => existsb (fun e => match ekind_src e with SField f => String.eqb f (fst fe) | _ => false end) all_ekinds)
          gen_err_fields.

(* the volume errors *)
Definition verr_const (e : verr) : string :=
  match e with
  | EVolumeAlreadyExists => "ErrVolumeAlreadyExists"
  | EVolumeNameInvalid => "ErrVolumeNameInvalid"
  | EVolumeWindows => "ErrVolumeWindows"
  end.
Definition all_verr : list verr := [EVolumeAlreadyExists; EVolumeNameInvalid; EVolumeWindows].
Definition vcode_okb : bool :=
  forallb (fun e => match slookup (verr_const e) gen_consts with
                    | Some c => pair_eqb c (2%N, vcode e)
                    | None => false end) all_verr.

Definition no_problemsb : bool := match gen_problems with [] => true | _ => false end.

(* ---- the obligations on the error tables --------------------------------------- *)

(* error values of a Windows-typed file system are WindowsError values (class 1), except the three kinds
   the Go code takes from elsewhere whatever the OS type: ErrTooManySymlinks (a LinuxError in both
   branches of Errors.SetOSType), the hard-coded LinuxError constants EC_*, Go sentinels and CustomErrors *)
Definition windows_class_okb : bool :=
  forallb (fun e => match ekind_src e with
                    | SField f => if String.eqb f "TooManySymlinks" then true else N.eqb (fst (ecode Windows e)) 1
                    | _ => true end) all_ekinds
  && forallb (fun e => match ekind_src e with SField _ => N.eqb (fst (ecode Linux e)) 0 | _ => true end) all_ekinds.

(* ---- the configuration: SetOSType / BuildFeatures --------------------------------- *)
Definition feat_tag : bool := has_feat gen_build_features_tag gen_feat_setostype.
Definition feat_notag : bool := has_feat gen_build_features_notag gen_feat_setostype.

Definition all_ost : list ost := [OsUnknown; OsLinux; OsWindows; OsDarwin].

Definition effective (current requested : ost) : ost :=
  match requested with OsUnknown => current | _ => requested end.

Definition setos_res_eqb (a b : setos_res) : bool :=
  match a, b with
  | SetOk t s, SetOk t' s' => ost_eqb t t' && N.eqb s s'
  | SetRefused, SetRefused => true
  | _, _ => false
  end.

Definition sep_of (t : ost) : N := sepc (flavour t).

(* with the build tag every request is honoured; without it exactly the foreign ones are refused *)
Definition config_okb : bool :=
  feat_tag && negb feat_notag &&
  forallb (fun cur => forallb (fun req =>
     setos_res_eqb (set_os_type gen_setos feat_tag cur req) (SetOk (effective cur req) (sep_of (effective cur req)))
     && setos_res_eqb (set_os_type gen_setos feat_notag cur req)
                      (if ost_eqb (effective cur req) cur then SetOk cur (sep_of cur) else SetRefused)) all_ost) all_ost.

(* ---- NewWithOptions: modes, volume, current directory ------------------------------ *)
Definition cfg_okb : bool :=
  cfg_ok gen_cfg_memfs && cfg_ok gen_cfg_orefafs
  && forallb (fun os => N.eqb (dir_mode os) (cfg_dir_mode gen_cfg_memfs os)
                        && N.eqb (file_mode os) (cfg_file_mode gen_cfg_memfs os)
                        && N.eqb (dir_mode os) (cfg_dir_mode gen_cfg_orefafs os)
                        && N.eqb (file_mode os) (cfg_file_mode gen_cfg_orefafs os)) all_os
  && str_eqb VOL_C gen_default_volume
  && str_eqb CWD_C (gen_default_volume ++ [ss_sep_windows gen_setos])
  && N.eqb (sepc Windows) (ss_sep_windows gen_setos) && N.eqb (sepc Linux) (ss_sep_default gen_setos).

(* ---- where the Go code consults the emulated OS type --------------------------------- *)
(* The functions of memfs*.go with an `OSType()` test, and how many tests each has.  The model has a
   `win v` branch (MemFS.v, MemFile.v, WorldWin.v) for each of them except where the test only selects
   the operation NAME reported inside *PathError ("CreateFile" instead of "stat"), which no stream compares:
   Stat, Lstat and one of the two tests of MemFile.Stat / ReadDir / Readdirnames / Truncate / Write / WriteAt. *)
Definition expected_os_tests_memfs : list (string * N) :=
  [("MemFS.Chdir"%string, 1%N); ("MemFS.Chown"%string, 1%N); ("MemFS.Lchown"%string, 1%N); ("MemFS.Link"%string, 2%N); ("MemFS.Lstat"%string, 1%N);
   ("MemFS.Readlink"%string, 1%N); ("MemFS.Rename"%string, 3%N); ("MemFS.Stat"%string, 1%N); ("MemFS.Truncate"%string, 3%N);
   ("MemFile.Chdir"%string, 1%N); ("MemFile.Chown"%string, 1%N); ("MemFile.Read"%string, 1%N); ("MemFile.ReadAt"%string, 1%N); ("MemFile.ReadDir"%string, 2%N);
   ("MemFile.Readdirnames"%string, 2%N); ("MemFile.Seek"%string, 1%N); ("MemFile.Stat"%string, 2%N); ("MemFile.Truncate"%string, 2%N);
   ("MemFile.Write"%string, 2%N); ("MemFile.WriteAt"%string, 2%N); ("NewWithOptions"%string, 2%N);
   ("MemFS.VolumeAdd"%string, 1%N); ("MemFS.VolumeDelete"%string, 1%N); ("MemFS.VolumeList"%string, 1%N)].

Fixpoint tests_eqb (a b : list (string * N)) : bool :=
  match a, b with
  | [], [] => true
  | (x, n) :: a', (y, m) :: b' => String.eqb x y && N.eqb n m && tests_eqb a' b'
  | _, _ => false
  end.

Definition os_tests_okb : bool := tests_eqb gen_os_tests_memfs expected_os_tests_memfs.

