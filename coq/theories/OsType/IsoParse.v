(* Property C17: the bridge between component lists and the two spellings.
   For portable names cs (non-empty, no separator, no ':' '?', not "." / ".."):
     Join(`C:\`, cs...) on the Windows flavour = C: ++ the Linux spelling with '\' for '/',
     Join("/", cs...)  on the Linux flavour   = /c1/c2/...,
   and the PathIterator of either flavour yields exactly cs. *)
From Avfs Require Import Base PathModel PathSpec PathCleanProofs PathProofs PathIterProofs PathEquiv IsoIter IsoRun WorldWin.
Set Implicit Arguments.

Definition portable_name (c : str) : Prop := good_comp c /\ okstr c.

Lemma portable_good (cs : list str) : Forall portable_name cs -> Forall good_comp cs.
Proof. intros H. eapply Forall_impl; [|exact H]. intros c Hc. exact (proj1 Hc). Qed.

Lemma portable_ok (cs : list str) : Forall portable_name cs -> Forall okstr cs.
Proof. intros H. eapply Forall_impl; [|exact H]. intros c Hc. exact (proj2 Hc). Qed.

Lemma mp_name (c : str) : portable_name c -> map phi c = c.
Proof.
  intros ((_ & Hns & _) & Hok). apply mp_id. intros x Hx. split; [apply Hns, Hx|].
  unfold okstr in Hok. rewrite Forall_forall in Hok. exact (proj1 (Hok x Hx)).
Qed.

Lemma map_mp_names (cs : list str) : Forall portable_name cs -> map (map phi) cs = cs.
Proof. intros H. induction H as [|c cs Hc _ IH]; [reflexivity|]. cbn [map]. rewrite (mp_name Hc), IH. reflexivity. Qed.

Lemma fc_goods (cs : list str) : Forall good_comp cs -> fc cs = cs.
Proof.
  intros H. induction H as [|c cs Hc _ IH]; [reflexivity|]. rewrite fc_cons, IH.
  rewrite comps_word by (apply comp_ok_sepfree, good_comp_ok, Hc).
  destruct Hc as (Hne & _). destruct c; [congruence|reflexivity].
Qed.

Theorem join_linux_root (cs : list str) : Forall portable_name cs -> join Linux (([SLASH] : str) :: cs) = abs_path cs.
Proof.
  intros H. pose proof (portable_good H) as Hg.
  assert (Hf : filter ne (([SLASH] : str) :: cs) = [SLASH] :: cs).
  { cbn [filter ne negb]. f_equal. induction Hg as [|c cs (Hne & _) _ IH]; [reflexivity|].
    cbn [filter]. destruct c; [congruence|]. cbn [ne negb]. rewrite IH; [reflexivity|]. inversion H; assumption. }
  rewrite (join_comps (([SLASH] : str) :: cs) Hf). change (is_abs_spec [SLASH]) with true.
  rewrite fc_cons. change (filter ne (comps [SLASH])) with (@nil str). cbn [app].
  rewrite (fc_goods Hg). change (@nil str) with (stk 0 []).
  rewrite norm_goods by (apply Forall_good_of, Hg). reflexivity.
Qed.

Lemma okstr_abs_path (cs : list str) : Forall okstr cs -> okstr (abs_path cs).
Proof.
  intros H. unfold abs_path. constructor; [exact okc_SLASH|].
  induction H as [|c cs Hc _ IH]; [constructor|]. rewrite intercalate_cons. apply okstr_app; [exact Hc|].
  destruct cs; [constructor|]. apply okstr_app; [constructor; [exact okc_SLASH|constructor]|exact IH].
Qed.

Theorem join_windows_root (cs : list str) : Forall portable_name cs ->
  join Windows ((CWD_C : str) :: cs) = WC (abs_path cs).
Proof.
  intros H. change CWD_C with (WC [SLASH]). rewrite <- (map_mp_names H) at 1.
  destruct (@join_W DRIVE_C DRIVE_C_letter [SLASH] cs) as [E _];
    [discriminate|constructor; [exact okc_SLASH|constructor]|apply portable_ok, H|].
  rewrite E, (join_linux_root H). reflexivity.
Qed.

(* the parts the iterators of the two flavours yield *)
Lemma pi_parts_f_rel : forall fl fw pw pl, piR0 DRIVE_C pw pl ->
  length (pi_path pl) - pi_end pl < fl -> length (pi_path pl) - pi_end pl < fw ->
  pi_parts_f Windows fw pw = pi_parts_f Linux fl pl.
Proof.
  induction fl as [|fl IH]; intros fw pw pl H0 Hl Hw; [lia|]. destruct fw as [|fw]; [lia|].
  cbn [pi_parts_f].
  destruct (@pi_next_R DRIVE_C pw pl H0) as (Hok & HR1 & _).
  assert (Hend : fst (pi_next Linux pl) = true -> S (pi_end pl) <= pi_end (snd (pi_next Linux pl))
                                                 /\ pi_path (snd (pi_next Linux pl)) = pi_path pl /\ S (pi_end pl) < length (pi_path pl)).
  { unfold pi_next. destruct (Nat.leb (length (pi_path pl)) (S (pi_end pl))) eqn:El; cbn [fst snd pi_end pi_path]; [discriminate|].
    intros _. apply Nat.leb_gt in El. split; [|split; [reflexivity|exact El]].
    apply (@index_from_bounds (N.eqb (sepc Linux)) (pi_path pl) (S (pi_end pl))). lia. }
  destruct (pi_next Windows pw) as [okw pw1]. destruct (pi_next Linux pl) as [okl pl1].
  cbn [fst snd] in Hok, HR1, Hend. subst okw. destruct okl; [|reflexivity].
  destruct (Hend eq_refl) as (H1 & H2 & H3).
  rewrite (proj2 (proj2 (proj2 HR1))). f_equal.
  apply IH; [apply piR_piR0, HR1|rewrite H2; lia|rewrite H2; lia].
Qed.

Theorem pi_parts_W (q : str) : okstr q -> (exists r, q = SLASH :: r) -> pi_parts Windows (WC q) = pi_parts Linux q.
Proof.
  intros Hq Hr. unfold pi_parts. apply pi_parts_f_rel.
  - apply pi_new_R0; [exact Hq|exact Hr].
  - cbn [pi_new pi_path pi_end volume_name_len]. lia.
  - cbn [pi_new pi_path pi_end volume_name_len]. rewrite (length_W DRIVE_C). lia.
Qed.

Theorem parse_components (cs : list str) : Forall portable_name cs ->
  pi_parts Windows (join Windows ((CWD_C : str) :: cs)) = cs /\ pi_parts Linux (join Linux (([SLASH] : str) :: cs)) = cs.
Proof.
  intros H. rewrite (join_windows_root H), (join_linux_root H).
  assert (Hp : pi_parts Linux (abs_path cs) = cs) by (apply pi_parts_spec, Forall_comp_ok_of, portable_good, H).
  split; [|exact Hp]. rewrite pi_parts_W; [exact Hp|apply okstr_abs_path, portable_ok, H|eexists; reflexivity].
Qed.
