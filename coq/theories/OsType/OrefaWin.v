(* Property C17, OrefaFS half: the initial world of an OrefaFS of either OS type
   (orefafs_cfg.go NewWithOptions: the root node under the keys <volume> and
   <volume><separator>, Options.SystemDirs, no Chmod of the system directories on
   Windows) and the snapshot of its tree spelled from the root <volume><separator>.
   OrefaFS.v / OrefaWorld.v are used unchanged. *)
From Avfs Require Import Base PathModel MemFS MemFile World WorldWin OrefaFS OrefaWorld.
Set Implicit Arguments.

Definition o_mk_system_dir (s : ofs) (d : str * N) : ofs :=
  let s1 := fst (o_mkdir_all s (fst d) (snd d)) in
  if owin s then s1 else fst (o_chmod s1 (fst d) (snd d)).

Definition o_volume (os : ostype) : str := match os with Windows => VOL_C | Linux => [] end.

Definition o_init_dirs (os : ostype) (um : N) (dirs : list (str * N)) : oworld :=
  let root := {| on_ch := []; on_data := []; on_nlink := 0; on_id := 0;
                 on_meta := {| m_mode := N.lor MODE_DIR 493; m_uid := 0; m_gid := 0 |} |} in
  let s0 := {| o_index := [(o_volume os, 0); (o_volume os ++ [sepc os], 0)]; o_heap := [root]; o_last_id := 0;
               o_cwd := o_volume os ++ [sepc os]; o_user := root_user; o_umask := 0; o_os := os |} in
  {| ow_fs := o_with_umask (fold_left o_mk_system_dir dirs s0) um; ow_handles := [] |}.

Definition o_init_os (os : ostype) (um : N) : oworld := o_init_dirs os um (system_dirs os).

Lemma o_init_os_linux um : o_init_os Linux um = o_init_world_linux um.
Proof. reflexivity. Qed.

(* OrefaWorld.osnap with the child path spelled as WorldWin.join_vpath does *)
Fixpoint ovsnap (fuel : nat) (s : ofs) (path : str) (i : finfo) : list osentry :=
  match fuel with
  | O => []
  | S f =>
      if has (fi_mode i) MODE_DIR then
        OS (SDir path (fi_mode i) (fi_uid i) (fi_gid i))
        :: match o_read_dir s path with
           | RInfos l _ =>
               flat_map (fun e =>
                           let cp := join_vpath (o_os s) path (fi_name e) in
                           match o_stat s cp with
                           | RInfo ci => ovsnap f s cp ci
                           | RFail er => [OSErr 2 cp er]
                           | _ => [OSErr 2 cp EFuel]
                           end) l
           | RFail er => [OSErr 1 path er]
           | _ => [OSErr 1 path EFuel]
           end
      else
        let data := match o_read_file s path with RBytes _ b _ => b | _ => [] end in
        [OS (SFile path (fi_mode i) (fi_uid i) (fi_gid i) data (fi_nlink i) (fi_id i))]
  end.

Definition ovsnapshot (w : oworld) : list osentry :=
  let s := ow_fs w in
  let root := o_volume (o_os s) ++ [sepc (o_os s)] in
  match o_stat s root with
  | RInfo i => ovsnap SNAP_DEPTH s root i
  | RFail e => [OSErr 0 root e]
  | _ => [OSErr 0 root EFuel]
  end.
