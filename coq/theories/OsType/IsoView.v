(* Property C17: the OS-independent view of a tree ("isomorphic trees").
   Names, types, contents, link counts, same-file identities and link targets, with
   paths as lists of component names (so neither the volume nor the separator
   appears) and link targets normalised: volume dropped, '\' spelled '/'.
   Permission bits and owners are NOT part of the view (documented as OS-specific). *)
From Avfs Require Import Base PathModel MemFS MemFile World WorldWin.
Set Implicit Arguments.

Inductive nentry :=
| NEDir (path : list str)
| NEFile (path : list str) (data : list N) (nlink : Z) (id : N)
| NESym (path : list str) (target : str).

(* ToSlash of the target without its volume name *)
Definition norm_target (os : ostype) (t : str) : str :=
  to_slash os (skipn (volume_name_len os t) t).

Fixpoint nsnap (fuel : nat) (os : ostype) (h : heap) (path : list str) (i : nat) : list nentry :=
  match fuel with
  | O => []
  | S f =>
      match get h i with
      | Some (NDir ch _) =>
          NEDir path :: flat_map (fun '(name, c) => nsnap f os h (path ++ [name]) c) (sort_by (fun x => fst x) ch)
      | Some (NFile d k id _) => [NEFile path d k id]
      | Some (NSym l _) => [NESym path (norm_target os l)]
      | None => []
      end
  end.

(* the root a portable path is resolved from: the view's root directory, or the root of
   the default volume of a Windows-typed file system *)
Definition iso_root (w : world) (vi : nat) : option (ostype * nat) :=
  match nth_error (w_views w) vi with
  | Some v =>
      match v_os v with
      | Linux => Some (Linux, v_root v)
      | Windows => match alookup str_eqb VOL_C (f_vols (w_fs w)) with Some r => Some (Windows, r) | None => None end
      end
  | None => None
  end.

Definition iso_view_fuel (fuel : nat) (w : world) (vi : nat) : list nentry :=
  match iso_root w vi with
  | Some (os, r) => nsnap fuel os (f_heap (w_fs w)) [] r
  | None => []
  end.

Definition iso_view (w : world) (vi : nat) : list nentry := iso_view_fuel SNAP_DEPTH w vi.

(* success or failure of a call *)
Definition okres (r : res) : bool :=
  match r with
  | RFail _ | RErrPath _ _ | RPanic | RDeadlock => false
  | _ => true
  end.
