(* Property C17: obligations tying the tables the models use to the tables
   regenerated from the current Go source (Gen_ostype.v).  Every statement here is
   over a finite, explicitly listed domain and is decided by vm_compute; the
   universally quantified forms are obtained with forallb_forall / case analysis. *)
From Coq Require Import String.
From Avfs Require Import Base PathModel MemFS MemFile World WorldWin OsTypeCfg Gen_ostype OsTypeTab.
Set Implicit Arguments.
Open Scope list_scope.

Lemma all_ekinds_complete (e : ekind) : In e all_ekinds.
Proof. destruct e; cbn; tauto. Qed.

Lemma all_os_complete (os : ostype) : In os all_os.
Proof. destruct os; cbn; tauto. Qed.

Lemma pair_eqb_eq a b : pair_eqb a b = true -> a = b.
Proof.
  destruct a as [a1 a2], b as [b1 b2]. unfold pair_eqb. cbn [fst snd]. intros H.
  apply andb_true_iff in H as [H1 H2]. apply N.eqb_eq in H1, H2. congruence.
Qed.

Lemma obl_no_problems : no_problemsb = true.
Proof. vm_compute. reflexivity. Qed.

Lemma obl_ecode : ecode_okb = true.
Proof. vm_compute. reflexivity. Qed.

Lemma obl_fields_covered : fields_coveredb = true.
Proof. vm_compute. reflexivity. Qed.

Lemma obl_vcode : vcode_okb = true.
Proof. vm_compute. reflexivity. Qed.

Theorem ecode_is_regenerated (os : ostype) (e : ekind) : gen_ecode os e = Some (ecode os e).
Proof.
  pose proof obl_ecode as H. unfold ecode_okb in H.
  rewrite forallb_forall in H. specialize (H e (all_ekinds_complete e)).
  rewrite forallb_forall in H. specialize (H os (all_os_complete os)).
  destruct (gen_ecode os e) as [c|]; [|discriminate]. apply pair_eqb_eq in H. congruence.
Qed.

Theorem vcode_is_regenerated (e : verr) : slookup (verr_const e) gen_consts = Some (2%N, vcode e).
Proof.
  pose proof obl_vcode as H. unfold vcode_okb in H. rewrite forallb_forall in H.
  assert (Hin : In e all_verr) by (destruct e; cbn; tauto).
  specialize (H e Hin). destruct (slookup _ _) as [c|]; [|discriminate]. apply pair_eqb_eq in H. congruence.
Qed.

Lemma obl_windows_class : windows_class_okb = true.
Proof. vm_compute. reflexivity. Qed.

Lemma all_ost_complete (t : ost) : In t all_ost.
Proof. destruct t; cbn; tauto. Qed.

Lemma setos_res_eqb_eq a b : setos_res_eqb a b = true -> a = b.
Proof.
  destruct a as [t s| |], b as [t' s'| |]; cbn; try discriminate; auto.
  intros H. apply andb_true_iff in H as [H1 H2]. apply ost_eqb_eq in H1. apply N.eqb_eq in H2. congruence.
Qed.

Lemma obl_config : config_okb = true.
Proof. vm_compute. reflexivity. Qed.

Lemma obl_cfg : cfg_okb = true.
Proof. vm_compute. reflexivity. Qed.

Lemma obl_os_tests : os_tests_okb = true.
Proof. vm_compute. reflexivity. Qed.

(* ---- consequences, in universally quantified form ------------------------------------ *)
Theorem config_correct (cur req : ost) :
  feat_tag = true /\ feat_notag = false /\
  set_os_type gen_setos feat_tag cur req = SetOk (effective cur req) (sep_of (effective cur req)) /\
  set_os_type gen_setos feat_notag cur req
  = (if ost_eqb (effective cur req) cur then SetOk cur (sep_of cur) else SetRefused).
Proof.
  pose proof obl_config as H. unfold config_okb in H.
  apply andb_true_iff in H as [H H2]. apply andb_true_iff in H as [Ht Hn].
  apply negb_true_iff in Hn.
  rewrite forallb_forall in H2. specialize (H2 cur (all_ost_complete cur)).
  rewrite forallb_forall in H2. specialize (H2 req (all_ost_complete req)).
  apply andb_true_iff in H2 as [Ha Hb]. apply setos_res_eqb_eq in Ha, Hb. auto.
Qed.

Theorem cfg_correct :
  (forall os, dir_mode os = cfg_dir_mode gen_cfg_memfs os /\ file_mode os = cfg_file_mode gen_cfg_memfs os
              /\ dir_mode os = cfg_dir_mode gen_cfg_orefafs os /\ file_mode os = cfg_file_mode gen_cfg_orefafs os)
  /\ cfg_ok gen_cfg_memfs = true /\ cfg_ok gen_cfg_orefafs = true
  /\ VOL_C = gen_default_volume /\ CWD_C = gen_default_volume ++ [ss_sep_windows gen_setos]
  /\ sepc Windows = ss_sep_windows gen_setos /\ sepc Linux = ss_sep_default gen_setos.
Proof.
  pose proof obl_cfg as H. unfold cfg_okb in H.
  repeat (apply andb_true_iff in H as [H ?]).
  repeat split; try assumption;
    try (match goal with X : str_eqb _ _ = true |- _ = _ => apply str_eqb_eq; exact X end);
    try (match goal with X : N.eqb ?a ?b = true |- ?a = ?b => apply N.eqb_eq; exact X end).
  all: match goal with X : forallb _ all_os = true |- _ =>
         rewrite forallb_forall in X; specialize (X os (all_os_complete os));
         repeat (apply andb_true_iff in X as [X ?]) end.
  all: apply N.eqb_eq; assumption.
Qed.

(* a Windows-typed file system reports WindowsError values for every error that comes from its
   OS-dependent error table, except the too-many-links error; a Linux-typed one LinuxError values *)
Theorem windows_error_class (e : ekind) (f : string) :
  ekind_src e = SField f ->
  fst (ecode Linux e) = 0%N /\ (f <> "TooManySymlinks"%string -> fst (ecode Windows e) = 1%N).
Proof.
  intros Hs. pose proof obl_windows_class as H. unfold windows_class_okb in H.
  apply andb_true_iff in H as [H1 H2].
  rewrite forallb_forall in H1, H2. specialize (H1 e (all_ekinds_complete e)). specialize (H2 e (all_ekinds_complete e)).
  rewrite Hs in H1, H2. split; [apply N.eqb_eq; exact H2|].
  intros Hne. destruct (String.eqb f "TooManySymlinks") eqn:E; [apply String.eqb_eq in E; contradiction|].
  apply N.eqb_eq. exact H1.
Qed.
