(* Property C17: the configuration layer - a small model of
   OSTypeFn.SetOSType / BuildFeatures (ostype.go, features.go, vfs_ostype_on/off.go)
   parametric in the SHAPE of the guard, which lib/vcheck/ostypegen.py regenerates
   from the current source into Gen_ostype.v.  An unrecognised shape evaluates to
   SetUnknownShape, which no obligation accepts (fail closed). *)
From Coq Require Import String.
From Avfs Require Import Base PathModel.
Set Implicit Arguments.

(* avfs.OSType *)
Inductive ost := OsUnknown | OsLinux | OsWindows | OsDarwin.

Definition ost_eqb (a b : ost) : bool :=
  match a, b with
  | OsUnknown, OsUnknown | OsLinux, OsLinux | OsWindows, OsWindows | OsDarwin, OsDarwin => true
  | _, _ => false
  end.

Lemma ost_eqb_eq a b : ost_eqb a b = true <-> a = b.
Proof. destruct a, b; cbn; split; congruence. Qed.

(* the emulated flavour the file systems select: `OSType() == avfs.OsWindows` or not;
   Errors.SetOSType: `case OsWindows` / `default` *)
Definition flavour (t : ost) : ostype := match t with OsWindows => Windows | _ => Linux end.

(* the condition under which SetOSType returns ErrSetOSType *)
Inductive gexp :=
| GFeatAbsent            (* BuildFeatures()&FeatSetOSType == 0 *)
| GFeatPresent           (* BuildFeatures()&FeatSetOSType != 0 *)
| GForeign               (* osType != CurrentOSType() *)
| GNative                (* osType == CurrentOSType() *)
| GAnd (a b : gexp)
| GOr (a b : gexp)
| GNot (a : gexp)
| GUnknown.               (* not recognised: the reason is listed in Gen_ostype.gen_problems *)

Fixpoint geval (g : gexp) (feat foreign : bool) : option bool :=
  match g with
  | GFeatAbsent => Some (negb feat)
  | GFeatPresent => Some feat
  | GForeign => Some foreign
  | GNative => Some (negb foreign)
  | GAnd a b => match geval a feat foreign, geval b feat foreign with
                | Some x, Some y => Some (x && y) | _, _ => None end
  | GOr a b => match geval a feat foreign, geval b feat foreign with
               | Some x, Some y => Some (x || y) | _, _ => None end
  | GNot a => match geval a feat foreign with Some x => Some (negb x) | None => None end
  | GUnknown => None
  end.

Record setos_shape := {
  ss_unknown_is_current : bool;     (* if osType == OsUnknown { osType = CurrentOSType() } comes first *)
  ss_guard : gexp;                  (* if <guard> { return ErrSetOSType } *)
  ss_assigns_requested : bool;      (* osf.osType = osType ; ... ; return nil *)
  ss_sep_default : N;               (* sep := uint8('/') *)
  ss_sep_windows : N                (* if osType == OsWindows { sep = '\\' } ; osf.pathSeparator = sep *)
}.

Inductive setos_res := SetOk (t : ost) (sep : N) | SetRefused | SetUnknownShape.

Definition set_os_type (sh : setos_shape) (feat : bool) (current requested : ost) : setos_res :=
  if negb (ss_unknown_is_current sh) || negb (ss_assigns_requested sh) then SetUnknownShape
  else
    let req := match requested with OsUnknown => current | _ => requested end in
    match geval (ss_guard sh) feat (negb (ost_eqb req current)) with
    | None => SetUnknownShape
    | Some true => SetRefused
    | Some false => SetOk req (match req with OsWindows => ss_sep_windows sh | _ => ss_sep_default sh end)
    end.

(* BuildFeatures() under / without the build tag, and the feature test of the guard *)
Definition has_feat (build_features feat_bit : N) : bool := negb (N.eqb (N.land build_features feat_bit) 0).

(* NewWithOptions, the OS-dependent part (memfs_cfg.go / orefafs_cfg.go) *)
Record cfg_shape := {
  cs_base_dir_mode : N;             (* dirMode: fs.ModeDir *)
  cs_base_file_mode : N;            (* fileMode: 0 *)
  cs_win_dir_or : N;                (* vfs.dirMode |= avfs.DefaultDirPerm *)
  cs_win_file_or : N;               (* vfs.fileMode |= avfs.DefaultFilePerm *)
  cs_win_volume_default : bool;     (* volumeName = avfs.DefaultVolume *)
  cs_win_curdir_volume_sep : bool;  (* curDir = volumeName + string(vfs.PathSeparator()) *)
  cs_err_from_ostype : bool;        (* vfs.err.SetOSType(vfs.OSType()) *)
  cs_windows_test : bool            (* the branch is `if vfs.OSType() == avfs.OsWindows` *)
}.

Definition cfg_dir_mode (c : cfg_shape) (os : ostype) : N :=
  match os with Linux => cs_base_dir_mode c | Windows => N.lor (cs_base_dir_mode c) (cs_win_dir_or c) end.
Definition cfg_file_mode (c : cfg_shape) (os : ostype) : N :=
  match os with Linux => cs_base_file_mode c | Windows => N.lor (cs_base_file_mode c) (cs_win_file_or c) end.
Definition cfg_ok (c : cfg_shape) : bool :=
  cs_win_volume_default c && cs_win_curdir_volume_sep c && cs_err_from_ostype c && cs_windows_test c.
