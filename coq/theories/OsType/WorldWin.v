(* Property C17: the Windows-typed initial world of MemFS (memfs_cfg.go
   NewWithOptions with Options{OSType: avfs.OsWindows}), initial worlds with a
   caller-supplied list of system directories (Options.SystemDirs), and the
   volume-management calls VolumeAdd / VolumeDelete / VolumeList as a wrapper
   step over World.wstep.

   MemFS.v / MemFile.v / World.v / PathModel.v are used unchanged. *)
From Avfs Require Import Base PathModel MemFS MemFile World.
Set Implicit Arguments.

(* ---- constants of vfs_types.go / vfs.go (SystemDirs, Windows flavour) ---- *)
Definition VOL_C : str := [67;58]%N.                                  (* avfs.DefaultVolume "C:" *)
Definition CWD_C : str := [67;58;92]%N.                               (* C:\ *)
Definition P_wusers : str := [67;58;92;85;115;101;114;115]%N.         (* C:\Users *)
Definition P_wtmp_admin : str :=                                       (* C:\Users\ContainerAdministrator\AppData\Local\Temp *)
  [67;58;92;85;115;101;114;115;92;67;111;110;116;97;105;110;101;114;65;100;109;105;110;105;115;116;114;97;116;111;114;
   92;65;112;112;68;97;116;97;92;76;111;99;97;108;92;84;101;109;112]%N.
Definition P_wtmp_default : str :=                                     (* C:\Users\Default\AppData\Local\Temp *)
  [67;58;92;85;115;101;114;115;92;68;101;102;97;117;108;116;92;65;112;112;68;97;116;97;92;76;111;99;97;108;92;84;101;109;112]%N.
Definition P_wwindows : str := [67;58;92;87;105;110;100;111;119;115]%N.  (* C:\Windows *)

(* createRootNode: ModeDir|0755 owned by the current user *)
Definition root_node (u : user) : node :=
  NDir [] {| m_mode := N.lor MODE_DIR 493; m_uid := us_uid u; m_gid := us_gid u |}.

Definition root_path (os : ostype) : str := match os with Linux => [SLASH] | Windows => CWD_C end.

(* ---- NewWithOptions, any OS type, any list of system directories ---------- *)
(* rootNode ; (Windows: volumes = {C: -> rootNode}, curDir = C:\) ; MkSystemDirs:
   MkdirAll(dir, perm) and, except on Windows, Chmod(dir, perm) - all with umask 0 ;
   SetUMask(process umask) last. *)
Definition mk_system_dir (v0 : view) (s : fsys) (d : str * N) : fsys :=
  let s1 := fst (mkdir_all s v0 (fst d) (snd d)) in
  if win v0 then s1 else fst (chmod s1 v0 (fst d) (snd d)).

Definition init_world_dirs (os : ostype) (um : N) (dirs : list (str * N)) : world :=
  let s0 := {| f_heap := [root_node root_user]; f_last_id := 0;
               f_vols := match os with Windows => [(VOL_C, 0)] | Linux => [] end |} in
  let v0 := init_view os um in
  {| w_fs := fold_left (mk_system_dir v0) dirs s0;
     w_views := [{| v_root := 0; v_cwd := root_path os; v_user := root_user; v_umask := um; v_os := os; v_idm := true |}];
     w_handles := [] |}.

(* avfs.SystemDirs(vfs, "C:") *)
Definition system_dirs (os : ostype) : list (str * N) :=
  match os with
  | Windows => [(P_wusers, 511%N); (P_wtmp_admin, 511%N); (P_wtmp_default, 511%N); (P_wwindows, 511%N)]
  | Linux => [(P_home, 448%N); (P_root, 448%N); (P_tmp, 511%N)]
  end.

Definition init_world_windows (um : N) : world := init_world_dirs Windows um (system_dirs Windows).

Definition init_world_os (os : ostype) (um : N) : world := init_world_dirs os um (system_dirs os).

(* the Linux instance is World.init_world_linux *)
Lemma init_world_os_linux um : init_world_os Linux um = init_world_linux um.
Proof. reflexivity. Qed.

(* ---- volume management (memfs_cfg.go:100-170) ------------------------------ *)
Inductive verr := EVolumeAlreadyExists | EVolumeNameInvalid | EVolumeWindows.

(* avfs.CustomError - customErrorBase *)
Definition vcode (e : verr) : N :=
  match e with EVolumeAlreadyExists => 4 | EVolumeNameInvalid => 5 | EVolumeWindows => 6 end%N.

Inductive ocall :=
| OCall (c : call)
| OVolumeAdd (vi : nat) (p : str)
| OVolumeDelete (vi : nat) (p : str)
| OVolumeList (vi : nat).

Inductive ores :=
| ORes (r : res)
| OVErr (e : verr)
| OVols (l : list str).       (* VolumeList, sorted (the Go map order is unspecified) *)

Definition with_vols (s : fsys) (vs : list (str * nat)) : fsys :=
  {| f_heap := f_heap s; f_last_id := f_last_id s; f_vols := vs |}.

Definition volume_add (s : fsys) (v : view) (path : str) : fsys * ores :=
  if negb (win v) then (s, OVErr EVolumeWindows)
  else
    match volume_name (v_os v) path with
    | [] => (s, OVErr EVolumeNameInvalid)
    | vol =>
        match alookup str_eqb vol (f_vols s) with
        | Some _ => (s, OVErr EVolumeAlreadyExists)
        | None =>
            ({| f_heap := f_heap s ++ [root_node (v_user v)]; f_last_id := f_last_id s;
                f_vols := f_vols s ++ [(vol, length (f_heap s))] |}, ORes ROk)
        end
    end.

(* err := vfs.RemoveAll(vol) ; if err != nil return err ; delete(vfs.volumes, vol) *)
Definition volume_delete (s : fsys) (v : view) (path : str) : fsys * ores :=
  if negb (win v) then (s, OVErr EVolumeWindows)
  else
    match volume_name (v_os v) path with
    | [] => (s, OVErr EVolumeNameInvalid)
    | vol =>
        match alookup str_eqb vol (f_vols s) with
        | None => (s, OVErr EVolumeNameInvalid)
        | Some _ =>
            match remove_all s v vol with
            | (s1, ROk) => (with_vols s1 (aremove str_eqb vol (f_vols s1)), ORes ROk)
            | (s1, r) => (s1, ORes r)
            end
        end
    end.

Definition volume_list (s : fsys) (v : view) : ores :=
  if negb (win v) then OVols [] else OVols (sort_by (fun x => x) (map fst (f_vols s))).

Definition on_view_o (w : world) (vi : nat) (k : view -> world * ores) : world * ores :=
  match nth_error (w_views w) vi with Some v => k v | None => (w, ORes RBadIndex) end.

Definition vstep (w : world) (c : ocall) : world * ores :=
  match c with
  | OCall c => let '(w1, r) := wstep w c in (w1, ORes r)
  | OVolumeAdd vi p => on_view_o w vi (fun v => let '(s1, r) := volume_add (w_fs w) v p in (with_fs w s1, r))
  | OVolumeDelete vi p => on_view_o w vi (fun v => let '(s1, r) := volume_delete (w_fs w) v p in (with_fs w s1, r))
  | OVolumeList vi => on_view_o w vi (fun v => (w, volume_list (w_fs w) v))
  end.

Fixpoint vrun (w : world) (cs : list ocall) : world * list ores :=
  match cs with
  | [] => (w, [])
  | c :: cs' =>
      let '(w1, r) := vstep w c in
      let '(w2, rs) := vrun w1 cs' in
      (w2, r :: rs)
  end.

(* ---- snapshot of every volume ------------------------------------------------ *)
(* World.snap with the child path spelled <dir><sep><name>, or <dir><name> when <dir>
   already ends with a separator (the root "/" and the volume roots "C:\") *)
Definition ends_with_sep (os : ostype) (d : str) : bool :=
  match rev d with c :: _ => is_sep os c | [] => false end.

Definition join_vpath (os : ostype) (dir name : str) : str :=
  if ends_with_sep os dir then dir ++ name else dir ++ [sepc os] ++ name.

Fixpoint vsnap (fuel : nat) (os : ostype) (h : heap) (path : str) (i : nat) : list sentry :=
  match fuel with
  | O => []
  | S f =>
      match get h i with
      | Some (NDir ch m) =>
          SDir path (m_mode m) (m_uid m) (m_gid m)
          :: flat_map (fun '(name, c) => vsnap f os h (join_vpath os path name) c)
                      (sort_by (fun x => fst x) ch)
      | Some (NFile d k id m) => [SFile path (m_mode m) (m_uid m) (m_gid m) d k id]
      | Some (NSym l m) => [SSym path (m_mode m) (m_uid m) (m_gid m) l]
      | None => []
      end
  end.

(* the tree below the root of view [vi] for a Linux-typed file system (= World.snapshot);
   for a Windows-typed one the tree of every volume, volumes in name order, paths spelled
   <volume>\... *)
Definition vol_snapshot (w : world) (vi : nat) : list sentry :=
  match nth_error (w_views w) vi with
  | Some v =>
      match v_os v with
      | Linux => vsnap SNAP_DEPTH Linux (f_heap (w_fs w)) [sepc Linux] (v_root v)
      | Windows =>
          flat_map (fun '(vol, nd) => vsnap SNAP_DEPTH Windows (f_heap (w_fs w)) (vol ++ [sepc Windows]) nd)
                   (sort_by (fun x => fst x) (f_vols (w_fs w)))
      end
  | None => []
  end.
