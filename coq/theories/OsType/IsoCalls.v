(* Property C17: every namespace call of a Windows-typed and of a Linux-typed MemFS
   on related states and related (portable, absolute) paths, in lock step:
   related states afterwards, same success / failure - except the branches listed in
   IsoRun.v (Chown / Lchown: not supported on Windows; RemoveAll through a regular file). *)
From Avfs Require Import Base PathModel PathSpec PathCleanProofs PathProofs MemFS MemFile World DacLemmas IsoView
  PathEquiv IsoIter IsoSearch.
Set Implicit Arguments.

(* the inner loop of MemFS.remove_all_rec, named *)
Section RaLoop.
  Variable rec : heap -> nat -> heap * option ekind.
  Variable dd : nat.
  Fixpoint ra_loop (chs : list (str * nat)) (h : heap) : heap * option ekind :=
    match chs with
    | [] => (h, None)
    | (nm, c) :: chs' =>
        if node_is_dir h c then
          match rec h c with
          | (h1, Some e) => (h1, Some e)
          | (h1, None) => ra_loop chs' (delete_node (remove_child h1 dd nm) c)
          end
        else ra_loop chs' (delete_node (remove_child h dd nm) c)
    end.
End RaLoop.

Lemma remove_all_rec_S f h u dd :
  remove_all_rec (S f) h u dd
  = if negb (perm_on h dd OpenWrite u) then (h, Some EPermDenied)
    else ra_loop (fun h c => remove_all_rec f h u c) dd (children h dd) h.
Proof. reflexivity. Qed.

Section Calls.
  Variable d : N.
  Hypothesis Hd : is_letter d = true.
  Variable R : nat.
  Notation W := (W d).
  Notation piR := (piR d).
  Notation lnk_rel := (lnk_rel d).
  Notation nrel := (nrel d).
  Notation hrel := (hrel d).
  Notation frel := (frel d R).
  Notation srel := (srel d).

  (* ---- heap mutators keep the relation -------------------------------------------------- *)
  Lemma hrel_upd hw hl i nw nl : hrel hw hl -> nrel nw nl -> hrel (upd hw i nw) (upd hl i nl).
  Proof.
    intros H Hn. revert i. induction H as [|a b hw hl Hab H IH]; intros i; [constructor|].
    destruct i; cbn [upd]; constructor; auto. apply IH.
  Qed.

  Lemma hrel_app hw hl nw nl : hrel hw hl -> nrel nw nl -> hrel (hw ++ [nw]) (hl ++ [nl]).
  Proof. intros H Hn. apply Forall2_app; [exact H|constructor; [exact Hn|constructor]]. Qed.

  Lemma hrel_add_child hw hl p name c : hrel hw hl -> hrel (add_child hw p name c) (add_child hl p name c).
  Proof.
    intros H. unfold add_child.
    destruct (hrel_get_cases p H) as [[Ew El]|(nw & nl & Ew & El & Hn)]; rewrite Ew, El; [exact H|].
    destruct Hn; try exact H. apply hrel_upd; [exact H|constructor].
  Qed.

  Lemma hrel_remove_child hw hl p name : hrel hw hl -> hrel (remove_child hw p name) (remove_child hl p name).
  Proof.
    intros H. unfold remove_child.
    destruct (hrel_get_cases p H) as [[Ew El]|(nw & nl & Ew & El & Hn)]; rewrite Ew, El; [exact H|].
    destruct Hn; try exact H. apply hrel_upd; [exact H|constructor].
  Qed.

  Lemma lnk_rel_nil : lnk_rel [] [].
  Proof. split; [constructor|]. right. split; [exact I|reflexivity]. Qed.

  Lemma hrel_delete_node hw hl c : hrel hw hl -> hrel (delete_node hw c) (delete_node hl c).
  Proof.
    intros H. unfold delete_node.
    destruct (hrel_get_cases c H) as [[Ew El]|(nw & nl & Ew & El & Hn)]; rewrite Ew, El; [exact H|].
    destruct Hn; apply hrel_upd; try exact H; constructor. exact lnk_rel_nil.
  Qed.

  Lemma frel_with_heap sw sl hw hl : frel sw sl -> hrel hw hl -> frel (with_heap sw hw) (with_heap sl hl).
  Proof. intros F H. destruct F. constructor; cbn; auto. Qed.

  (* ---- the relation on views used by the calls ----------------------------------------- *)
  Definition vrelR (vw vl : view) : Prop := vrel vw vl /\ v_root vl = R.

  Lemma frel_create_dir sw sl vw vl parent name perm : frel sw sl -> vrelR vw vl ->
    frel (fst (create_dir sw vw parent name perm)) (fst (create_dir sl vl parent name perm))
    /\ snd (create_dir sw vw parent name perm) = snd (create_dir sl vl parent name perm).
  Proof.
    intros F V. unfold create_dir. cbn [fst snd]. rewrite (hrel_length (fr_heap F)). split; [|reflexivity].
    constructor; cbn [f_heap f_last_id f_vols]; [|apply F|apply F].
    apply hrel_add_child. apply hrel_app; [apply F|constructor].
  Qed.

  Lemma frel_create_file sw sl vw vl parent name perm : frel sw sl -> vrelR vw vl ->
    frel (fst (create_file sw vw parent name perm)) (fst (create_file sl vl parent name perm))
    /\ snd (create_file sw vw parent name perm) = snd (create_file sl vl parent name perm).
  Proof.
    intros F V. unfold create_file. cbn [fst snd]. rewrite (hrel_length (fr_heap F)), (fr_id F). split; [|reflexivity].
    constructor; cbn [f_heap f_last_id f_vols]; [|reflexivity|apply F].
    apply hrel_add_child. apply hrel_app; [apply F|constructor].
  Qed.

  Lemma frel_create_symlink sw sl vw vl parent name lw ll : frel sw sl -> lnk_rel lw ll ->
    frel (create_symlink sw vw parent name lw) (create_symlink sl vl parent name ll).
  Proof.
    intros F L. unfold create_symlink. rewrite (hrel_length (fr_heap F)).
    constructor; cbn [f_heap f_last_id f_vols]; [|apply F|apply F].
    apply hrel_add_child. apply hrel_app; [apply F|constructor; exact L].
  Qed.

  (* results of calls: related states, same success / failure *)
  Definition crel (xw xl : fsys * res) : Prop := frel (fst xw) (fst xl) /\ okres (snd xw) = okres (snd xl).

  Lemma crel_fail sw sl ew el : frel sw sl -> crel (sw, RFail ew) (sl, RFail el).
  Proof. intros F. split; [exact F|reflexivity]. Qed.

  Lemma crel_same sw sl r : frel sw sl -> crel (sw, r) (sl, r).
  Proof. intros F. split; [exact F|reflexivity]. Qed.

  (* consequences of a related pair of walk results *)
  Lemma srel_last slm hl rw rl : srel slm hl rw rl -> pi_is_last (sr_pi rw) = pi_is_last (sr_pi rl).
  Proof. intros (_ & _ & Hp & _). apply (piR_is_last Hp). Qed.

  Lemma srel_part slm hl rw rl : srel slm hl rw rl -> pi_part (sr_pi rw) = pi_part (sr_pi rl).
  Proof. intros (_ & _ & Hp & _). exact (proj2 (proj2 (proj2 Hp))). Qed.

  (* is_file_exists agrees on both sides *)
  Lemma srel_exists slm hl rw rl : srel slm hl rw rl -> is_file_exists (sr_err rw) = is_file_exists (sr_err rl).
  Proof.
    intros (_ & _ & _ & [[E _]|(Ew & El & _)]); [rewrite E; reflexivity|rewrite Ew, El; reflexivity].
  Qed.

  (* is_not_exist agrees unless the Linux side met a regular file in the middle of the path *)
  Lemma srel_not_exist slm hl rw rl : srel slm hl rw rl -> sr_err rl <> ENotADirectory ->
    sr_err rw = sr_err rl.
  Proof. intros (_ & _ & _ & [[E _]|(_ & El & _)]) Hne; [exact E|contradiction]. Qed.

  (* when the final element was reached (or is missing) the errors are equal *)
  Lemma srel_err_last slm hl rw rl : srel slm hl rw rl -> slmode_eqb slm SlStat = false ->
    pi_is_last (sr_pi rl) = true -> sr_err rw = sr_err rl.
  Proof.
    intros (_ & _ & _ & [[E _]|(_ & _ & Hl & _)]) Hs Hlast; [exact E|]. rewrite (Hl Hs) in Hlast. discriminate.
  Qed.

  Ltac expose_W :=
    match goal with |- context [PathEquiv.W d (SLASH :: ?r)] =>
      change (PathEquiv.W d (SLASH :: r)) with (d :: COLON :: BSLASH :: map phi r) end.

  (* ---- Mkdir ------------------------------------------------------------------------------ *)
  Lemma mkdir_sim sw sl vw vl r perm : frel sw sl -> vrelR vw vl -> okstr (SLASH :: r) ->
    crel (mkdir sw vw (W (SLASH :: r)) perm) (mkdir sl vl (SLASH :: r) perm).
  Proof.
    intros F (V & HR) Hok. unfold mkdir.
    pose proof (@search_node_sim d Hd R sw sl vw vl SlLstat r F V HR Hok) as S.
    set (rw := search_node sw vw (W (SLASH :: r)) SlLstat) in *.
    set (rl := search_node sl vl (SLASH :: r) SlLstat) in *.
    expose_W. cbv iota.
    rewrite (srel_last S), (srel_part S).
    destruct S as (Hpar & Hch & HpiR & [[E Hnd]|(Ew & El & Hl & _)]).
    - rewrite E, Hpar.
      destruct (negb (is_not_exist (sr_err rl)) || negb (pi_is_last (sr_pi rl))); [apply crel_fail, F|].
      destruct (sr_parent rl) as [parent|]; [|apply crel_same, F].
      rewrite (perm_on_admin parent (N.lor OpenWrite OpenLookup) (fr_heap F) V).
      destruct (negb (perm_on (f_heap sl) parent (N.lor OpenWrite OpenLookup) (v_user vl))); [apply crel_fail, F|].
      rewrite (hrel_children parent (fr_heap F)).
      destruct (alookup str_eqb (pi_part (sr_pi rl)) (children (f_heap sl) parent)); [apply crel_fail, F|].
      split; [apply frel_create_dir; [exact F|split; assumption]|reflexivity].
    - rewrite Ew, El, (Hl eq_refl). cbn [is_not_exist negb orb]. apply crel_fail, F.
  Qed.

  Ltac sim_search slm r F V HR Hok HS rw rl :=
    pose proof (@search_node_sim d Hd R _ _ _ _ slm r F V HR Hok) as HS;
    set (rw := search_node _ _ (W (SLASH :: r)) slm) in *;
    set (rl := search_node _ _ (SLASH :: r) slm) in *.

  (* ---- MkdirAll --------------------------------------------------------------------------- *)
  Lemma mkdir_all_loop_sim vw vl perm : vrelR vw vl -> forall fl fw sw sl dn pw pl,
    frel sw sl -> piR pw pl ->
    length (pi_path pl) - pi_end pl < fl -> length (pi_path pl) - pi_end pl < fw ->
    frel (mkdir_all_loop fw sw vw dn pw perm) (mkdir_all_loop fl sl vl dn pl perm).
  Proof.
    intros (V & HR). induction fl as [|fl IH]; intros fw sw sl dn pw pl F HP Hl Hw; [lia|].
    destruct fw as [|fw]; [lia|]. cbn [mkdir_all_loop].
    rewrite (proj2 (proj2 (proj2 HP))), (hrel_children dn (fr_heap F)).
    destruct (alookup str_eqb (pi_part pl) (children (f_heap sl) dn)); [exact F|].
    destruct (@frel_create_dir sw sl vw vl dn (pi_part pl) perm F (conj V HR)) as [F1 Ec].
    destruct (create_dir sw vw dn (pi_part pl) perm) as [sw1 cw]. destruct (create_dir sl vl dn (pi_part pl) perm) as [sl1 cl].
    cbn [fst snd] in F1, Ec. subst cw.
    rewrite (vr_osw V), (vr_osl V).
    destruct (@pi_next_R d pw pl (piR_piR0 HP)) as (Hok & HR1 & _).
    assert (Hend : fst (pi_next Linux pl) = true -> S (pi_end pl) <= pi_end (snd (pi_next Linux pl))
                                                   /\ pi_path (snd (pi_next Linux pl)) = pi_path pl /\ S (pi_end pl) < length (pi_path pl)).
    { unfold pi_next. destruct (Nat.leb (length (pi_path pl)) (S (pi_end pl))) eqn:El; cbn [fst snd pi_end pi_path]; [discriminate|].
      intros _. apply Nat.leb_gt in El. split; [|split; [reflexivity|exact El]].
      apply (@index_from_bounds (N.eqb (sepc Linux)) (pi_path pl) (S (pi_end pl))). lia. }
    destruct (pi_next Windows pw) as [okw pw1]. destruct (pi_next Linux pl) as [okl pl1].
    cbn [fst snd] in Hok, HR1, Hend. subst okw. destruct okl; [|exact F1].
    destruct (Hend eq_refl) as (H1 & H2 & H3).
    apply IH; [exact F1|exact HR1|rewrite H2; lia|rewrite H2; lia].
  Qed.

  Lemma okres_errpath e p : okres (RErrPath e p) = false. Proof. reflexivity. Qed.

  Lemma mkdir_all_sim sw sl vw vl r perm : frel sw sl -> vrelR vw vl -> okstr (SLASH :: r) ->
    crel (mkdir_all sw vw (W (SLASH :: r)) perm) (mkdir_all sl vl (SLASH :: r) perm).
  Proof.
    intros F (V & HR) Hok. unfold mkdir_all.
    sim_search SlEval r F V HR Hok HS rw rl.
    pose proof (srel_exists HS) as Hex.
    destruct HS as (Hpar & Hch & HpiR & Herr).
    assert (Hloop : forall parent,
      crel (if negb (perm_on (f_heap sw) parent (N.lor OpenWrite OpenLookup) (v_user vw)) then (sw, RFail EPermDenied)
            else (mkdir_all_loop (S (length (pi_path (sr_pi rw)))) sw vw parent (sr_pi rw) perm, ROk))
           (if negb (perm_on (f_heap sl) parent (N.lor OpenWrite OpenLookup) (v_user vl)) then (sl, RFail EPermDenied)
            else (mkdir_all_loop (S (length (pi_path (sr_pi rl)))) sl vl parent (sr_pi rl) perm, ROk))).
    { intros parent. rewrite (perm_on_admin parent (N.lor OpenWrite OpenLookup) (fr_heap F) V).
      destruct (negb (perm_on (f_heap sl) parent (N.lor OpenWrite OpenLookup) (v_user vl))); [apply crel_fail, F|].
      split; [|reflexivity]. cbn [fst].
      apply (@mkdir_all_loop_sim vw vl perm (conj V HR)); [exact F|exact HpiR|lia|].
      destruct HpiR as ((Hp & _) & _). rewrite Hp, (length_W d). lia. }
    rewrite Hch, Hpar.
    destruct (sr_child rl) as [c|].
    - destruct (hrel_get_cases c (fr_heap F)) as [[Ew El]|(nw & nl & Ew & El & Hn)]; rewrite Ew, El.
      + destruct (sr_parent rl) as [parent|]; [apply Hloop|apply crel_fail, F].
      + destruct Hn as [ch mw ml|dt k i mw ml|lw ll mw ml Hlnk].
        * rewrite Hex. destruct (is_file_exists (sr_err rl)); [apply crel_same, F|apply crel_fail, F].
        * split; [exact F|reflexivity].
        * destruct (sr_parent rl) as [parent|]; [apply Hloop|apply crel_fail, F].
    - destruct (sr_parent rl) as [parent|]; [apply Hloop|apply crel_fail, F].
  Qed.

  (* results that do not change the state *)
  Definition rrel (rw rl : res) : Prop := okres rw = okres rl.

  (* ---- Remove ------------------------------------------------------------------------------ *)
  Lemma remove_sim sw sl vw vl r : frel sw sl -> vrelR vw vl -> okstr (SLASH :: r) ->
    crel (remove sw vw (W (SLASH :: r))) (remove sl vl (SLASH :: r)).
  Proof.
    intros F (V & HR) Hok. unfold remove.
    sim_search SlLstat r F V HR Hok HS rw rl.
    pose proof (srel_exists HS) as Hex. pose proof (srel_part HS) as Hpt.
    destruct HS as (Hpar & Hch & HpiR & Herr). rewrite Hch, Hpar, Hex, Hpt.
    destruct (sr_child rl) as [c|]; [|apply crel_fail, F].
    destruct (sr_parent rl) as [parent|]; [|apply crel_fail, F].
    destruct (negb (is_file_exists (sr_err rl))); [apply crel_fail, F|].
    destruct (Nat.eqb parent c); [apply crel_fail, F|].
    rewrite (perm_on_admin parent OpenWrite (fr_heap F) V).
    destruct (negb (perm_on (f_heap sl) parent OpenWrite (v_user vl))); [apply crel_fail, F|].
    rewrite (sticky_admin _ _ _ _ (vr_aw V)), (sticky_admin _ _ _ _ (vr_al V)).
    rewrite (hrel_children parent (fr_heap F)).
    assert (Hdel : crel
      match alookup str_eqb (pi_part (sr_pi rl)) (children (f_heap sl) parent) with
      | Some _ => (with_heap sw (delete_node (remove_child (f_heap sw) parent (pi_part (sr_pi rl))) c), ROk)
      | None => (sw, RFail ENoSuchDir) end
      match alookup str_eqb (pi_part (sr_pi rl)) (children (f_heap sl) parent) with
      | Some _ => (with_heap sl (delete_node (remove_child (f_heap sl) parent (pi_part (sr_pi rl))) c), ROk)
      | None => (sl, RFail ENoSuchDir) end).
    { destruct (alookup str_eqb (pi_part (sr_pi rl)) (children (f_heap sl) parent)); [|apply crel_fail, F].
      split; [|reflexivity]. apply frel_with_heap; [exact F|]. apply hrel_delete_node, hrel_remove_child, F. }
    destruct (hrel_get_cases c (fr_heap F)) as [[Ew El]|(nw & nl & Ew & El & Hn)]; rewrite Ew, El; [exact Hdel|].
    destruct Hn as [ch mw ml|dt k i mw ml|lw ll mw ml Hlnk]; try exact Hdel.
    destruct ch; [exact Hdel|apply crel_fail, F].
  Qed.

  (* ---- Link --------------------------------------------------------------------------------- *)
  Lemma link_sim sw sl vw vl ro rn : frel sw sl -> vrelR vw vl -> okstr (SLASH :: ro) -> okstr (SLASH :: rn) ->
    crel (link sw vw (W (SLASH :: ro)) (W (SLASH :: rn))) (link sl vl (SLASH :: ro) (SLASH :: rn)).
  Proof.
    intros F (V & HR) Hoko Hokn. unfold link.
    sim_search SlLstat ro F V HR Hoko HSo rwo rlo.
    pose proof (srel_exists HSo) as Hexo.
    destruct HSo as (_ & Hcho & _ & _). rewrite Hcho, Hexo.
    destruct (sr_child rlo) as [oc|]; [|apply crel_fail, F].
    destruct (negb (is_file_exists (sr_err rlo))); [apply crel_fail, F|].
    sim_search SlLstat rn F V HR Hokn HSn rwn rln.
    pose proof (srel_last HSn) as Hln. pose proof (srel_part HSn) as Hpn.
    destruct HSn as (Hparn & _ & _ & [[E Hnd]|(Ew & El & Hl & _)]).
    - rewrite E, Hln, Hparn, Hpn.
      destruct (negb (is_not_exist (sr_err rln))); [apply crel_fail, F|].
      destruct (negb (pi_is_last (sr_pi rln))); [apply crel_fail, F|].
      destruct (sr_parent rln) as [np|]; [|apply crel_same, F].
      rewrite (perm_on_admin np OpenWrite (fr_heap F) V).
      destruct (negb (perm_on (f_heap sl) np OpenWrite (v_user vl))); [apply crel_fail, F|].
      destruct (hrel_get_cases oc (fr_heap F)) as [[Ew El]|(nw & nl & Ew & El & Hn)]; rewrite Ew, El; [apply crel_fail, F|].
      destruct Hn as [ch mw ml|dt k i mw ml|lw ll mw ml Hlnk]; try (apply crel_fail, F).
      split; [|reflexivity]. apply frel_with_heap; [exact F|].
      apply hrel_upd; [apply hrel_add_child, F|constructor].
    - rewrite Ew, El, Hln, (Hl eq_refl). cbn [is_not_exist negb]. apply crel_fail, F.
  Qed.

  (* ---- Symlink ------------------------------------------------------------------------------- *)
  (* the target: a portable absolute path or a portable relative one *)
  Definition trel (tw tl : str) : Prop := lnk_rel tw tl.

  Lemma clean_lnk tw tl : trel tw tl -> lnk_rel (clean Windows tw) (clean Linux tl).
  Proof.
    intros (Hok & [((r & ->) & ->)|(Hrel & ->)]).
    - destruct (@clean_W d Hd (SLASH :: r)) as [E Hc]; [discriminate|exact Hok|].
      split; [exact Hc|]. left. split; [|exact E].
      destruct (@clean_rooted (SLASH :: r) eq_refl) as (cs & Hcs & _). rewrite Hcs. eauto.
    - destruct (clean_rel Hok Hrel) as [E Hc]. split; [exact Hc|]. right. split; [apply clean_relstr, Hrel|exact E].
  Qed.

  Lemma symlink_sim sw sl vw vl tw tl rn : frel sw sl -> vrelR vw vl -> trel tw tl -> okstr (SLASH :: rn) ->
    crel (symlink sw vw tw (W (SLASH :: rn))) (symlink sl vl tl (SLASH :: rn)).
  Proof.
    intros F (V & HR) Ht Hokn. unfold symlink.
    sim_search SlLstat rn F V HR Hokn HS rw rl.
    pose proof (srel_last HS) as Hl. pose proof (srel_part HS) as Hp.
    destruct HS as (Hpar & _ & _ & [[E Hnd]|(Ew & El & Hl' & _)]).
    - rewrite E, Hl, Hpar, Hp.
      destruct (negb (is_not_exist (sr_err rl)) || negb (pi_is_last (sr_pi rl))); [apply crel_fail, F|].
      destruct (sr_parent rl) as [parent|]; [|apply crel_same, F].
      rewrite (perm_on_admin parent OpenWrite (fr_heap F) V).
      destruct (negb (perm_on (f_heap sl) parent OpenWrite (v_user vl))); [apply crel_fail, F|].
      split; [|reflexivity]. rewrite (vr_osw V), (vr_osl V). apply frel_create_symlink; [exact F|apply clean_lnk, Ht].
    - rewrite Ew, El, Hl, (Hl' eq_refl). cbn [is_not_exist negb orb]. apply crel_fail, F.
  Qed.

  (* ---- calls that resolve one existing path ---------------------------------------------------- *)
  Lemma readlink_sim sw sl vw vl r : frel sw sl -> vrelR vw vl -> okstr (SLASH :: r) ->
    rrel (readlink sw vw (W (SLASH :: r))) (readlink sl vl (SLASH :: r)).
  Proof.
    intros F (V & HR) Hok. unfold readlink, rrel.
    sim_search SlLstat r F V HR Hok HS rw rl.
    pose proof (srel_exists HS) as Hex. destruct HS as (_ & Hch & _ & _). rewrite Hch, Hex.
    destruct (negb (is_file_exists (sr_err rl))); [reflexivity|].
    destruct (sr_child rl) as [c|]; [|reflexivity].
    destruct (hrel_get_cases c (fr_heap F)) as [[Ew El]|(nw & nl & Ew & El & Hn)]; rewrite Ew, El; [reflexivity|].
    destruct Hn; reflexivity.
  Qed.

  Lemma chtimes_sim sw sl vw vl r : frel sw sl -> vrelR vw vl -> okstr (SLASH :: r) ->
    rrel (chtimes sw vw (W (SLASH :: r))) (chtimes sl vl (SLASH :: r)).
  Proof.
    intros F (V & HR) Hok. unfold chtimes, rrel.
    sim_search SlEval r F V HR Hok HS rw rl.
    pose proof (srel_exists HS) as Hex. destruct HS as (_ & Hch & _ & _). rewrite Hch, Hex.
    destruct (sr_child rl) as [c|]; [|reflexivity].
    destruct (negb (is_file_exists (sr_err rl))); [reflexivity|].
    destruct (hrel_get_cases c (fr_heap F)) as [[Ew El]|(nw & nl & Ew & El & Hn)]; rewrite Ew, El; [reflexivity|].
    unfold set_mode_ok. rewrite (vr_aw V), (vr_al V), !orb_true_r. reflexivity.
  Qed.

  Lemma stat_sim slm sw sl vw vl r : frel sw sl -> vrelR vw vl -> okstr (SLASH :: r) ->
    rrel (stat_gen slm sw vw (W (SLASH :: r))) (stat_gen slm sl vl (SLASH :: r)).
  Proof.
    intros F (V & HR) Hok. unfold stat_gen, rrel.
    sim_search slm r F V HR Hok HS rw rl.
    pose proof (srel_exists HS) as Hex. destruct HS as (_ & Hch & _ & _). rewrite Hch, Hex.
    destruct (sr_child rl) as [c|]; [|reflexivity].
    destruct (negb (is_file_exists (sr_err rl))); [reflexivity|].
    destruct (hrel_get_cases c (fr_heap F)) as [[Ew El]|(nw & nl & Ew & El & Hn)]; rewrite Ew, El; reflexivity.
  Qed.

  Lemma eval_symlinks_sim sw sl vw vl r : frel sw sl -> vrelR vw vl -> okstr (SLASH :: r) ->
    rrel (eval_symlinks sw vw (W (SLASH :: r))) (eval_symlinks sl vl (SLASH :: r)).
  Proof.
    intros F (V & HR) Hok. unfold eval_symlinks, rrel.
    sim_search SlEval r F V HR Hok HS rw rl.
    rewrite (srel_exists HS). destruct (negb (is_file_exists (sr_err rl))); reflexivity.
  Qed.

  (* Chdir: success / failure; the new current directory is not used by absolute paths *)
  Lemma chdir_sim sw sl vw vl r : frel sw sl -> vrelR vw vl -> okstr (SLASH :: r) ->
    match chdir sw vw (W (SLASH :: r)), chdir sl vl (SLASH :: r) with
    | inl a, inl b => okres a = okres b
    | inr _, inr _ => True
    | _, _ => False
    end.
  Proof.
    intros F (V & HR) Hok. unfold chdir.
    sim_search SlEval r F V HR Hok HS rw rl.
    pose proof (srel_exists HS) as Hex. destruct HS as (_ & Hch & _ & _). rewrite Hch, Hex.
    destruct (negb (is_file_exists (sr_err rl))); [reflexivity|].
    destruct (sr_child rl) as [c|]; [|reflexivity].
    destruct (hrel_get_cases c (fr_heap F)) as [[Ew El]|(nw & nl & Ew & El & Hn)]; rewrite Ew, El; [reflexivity|].
    destruct Hn; try reflexivity. rewrite !cp_admin by apply V. exact I.
  Qed.

  Lemma chmod_sim sw sl vw vl r mode : frel sw sl -> vrelR vw vl -> okstr (SLASH :: r) ->
    crel (chmod sw vw (W (SLASH :: r)) mode) (chmod sl vl (SLASH :: r) mode).
  Proof.
    intros F (V & HR) Hok. unfold chmod.
    sim_search SlEval r F V HR Hok HS rw rl.
    pose proof (srel_exists HS) as Hex. destruct HS as (_ & Hch & _ & _). rewrite Hch, Hex.
    destruct (sr_child rl) as [c|]; [|apply crel_fail, F].
    destruct (negb (is_file_exists (sr_err rl))); [apply crel_fail, F|].
    destruct (hrel_get_cases c (fr_heap F)) as [[Ew El]|(nw & nl & Ew & El & Hn)]; rewrite Ew, El; [apply crel_fail, F|].
    unfold set_mode_ok. rewrite (vr_aw V), (vr_al V), !orb_true_r.
    destruct Hn; try (apply crel_fail, F); (split; [|reflexivity]); apply frel_with_heap; try exact F;
      apply hrel_upd; try apply F; constructor.
  Qed.

  Lemma truncate_sim sw sl vw vl r size : frel sw sl -> vrelR vw vl -> okstr (SLASH :: r) ->
    crel (truncate sw vw (W (SLASH :: r)) size) (truncate sl vl (SLASH :: r) size).
  Proof.
    intros F (V & HR) Hok. unfold truncate, win. rewrite (vr_osw V), (vr_osl V). cbn [ostype_eqb negb].
    sim_search SlEval r F V HR Hok HS rw rl.
    pose proof (srel_exists HS) as Hex. destruct HS as (_ & Hch & _ & _). rewrite Hch, Hex, andb_false_r.
    assert (Hfail : forall x : fsys * res, okres (snd x) = false -> frel (fst x) sl -> crel x (sl, RFail EInvalidArgument)).
    { intros [a b] H1 H2. split; [exact H2|exact H1]. }
    destruct (Z.ltb size 0) eqn:Esz; cbn [andb].
    - (* negative size: Linux refuses at once, Windows after the walk - both fail *)
      apply Hfail; destruct (negb (is_file_exists (sr_err rl))); cbn [fst snd]; try reflexivity; try exact F;
        destruct (sr_child rl) as [c|]; cbn [fst snd]; try reflexivity; try exact F;
        destruct (get (f_heap sw) c) as [[?|? ? ? ?|?]|]; cbn [fst snd]; try reflexivity; exact F.
    - destruct (negb (is_file_exists (sr_err rl))); [apply crel_fail, F|].
      destruct (sr_child rl) as [c|]; [|apply crel_fail, F].
      destruct (hrel_get_cases c (fr_heap F)) as [[Ew El]|(nw & nl & Ew & El & Hn)]; rewrite Ew, El; [apply crel_fail, F|].
      destruct Hn; try (apply crel_fail, F). rewrite !cp_admin by apply V. cbn [negb].
      split; [|reflexivity]. apply frel_with_heap; [exact F|]. apply hrel_upd; [apply F|constructor].
  Qed.

  (* ---- RemoveAll ------------------------------------------------------------------------------ *)
  Definition hpair_rel (xw xl : heap * option ekind) : Prop := hrel (fst xw) (fst xl) /\ snd xw = snd xl.

  Lemma ra_loop_sim (recw recl : heap -> nat -> heap * option ekind) dd :
    (forall hw hl c, hrel hw hl -> hpair_rel (recw hw c) (recl hl c)) ->
    forall chs hw hl, hrel hw hl -> hpair_rel (ra_loop recw dd chs hw) (ra_loop recl dd chs hl).
  Proof.
    intros Hrec. induction chs as [|[nm c] chs IH]; intros hw hl H; [split; [exact H|reflexivity]|].
    cbn [ra_loop]. rewrite (hrel_node_is_dir c H). destruct (node_is_dir hl c).
    - destruct (Hrec hw hl c H) as [H1 E]. destruct (recw hw c) as [hw1 ew]. destruct (recl hl c) as [hl1 el].
      cbn [fst snd] in H1, E. subst ew. destruct el; [split; [exact H1|reflexivity]|].
      apply IH. apply hrel_delete_node, hrel_remove_child, H1.
    - apply IH. apply hrel_delete_node, hrel_remove_child, H.
  Qed.

  Lemma remove_all_rec_sim uw ul : us_admin uw = true -> us_admin ul = true ->
    forall fuel hw hl dd, hrel hw hl -> hpair_rel (remove_all_rec fuel hw uw dd) (remove_all_rec fuel hl ul dd).
  Proof.
    intros Aw Al. induction fuel as [|fuel IH]; intros hw hl dd H; [split; [exact H|reflexivity]|].
    rewrite !remove_all_rec_S.
    assert (Hp : perm_on hw dd OpenWrite uw = perm_on hl dd OpenWrite ul).
    { unfold perm_on. destruct (hrel_get_cases dd H) as [[Ew El]|(nw & nl & Ew & El & _)]; rewrite Ew, El; [reflexivity|].
      rewrite !cp_admin by assumption. reflexivity. }
    rewrite Hp. destruct (negb (perm_on hl dd OpenWrite ul)); [split; [exact H|reflexivity]|].
    rewrite (hrel_children dd H). apply ra_loop_sim; [|exact H]. intros hw' hl' c H'. apply IH, H'.
  Qed.

  (* RemoveAll agrees on success / failure unless the Linux-typed walk meets a regular file before the end
     of the path (then the Windows-typed one reports "does not exist" and RemoveAll succeeds): the finding *)
  Definition removeall_through_file (sl : fsys) (vl : view) (p : str) : bool :=
    match sr_err (search_node sl vl p SlLstat) with ENotADirectory => true | _ => false end.

  Lemma remove_all_sim sw sl vw vl r : frel sw sl -> vrelR vw vl -> okstr (SLASH :: r) ->
    frel (fst (remove_all sw vw (W (SLASH :: r)))) (fst (remove_all sl vl (SLASH :: r)))
    /\ (removeall_through_file sl vl (SLASH :: r) = false ->
        okres (snd (remove_all sw vw (W (SLASH :: r)))) = okres (snd (remove_all sl vl (SLASH :: r)))).
  Proof.
    intros F (V & HR) Hok. unfold remove_all, removeall_through_file.
    sim_search SlLstat r F V HR Hok HS rw rl.
    expose_W. cbv iota.
    pose proof (srel_part HS) as Hpt.
    destruct HS as (Hpar & Hch & HpiR & [[E Hnd]|(Ew & El & Hl & _)]).
    2:{ rewrite Ew, El. cbn [is_not_exist is_file_exists negb fst snd]. split; [exact F|discriminate]. }
    rewrite E, Hch, Hpar, Hpt.
    assert (Hgoal : crel
      (if is_not_exist (sr_err rl) then (sw, ROk)
       else if negb (is_file_exists (sr_err rl)) then (sw, RFail (sr_err rl))
       else match sr_child rl, sr_parent rl with
            | Some c, Some parent =>
                let h := f_heap sw in
                let nonempty_dir := match get h c with Some (NDir (_ :: _) _) => true | _ => false end in
                if Nat.eqb parent c then (sw, RFail EInvalidArgument)
                else
                  let '(h1, e1) := if nonempty_dir then remove_all_rec (S (length h)) h (v_user vw) c else (h, None) in
                  match e1 with
                  | Some e => (with_heap sw h1, RFail e)
                  | None =>
                      if negb (perm_on h1 parent OpenWrite (v_user vw)) then (with_heap sw h1, RFail EPermDenied)
                      else (with_heap sw (delete_node (remove_child h1 parent (pi_part (sr_pi rl))) c), ROk)
                  end
            | _, _ => (sw, RPanic)
            end)
      (if is_not_exist (sr_err rl) then (sl, ROk)
       else if negb (is_file_exists (sr_err rl)) then (sl, RFail (sr_err rl))
       else match sr_child rl, sr_parent rl with
            | Some c, Some parent =>
                let h := f_heap sl in
                let nonempty_dir := match get h c with Some (NDir (_ :: _) _) => true | _ => false end in
                if Nat.eqb parent c then (sl, RFail EInvalidArgument)
                else
                  let '(h1, e1) := if nonempty_dir then remove_all_rec (S (length h)) h (v_user vl) c else (h, None) in
                  match e1 with
                  | Some e => (with_heap sl h1, RFail e)
                  | None =>
                      if negb (perm_on h1 parent OpenWrite (v_user vl)) then (with_heap sl h1, RFail EPermDenied)
                      else (with_heap sl (delete_node (remove_child h1 parent (pi_part (sr_pi rl))) c), ROk)
                  end
            | _, _ => (sl, RPanic)
            end)).
    { destruct (is_not_exist (sr_err rl)); [apply crel_same, F|].
      destruct (negb (is_file_exists (sr_err rl))); [apply crel_fail, F|].
      destruct (sr_child rl) as [c|]; [|apply crel_same, F].
      destruct (sr_parent rl) as [parent|]; [|apply crel_same, F].
      cbv zeta. destruct (Nat.eqb parent c); [apply crel_fail, F|].
      assert (Hne : match get (f_heap sw) c with Some (NDir (_ :: _) _) => true | _ => false end
                    = match get (f_heap sl) c with Some (NDir (_ :: _) _) => true | _ => false end).
      { destruct (hrel_get_cases c (fr_heap F)) as [[Ew El]|(nw & nl & Ew & El & Hn)]; rewrite Ew, El; [reflexivity|].
        destruct Hn; reflexivity. }
      rewrite Hne, (hrel_length (fr_heap F)).
      assert (Hrec : hpair_rel
                (if match get (f_heap sl) c with Some (NDir (_ :: _) _) => true | _ => false end
                 then remove_all_rec (S (length (f_heap sl))) (f_heap sw) (v_user vw) c else (f_heap sw, None))
                (if match get (f_heap sl) c with Some (NDir (_ :: _) _) => true | _ => false end
                 then remove_all_rec (S (length (f_heap sl))) (f_heap sl) (v_user vl) c else (f_heap sl, None))).
      { destruct (match get (f_heap sl) c with Some (NDir (_ :: _) _) => true | _ => false end).
        - apply remove_all_rec_sim; [apply V|apply V|apply F].
        - split; [apply F|reflexivity]. }
      destruct Hrec as [H1 E1].
      destruct (if match get (f_heap sl) c with Some (NDir (_ :: _) _) => true | _ => false end
                then remove_all_rec (S (length (f_heap sl))) (f_heap sw) (v_user vw) c else (f_heap sw, None)) as [hw1 ew].
      destruct (if match get (f_heap sl) c with Some (NDir (_ :: _) _) => true | _ => false end
                then remove_all_rec (S (length (f_heap sl))) (f_heap sl) (v_user vl) c else (f_heap sl, None)) as [hl1 el].
      cbn [fst snd] in H1, E1. subst ew.
      destruct el; [split; [apply frel_with_heap; assumption|reflexivity]|].
      rewrite (perm_on_admin parent OpenWrite H1 V).
      destruct (negb (perm_on hl1 parent OpenWrite (v_user vl))); [split; [apply frel_with_heap; assumption|reflexivity]|].
      split; [|reflexivity]. apply frel_with_heap; [exact F|]. apply hrel_delete_node, hrel_remove_child, H1. }
    destruct Hgoal as [G1 G2]. split; [exact G1|intros _; exact G2].
  Qed.

  (* ---- Chown / Lchown: not supported on a Windows-typed file system (documented) ---------------- *)
  Lemma chown_sim slm sw sl vw vl r uid gid : frel sw sl -> vrelR vw vl -> okstr (SLASH :: r) ->
    frel (fst (chown_gen slm sw vw (W (SLASH :: r)) uid gid)) (fst (chown_gen slm sl vl (SLASH :: r) uid gid))
    /\ okres (snd (chown_gen slm sw vw (W (SLASH :: r)) uid gid)) = false.
  Proof.
    intros F (V & HR) Hok. unfold chown_gen, win. rewrite (vr_osw V), (vr_osl V). cbn [ostype_eqb].
    cbn [fst snd]. split; [|reflexivity].
    destruct (sr_child (search_node sl vl (SLASH :: r) slm)) as [c|]; [|exact F].
    destruct (negb (is_file_exists (sr_err (search_node sl vl (SLASH :: r) slm)))); [exact F|].
    destruct (get (f_heap sl) c) as [n|] eqn:El; [|exact F].
    destruct (v_idm vl && negb (chown_ok (node_meta n) (v_user vl) uid gid)); [exact F|]. cbn [fst].
    destruct F as [FH FI FV]. constructor; cbn [f_heap f_last_id f_vols with_heap]; auto.
    (* only the owner changes on the Linux side: the nodes stay related *)
    destruct (hrel_get_cases c FH) as [[Ew El']|(nw & nl & Ew & El' & Hn)]; [congruence|].
    rewrite El in El'. injection El' as <-.
    assert (Hupd : forall hw hl, hrel hw hl -> get hw c = Some nw -> hrel hw (upd hl c (set_meta n (chown_meta n (v_user vl) uid gid)))).
    { clear -Hn. intros hw hl H. revert c. induction H as [|a b hw hl Hab H IH]; intros c E; [destruct c; discriminate|].
      destruct c; cbn [upd].
      - cbn in E. injection E as ->. constructor; [|exact H]. destruct Hn; constructor. assumption.
      - constructor; [exact Hab|]. apply IH. exact E. }
    apply Hupd; assumption.
  Qed.

  (* ---- Rename ----------------------------------------------------------------------------------- *)
  Lemma is_prefix_mp (a b : str) : is_prefix (map phi a) (map phi b) = is_prefix a b.
  Proof.
    revert b. induction a as [|x a IH]; intros [|y b]; cbn [map is_prefix]; try reflexivity.
    rewrite phi_eqb, IH. reflexivity.
  Qed.

  Lemma is_prefix_W (a b : str) : is_prefix (W a ++ [BSLASH]) (W b) = is_prefix (a ++ [SLASH]) b.
  Proof.
    replace (W a ++ [BSLASH]) with (W (a ++ [SLASH])) by (rewrite (W_app d); reflexivity).
    unfold PathEquiv.W, vol. cbn [app is_prefix]. rewrite !N.eqb_refl. cbn [andb]. apply is_prefix_mp.
  Qed.

  Lemma srel_path slm hl rw rl : srel slm hl rw rl -> pi_path (sr_pi rw) = W (pi_path (sr_pi rl)).
  Proof. intros (_ & _ & ((Hp & _) & _) & _). exact Hp. Qed.

  Lemma rename_sim sw sl vw vl ro rn : frel sw sl -> vrelR vw vl -> okstr (SLASH :: ro) -> okstr (SLASH :: rn) ->
    crel (rename sw vw (W (SLASH :: ro)) (W (SLASH :: rn))) (rename sl vl (SLASH :: ro) (SLASH :: rn)).
  Proof.
    intros F (V & HR) Hoko Hokn. unfold rename, win. rewrite (vr_osw V), (vr_osl V). cbn [ostype_eqb].
    rewrite (str_eqb_W d).
    sim_search SlLstat ro F V HR Hoko HSo rwo rlo.
    pose proof (srel_exists HSo) as Hexo. pose proof (srel_part HSo) as Hpo. pose proof (srel_path HSo) as Hpatho.
    destruct HSo as (Hparo & Hcho & _ & _). rewrite Hexo.
    destruct (negb (is_file_exists (sr_err rlo))); [apply crel_fail, F|].
    sim_search SlLstat rn F V HR Hokn HSn rwn rln.
    pose proof (srel_exists HSn) as Hexn. pose proof (srel_part HSn) as Hpn. pose proof (srel_path HSn) as Hpathn.
    pose proof (srel_last HSn) as Hln.
    destruct HSn as (Hparn & Hchn & _ & [[E Hnd]|(Ew & El & Hl & _)]).
    2:{ rewrite Ew, El, Hln, (Hl eq_refl). cbn [is_file_exists is_not_exist negb andb]. apply crel_fail, F. }
    rewrite E, Hln, Hparo, Hcho, Hparn, Hchn, Hpo, Hpn, Hpatho, Hpathn, (str_eqb_W d).
    change (sepc Windows) with BSLASH. change (sepc Linux) with SLASH. rewrite is_prefix_W.
    destruct (negb (is_file_exists (sr_err rln)) && negb (is_not_exist (sr_err rln))); [apply crel_fail, F|].
    destruct (is_not_exist (sr_err rln) && negb (pi_is_last (sr_pi rln))); [apply crel_fail, F|].
    destruct (sr_parent rlo) as [op|]; [|apply crel_same, F].
    destruct (sr_child rlo) as [oc|]; [|apply crel_same, F].
    destruct (sr_parent rln) as [np|]; [|apply crel_same, F].
    assert (Hmove : forall hw0 hl0, hrel hw0 hl0 ->
              crel (with_heap sw (remove_child (add_child hw0 np (pi_part (sr_pi rln)) oc) op (pi_part (sr_pi rlo))), ROk)
                   (with_heap sl (remove_child (add_child hl0 np (pi_part (sr_pi rln)) oc) op (pi_part (sr_pi rlo))), ROk)).
    { intros hw0 hl0 H0. split; [|reflexivity]. apply frel_with_heap; [exact F|]. apply hrel_remove_child, hrel_add_child, H0. }
    assert (Hnd' : match sr_child rln with Some nc => node_is_dir (f_heap sw) nc | None => false end
                   = match sr_child rln with Some nc => node_is_dir (f_heap sl) nc | None => false end).
    { destruct (sr_child rln) as [nc|]; [exact (@hrel_node_is_dir d _ _ nc (fr_heap F))|reflexivity]. }
    (* the permission checks: both users are administrators *)
    Ltac ren_perms F V op np sl vl :=
      rewrite (perm_on_admin op OpenWrite (fr_heap F) V), (perm_on_admin np OpenWrite (fr_heap F) V);
      destruct (negb (perm_on (f_heap sl) op OpenWrite (v_user vl))); [apply crel_fail, F|];
      rewrite !(sticky_admin _ _ _ _ (vr_aw V)), !(sticky_admin _ _ _ _ (vr_al V)); cbv iota;
      destruct (negb (Nat.eqb np op) && negb (perm_on (f_heap sl) np OpenWrite (v_user vl))); [apply crel_fail, F|].
    cbv zeta. rewrite Hnd'.
    destruct (hrel_get_cases oc (fr_heap F)) as [[Ew El]|(nw & nl & Ew & El & Hn)]; rewrite Ew, El.
    { ren_perms F V op np sl vl. apply Hmove, (fr_heap F). }
    assert (Hfile : crel
        (match sr_child rln with
              | None => (with_heap sw (remove_child (add_child (f_heap sw) np (pi_part (sr_pi rln)) oc) op (pi_part (sr_pi rlo))), ROk)
              | Some nc => match get (f_heap sw) nc with
                           | Some (NFile _ _ _ _) | Some (NSym _ _) =>
                               if sticky_refuses (f_heap sw) np nc (v_user vw) then (sw, RFail EOpNotPermitted) else
                               (with_heap sw (remove_child (add_child (delete_node (f_heap sw) nc) np (pi_part (sr_pi rln)) oc) op (pi_part (sr_pi rlo))), ROk)
                           | _ => (sw, RFail EW_AccessDenied)
                           end
              end)
        (match sr_child rln with
              | None => (with_heap sl (remove_child (add_child (f_heap sl) np (pi_part (sr_pi rln)) oc) op (pi_part (sr_pi rlo))), ROk)
              | Some nc => match get (f_heap sl) nc with
                           | Some (NFile _ _ _ _) | Some (NSym _ _) =>
                               if sticky_refuses (f_heap sl) np nc (v_user vl) then (sl, RFail EOpNotPermitted) else
                               (with_heap sl (remove_child (add_child (delete_node (f_heap sl) nc) np (pi_part (sr_pi rln)) oc) op (pi_part (sr_pi rlo))), ROk)
                           | _ => (sl, RFail EC_FileExists)
                           end
              end)).
    { destruct (sr_child rln) as [nc|]; [|apply Hmove, (fr_heap F)].
      destruct (hrel_get_cases nc (fr_heap F)) as [[Ew' El']|(nw' & nl' & Ew' & El' & Hn')]; rewrite Ew', El'; [apply crel_fail, F|].
      rewrite (sticky_admin _ _ _ _ (vr_aw V)), (sticky_admin _ _ _ _ (vr_al V)).
      destruct Hn'; [apply crel_fail, F|apply Hmove, hrel_delete_node, (fr_heap F)|apply Hmove, hrel_delete_node, (fr_heap F)]. }
    destruct Hn as [ch mw ml|dt k i mw ml|lw ll mw ml Hlnk].
    2,3: (destruct (str_eqb (pi_path (sr_pi rlo)) (pi_path (sr_pi rln)) || match sr_child rln with Some nc => Nat.eqb nc oc | None => false end);
          [apply crel_same, F|]; ren_perms F V op np sl vl; exact Hfile).
    destruct (match sr_child rln with Some nc => node_is_dir (f_heap sl) nc | None => false end && negb (is_not_exist (sr_err rln))).
    - destruct (match sr_child rln with Some nc => Nat.eqb nc oc | None => false end && negb (str_eqb (SLASH :: ro) (SLASH :: rn)));
        [apply crel_same, F|apply crel_fail, F].
    - destruct (Nat.eqb oc op || Nat.eqb oc np || is_prefix (pi_path (sr_pi rlo) ++ [SLASH]) (pi_path (sr_pi rln))); [apply crel_fail, F|].
      ren_perms F V op np sl vl.
      destruct (negb (is_not_exist (sr_err rln))); [apply crel_fail, F|].
      rewrite (vr_aw V), (vr_al V). cbn [negb]. rewrite !andb_false_r. apply Hmove, (fr_heap F).
  Qed.

  (* ---- OpenFile and the composites built on it -------------------------------------------------- *)
  Definition hdrel (fw fl : handle) : Prop :=
    hd_node fw = hd_node fl /\ hd_at fw = hd_at fl /\ hd_mode fw = hd_mode fl
    /\ hd_dir_infos fw = None /\ hd_dir_infos fl = None /\ hd_dir_names fw = None /\ hd_dir_names fl = None
    /\ hd_dir_index fw = hd_dir_index fl /\ hd_name fw <> [] /\ hd_name fl <> [] /\ hd_node fl <> None.

  Definition orel (xw xl : fsys * (res + handle)) : Prop :=
    frel (fst xw) (fst xl) /\
    match snd xw, snd xl with
    | inl a, inl b => okres a = okres b
    | inr fw, inr fl => hdrel fw fl
    | _, _ => False
    end.

  Lemma orel_fail sw sl ew el : frel sw sl -> orel (sw, inl (RFail ew)) (sl, inl (RFail el)).
  Proof. intros F. split; [exact F|reflexivity]. Qed.

  Lemma hdrel_new c vi r at_ om : hdrel (new_handle c vi (W (SLASH :: r)) at_ om) (new_handle c vi (SLASH :: r) at_ om).
  Proof. unfold hdrel, new_handle. cbn. repeat split; auto; discriminate. Qed.

  Lemma open_file_sim sw sl vw vl vi r flag perm : frel sw sl -> vrelR vw vl -> okstr (SLASH :: r) ->
    orel (open_file sw vw vi (W (SLASH :: r)) flag perm) (open_file sl vl vi (SLASH :: r) flag perm).
  Proof.
    intros F (V & HR) Hok. unfold open_file.
    set (om := to_open_mode flag).
    assert (Hslm : slmode_eqb (if has om OpenCreateExcl then SlLstat else SlEval) SlStat = false)
      by (destruct (has om OpenCreateExcl); reflexivity).
    pose proof (@search_node_sim d Hd R sw sl vw vl (if has om OpenCreateExcl then SlLstat else SlEval) r F V HR Hok) as HS.
    set (rw := search_node sw vw (W (SLASH :: r)) (if has om OpenCreateExcl then SlLstat else SlEval)) in *.
    set (rl := search_node sl vl (SLASH :: r) (if has om OpenCreateExcl then SlLstat else SlEval)) in *.
    set (nmw := W (SLASH :: r)) in *.
    assert (Hnm : exists t, nmw = d :: t) by (eexists; reflexivity). destruct Hnm as (t & Hnm).
    rewrite Hnm at 1. cbv iota.
    pose proof (srel_part HS) as Hpt. pose proof (srel_last HS) as Hl.
    destruct HS as (Hpar & Hch & HpiR & [[E Hnd]|(Ew & El & Hl' & _)]).
    2:{ rewrite Ew, El, Hl, (Hl' Hslm). cbn [is_file_exists is_not_exist negb andb orb]. apply orel_fail, F. }
    rewrite E, Hl, Hpar, Hch, Hpt.
    destruct ((negb (is_file_exists (sr_err rl)) && negb (is_not_exist (sr_err rl))) || negb (pi_is_last (sr_pi rl)));
      [apply orel_fail, F|].
    assert (Hsym : match sr_child rl with
                   | Some c => match get (f_heap sw) c with Some (NSym _ _) => true | _ => false end
                   | None => false end
                   = match sr_child rl with
                     | Some c => match get (f_heap sl) c with Some (NSym _ _) => true | _ => false end
                     | None => false end).
    { destruct (sr_child rl) as [c|]; [|reflexivity].
      destruct (hrel_get_cases c (fr_heap F)) as [[Ew El]|(nw & nl & Ew & El & Hn)]; rewrite Ew, El; [reflexivity|].
      destruct Hn; reflexivity. }
    rewrite Hsym.
    destruct (is_file_exists (sr_err rl) && has om OpenCreateExcl
              && match sr_child rl with
                 | Some c => match get (f_heap sl) c with Some (NSym _ _) => true | _ => false end
                 | None => false end); [apply orel_fail, F|].
    (* opening an existing node *)
    assert (Hex : forall c, orel
      match get (f_heap sw) c with
      | Some (NFile dt k i m) =>
          if negb (check_permission m (if has om OpenTruncate then N.lor om OpenWrite else om) (v_user vw))
          then (sw, inl (RFail EPermDenied))
          else if has om OpenCreateExcl then (sw, inl (RFail EFileExists))
          else (with_heap sw (upd (f_heap sw) c (NFile (if has om OpenTruncate then [] else dt) k i
                                                   (if has om OpenTruncate then drop_privs (v_user vw) m else m))),
                inr (new_handle c vi nmw 0%Z om))
      | Some (NDir _ m) =>
          if has om OpenCreateExcl then (sw, inl (RFail EFileExists))
          else if has om OpenWrite || has om OpenCreate || has om OpenTruncate then (sw, inl (RFail EIsADirectory))
          else if negb (check_permission m om (v_user vw)) then (sw, inl (RFail EPermDenied))
          else (sw, inr (new_handle c vi nmw 0 om))
      | _ => (sw, inr (new_handle c vi nmw 0 om))
      end
      match get (f_heap sl) c with
      | Some (NFile dt k i m) =>
          if negb (check_permission m (if has om OpenTruncate then N.lor om OpenWrite else om) (v_user vl))
          then (sl, inl (RFail EPermDenied))
          else if has om OpenCreateExcl then (sl, inl (RFail EFileExists))
          else (with_heap sl (upd (f_heap sl) c (NFile (if has om OpenTruncate then [] else dt) k i
                                                   (if has om OpenTruncate then drop_privs (v_user vl) m else m))),
                inr (new_handle c vi (SLASH :: r) 0%Z om))
      | Some (NDir _ m) =>
          if has om OpenCreateExcl then (sl, inl (RFail EFileExists))
          else if has om OpenWrite || has om OpenCreate || has om OpenTruncate then (sl, inl (RFail EIsADirectory))
          else if negb (check_permission m om (v_user vl)) then (sl, inl (RFail EPermDenied))
          else (sl, inr (new_handle c vi (SLASH :: r) 0 om))
      | _ => (sl, inr (new_handle c vi (SLASH :: r) 0 om))
      end).
    { intros c.
      destruct (hrel_get_cases c (fr_heap F)) as [[Ew El]|(nw & nl & Ew & El & Hn)]; rewrite Ew, El;
        [split; [exact F|apply hdrel_new]|].
      destruct Hn as [ch mw ml|dt k i mw ml|lw ll mw ml Hlnk].
      - destruct (has om OpenCreateExcl); [apply orel_fail, F|].
        destruct (has om OpenWrite || has om OpenCreate || has om OpenTruncate); [apply orel_fail, F|].
        rewrite !cp_admin by apply V. cbn [negb]. split; [exact F|apply hdrel_new].
      - rewrite !cp_admin by apply V. cbn [negb].
        destruct (has om OpenCreateExcl); [apply orel_fail, F|].
        split; [|apply hdrel_new]. apply frel_with_heap; [exact F|]. apply hrel_upd; [apply F|constructor].
      - split; [exact F|apply hdrel_new]. }
    cbv zeta.
    destruct (is_not_exist (sr_err rl)).
    - destruct (negb (has om OpenCreate)); [apply orel_fail, F|].
      destruct (sr_parent rl) as [parent|]; [|split; [exact F|reflexivity]].
      rewrite (perm_on_admin parent (N.lor OpenWrite OpenLookup) (fr_heap F) V).
      destruct (negb (perm_on (f_heap sl) parent (N.lor OpenWrite OpenLookup) (v_user vl))); [apply orel_fail, F|].
      rewrite (hrel_children parent (fr_heap F)).
      destruct (alookup str_eqb (pi_part (sr_pi rl)) (children (f_heap sl) parent)) as [c|]; [apply Hex|].
      destruct (@frel_create_file sw sl vw vl parent (pi_part (sr_pi rl)) perm F (conj V HR)) as [F1 Ec].
      destruct (create_file sw vw parent (pi_part (sr_pi rl)) perm) as [sw1 cw].
      destruct (create_file sl vl parent (pi_part (sr_pi rl)) perm) as [sl1 cl].
      cbn [fst snd] in F1, Ec. subst cw. split; [exact F1|apply hdrel_new].
    - destruct (sr_child rl) as [c|]; [apply Hex|split; [exact F|reflexivity]].
  Qed.

  Lemma file_of_rel sw sl c : frel sw sl ->
    match file_of sw c, file_of sl c with
    | Some (dw, kw, iw, _), Some (dl, kl, il, _) => dw = dl /\ kw = kl /\ iw = il
    | None, None => True
    | _, _ => False
    end.
  Proof.
    intros F. unfold file_of.
    destruct (hrel_get_cases c (fr_heap F)) as [[Ew El]|(nw & nl & Ew & El & Hn)]; rewrite Ew, El; [exact I|].
    destruct Hn; auto.
  Qed.

  Lemma read_dir_sim sw sl vw vl r : frel sw sl -> vrelR vw vl -> okstr (SLASH :: r) ->
    rrel (read_dir sw vw (W (SLASH :: r))) (read_dir sl vl (SLASH :: r)).
  Proof.
    intros F V Hok. unfold read_dir, rrel.
    destruct (@open_file_sim sw sl vw vl 0 r 0%N 0%N F V Hok) as [F1 Hres].
    destruct (open_file sw vw 0 (W (SLASH :: r)) 0 0) as [sw1 [aw|fw]];
      destruct (open_file sl vl 0 (SLASH :: r) 0 0) as [sl1 [al|fl]]; cbn [fst snd] in *; try contradiction; [exact Hres|].
    destruct Hres as (Hn & _ & _ & Hi1 & Hi2 & _ & _ & _ & Hnw & Hnl & Hsome).
    unfold f_read_dir, dir_read. destruct (hd_name fw); [congruence|]. destruct (hd_name fl); [congruence|].
    rewrite Hn. destruct (hd_node fl) as [c|]; [|congruence].
    destruct (hrel_get_cases c (fr_heap F1)) as [[Ew El]|(nw & nl & Ew & El & Hnr)]; rewrite Ew, El; [reflexivity|].
    destruct Hnr; reflexivity.
  Qed.

  Lemma read_file_sim sw sl vw vl r : frel sw sl -> vrelR vw vl -> okstr (SLASH :: r) ->
    rrel (read_file sw vw (W (SLASH :: r))) (read_file sl vl (SLASH :: r)).
  Proof.
    intros F V Hok. unfold read_file, rrel.
    destruct (@open_file_sim sw sl vw vl 0 r 0%N 0%N F V Hok) as [F1 Hres].
    destruct (open_file sw vw 0 (W (SLASH :: r)) 0 0) as [sw1 [aw|fw]];
      destruct (open_file sl vl 0 (SLASH :: r) 0 0) as [sl1 [al|fl]]; cbn [fst snd] in *; try contradiction; [exact Hres|].
    destruct Hres as (Hn & Hat & Hm & _ & _ & _ & _ & _ & Hnw & Hnl & Hsome).
    unfold f_read. destruct (hd_name fw); [congruence|]. destruct (hd_name fl); [congruence|].
    rewrite Hn, Hm. destruct (hd_node fl) as [c|]; [|congruence].
    assert (Hsz : match get (f_heap sw1) c with Some (NFile d0 _ _ _) => Z.of_nat (length d0) | _ => 0%Z end
                  = match get (f_heap sl1) c with Some (NFile d0 _ _ _) => Z.of_nat (length d0) | _ => 0%Z end).
    { destruct (hrel_get_cases c (fr_heap F1)) as [[Ew El]|(nw & nl & Ew & El & Hnr)]; rewrite Ew, El; [reflexivity|].
      destruct Hnr; reflexivity. }
    rewrite Hsz.
    destruct (Z.leb _ 0); [reflexivity|].
    pose proof (@file_of_rel sw1 sl1 c F1) as Hf.
    destruct (file_of sw1 c) as [[[[dw kw] iw] mw]|]; destruct (file_of sl1 c) as [[[[dl kl] il] ml]|]; try contradiction;
      [|destruct (win vw), (win vl); reflexivity].
    destruct Hf as (-> & _ & _). destruct (negb (has (hd_mode fl) OpenRead)); [reflexivity|].
    rewrite Hat.
    destruct (Z.eqb _ 0); reflexivity.
  Qed.

  Lemma write_file_sim sw sl vw vl r data perm : frel sw sl -> vrelR vw vl -> okstr (SLASH :: r) ->
    crel (write_file sw vw (W (SLASH :: r)) data perm) (write_file sl vl (SLASH :: r) data perm).
  Proof.
    intros F V Hok. unfold write_file.
    destruct (@open_file_sim sw sl vw vl 0 r (O_WRONLY + O_CREATE + O_TRUNC)%N perm F V Hok) as [F1 Hres].
    destruct (open_file sw vw 0 (W (SLASH :: r)) (O_WRONLY + O_CREATE + O_TRUNC) perm) as [sw1 [aw|fw]];
      destruct (open_file sl vl 0 (SLASH :: r) (O_WRONLY + O_CREATE + O_TRUNC) perm) as [sl1 [al|fl]];
      cbn [fst snd] in *; try contradiction; [split; [exact F|exact Hres]|].
    destruct Hres as (Hn & Hat & Hm & _ & _ & _ & _ & _ & Hnw & Hnl & Hsome).
    unfold f_write. destruct (hd_name fw); [congruence|]. destruct (hd_name fl); [congruence|].
    rewrite Hn, Hm. destruct (hd_node fl) as [c|]; [|congruence].
    pose proof (@file_of_rel sw1 sl1 c F1) as Hf.
    destruct (file_of sw1 c) as [[[[dw kw] iw] mw]|]; destruct (file_of sl1 c) as [[[[dl kl] il] ml]|]; try contradiction;
      [|split; [exact F1|destruct (win vw), (win vl); reflexivity]].
    destruct Hf as (-> & -> & ->).
    destruct (negb (has (hd_mode fl) OpenWrite)); [split; [exact F1|destruct (win vw), (win vl); reflexivity]|].
    destruct data as [|b0 data]; [split; [exact F1|reflexivity]|].
    rewrite Hat. split; [|reflexivity]. cbn [fst]. apply frel_with_heap; [exact F1|]. apply hrel_upd; [apply F1|constructor].
  Qed.
End Calls.
