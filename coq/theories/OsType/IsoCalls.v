(* Property C17: every namespace call of a Windows-typed and of a Linux-typed MemFS
   on related states and related (portable, absolute) paths, in lock step:
   related states afterwards, same success / failure - except the branches listed in
   IsoRun.v (Chown / Lchown: not supported on Windows; RemoveAll through a regular file). *)
From Avfs Require Import Base PathModel PathSpec PathCleanProofs PathProofs MemFS MemFile World IsoView
  PathEquiv IsoIter IsoSearch.
Set Implicit Arguments.

Section Calls.
  Variable d : N.
  Hypothesis Hd : is_letter d = true.
  Variable R : nat.
  Notation W := (W d).
  Notation piR := (piR d).
  Notation lnk_rel := (lnk_rel d).
  Notation nrel := (nrel d).
  Notation hrel := (hrel d).
  Notation frel := (frel d R).
  Notation srel := (srel d).

  (* ---- heap mutators keep the relation -------------------------------------------------- *)
  Lemma hrel_upd hw hl i nw nl : hrel hw hl -> nrel nw nl -> hrel (upd hw i nw) (upd hl i nl).
  Proof.
    intros H Hn. revert i. induction H as [|a b hw hl Hab H IH]; intros i; [constructor|].
    destruct i; cbn [upd]; constructor; auto. apply IH.
  Qed.

  Lemma hrel_app hw hl nw nl : hrel hw hl -> nrel nw nl -> hrel (hw ++ [nw]) (hl ++ [nl]).
  Proof. intros H Hn. apply Forall2_app; [exact H|constructor; [exact Hn|constructor]]. Qed.

  Lemma hrel_add_child hw hl p name c : hrel hw hl -> hrel (add_child hw p name c) (add_child hl p name c).
  Proof.
    intros H. unfold add_child.
    destruct (hrel_get_cases p H) as [[Ew El]|(nw & nl & Ew & El & Hn)]; rewrite Ew, El; [exact H|].
    destruct Hn; try exact H. apply hrel_upd; [exact H|constructor].
  Qed.

  Lemma hrel_remove_child hw hl p name : hrel hw hl -> hrel (remove_child hw p name) (remove_child hl p name).
  Proof.
    intros H. unfold remove_child.
    destruct (hrel_get_cases p H) as [[Ew El]|(nw & nl & Ew & El & Hn)]; rewrite Ew, El; [exact H|].
    destruct Hn; try exact H. apply hrel_upd; [exact H|constructor].
  Qed.

  Lemma lnk_rel_nil : lnk_rel [] [].
  Proof. split; [constructor|]. right. split; [exact I|reflexivity]. Qed.

  Lemma hrel_delete_node hw hl c : hrel hw hl -> hrel (delete_node hw c) (delete_node hl c).
  Proof.
    intros H. unfold delete_node.
    destruct (hrel_get_cases c H) as [[Ew El]|(nw & nl & Ew & El & Hn)]; rewrite Ew, El; [exact H|].
    destruct Hn; apply hrel_upd; try exact H; constructor. exact lnk_rel_nil.
  Qed.

  Lemma frel_with_heap sw sl hw hl : frel sw sl -> hrel hw hl -> frel (with_heap sw hw) (with_heap sl hl).
  Proof. intros F H. destruct F. constructor; cbn; auto. Qed.

  (* ---- the relation on views used by the calls ----------------------------------------- *)
  Definition vrelR (vw vl : view) : Prop := vrel vw vl /\ v_root vl = R.

  Lemma frel_create_dir sw sl vw vl parent name perm : frel sw sl -> vrelR vw vl ->
    frel (fst (create_dir sw vw parent name perm)) (fst (create_dir sl vl parent name perm))
    /\ snd (create_dir sw vw parent name perm) = snd (create_dir sl vl parent name perm).
  Proof.
    intros F V. unfold create_dir. cbn [fst snd]. rewrite (hrel_length (fr_heap F)). split; [|reflexivity].
    constructor; cbn [f_heap f_last_id f_vols]; [|apply F|apply F].
    apply hrel_add_child. apply hrel_app; [apply F|constructor].
  Qed.

  Lemma frel_create_file sw sl vw vl parent name perm : frel sw sl -> vrelR vw vl ->
    frel (fst (create_file sw vw parent name perm)) (fst (create_file sl vl parent name perm))
    /\ snd (create_file sw vw parent name perm) = snd (create_file sl vl parent name perm).
  Proof.
    intros F V. unfold create_file. cbn [fst snd]. rewrite (hrel_length (fr_heap F)), (fr_id F). split; [|reflexivity].
    constructor; cbn [f_heap f_last_id f_vols]; [|reflexivity|apply F].
    apply hrel_add_child. apply hrel_app; [apply F|constructor].
  Qed.

  Lemma frel_create_symlink sw sl vw vl parent name lw ll : frel sw sl -> lnk_rel lw ll ->
    frel (create_symlink sw vw parent name lw) (create_symlink sl vl parent name ll).
  Proof.
    intros F L. unfold create_symlink. rewrite (hrel_length (fr_heap F)).
    constructor; cbn [f_heap f_last_id f_vols]; [|apply F|apply F].
    apply hrel_add_child. apply hrel_app; [apply F|constructor; exact L].
  Qed.

  (* results of calls: related states, same success / failure *)
  Definition crel (xw xl : fsys * res) : Prop := frel (fst xw) (fst xl) /\ okres (snd xw) = okres (snd xl).

  Lemma crel_fail sw sl ew el : frel sw sl -> crel (sw, RFail ew) (sl, RFail el).
  Proof. intros F. split; [exact F|reflexivity]. Qed.

  Lemma crel_same sw sl r : frel sw sl -> crel (sw, r) (sl, r).
  Proof. intros F. split; [exact F|reflexivity]. Qed.

  (* consequences of a related pair of walk results *)
  Lemma srel_last slm hl rw rl : srel slm hl rw rl -> pi_is_last (sr_pi rw) = pi_is_last (sr_pi rl).
  Proof. intros (_ & _ & Hp & _). apply (piR_is_last Hp). Qed.

  Lemma srel_part slm hl rw rl : srel slm hl rw rl -> pi_part (sr_pi rw) = pi_part (sr_pi rl).
  Proof. intros (_ & _ & Hp & _). exact (proj2 (proj2 (proj2 Hp))). Qed.

  (* is_file_exists agrees on both sides *)
  Lemma srel_exists slm hl rw rl : srel slm hl rw rl -> is_file_exists (sr_err rw) = is_file_exists (sr_err rl).
  Proof.
    intros (_ & _ & _ & [[E _]|(Ew & El & _)]); [rewrite E; reflexivity|rewrite Ew, El; reflexivity].
  Qed.

  (* is_not_exist agrees unless the Linux side met a regular file in the middle of the path *)
  Lemma srel_not_exist slm hl rw rl : srel slm hl rw rl -> sr_err rl <> ENotADirectory ->
    sr_err rw = sr_err rl.
  Proof. intros (_ & _ & _ & [[E _]|(_ & El & _)]) Hne; [exact E|contradiction]. Qed.

  (* when the final element was reached (or is missing) the errors are equal *)
  Lemma srel_err_last slm hl rw rl : srel slm hl rw rl -> slmode_eqb slm SlStat = false ->
    pi_is_last (sr_pi rl) = true -> sr_err rw = sr_err rl.
  Proof.
    intros (_ & _ & _ & [[E _]|(_ & _ & Hl & _)]) Hs Hlast; [exact E|]. rewrite (Hl Hs) in Hlast. discriminate.
  Qed.

  Ltac expose_W :=
    match goal with |- context [PathEquiv.W d (SLASH :: ?r)] =>
      change (PathEquiv.W d (SLASH :: r)) with (d :: COLON :: BSLASH :: map phi r) end.

  (* ---- Mkdir ------------------------------------------------------------------------------ *)
  Lemma mkdir_sim sw sl vw vl r perm : frel sw sl -> vrelR vw vl -> okstr (SLASH :: r) ->
    crel (mkdir sw vw (W (SLASH :: r)) perm) (mkdir sl vl (SLASH :: r) perm).
  Proof.
    intros F (V & HR) Hok. unfold mkdir.
    pose proof (@search_node_sim d Hd R sw sl vw vl SlLstat r F V HR Hok) as S.
    set (rw := search_node sw vw (W (SLASH :: r)) SlLstat) in *.
    set (rl := search_node sl vl (SLASH :: r) SlLstat) in *.
    expose_W. cbv iota.
    rewrite (srel_last S), (srel_part S).
    destruct S as (Hpar & Hch & HpiR & [[E Hnd]|(Ew & El & Hl & _)]).
    - rewrite E, Hpar.
      destruct (negb (is_not_exist (sr_err rl)) || negb (pi_is_last (sr_pi rl))); [apply crel_fail, F|].
      destruct (sr_parent rl) as [parent|]; [|apply crel_same, F].
      rewrite (perm_on_admin parent (N.lor OpenWrite OpenLookup) (fr_heap F) V).
      destruct (negb (perm_on (f_heap sl) parent (N.lor OpenWrite OpenLookup) (v_user vl))); [apply crel_fail, F|].
      rewrite (hrel_children parent (fr_heap F)).
      destruct (alookup str_eqb (pi_part (sr_pi rl)) (children (f_heap sl) parent)); [apply crel_fail, F|].
      split; [apply frel_create_dir; [exact F|split; assumption]|reflexivity].
    - rewrite Ew, El, (Hl eq_refl). cbn [is_not_exist negb orb]. apply crel_fail, F.
  Qed.

  Ltac sim_search slm r F V HR Hok HS rw rl :=
    pose proof (@search_node_sim d Hd R _ _ _ _ slm r F V HR Hok) as HS;
    set (rw := search_node _ _ (W (SLASH :: r)) slm) in *;
    set (rl := search_node _ _ (SLASH :: r) slm) in *.

  (* ---- MkdirAll --------------------------------------------------------------------------- *)
  Lemma mkdir_all_loop_sim vw vl perm : vrelR vw vl -> forall fl fw sw sl dn pw pl,
    frel sw sl -> piR pw pl ->
    length (pi_path pl) - pi_end pl < fl -> length (pi_path pl) - pi_end pl < fw ->
    frel (mkdir_all_loop fw sw vw dn pw perm) (mkdir_all_loop fl sl vl dn pl perm).
  Proof.
    intros (V & HR). induction fl as [|fl IH]; intros fw sw sl dn pw pl F HP Hl Hw; [lia|].
    destruct fw as [|fw]; [lia|]. cbn [mkdir_all_loop].
    rewrite (proj2 (proj2 (proj2 HP))), (hrel_children dn (fr_heap F)).
    destruct (alookup str_eqb (pi_part pl) (children (f_heap sl) dn)); [exact F|].
    destruct (@frel_create_dir sw sl vw vl dn (pi_part pl) perm F (conj V HR)) as [F1 Ec].
    destruct (create_dir sw vw dn (pi_part pl) perm) as [sw1 cw]. destruct (create_dir sl vl dn (pi_part pl) perm) as [sl1 cl].
    cbn [fst snd] in F1, Ec. subst cw.
    rewrite (vr_osw V), (vr_osl V).
    destruct (@pi_next_R d pw pl (piR_piR0 HP)) as (Hok & HR1 & _).
    assert (Hend : fst (pi_next Linux pl) = true -> S (pi_end pl) <= pi_end (snd (pi_next Linux pl))
                                                   /\ pi_path (snd (pi_next Linux pl)) = pi_path pl /\ S (pi_end pl) < length (pi_path pl)).
    { unfold pi_next. destruct (Nat.leb (length (pi_path pl)) (S (pi_end pl))) eqn:El; cbn [fst snd pi_end pi_path]; [discriminate|].
      intros _. apply Nat.leb_gt in El. split; [|split; [reflexivity|exact El]].
      apply (@index_from_bounds (N.eqb (sepc Linux)) (pi_path pl) (S (pi_end pl))). lia. }
    destruct (pi_next Windows pw) as [okw pw1]. destruct (pi_next Linux pl) as [okl pl1].
    cbn [fst snd] in Hok, HR1, Hend. subst okw. destruct okl; [|exact F1].
    destruct (Hend eq_refl) as (H1 & H2 & H3).
    apply IH; [exact F1|exact HR1|rewrite H2; lia|rewrite H2; lia].
  Qed.

  Lemma okres_errpath e p : okres (RErrPath e p) = false. Proof. reflexivity. Qed.

  Lemma mkdir_all_sim sw sl vw vl r perm : frel sw sl -> vrelR vw vl -> okstr (SLASH :: r) ->
    crel (mkdir_all sw vw (W (SLASH :: r)) perm) (mkdir_all sl vl (SLASH :: r) perm).
  Proof.
    intros F (V & HR) Hok. unfold mkdir_all.
    sim_search SlEval r F V HR Hok HS rw rl.
    pose proof (srel_exists HS) as Hex.
    destruct HS as (Hpar & Hch & HpiR & Herr).
    assert (Hloop : forall parent,
      crel (if negb (perm_on (f_heap sw) parent (N.lor OpenWrite OpenLookup) (v_user vw)) then (sw, RFail EPermDenied)
            else (mkdir_all_loop (S (length (pi_path (sr_pi rw)))) sw vw parent (sr_pi rw) perm, ROk))
           (if negb (perm_on (f_heap sl) parent (N.lor OpenWrite OpenLookup) (v_user vl)) then (sl, RFail EPermDenied)
            else (mkdir_all_loop (S (length (pi_path (sr_pi rl)))) sl vl parent (sr_pi rl) perm, ROk))).
    { intros parent. rewrite (perm_on_admin parent (N.lor OpenWrite OpenLookup) (fr_heap F) V).
      destruct (negb (perm_on (f_heap sl) parent (N.lor OpenWrite OpenLookup) (v_user vl))); [apply crel_fail, F|].
      split; [|reflexivity]. cbn [fst].
      apply (@mkdir_all_loop_sim vw vl perm (conj V HR)); [exact F|exact HpiR|lia|].
      destruct HpiR as ((Hp & _) & _). rewrite Hp, (length_W d). lia. }
    rewrite Hch, Hpar.
    destruct (sr_child rl) as [c|].
    - destruct (hrel_get_cases c (fr_heap F)) as [[Ew El]|(nw & nl & Ew & El & Hn)]; rewrite Ew, El.
      + destruct (sr_parent rl) as [parent|]; [apply Hloop|apply crel_fail, F].
      + destruct Hn as [ch mw ml|dt k i mw ml|lw ll mw ml Hlnk].
        * rewrite Hex. destruct (is_file_exists (sr_err rl)); [apply crel_same, F|apply crel_fail, F].
        * split; [exact F|reflexivity].
        * destruct (sr_parent rl) as [parent|]; [apply Hloop|apply crel_fail, F].
    - destruct (sr_parent rl) as [parent|]; [apply Hloop|apply crel_fail, F].
  Qed.
End Calls.
