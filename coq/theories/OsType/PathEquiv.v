(* Property C17: the Windows flavour of the lexical path functions on volume-prefixed
   portable paths, obtained from the (fully proved) Linux flavour by the byte
   renaming [phi] that exchanges '/' and '\'.

   For a string p without '\' and ':' (a "portable" string) and a drive volume
   vol = [letter; ':'] :
       clean Windows (vol ++ map phi p) = vol ++ map phi (clean Linux p)          (p non-empty)
       join  Windows [vol ++ map phi a; map phi b] = vol ++ map phi (join Linux [a; b])
       abs, pi_new, pi_next, pi_replace_part : related iterators stay related.
   No statement here depends on WHAT Clean computes, only on the fact that the
   loop-level model commutes with the renaming. *)
From Avfs Require Import Base PathModel PathSpec PathCleanProofs PathProofs.
Set Implicit Arguments.

Definition phi (c : N) : N :=
  if N.eqb c SLASH then BSLASH else if N.eqb c BSLASH then SLASH else c.

(* a portable byte: none of '\' ':' '?' (all three are reserved in Windows file names) *)
Definition okc (c : N) : Prop := c <> BSLASH /\ c <> COLON /\ c <> QMARK.
Definition okstr (s : str) : Prop := Forall okc s.

Ltac phi_cases c :=
  unfold phi; destruct (N.eqb_spec c SLASH); [subst c|destruct (N.eqb_spec c BSLASH); [subst c|]].

Lemma phi_0 : phi 0 = 0%N. Proof. reflexivity. Qed.
Lemma phi_DOT : phi DOT = DOT. Proof. reflexivity. Qed.
Lemma phi_SLASH : phi SLASH = BSLASH. Proof. reflexivity. Qed.
Lemma phi_BSLASH : phi BSLASH = SLASH. Proof. reflexivity. Qed.

Lemma phi_invol c : phi (phi c) = c.
Proof.
  phi_cases c; try reflexivity.
  destruct (N.eqb_spec c SLASH); [contradiction|]. destruct (N.eqb_spec c BSLASH); [contradiction|reflexivity].
Qed.

Lemma phi_inj a b : phi a = phi b -> a = b.
Proof. intros H. rewrite <- (phi_invol a), <- (phi_invol b), H. reflexivity. Qed.

Lemma phi_eqb a b : N.eqb (phi a) (phi b) = N.eqb a b.
Proof.
  destruct (N.eqb_spec a b) as [->|Hne]; [apply N.eqb_refl|].
  apply N.eqb_neq. intros H. apply Hne, phi_inj, H.
Qed.

Lemma phi_eqb_DOT c : N.eqb (phi c) DOT = N.eqb c DOT.
Proof. rewrite <- phi_DOT at 1. apply phi_eqb. Qed.

Lemma okc_0 : okc 0%N. Proof. repeat split; discriminate. Qed.
Lemma okc_SLASH : okc SLASH. Proof. repeat split; discriminate. Qed.
Lemma okc_DOT : okc DOT. Proof. repeat split; discriminate. Qed.

Lemma is_sep_phi c : c <> BSLASH -> is_sep Windows (phi c) = is_sep Linux c.
Proof.
  intros Hc. cbn [is_sep]. phi_cases c; try reflexivity; [contradiction|].
  destruct (N.eqb_spec c BSLASH); [contradiction|]. destruct (N.eqb_spec c SLASH); [contradiction|]. reflexivity.
Qed.

Lemma is_slash_phi c : is_slash (phi c) = is_slash c.
Proof.
  unfold is_slash. phi_cases c; try reflexivity.
  destruct (N.eqb_spec c BSLASH); [contradiction|]. destruct (N.eqb_spec c SLASH); [contradiction|]. reflexivity.
Qed.

Lemma is_slash_ok c : c <> BSLASH -> is_slash c = N.eqb c SLASH.
Proof. intros H. unfold is_slash. destruct (N.eqb_spec c BSLASH); [contradiction|reflexivity]. Qed.

Lemma phi_not_slash c : c <> BSLASH -> phi c <> SLASH.
Proof. intros H E. apply H. rewrite <- phi_BSLASH in E. apply phi_inj, E. Qed.

Lemma phi_eqb_BSLASH c : N.eqb (phi c) BSLASH = N.eqb c SLASH.
Proof. rewrite <- phi_SLASH. apply phi_eqb. Qed.

Lemma phi_eqb_COLON c : N.eqb (phi c) COLON = N.eqb c COLON.
Proof. change COLON with (phi COLON) at 1. apply phi_eqb. Qed.

Lemma phi_eqb_QMARK c : N.eqb (phi c) QMARK = N.eqb c QMARK.
Proof. change QMARK with (phi QMARK) at 1. apply phi_eqb. Qed.

(* ---- strings ------------------------------------------------------------------------ *)
Notation mp := (map phi).

Lemma nthb_map (s : str) i : nthb (mp s) i = phi (nthb s i).
Proof. unfold nthb. rewrite <- phi_0 at 1. apply map_nth. Qed.

Lemma okstr_nthb (s : str) i : okstr s -> okc (nthb s i).
Proof.
  intros H. unfold nthb. destruct (Nat.lt_ge_cases i (length s)) as [Hlt|Hge].
  - unfold okstr in H. rewrite Forall_forall in H. apply H, nth_In, Hlt.
  - rewrite nth_overflow by exact Hge. exact okc_0.
Qed.

Lemma okstr_app (a b : str) : okstr a -> okstr b -> okstr (a ++ b).
Proof. intros Ha Hb. apply Forall_app. split; assumption. Qed.

Lemma okstr_app_inv (a b : str) : okstr (a ++ b) -> okstr a /\ okstr b.
Proof. intros H. apply Forall_app in H. exact H. Qed.

Lemma In_firstn_own (A : Type) (l : list A) n x : In x (firstn n l) -> In x l.
Proof. intros H. rewrite <- (firstn_skipn n l). apply in_or_app. left. exact H. Qed.

Lemma In_skipn_own (A : Type) (l : list A) n x : In x (skipn n l) -> In x l.
Proof. intros H. rewrite <- (firstn_skipn n l). apply in_or_app. right. exact H. Qed.

Lemma okstr_firstn (s : str) n : okstr s -> okstr (firstn n s).
Proof.
  intros H. unfold okstr in *. rewrite Forall_forall in *. intros x Hx. apply H. eapply In_firstn_own; eassumption.
Qed.

Lemma okstr_skipn (s : str) n : okstr s -> okstr (skipn n s).
Proof.
  intros H. unfold okstr in *. rewrite Forall_forall in *. intros x Hx. apply H. eapply In_skipn_own; eassumption.
Qed.

Lemma sepW_nthb (p : str) i : okstr p -> is_sep Windows (nthb (mp p) i) = is_sep Linux (nthb p i).
Proof. intros H. rewrite nthb_map. apply is_sep_phi. apply (@okstr_nthb p i H). Qed.

Lemma find_from_map (f g : N -> bool) (s : str) : (forall c, In c s -> f (phi c) = g c) ->
  forall i, find_from f (mp s) i = find_from g s i.
Proof.
  induction s as [|c s IH]; intros H i; [reflexivity|]. cbn [map find_from].
  rewrite (H c (or_introl eq_refl)). destruct (g c); [reflexivity|]. apply IH. intros x Hx. apply H. right. exact Hx.
Qed.

Lemma index_from_map (f g : N -> bool) (s : str) i : (forall c, In c s -> f (phi c) = g c) ->
  index_from f (mp s) i = index_from g s i.
Proof.
  intros H. unfold index_from. rewrite skipn_map. apply find_from_map.
  intros c Hc. apply H. eapply In_skipn_own; eassumption.
Qed.

Lemma index_from_sep_map (p : str) i : okstr p ->
  index_from (is_sep Windows) (mp p) i = index_from (is_sep Linux) p i.
Proof.
  intros H. apply index_from_map. intros c Hc. apply is_sep_phi.
  unfold okstr in H. rewrite Forall_forall in H. apply (H c Hc).
Qed.

Lemma map_repeat_phi0 k : mp (repeat 0%N k) = repeat 0%N k.
Proof. induction k; cbn; [reflexivity|]. rewrite IHk. reflexivity. Qed.

Lemma set_nth_map (l : list N) i c : set_nth (mp l) i (phi c) = mp (set_nth l i c).
Proof.
  revert i. induction l as [|x l IH]; intros i; [reflexivity|].
  destruct i; cbn [map set_nth]; [reflexivity|]. rewrite IH. reflexivity.
Qed.

Lemma okstr_set_nth (l : list N) i c : okstr l -> okc c -> okstr (set_nth l i c).
Proof.
  revert i. induction l as [|x l IH]; intros i Hl Hc; [constructor|].
  inversion Hl; subst. destruct i; cbn [set_nth]; constructor; auto. apply IH; assumption.
Qed.

Lemma okstr_repeat0 k : okstr (repeat 0%N k).
Proof. apply Forall_forall. intros x Hx. apply repeat_spec in Hx. subst. exact okc_0. Qed.

(* ---- lazybuf ------------------------------------------------------------------------- *)
Definition lbm (b : lazybuf) : lazybuf :=
  {| lb_buf := option_map (map phi) (lb_buf b); lb_w := lb_w b |}.

Definition lb_ok (b : lazybuf) : Prop :=
  match lb_buf b with Some buf => okstr buf | None => True end.

Lemma lb_index_map (p : str) b i : lb_index (mp p) (lbm b) i = phi (lb_index p b i).
Proof. unfold lb_index, lbm. cbn [lb_buf]. destruct (lb_buf b); cbn [option_map]; apply nthb_map. Qed.

Lemma lb_index_ok (p : str) b i : okstr p -> lb_ok b -> okc (lb_index p b i).
Proof. intros Hp Hb. unfold lb_index, lb_ok in *. destruct (lb_buf b); apply okstr_nthb; assumption. Qed.

Lemma lb_append_map (p : str) b c : lb_append (mp p) (lbm b) (phi c) = lbm (lb_append p b c).
Proof.
  unfold lb_append, lbm. cbn [lb_buf lb_w]. destruct (lb_buf b) as [buf|]; cbn [option_map].
  - rewrite set_nth_map. reflexivity.
  - rewrite map_length, nthb_map, phi_eqb.
    destruct (Nat.ltb (lb_w b) (length p) && N.eqb (nthb p (lb_w b)) c); cbn [lb_buf lb_w option_map]; [reflexivity|].
    rewrite firstn_map.
    replace (mp (firstn (lb_w b) p) ++ repeat 0%N (length p - lb_w b))
      with (mp (firstn (lb_w b) p ++ repeat 0%N (length p - lb_w b)))
      by (rewrite map_app, map_repeat_phi0; reflexivity).
    rewrite set_nth_map. reflexivity.
Qed.

Lemma lb_append_ok (p : str) b c : okstr p -> lb_ok b -> okc c -> lb_ok (lb_append p b c).
Proof.
  intros Hp Hb Hc. unfold lb_append, lb_ok in *. destruct (lb_buf b) as [buf|]; cbn [lb_buf].
  - apply okstr_set_nth; assumption.
  - destruct (Nat.ltb (lb_w b) (length p) && N.eqb (nthb p (lb_w b)) c); cbn [lb_buf]; [exact I|].
    apply okstr_set_nth; [|exact Hc]. apply okstr_app; [apply okstr_firstn, Hp|apply okstr_repeat0].
Qed.

Lemma lb_fold_map (p : str) (l : list N) : forall b,
  fold_left (lb_append (mp p)) (mp l) (lbm b) = lbm (fold_left (lb_append p) l b).
Proof. induction l as [|c l IH]; intros b; [reflexivity|]. cbn [map fold_left]. rewrite lb_append_map. apply IH. Qed.

Lemma lb_fold_ok (p : str) (l : list N) : okstr p -> okstr l -> forall b, lb_ok b -> lb_ok (fold_left (lb_append p) l b).
Proof.
  intros Hp Hl. induction Hl as [|c l Hc Hl IH]; intros b Hb; [exact Hb|]. cbn [fold_left].
  apply IH. apply lb_append_ok; assumption.
Qed.

Lemma backtrack_map (p : str) b dd : okstr p -> lb_ok b -> forall f w,
  backtrack Windows (mp p) (lbm b) dd w f = backtrack Linux p b dd w f.
Proof.
  intros Hp Hb. induction f as [|f IH]; intros w; [reflexivity|]. cbn [backtrack].
  rewrite lb_index_map, is_sep_phi by (apply (@lb_index_ok p b w Hp Hb)).
  destruct (Nat.ltb dd w && negb (is_sep Linux (lb_index p b w))); [apply IH|reflexivity].
Qed.

Lemma lbm_trunc b w : lbm {| lb_buf := lb_buf b; lb_w := w |} = {| lb_buf := lb_buf (lbm b); lb_w := w |}.
Proof. reflexivity. Qed.

Lemma lb_ok_trunc b w : lb_ok b -> lb_ok {| lb_buf := lb_buf b; lb_w := w |}.
Proof. intros H. exact H. Qed.

(* ---- the main loop of Clean --------------------------------------------------------------- *)
Lemma clean_loop_map (p : str) (Hp : okstr p) : forall fuel rooted n r dd b, lb_ok b ->
  clean_loop Windows (mp p) rooted n fuel r dd (lbm b) = lbm (clean_loop Linux p rooted n fuel r dd b)
  /\ lb_ok (clean_loop Linux p rooted n fuel r dd b).
Proof.
  induction fuel as [|fuel IH]; intros rooted n r dd b Hb; [split; [reflexivity|exact Hb]|].
  cbn [clean_loop].
  destruct (negb (Nat.ltb r n)); [split; [reflexivity|exact Hb]|].
  rewrite !sepW_nthb by exact Hp. rewrite !nthb_map, !phi_eqb_DOT.
  destruct (is_sep Linux (nthb p r)); [apply IH; exact Hb|].
  destruct (N.eqb (nthb p r) DOT && (Nat.eqb (S r) n || is_sep Linux (nthb p (S r)))); [apply IH; exact Hb|].
  destruct (N.eqb (nthb p r) DOT && N.eqb (nthb p (S r)) DOT
            && (Nat.eqb (S (S r)) n || is_sep Linux (nthb p (S (S r))))).
  - cbn [lbm lb_w] . change (lb_w (lbm b)) with (lb_w b).
    destruct (Nat.ltb dd (lb_w b)).
    + rewrite (@backtrack_map p b dd Hp Hb). change (lb_buf (lbm b)) with (lb_buf (lbm b)).
      rewrite <- lbm_trunc. apply IH. apply lb_ok_trunc, Hb.
    + destruct (negb rooted); [|apply IH; exact Hb].
      change (sepc Windows) with (phi (sepc Linux)). rewrite <- phi_DOT.
      assert (H1 : (if Nat.ltb 0 (lb_w b) then lb_append (mp p) (lbm b) (phi (sepc Linux)) else lbm b)
                   = lbm (if Nat.ltb 0 (lb_w b) then lb_append p b (sepc Linux) else b)).
      { destruct (Nat.ltb 0 (lb_w b)); [apply lb_append_map|reflexivity]. }
      rewrite H1, !lb_append_map.
      assert (Hok : lb_ok (lb_append p (lb_append p (if Nat.ltb 0 (lb_w b) then lb_append p b (sepc Linux) else b) DOT) DOT)).
      { apply lb_append_ok; [exact Hp| |exact okc_DOT]. apply lb_append_ok; [exact Hp| |exact okc_DOT].
        destruct (Nat.ltb 0 (lb_w b)); [apply lb_append_ok; [exact Hp|exact Hb|exact okc_SLASH]|exact Hb]. }
      change (lb_w (lbm ?x)) with (lb_w x). apply IH. exact Hok.
  - change (lb_w (lbm b)) with (lb_w b).
    change (sepc Windows) with (phi (sepc Linux)).
    assert (H1 : (if (rooted && negb (Nat.eqb (lb_w b) 1)) || (negb rooted && negb (Nat.eqb (lb_w b) 0))
                  then lb_append (mp p) (lbm b) (phi (sepc Linux)) else lbm b)
                 = lbm (if (rooted && negb (Nat.eqb (lb_w b) 1)) || (negb rooted && negb (Nat.eqb (lb_w b) 0))
                        then lb_append p b (sepc Linux) else b)).
    { destruct ((rooted && negb (Nat.eqb (lb_w b) 1)) || (negb rooted && negb (Nat.eqb (lb_w b) 0)));
        [apply lb_append_map|reflexivity]. }
    rewrite H1. rewrite (@index_from_sep_map p r Hp).
    rewrite skipn_map, firstn_map, lb_fold_map.
    apply IH. apply lb_fold_ok; [exact Hp|apply okstr_firstn, okstr_skipn, Hp|].
    destruct ((rooted && negb (Nat.eqb (lb_w b) 1)) || (negb rooted && negb (Nat.eqb (lb_w b) 0)));
      [apply lb_append_ok; [exact Hp|exact Hb|exact okc_SLASH]|exact Hb].
Qed.

(* ---- Clean ------------------------------------------------------------------------------------ *)
Lemma from_slash_id (s : str) : (forall c, In c s -> c <> SLASH) -> from_slash Windows s = s.
Proof.
  intros H. cbn [from_slash]. induction s as [|c s IH]; [reflexivity|]. cbn [map].
  destruct (N.eqb_spec c SLASH) as [E|_]; [exfalso; apply (H c (or_introl eq_refl) E)|].
  rewrite IH; [reflexivity|]. intros x Hx. apply H. right. exact Hx.
Qed.

Lemma mp_no_slash (s : str) : okstr s -> forall c, In c (mp s) -> c <> SLASH.
Proof.
  intros H c Hc. apply in_map_iff in Hc as (x & <- & Hx). apply phi_not_slash.
  unfold okstr in H. rewrite Forall_forall in H. apply (H x Hx).
Qed.

Lemma lb_bytes_ok (p : str) b : okstr p -> lb_ok b -> okstr (lb_bytes p b).
Proof.
  intros Hp Hb. unfold lb_bytes, lb_ok in *. destruct (lb_buf b); apply okstr_firstn; assumption.
Qed.

Section Vol.
  Variable d : N.
  Hypothesis Hd : is_letter d = true.

  Definition vol : str := [d; COLON].
  Definition W (p : str) : str := vol ++ mp p.

  Lemma d_not_slash : d <> SLASH /\ d <> BSLASH.
  Proof.
    unfold is_letter in Hd. split; intros ->; vm_compute in Hd; discriminate.
  Qed.

  Lemma W_no_slash (p : str) : okstr p -> forall c, In c (W p) -> c <> SLASH.
  Proof.
    intros Hp c [<-|[<-|Hc]]; [apply d_not_slash|discriminate|exact (@mp_no_slash p Hp c Hc)].
  Qed.

  Lemma vnl_W (p : str) : volume_name_len Windows (W p) = 2.
  Proof. reflexivity. Qed.

  Theorem clean_W (p : str) : p <> [] -> okstr p ->
    clean Windows (W p) = W (clean Linux p) /\ okstr (clean Linux p).
  Proof.
    intros Hne Hp. destruct p as [|c0 p']; [congruence|clear Hne].
    set (p := c0 :: p') in *.
    assert (Hc0 : c0 <> BSLASH).
    { unfold okstr in Hp. inversion Hp as [|? ? [H _] _]; exact H. }
    unfold clean. rewrite vnl_W.
    change (skipn 2 (W p)) with (phi c0 :: mp p').
    change (volume_name_len Linux p) with 0. change (skipn 0 p) with (c0 :: p').
    cbv beta iota zeta.
    rewrite (is_sep_phi Hc0).
    change (phi c0 :: mp p') with (mp p). change (c0 :: p') with p.
    rewrite map_length.
    set (out0 := {| lb_buf := None; lb_w := 0 |}).
    assert (H0 : lb_ok out0) by exact I.
    set (rooted := is_sep Linux c0).
    set (out1 := if rooted then lb_append p out0 (sepc Linux) else out0).
    assert (H1 : (if rooted then lb_append (mp p) out0 (sepc Windows) else out0) = lbm out1 /\ lb_ok out1).
    { unfold out1. destruct rooted.
      - split; [change (sepc Windows) with (phi (sepc Linux)); change out0 with (lbm out0) at 1; apply lb_append_map|
                apply lb_append_ok; [exact Hp|exact H0|exact okc_SLASH]].
      - split; [reflexivity|exact H0]. }
    destruct H1 as [E1 Hok1]. rewrite E1.
    destruct (@clean_loop_map p Hp (S (length p)) rooted (length p) (if rooted then 1 else 0) (if rooted then 1 else 0) out1 Hok1)
      as [E2 Hok2].
    rewrite E2.
    set (out2 := clean_loop Linux p rooted (length p) (S (length p)) (if rooted then 1 else 0) (if rooted then 1 else 0) out1) in *.
    change (lb_w (lbm out2)) with (lb_w out2).
    set (out3 := if Nat.eqb (lb_w out2) 0 then lb_append p out2 DOT else out2).
    assert (H3 : (if Nat.eqb (lb_w out2) 0 then lb_append (mp p) (lbm out2) DOT else lbm out2) = lbm out3 /\ lb_ok out3).
    { unfold out3. destruct (Nat.eqb (lb_w out2) 0).
      - split; [rewrite <- phi_DOT; apply lb_append_map|apply lb_append_ok; [exact Hp|exact Hok2|exact okc_DOT]].
      - split; [reflexivity|exact Hok2]. }
    destruct H3 as [E3 Hok3]. rewrite E3.
    assert (Hpost : post_clean Windows 2 (lbm out3) = lbm out3).
    { unfold post_clean. destruct (lb_buf (lbm out3)); reflexivity. }
    rewrite Hpost.
    assert (Hres : okstr (match lb_buf out3 with
                          | None => firstn (0 + lb_w out3) p
                          | Some buf => firstn 0 p ++ firstn (lb_w out3) buf end)).
    { pose proof (@lb_bytes_ok p out3 Hp Hok3) as Hb. unfold lb_bytes in Hb. destruct (lb_buf out3); exact Hb. }
    assert (Heq : (match lb_buf (lbm out3) with
                   | None => firstn (2 + lb_w (lbm out3)) (W p)
                   | Some buf => firstn 2 (W p) ++ firstn (lb_w (lbm out3)) buf end)
                  = W (match lb_buf out3 with
                       | None => firstn (0 + lb_w out3) p
                       | Some buf => firstn 0 p ++ firstn (lb_w out3) buf end)).
    { unfold lbm. cbn [lb_buf lb_w]. destruct (lb_buf out3) as [buf|]; cbn [option_map].
      - cbn [firstn app plus]. unfold W, vol. cbn [app firstn]. rewrite firstn_map. reflexivity.
      - unfold W, vol. cbn [app firstn plus]. rewrite firstn_map. reflexivity. }
    rewrite Heq. split.
    - rewrite from_slash_id; [reflexivity|]. apply W_no_slash. exact Hres.
    - cbn [from_slash]. exact Hres.
  Qed.
End Vol.

(* ---- IsAbs, Abs, Join of two elements ----------------------------------------------------------- *)
Lemma mp_inj (a b : str) : mp a = mp b -> a = b.
Proof.
  revert b. induction a as [|x a IH]; intros [|y b] H; try discriminate; [reflexivity|].
  cbn [map] in H. injection H as Hx Hab. apply phi_inj in Hx. rewrite Hx, (IH b Hab). reflexivity.
Qed.

Lemma str_eqb_mp (a b : str) : str_eqb (mp a) (mp b) = str_eqb a b.
Proof.
  destruct (str_eqb_spec a b) as [->|Hne]; [apply str_eqb_refl|].
  apply str_eqb_neq. intros H. apply Hne, mp_inj, H.
Qed.

Lemma strip_slashes_mp (b : str) : strip_slashes (mp b) = mp (strip_slashes b).
Proof.
  induction b as [|c b IH]; [reflexivity|]. cbn [map strip_slashes]. rewrite is_slash_phi.
  destruct (is_slash c); [exact IH|reflexivity].
Qed.

Lemma okstr_strip (b : str) : okstr b -> okstr (strip_slashes b).
Proof.
  intros H. induction H as [|c b Hc Hb IH]; [constructor|]. cbn [strip_slashes].
  destruct (is_slash c); [exact IH|constructor; assumption].
Qed.

(* leading separators do not change the non-empty components *)
Lemma comps_strip (b : str) : okstr b -> filter ne (comps (strip_slashes b)) = filter ne (comps b).
Proof.
  intros H. induction H as [|c b Hc Hb IH]; [reflexivity|]. cbn [strip_slashes].
  rewrite (is_slash_ok (proj1 Hc)). destruct (N.eqb_spec c SLASH) as [->|_]; [|reflexivity].
  rewrite comps_sep. cbn [filter ne negb]. exact IH.
Qed.

Lemma clean_spec_by_comps (x y : str) (c : N) (x' y' : str) :
  x = c :: x' -> y = c :: y' -> filter ne (comps x) = filter ne (comps y) -> clean_spec x = clean_spec y.
Proof.
  intros -> -> H. unfold clean_spec.
  rewrite <- (norm_filter (N.eqb c SLASH) (comps (c :: x')) []), <- (norm_filter (N.eqb c SLASH) (comps (c :: y')) []), H.
  reflexivity.
Qed.

Lemma filter_app_own (A : Type) (f : A -> bool) (l l' : list A) : filter f (l ++ l') = filter f l ++ filter f l'.
Proof. induction l as [|x l IH]; [reflexivity|]. cbn [app filter]. destruct (f x); cbn [app]; rewrite IH; reflexivity. Qed.

(* a ends with '/' : one more '/' and the leading '/'s of b are immaterial *)
Lemma clean_join_strip (a' b : str) : okstr b ->
  clean Linux ((a' ++ [SLASH]) ++ strip_slashes b) = clean Linux ((a' ++ [SLASH]) ++ SLASH :: b).
Proof.
  intros Hb. rewrite !clean_spec_correct.
  assert (Hx : exists c t, forall z, (a' ++ [SLASH]) ++ z = c :: t ++ z).
  { destruct a' as [|c t]; [exists SLASH, []; reflexivity|exists c, (t ++ [SLASH])]. intros z. cbn [app]. rewrite <- app_assoc. reflexivity. }
  destruct Hx as (c & t & Hx).
  apply (@clean_spec_by_comps _ _ c (t ++ strip_slashes b) (t ++ SLASH :: b)); [apply Hx|apply Hx|].
  rewrite <- !app_assoc. cbn [app]. rewrite !comps_app_sep, !filter_app_own, comps_sep. cbn [filter ne negb].
  rewrite (comps_strip Hb). reflexivity.
Qed.

Lemma last_mp (a : str) : last (mp a) 0%N = phi (last a 0%N).
Proof.
  induction a as [|x a IH]; [reflexivity|]. destruct a as [|y a]; [reflexivity|].
  change (mp (x :: y :: a)) with (phi x :: mp (y :: a)). cbn [last] in *. exact IH.
Qed.

Lemma last_app_ne (A : Type) (l l' : list A) (dflt : A) : l' <> [] -> last (l ++ l') dflt = last l' dflt.
Proof.
  intros Hne. rewrite (app_removelast_last dflt Hne) at 1. rewrite app_assoc. apply last_last.
Qed.

Lemma okstr_last (a : str) : okstr a -> okc (last a 0%N).
Proof.
  intros H. induction H as [|x a Hx Ha IH]; [exact okc_0|]. destruct a; [exact Hx|exact IH].
Qed.

Section Vol2.
  Variable d : N.
  Hypothesis Hd : is_letter d = true.
  Notation W := (W d).
  Notation vol := (vol d).

  Lemma W_app (a b : str) : W (a ++ b) = W a ++ mp b.
  Proof. unfold PathEquiv.W. rewrite map_app, app_assoc. reflexivity. Qed.

  Lemma W_inj (a b : str) : W a = W b -> a = b.
  Proof. unfold PathEquiv.W, PathEquiv.vol. intros H. injection H as H. apply mp_inj, H. Qed.

  Lemma str_eqb_W (a b : str) : str_eqb (W a) (W b) = str_eqb a b.
  Proof.
    destruct (str_eqb_spec a b) as [->|Hne]; [apply str_eqb_refl|].
    apply str_eqb_neq. intros H. apply Hne, W_inj, H.
  Qed.

  Lemma length_W (a : str) : length (W a) = 2 + length a.
  Proof. unfold PathEquiv.W, PathEquiv.vol. cbn [app length]. rewrite map_length. reflexivity. Qed.

  Lemma firstn_W (a : str) n : firstn (2 + n) (W a) = W (firstn n a).
  Proof. unfold PathEquiv.W, PathEquiv.vol. cbn [app firstn plus]. rewrite firstn_map. reflexivity. Qed.

  Lemma skipn_W (a : str) n : skipn (2 + n) (W a) = mp (skipn n a).
  Proof. unfold PathEquiv.W, PathEquiv.vol. cbn [app skipn plus]. rewrite skipn_map. reflexivity. Qed.

  Lemma is_abs_W (r : str) : is_abs Windows (W (SLASH :: r)) = true.
  Proof.
    unfold is_abs. rewrite (vnl_W d). cbn [Nat.eqb].
    change (nthb (W (SLASH :: r)) 0) with d.
    assert (Hs : is_slash d = false).
    { unfold is_slash. destruct (d_not_slash d Hd) as [H1 H2].
      destruct (N.eqb_spec d BSLASH); [contradiction|]. destruct (N.eqb_spec d SLASH); [contradiction|]. reflexivity. }
    rewrite Hs. cbn [andb]. reflexivity.
  Qed.

  Theorem abs_W (cw cl r : str) : okstr (SLASH :: r) ->
    abs Windows cw (W (SLASH :: r)) = W (abs Linux cl (SLASH :: r)) /\ okstr (abs Linux cl (SLASH :: r))
    /\ exists r', abs Linux cl (SLASH :: r) = SLASH :: r'.
  Proof.
    intros Hok. unfold abs. rewrite is_abs_W. change (is_abs Linux (SLASH :: r)) with true. cbv iota.
    destruct (@clean_W d Hd (SLASH :: r)) as [H1 H2]; [discriminate|exact Hok|].
    split; [exact H1|split; [exact H2|]].
    destruct (@clean_rooted (SLASH :: r) eq_refl) as (cs & Hc & _). rewrite Hc. eauto.
  Qed.

  (* Join of an absolute portable path and a remainder that is empty or starts with a separator *)
  Theorem join2_W (a b : str) : a <> [] -> okstr a -> okstr b ->
    join Windows [W a; mp b] = W (join Linux [a; b]) /\ okstr (join Linux [a; b]).
  Proof.
    intros Hne Ha Hb.
    assert (HL : join Linux [a; b] = clean Linux (a ++ SLASH :: b)).
    { unfold join. destruct a as [|x a']; [congruence|]. reflexivity. }
    rewrite HL.
    assert (Hab : okstr (a ++ SLASH :: b)).
    { apply okstr_app; [exact Ha|constructor; [exact okc_SLASH|exact Hb]]. }
    assert (Hne2 : a ++ SLASH :: b <> []) by (destruct a; discriminate).
    destruct (@clean_W d Hd (a ++ SLASH :: b) Hne2 Hab) as [HC Hokc].
    split; [|exact Hokc]. rewrite <- HC.
    (* the Windows builder *)
    unfold join. cbn [join_windows_loop].
    assert (HWa : exists t, W a = d :: t) by (eexists; reflexivity).
    destruct HWa as (t & HWa). rewrite HWa. cbn [app]. rewrite <- HWa.
    change (last_byte (W a) 0%N) with (last (W a) 0%N).
    assert (Hlast : last (W a) 0%N = phi (last a 0%N)).
    { unfold PathEquiv.W. rewrite last_app_ne; [apply last_mp|]. destruct a; [congruence|discriminate]. }
    rewrite Hlast, is_slash_phi.
    pose proof (okstr_last Ha) as (Hl1 & Hl2 & _).
    rewrite (is_slash_ok Hl1), phi_eqb_COLON.
    destruct (N.eqb_spec (last a 0%N) SLASH) as [Els|Nls].
    - (* a ends with a separator *)
      rewrite length_W. cbn [plus Nat.eqb andb]. rewrite strip_slashes_mp.
      assert (HR : forall e, match e with
                            | [] => W a
                            | _ :: _ => W a ++ e
                            end = W a ++ e) by (intros [|? ?]; [rewrite app_nil_r|]; reflexivity).
      assert (Ha' : exists a', a = a' ++ [SLASH]).
      { destruct (exists_last Hne) as (a' & z & ->). exists a'. rewrite last_last in Els. subst z. reflexivity. }
      destruct Ha' as (a' & ->).
      assert (Hgoal : forall R, R = W ((a' ++ [SLASH]) ++ strip_slashes b) ->
                match R with [] => [] | n :: l => clean Windows (n :: l) end = clean Windows (W ((a' ++ [SLASH]) ++ SLASH :: b))).
      { intros R ->. assert (Hok2 : okstr ((a' ++ [SLASH]) ++ strip_slashes b)) by (apply okstr_app; [exact Ha|apply okstr_strip, Hb]).
        assert (Hn2 : (a' ++ [SLASH]) ++ strip_slashes b <> []) by (destruct a'; discriminate).
        destruct (@clean_W d Hd _ Hn2 Hok2) as [E1 _]. rewrite HC.
        change (clean Windows (W ((a' ++ [SLASH]) ++ strip_slashes b)) = W (clean Linux ((a' ++ [SLASH]) ++ SLASH :: b))).
        rewrite E1, (clean_join_strip a' Hb). reflexivity. }
      apply Hgoal. destruct (mp (strip_slashes b)) eqn:E.
      + rewrite (W_app (a' ++ [SLASH]) (strip_slashes b)), E, app_nil_r. reflexivity.
      + rewrite (W_app (a' ++ [SLASH]) (strip_slashes b)), E. reflexivity.
    - destruct (N.eqb_spec (last a 0%N) COLON) as [E|_]; [contradiction|].
      assert (Hgoal : forall R, R = W (a ++ SLASH :: b) ->
                match R with [] => [] | n :: l => clean Windows (n :: l) end = clean Windows (W (a ++ SLASH :: b))).
      { intros R ->. reflexivity. }
      apply Hgoal. rewrite (W_app a (SLASH :: b)). cbn [map]. rewrite phi_SLASH.
      rewrite HWa. destruct (mp b); cbn [app]; rewrite <- ?app_assoc; reflexivity.
  Qed.
End Vol2.

(* ---- relative portable strings (no volume) ------------------------------------------------------ *)
(* t is empty or does not start with a separator *)
Definition relstr (t : str) : Prop := match t with [] => True | c :: _ => c <> SLASH end.

Lemma vnl_rel (t : str) : okstr t -> relstr t -> volume_name_len Windows (mp t) = 0.
Proof.
  intros Hok Hrel. unfold volume_name_len. rewrite map_length, !nthb_map, phi_eqb_COLON.
  destruct (okstr_nthb 1 Hok) as (_ & Hc & _). destruct (N.eqb_spec (nthb t 1) COLON); [contradiction|].
  rewrite andb_false_r.
  destruct t as [|c0 t']; [reflexivity|]. cbn [relstr] in Hrel.
  assert (Hs : is_slash (phi (nthb (c0 :: t') 0)) = false).
  { rewrite is_slash_phi. change (nthb (c0 :: t') 0) with c0.
    inversion Hok as [|? ? (H1 & _) _]; subst. rewrite (is_slash_ok H1). apply N.eqb_neq. exact Hrel. }
  rewrite Hs. cbn [negb]. rewrite orb_true_r. reflexivity.
Qed.

Lemma is_abs_rel (t : str) : okstr t -> relstr t -> is_abs Windows (mp t) = false /\ is_abs Linux t = false.
Proof.
  intros Hok Hrel. split.
  - unfold is_abs. rewrite (vnl_rel Hok Hrel). reflexivity.
  - destruct t as [|c t']; [reflexivity|]. cbn [is_abs relstr] in *. apply N.eqb_neq. exact Hrel.
Qed.

Lemma colon_before_sep_mp (buf : str) : okstr buf -> colon_before_sep Windows (mp buf) = false.
Proof.
  intros H. induction H as [|c buf Hc Hb IH]; [reflexivity|]. cbn [map colon_before_sep].
  destruct (is_sep Windows (phi c)); [reflexivity|]. rewrite phi_eqb_COLON.
  destruct Hc as (_ & Hc & _). destruct (N.eqb_spec c COLON); [contradiction|exact IH].
Qed.

Theorem clean_rel (t : str) : okstr t -> relstr t ->
  clean Windows (mp t) = mp (clean Linux t) /\ okstr (clean Linux t).
Proof.
  intros Hp Hrel. unfold clean. rewrite (vnl_rel Hp Hrel).
  change (volume_name_len Linux t) with 0. cbn [skipn].
  destruct t as [|c0 p'].
  { cbn [map]. split; [reflexivity|]. constructor; [exact okc_DOT|constructor]. }
  set (p := c0 :: p') in *.
  assert (Hc0 : c0 <> BSLASH) by (inversion Hp as [|? ? [H _] _]; exact H).
  change (mp p) with (phi c0 :: mp p') at 1. cbv beta iota zeta.
  change (phi c0 :: mp p') with (mp p).
  rewrite (is_sep_phi Hc0), map_length.
  set (out0 := {| lb_buf := None; lb_w := 0 |}).
  assert (H0 : lb_ok out0) by exact I.
  set (rooted := is_sep Linux c0).
  set (out1 := if rooted then lb_append p out0 (sepc Linux) else out0).
  assert (H1 : (if rooted then lb_append (mp p) out0 (sepc Windows) else out0) = lbm out1 /\ lb_ok out1).
  { unfold out1. destruct rooted.
    - split; [change (sepc Windows) with (phi (sepc Linux)); change out0 with (lbm out0) at 1; apply lb_append_map|
              apply lb_append_ok; [exact Hp|exact H0|exact okc_SLASH]].
    - split; [reflexivity|exact H0]. }
  destruct H1 as [E1 Hok1]. rewrite E1.
  destruct (@clean_loop_map p Hp (S (length p)) rooted (length p) (if rooted then 1 else 0) (if rooted then 1 else 0) out1 Hok1)
    as [E2 Hok2].
  rewrite E2.
  set (out2 := clean_loop Linux p rooted (length p) (S (length p)) (if rooted then 1 else 0) (if rooted then 1 else 0) out1) in *.
  change (lb_w (lbm out2)) with (lb_w out2).
  set (out3 := if Nat.eqb (lb_w out2) 0 then lb_append p out2 DOT else out2).
  assert (H3 : (if Nat.eqb (lb_w out2) 0 then lb_append (mp p) (lbm out2) DOT else lbm out2) = lbm out3 /\ lb_ok out3).
  { unfold out3. destruct (Nat.eqb (lb_w out2) 0).
    - split; [rewrite <- phi_DOT; apply lb_append_map|apply lb_append_ok; [exact Hp|exact Hok2|exact okc_DOT]].
    - split; [reflexivity|exact Hok2]. }
  destruct H3 as [E3 Hok3]. rewrite E3.
  assert (Hpost : post_clean Windows 0 (lbm out3) = lbm out3).
  { unfold post_clean, lbm. cbn [lb_buf]. unfold lb_ok in Hok3. destruct (lb_buf out3) as [buf|]; cbn [option_map]; [|reflexivity].
    cbn [Nat.eqb negb]. rewrite (colon_before_sep_mp Hok3), !nthb_map, phi_eqb_QMARK.
    destruct (okstr_nthb 1 Hok3) as (_ & _ & Hq). destruct (N.eqb_spec (nthb buf 1) QMARK); [contradiction|].
    rewrite andb_false_r. reflexivity. }
  rewrite Hpost.
  assert (Hres : okstr (match lb_buf out3 with
                        | None => firstn (0 + lb_w out3) p
                        | Some buf => firstn 0 p ++ firstn (lb_w out3) buf end)).
  { pose proof (@lb_bytes_ok p out3 Hp Hok3) as Hb. unfold lb_bytes in Hb. destruct (lb_buf out3); exact Hb. }
  assert (Heq : (match lb_buf (lbm out3) with
                 | None => firstn (0 + lb_w (lbm out3)) (mp p)
                 | Some buf => firstn 0 (mp p) ++ firstn (lb_w (lbm out3)) buf end)
                = mp (match lb_buf out3 with
                      | None => firstn (0 + lb_w out3) p
                      | Some buf => firstn 0 p ++ firstn (lb_w out3) buf end)).
  { unfold lbm. cbn [lb_buf lb_w]. destruct (lb_buf out3) as [buf|]; cbn [option_map firstn app plus]; rewrite firstn_map; reflexivity. }
  rewrite Heq. split.
  - rewrite from_slash_id; [reflexivity|]. apply mp_no_slash. exact Hres.
  - cbn [from_slash]. exact Hres.
Qed.

(* ---- Join of any number of elements, the first one carrying the volume ----------------------------- *)
Lemma fc_cons (y : str) (ys : list str) : fc (y :: ys) = filter ne (comps y) ++ fc ys.
Proof. reflexivity. Qed.

Lemma comps_nil_snoc (x : str) : filter ne (comps (x ++ [SLASH])) = filter ne (comps x).
Proof. rewrite comps_app_sep, filter_app_own. cbn. apply app_nil_r. Qed.

Lemma strip_nil_comps (y : str) : okstr y -> strip_slashes y = [] -> filter ne (comps y) = [].
Proof. intros Hy E. rewrite <- (comps_strip Hy), E. reflexivity. Qed.

Definition hd0 (s : str) : N := match s with c :: _ => c | [] => 0%N end.

Section Vol3.
  Variable d : N.
  Hypothesis Hd : is_letter d = true.
  Notation W := (W d).

  Lemma last_W (x : str) : x <> [] -> last (W x) 0%N = phi (last x 0%N).
  Proof. intros Hne. unfold PathEquiv.W. rewrite last_app_ne; [apply last_mp|]. destruct x; [congruence|discriminate]. Qed.

  Lemma W_cons (x : str) : exists t, W x = d :: t.
  Proof. eexists; reflexivity. Qed.

  (* one element of joinWindows on a non-empty builder *)
  Lemma jw_step (x y : str) (rest : list str) : x <> [] -> okstr x -> okstr y ->
    exists xn, join_windows_loop (mp y :: rest) (W x) (last (W x) 0%N)
               = join_windows_loop rest (W xn) (last (W xn) 0%N)
               /\ xn <> [] /\ okstr xn /\ hd0 xn = hd0 x
               /\ filter ne (comps xn) = filter ne (comps x) ++ filter ne (comps y).
  Proof.
    intros Hne Hx Hy.
    pose proof (okstr_last Hx) as (Hl1 & Hl2 & _).
    assert (Hunf : join_windows_loop (mp y :: rest) (W x) (last (W x) 0%N)
                   = let '(b1, e1, lc1) :=
                       if N.eqb (last x 0%N) SLASH
                       then (W x, mp (strip_slashes y), last (W x) 0%N)
                       else (W x ++ [BSLASH], mp y, BSLASH) in
                     match e1 with
                     | [] => join_windows_loop rest b1 lc1
                     | _ :: _ => join_windows_loop rest (b1 ++ e1) (last_byte e1 0%N)
                     end).
    { cbn [join_windows_loop]. destruct (W_cons x) as (t & HWx). rewrite HWx at 1. cbv iota.
      rewrite (last_W Hne), is_slash_phi, (is_slash_ok Hl1), phi_eqb_COLON.
      destruct (N.eqb_spec (last x 0%N) SLASH) as [Els|Nls].
      - rewrite (length_W d). cbn [plus Nat.eqb andb]. rewrite strip_slashes_mp. reflexivity.
      - destruct (N.eqb_spec (last x 0%N) COLON) as [E|_]; [contradiction|]. reflexivity. }
    rewrite Hunf. clear Hunf.
    destruct (N.eqb_spec (last x 0%N) SLASH) as [Els|Nls].
    - assert (Hx' : exists x0, x = x0 ++ [SLASH]).
      { destruct (exists_last Hne) as (x0 & z & ->). exists x0. rewrite last_last in Els. subst z. reflexivity. }
      destruct Hx' as (x0 & Ex).
      destruct (strip_slashes y) as [|c sy] eqn:Es.
      + exists x. cbn [map]. split; [reflexivity|]. split; [exact Hne|]. split; [exact Hx|]. split; [reflexivity|].
        rewrite (strip_nil_comps Hy Es), app_nil_r. reflexivity.
      + assert (Hne2 : x ++ c :: sy <> []) by (destruct x; discriminate).
        assert (Hok2 : okstr (x ++ c :: sy)) by (apply okstr_app; [exact Hx|rewrite <- Es; apply okstr_strip, Hy]).
        exists (x ++ c :: sy).
        assert (EW : W x ++ mp (c :: sy) = W (x ++ c :: sy)) by (symmetry; apply (W_app d)).
        assert (EL : last_byte (mp (c :: sy)) 0%N = last (W (x ++ c :: sy)) 0%N).
        { unfold last_byte. rewrite (last_W Hne2), last_app_ne by discriminate. apply last_mp. }
        split; [|split; [exact Hne2|split; [exact Hok2|split]]].
        * change (mp (c :: sy)) with (phi c :: mp sy) at 1. cbv iota. change (phi c :: mp sy) with (mp (c :: sy)).
          rewrite EW, EL. reflexivity.
        * destruct x; [congruence|reflexivity].
        * rewrite <- (comps_strip Hy), Es. rewrite Ex, <- app_assoc. cbn [app].
          rewrite comps_app_sep, filter_app_own, comps_nil_snoc. reflexivity.
    - assert (Hne3 : x ++ [SLASH] <> []) by (destruct x; discriminate).
      assert (Hok3 : okstr (x ++ [SLASH])) by (apply okstr_app; [exact Hx|constructor; [exact okc_SLASH|constructor]]).
      destruct y as [|c y'].
      + exists (x ++ [SLASH]). cbn [map].
        assert (EW : W x ++ [BSLASH] = W (x ++ [SLASH])) by (rewrite (W_app d); reflexivity).
        assert (EL : BSLASH = last (W (x ++ [SLASH])) 0%N) by (rewrite (last_W Hne3), last_last; reflexivity).
        split; [rewrite EW; rewrite EL at 1; reflexivity|]. split; [exact Hne3|]. split; [exact Hok3|]. split.
        * destruct x; [congruence|reflexivity].
        * rewrite comps_nil_snoc. cbn. rewrite app_nil_r. reflexivity.
      + assert (Hne2 : x ++ SLASH :: c :: y' <> []) by (destruct x; discriminate).
        assert (Hok2 : okstr (x ++ SLASH :: c :: y')) by (apply okstr_app; [exact Hx|constructor; [exact okc_SLASH|exact Hy]]).
        exists (x ++ SLASH :: c :: y').
        assert (EW : (W x ++ [BSLASH]) ++ mp (c :: y') = W (x ++ SLASH :: c :: y')).
        { rewrite (W_app d), <- app_assoc. reflexivity. }
        assert (EL : last_byte (mp (c :: y')) 0%N = last (W (x ++ SLASH :: c :: y')) 0%N).
        { unfold last_byte. rewrite (last_W Hne2). change (x ++ SLASH :: c :: y') with (x ++ [SLASH] ++ c :: y').
          rewrite app_assoc, last_app_ne by discriminate. apply last_mp. }
        split; [|split; [exact Hne2|split; [exact Hok2|split]]].
        * change (mp (c :: y')) with (phi c :: mp y') at 1. cbv iota. change (phi c :: mp y') with (mp (c :: y')).
          rewrite EW, EL. reflexivity.
        * destruct x; [congruence|reflexivity].
        * rewrite comps_app_sep, filter_app_own. reflexivity.
  Qed.

  Lemma jw_loop : forall (ys : list str) (x : str), x <> [] -> okstr x -> Forall okstr ys ->
    exists x', join_windows_loop (map mp ys) (W x) (last (W x) 0%N) = W x' /\ x' <> [] /\ okstr x'
               /\ hd0 x' = hd0 x /\ filter ne (comps x') = filter ne (comps x) ++ fc ys.
  Proof.
    induction ys as [|y ys IH]; intros x Hne Hx Hys.
    - exists x. cbn [map join_windows_loop fc flat_map]. rewrite app_nil_r. auto.
    - inversion Hys as [|? ? Hy Hys']; subst. cbn [map].
      destruct (@jw_step x y (map mp ys) Hne Hx Hy) as (xn & E & H1 & H2 & H3 & H4).
      destruct (IH xn H1 H2 Hys') as (x' & E' & G1 & G2 & G3 & G4).
      exists x'. rewrite E, E'. split; [reflexivity|]. split; [exact G1|]. split; [exact G2|]. split; [congruence|].
      rewrite G4, H4, fc_cons, app_assoc. reflexivity.
  Qed.

  Theorem join_W (a : str) (ys : list str) : a <> [] -> okstr a -> Forall okstr ys ->
    join Windows (W a :: map mp ys) = W (join Linux (a :: ys)) /\ okstr (join Linux (a :: ys)).
  Proof.
    intros Hne Ha Hys.
    destruct (jw_loop Hne Ha Hys) as (x' & E & H1 & H2 & H3 & H4).
    assert (HL : join Linux (a :: ys) = clean Linux x').
    { unfold join. destruct a as [|c a']; [congruence|]. cbn [drop_empty_prefix].
      change (sepc Linux) with SLASH. rewrite !clean_spec_correct.
      destruct x' as [|c' x'']; [congruence|]. cbn [hd0] in H3. subst c'.
      rewrite intercalate_cons.
      eapply clean_spec_by_comps; [cbn [app]; reflexivity|reflexivity|].
      change ((c :: a') ++ match ys with [] => [] | _ :: _ => [SLASH] ++ intercalate [SLASH] ys end)
        with ((c :: a') ++ match ys with [] => [] | _ :: _ => [SLASH] ++ intercalate [SLASH] ys end).
      rewrite <- (intercalate_cons [SLASH] (c :: a') ys), filter_comps_intercalate, H4. reflexivity. }
    destruct (@clean_W d Hd x' H1 H2) as [HC Hok]. rewrite HL. split; [|exact Hok]. rewrite <- HC.
    unfold join. cbn [join_windows_loop].
    assert (HWa : exists t, W a = d :: t) by (eexists; reflexivity). destruct HWa as (t & HWa).
    rewrite HWa at 1. cbv iota. rewrite <- ?HWa. cbn [app].
    change (last_byte (W a) 0%N) with (last (W a) 0%N). rewrite E.
    assert (HWx : exists t', W x' = d :: t') by (eexists; reflexivity). destruct HWx as (t' & HWx).
    rewrite HWx. reflexivity.
  Qed.
End Vol3.

(* ---- shapes kept by the Linux flavour ------------------------------------------------------------ *)
Lemma clean_relstr (t : str) : relstr t -> relstr (clean Linux t).
Proof.
  intros Hrel. rewrite clean_spec_correct. destruct t as [|c0 t']; [cbn; discriminate|].
  cbn [relstr] in Hrel. unfold clean_spec.
  destruct (N.eqb_spec c0 SLASH) as [E|_]; [contradiction|]. cbn [render].
  destruct (norm_shape0 false (c0 :: t')) as (k & names & -> & Hg & _).
  unfold L. destruct k as [|k].
  - cbn [repeat app]. destruct (rev names) as [|n ns] eqn:En; [cbn; discriminate|].
    assert (Hn : good n).
    { rewrite Forall_forall in Hg. apply Hg. apply in_rev. rewrite En. left. reflexivity. }
    destruct Hn as (Hne & Hsf & _). rewrite intercalate_cons. destruct n as [|x n']; [congruence|].
    cbn [app relstr]. intros ->. specialize (Hsf SLASH (or_introl eq_refl)). discriminate Hsf.
  - cbn [repeat app]. rewrite intercalate_cons. cbn. discriminate.
Qed.

Lemma join_rooted (a' : str) (ys : list str) : exists r, join Linux ((SLASH :: a') :: ys) = SLASH :: r.
Proof.
  unfold join. cbn [drop_empty_prefix]. rewrite intercalate_cons. cbn [app].
  match goal with |- context [clean Linux (SLASH :: ?z)] => destruct (@clean_rooted (SLASH :: z) eq_refl) as (cs & Hc & _) end.
  rewrite Hc. eauto.
Qed.
