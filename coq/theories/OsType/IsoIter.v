(* Property C17: PathIterator of the two flavours on related paths.
   pw iterates over W q = vol ++ map phi q, pl over q : the positions differ by the
   length of the volume name, the parts are the same byte strings. *)
From Avfs Require Import Base PathModel PathSpec PathCleanProofs PathProofs PathEquiv.
Set Implicit Arguments.

Section Iter.
  Variable d : N.
  Hypothesis Hd : is_letter d = true.
  Notation W := (W d).

  (* related before the first Next (pi_start is 0 on both sides) *)
  Definition piR0 (pw pl : piter) : Prop :=
    pi_path pw = W (pi_path pl) /\ pi_end pw = 2 + pi_end pl /\ pi_vnl pw = 2 /\ pi_vnl pl = 0
    /\ okstr (pi_path pl) /\ (exists r, pi_path pl = SLASH :: r).

  (* related after a Next *)
  Definition piR (pw pl : piter) : Prop :=
    piR0 pw pl /\ pi_start pw = 2 + pi_start pl /\ 1 <= pi_start pl /\ pi_part pw = pi_part pl.

  Lemma piR_piR0 pw pl : piR pw pl -> piR0 pw pl.
  Proof. intros H. exact (proj1 H). Qed.

  Lemma pi_new_R0 (q : str) : okstr q -> (exists r, q = SLASH :: r) -> piR0 (pi_new Windows (W q)) (pi_new Linux q).
  Proof.
    intros Hq Hr. unfold piR0, pi_new. rewrite (vnl_W d). cbn [pi_path pi_end pi_vnl volume_name_len].
    repeat split; auto.
  Qed.

  Lemma leb_2 a b : Nat.leb (2 + a) (2 + b) = Nat.leb a b.
  Proof. reflexivity. Qed.

  Lemma find_from_shift (f : N -> bool) (s : str) i k : find_from f s (k + i) = k + find_from f s i.
  Proof. rewrite !find_from_tw. lia. Qed.

  Lemma index_from_W (q : str) s :
    index_from (N.eqb (sepc Windows)) (W q) (2 + s) = 2 + index_from (N.eqb (sepc Linux)) q s.
  Proof.
    unfold index_from. rewrite (skipn_W d q s), find_from_shift. f_equal.
    apply find_from_map. intros c _.
    change (sepc Windows) with (phi (sepc Linux)). apply phi_eqb.
  Qed.

  Lemma mp_id (s : str) : (forall c, In c s -> c <> SLASH /\ c <> BSLASH) -> map phi s = s.
  Proof.
    intros H. induction s as [|c s IH]; [reflexivity|]. cbn [map]. rewrite IH by (intros x Hx; apply H; right; exact Hx).
    destruct (H c (or_introl eq_refl)) as [H1 H2]. unfold phi.
    destruct (N.eqb_spec c SLASH); [contradiction|]. destruct (N.eqb_spec c BSLASH); [contradiction|]. reflexivity.
  Qed.

  (* a part delimited by Next contains no separator *)
  Lemma part_no_sep (q : str) s c :
    In c (firstn (index_from (N.eqb (sepc Linux)) q s - s) (skipn s q)) -> c <> SLASH.
  Proof.
    unfold index_from. rewrite find_from_tw. replace (s + length (tw (N.eqb (sepc Linux)) (skipn s q)) - s)
      with (length (tw (N.eqb (sepc Linux)) (skipn s q))) by lia.
    rewrite firstn_tw. intros Hin E. apply tw_none in Hin. subst c. discriminate Hin.
  Qed.

  Lemma part_empty (p : piter) : pi_end p <= pi_start p -> pi_part p = [].
  Proof. intros H. unfold pi_part. replace (pi_end p - pi_start p) with 0 by lia. reflexivity. Qed.

  Theorem pi_next_R (pw pl : piter) : piR0 pw pl ->
    fst (pi_next Windows pw) = fst (pi_next Linux pl)
    /\ piR (snd (pi_next Windows pw)) (snd (pi_next Linux pl))
    /\ pi_is_last (snd (pi_next Windows pw)) = pi_is_last (snd (pi_next Linux pl)).
  Proof.
    intros (Hpath & Hend & Hvw & Hvl & Hok & Hrt). unfold pi_next.
    rewrite Hpath, Hend, (length_W d). change (S (2 + pi_end pl)) with (2 + S (pi_end pl)).
    rewrite leb_2.
    destruct (Nat.leb (length (pi_path pl)) (S (pi_end pl))) eqn:Hle; cbn [fst snd].
    - split; [reflexivity|]. split.
      + unfold piR, piR0. cbn [pi_path pi_start pi_end pi_vnl]. repeat split; auto; try lia.
        rewrite !part_empty by (cbn [pi_start pi_end]; lia). reflexivity.
      + unfold pi_is_last. cbn [pi_path pi_end]. rewrite (length_W d). reflexivity.
    - rewrite index_from_W. split; [reflexivity|].
      assert (Hp : pi_part {| pi_path := W (pi_path pl); pi_start := 2 + S (pi_end pl);
                              pi_end := 2 + index_from (N.eqb (sepc Linux)) (pi_path pl) (S (pi_end pl)); pi_vnl := pi_vnl pw |}
                   = pi_part {| pi_path := pi_path pl; pi_start := S (pi_end pl);
                                pi_end := index_from (N.eqb (sepc Linux)) (pi_path pl) (S (pi_end pl)); pi_vnl := pi_vnl pl |}).
      { unfold pi_part. cbn [pi_path pi_start pi_end].
        replace (2 + index_from (N.eqb (sepc Linux)) (pi_path pl) (S (pi_end pl)) - (2 + S (pi_end pl)))
          with (index_from (N.eqb (sepc Linux)) (pi_path pl) (S (pi_end pl)) - S (pi_end pl)) by lia.
        rewrite (skipn_W d), firstn_map. apply mp_id. intros c Hc. split.
        - exact (@part_no_sep _ _ c Hc).
        - apply In_firstn_own, In_skipn_own in Hc. unfold okstr in Hok. rewrite Forall_forall in Hok.
          exact (proj1 (Hok c Hc)). }
      split.
      + unfold piR, piR0. cbn [pi_path pi_start pi_end pi_vnl]. repeat split; auto; try lia.
      + unfold pi_is_last. cbn [pi_path pi_end]. rewrite (length_W d). reflexivity.
  Qed.

  (* link targets: portable, absolute (then spelled with the volume on the Windows side) or relative *)
  Definition lnk_rel (lw ll : str) : Prop :=
    okstr ll /\ (((exists r, ll = SLASH :: r) /\ lw = W ll) \/ (relstr ll /\ lw = map phi ll)).

  (* ReplacePart with related link targets *)
  Theorem pi_replace_R (pw pl : piter) (lw ll : str) : piR pw pl -> lnk_rel lw ll ->
    fst (pi_replace_part Windows pw lw) = fst (pi_replace_part Linux pl ll)
    /\ piR (snd (pi_replace_part Windows pw lw)) (snd (pi_replace_part Linux pl ll)).
  Proof.
    intros ((Hpath & Hend & Hvw & Hvl & Hok & (q' & Hq)) & Hst & Hge & _) (Hokl & Hl). unfold pi_replace_part.
    assert (HJ : exists np, (if is_abs Windows lw
                             then join Windows [lw; skipn (pi_end pw) (pi_path pw)]
                             else join Windows [firstn (pi_start pw) (pi_path pw); lw; skipn (pi_end pw) (pi_path pw)]) = W np
                            /\ (if is_abs Linux ll
                                then join Linux [ll; skipn (pi_end pl) (pi_path pl)]
                                else join Linux [firstn (pi_start pl) (pi_path pl); ll; skipn (pi_end pl) (pi_path pl)]) = np
                            /\ okstr np /\ exists r, np = SLASH :: r).
    { rewrite Hpath, Hend, Hst, (skipn_W d), (firstn_W d).
      assert (Hsk : okstr (skipn (pi_end pl) (pi_path pl))) by (apply okstr_skipn, Hok).
      destruct Hl as [((r & ->) & ->)|(Hrel & ->)].
      - rewrite (is_abs_W d Hd). change (is_abs Linux (SLASH :: r)) with true. cbv iota.
        destruct (@join_W d Hd (SLASH :: r) [skipn (pi_end pl) (pi_path pl)]) as [E Hj];
          [discriminate|exact Hokl|constructor; [exact Hsk|constructor]|].
        eexists. split; [exact E|]. split; [reflexivity|]. split; [exact Hj|apply join_rooted].
      - destruct (is_abs_rel Hokl Hrel) as [-> ->].
        assert (Hf : exists f', firstn (pi_start pl) (pi_path pl) = SLASH :: f').
        { rewrite Hq. destruct (pi_start pl) as [|n]; [lia|]. cbn [firstn]. eauto. }
        destruct Hf as (f' & Hf).
        destruct (@join_W d Hd (firstn (pi_start pl) (pi_path pl)) [ll; skipn (pi_end pl) (pi_path pl)]) as [E Hj];
          [rewrite Hf; discriminate|apply okstr_firstn, Hok|constructor; [exact Hokl|constructor; [exact Hsk|constructor]]|].
        eexists. split; [exact E|]. split; [reflexivity|]. split; [exact Hj|]. rewrite Hf. apply join_rooted. }
    destruct HJ as (np & EW & EL & Hoknp & Hrt). rewrite EW, EL.
    rewrite Hpath, Hst, (length_W d), !(firstn_W d), (str_eqb_W d), leb_2.
    destruct (Nat.leb (length np) (pi_start pl) || negb (str_eqb (firstn (pi_start pl) np) (firstn (pi_start pl) (pi_path pl))));
      cbn [fst snd]; (split; [reflexivity|]).
    - unfold piR, piR0, pi_reset. cbn [pi_path pi_start pi_end pi_vnl]. rewrite Hvw, Hvl. repeat split; auto.
    - unfold piR, piR0. cbn [pi_path pi_start pi_end pi_vnl]. repeat split; auto; try lia.
      rewrite !part_empty by (cbn [pi_start pi_end]; lia). reflexivity.
  Qed.
End Iter.
