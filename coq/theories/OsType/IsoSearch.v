(* Property C17: the path walk of a Windows-typed and of a Linux-typed MemFS on
   related heaps and related (portable) paths, in lock step.

   Related heaps have the SAME shape and the same node indices; names, file
   contents, link counts and file ids are equal; symbolic links hold related
   targets (W t on the Windows side, t absolute and portable on the Linux side);
   permission bits and owners are unconstrained - the acting user is the
   administrator on both sides, whose permission checks always succeed. *)
From Avfs Require Import Base PathModel PathSpec PathCleanProofs PathProofs MemFS MemFile World PathEquiv IsoIter.
Set Implicit Arguments.

Inductive option_rel {A B} (R : A -> B -> Prop) : option A -> option B -> Prop :=
| ORSome a b : R a b -> option_rel R (Some a) (Some b)
| ORNone : option_rel R None None.

Section Sim.
  Variable d : N.
  Hypothesis Hd : is_letter d = true.
  Notation W := (W d).
  Notation piR := (piR d).
  Notation piR0 := (piR0 d).

  Notation lnk_rel := (lnk_rel d).

  Inductive nrel : node -> node -> Prop :=
  | NRDir ch mw ml : nrel (NDir ch mw) (NDir ch ml)
  | NRFile dt k i mw ml : nrel (NFile dt k i mw) (NFile dt k i ml)
  | NRSym lw ll mw ml : lnk_rel lw ll -> nrel (NSym lw mw) (NSym ll ml).

  Definition hrel (hw hl : heap) : Prop := Forall2 nrel hw hl.

  Lemma hrel_length hw hl : hrel hw hl -> length hw = length hl.
  Proof. intros H. induction H; cbn [length]; congruence. Qed.

  Lemma hrel_get hw hl i : hrel hw hl -> option_rel nrel (get hw i) (get hl i).
  Proof.
    intros H. revert i. induction H as [|a b hw hl Hab H IH]; intros i.
    - destruct i; constructor.
    - destruct i; [constructor; exact Hab|apply IH].
  Qed.

  Lemma hrel_get_cases hw hl i : hrel hw hl ->
    (get hw i = None /\ get hl i = None) \/ (exists nw nl, get hw i = Some nw /\ get hl i = Some nl /\ nrel nw nl).
  Proof. intros H. destruct (hrel_get i H) as [a b Hab|]; [right; eauto|left; auto]. Qed.

  Lemma hrel_children hw hl i : hrel hw hl -> children hw i = children hl i.
  Proof.
    intros H. unfold children. destruct (hrel_get i H) as [a b Hab|]; [|reflexivity].
    destruct Hab; reflexivity.
  Qed.

  Lemma hrel_node_is_dir hw hl i : hrel hw hl -> node_is_dir hw i = node_is_dir hl i.
  Proof.
    intros H. unfold node_is_dir. destruct (hrel_get i H) as [a b Hab|]; [|reflexivity].
    destruct Hab; reflexivity.
  Qed.

  (* views *)
  Definition admin (v : view) : Prop := us_admin (v_user v) = true.

  Record vrel (vw vl : view) : Prop := {
    vr_osw : v_os vw = Windows;
    vr_osl : v_os vl = Linux;
    vr_aw : admin vw;
    vr_al : admin vl;
    vr_user : v_user vw = v_user vl;
    vr_umask : v_umask vw = v_umask vl;
    vr_idm : v_idm vw = v_idm vl
  }.

  Lemma cp_admin m perm u : us_admin u = true -> check_permission m perm u = true.
  Proof. intros H. unfold check_permission. rewrite H. reflexivity. Qed.

  Lemma perm_on_admin hw hl i perm vw vl : hrel hw hl -> vrel vw vl ->
    perm_on hw i perm (v_user vw) = perm_on hl i perm (v_user vl).
  Proof.
    intros H V. unfold perm_on. destruct (hrel_get i H) as [a b _|]; [|reflexivity].
    rewrite !cp_admin; [reflexivity|apply V|apply V].
  Qed.

  Lemma perm_on_admin_some h i perm v : admin v -> perm_on h i perm (v_user v) = match get h i with Some _ => true | None => false end.
  Proof. intros A. unfold perm_on. destruct (get h i); [apply cp_admin, A|reflexivity]. Qed.

  (* ---- results of the walk ------------------------------------------------------------ *)
  Definition srel (slm : slmode) (hl : heap) (rw rl : sres) : Prop :=
    sr_parent rw = sr_parent rl /\ sr_child rw = sr_child rl /\ piR (sr_pi rw) (sr_pi rl) /\
    ((sr_err rw = sr_err rl /\ sr_err rl <> ENotADirectory)
     \/ (sr_err rw = ENoSuchDir /\ sr_err rl = ENotADirectory
         /\ (slmode_eqb slm SlStat = false -> pi_is_last (sr_pi rl) = false)
         /\ exists c dt k i m, sr_child rl = Some c /\ get hl c = Some (NFile dt k i m))).

  Lemma piR_is_last pw pl : piR pw pl -> pi_is_last pw = pi_is_last pl.
  Proof.
    intros ((Hp & He & _) & _). unfold pi_is_last. rewrite Hp, He, (length_W d). reflexivity.
  Qed.

  Lemma out_pi_R pw pl sw sl : piR pw pl -> option_rel piR sw sl -> piR (out_pi pw sw) (out_pi pl sl).
  Proof. intros H S. destruct S; cbn [out_pi]; assumption. Qed.

  Ltac srel_split :=
    unfold srel; cbn [sr_parent sr_child sr_pi sr_err]; split; [reflexivity|split; [reflexivity|split]].

  Lemma search_loop_sim hw hl vw vl slm : hrel hw hl -> vrel vw vl ->
    forall fuel vol parent pw pl slc sw sl,
      piR0 pw pl -> (fuel = 0 -> piR pw pl) -> option_rel piR sw sl ->
      (slmode_eqb slm SlStat = false -> sl = None) ->
      srel slm hl (search_loop fuel hw vw slm vol parent pw slc sw) (search_loop fuel hl vl slm vol parent pl slc sl).
  Proof.
    intros H V. induction fuel as [|fuel IH]; intros vol parent pw pl slc sw sl H0 Hz Hs Hsl.
    - cbn [search_loop]. srel_split; [apply Hz; reflexivity|]. left. split; [reflexivity|discriminate].
    - cbn [search_loop]. rewrite (vr_osw V), (vr_osl V).
      destruct (@pi_next_R d pw pl H0) as (Hok & HR1 & Hl).
      destruct (pi_next Windows pw) as [okw pw1]. destruct (pi_next Linux pl) as [okl pl1].
      cbn [fst snd] in Hok, HR1, Hl. subst okw.
      destruct okl; cbn [negb].
      2:{ srel_split; [apply out_pi_R; assumption|]. left. split; [reflexivity|discriminate]. }
      rewrite (proj2 (proj2 (proj2 HR1))), Hl.
      (* the search permission of the root *)
      assert (Hroot : match get hw parent with Some n => check_permission (node_meta n) OpenLookup (v_user vw) | None => false end
                      = match get hl parent with Some n => check_permission (node_meta n) OpenLookup (v_user vl) | None => false end).
      { exact (perm_on_admin parent OpenLookup H V). }
      rewrite Hroot.
      destruct (Nat.eqb parent vol && negb (match get hl parent with
                                           | Some n => check_permission (node_meta n) OpenLookup (v_user vl)
                                           | None => false end)).
      { srel_split; [apply out_pi_R; assumption|]. left. split; [reflexivity|discriminate]. }
      rewrite (hrel_children parent H).
      destruct (alookup str_eqb (pi_part pl1) (children hl parent)) as [c|].
      2:{ srel_split; [apply out_pi_R; assumption|]. left. split; [reflexivity|destruct (pi_is_last pl1); discriminate]. }
      assert (Hret : forall e, e <> ENotADirectory ->
                srel slm hl {| sr_parent := Some parent; sr_child := Some c; sr_pi := out_pi pw1 sw; sr_err := e |}
                            {| sr_parent := Some parent; sr_child := Some c; sr_pi := out_pi pl1 sl; sr_err := e |}).
      { intros e He. srel_split; [apply out_pi_R; assumption|]. left. split; [reflexivity|exact He]. }
      destruct (hrel_get_cases c H) as [[Ew El]|(nw & nl & Ew & El & Hn)]; rewrite Ew, El; [apply Hret; discriminate|].
      destruct Hn as [ch mw ml|dt k i mw ml|lw ll mw ml Hlnk].
      + (* directory *)
        destruct (pi_is_last pl1); [apply Hret; discriminate|].
        rewrite !cp_admin by (apply V).
        apply IH; [apply piR_piR0; exact HR1|intros _; exact HR1|exact Hs|exact Hsl].
      + (* file *)
        destruct (pi_is_last pl1) eqn:Elast; [apply Hret; discriminate|].
        srel_split; [apply out_pi_R; assumption|].
        right. split; [reflexivity|split; [reflexivity|split]].
        * intros Hst. rewrite (Hsl Hst). cbn [out_pi]. exact Elast.
        * exists c, dt, k, i, ml. split; [reflexivity|exact El].
      + (* symbolic link *)
        destruct (pi_is_last pl1 && slmode_eqb slm SlLstat); [apply Hret; discriminate|].
        destruct (Nat.ltb slCountMax (S slc)); [apply Hret; discriminate|].
        destruct (@pi_replace_R d Hd pw1 pl1 lw ll HR1 Hlnk) as (Hreset & HR2).
        destruct (pi_replace_part Windows pw1 lw) as [rsw pw2].
        destruct (pi_replace_part Linux pl1 ll) as [rsl pl2].
        cbn [fst snd] in Hreset, HR2. subst rsw.
        apply IH; [apply piR_piR0; exact HR2|intros _; exact HR2| |].
        * destruct Hs as [a b Hab|]; [constructor; exact Hab|].
          destruct (pi_is_last pl1 && slmode_eqb slm SlStat); constructor. exact HR1.
        * intros Hst. rewrite (Hsl Hst). rewrite Hst, andb_false_r. reflexivity.
  Qed.

  (* ---- search_node ------------------------------------------------------------------------ *)
  Variable R : nat.      (* the root directory: of the default volume on the Windows side, of the view on the Linux side *)

  Record frel (sw sl : fsys) : Prop := {
    fr_heap : hrel (f_heap sw) (f_heap sl);
    fr_id : f_last_id sw = f_last_id sl;
    fr_vol : alookup str_eqb (vol d) (f_vols sw) = Some R
  }.

  Lemma SEARCH_FUEL_pos : SEARCH_FUEL <> 0.
  Proof. intros E. apply (f_equal (fun n => Nat.eqb n 0)) in E. vm_compute in E. discriminate. Qed.

  Theorem search_node_sim sw sl vw vl slm (r : str) :
    frel sw sl -> vrel vw vl -> v_root vl = R -> okstr (SLASH :: r) ->
    srel slm (f_heap sl) (search_node sw vw (W (SLASH :: r)) slm) (search_node sl vl (SLASH :: r) slm).
  Proof.
    intros F V HR Hok. unfold search_node. rewrite (vr_osw V), (vr_osl V).
    destruct (@abs_W d Hd (v_cwd vw) (v_cwd vl) r Hok) as (Ha & Hoka & (r' & Hr')).
    rewrite Ha. set (q := abs Linux (v_cwd vl) (SLASH :: r)) in *.
    assert (Hvw : pi_vnl (pi_new Windows (W q)) = 2) by (unfold pi_new; cbn [pi_vnl]; apply (vnl_W d)).
    assert (Hvl : pi_vnl (pi_new Linux q) = 0) by reflexivity.
    rewrite Hvw, Hvl. cbn [Nat.ltb Nat.leb].
    assert (Hvn : pi_volume_name (pi_new Windows (W q)) = vol d).
    { unfold pi_volume_name. rewrite Hvw. reflexivity. }
    rewrite Hvn, (fr_vol F), HR.
    apply search_loop_sim.
    - exact (fr_heap F).
    - exact V.
    - apply pi_new_R0; [exact Hoka|eauto].
    - intros E. exfalso. exact (SEARCH_FUEL_pos E).
    - constructor.
    - reflexivity.
  Qed.
End Sim.
