(* Property C17: volume management of a Windows-typed MemFS (WorldWin.volume_add /
   volume_delete / volume_list, mirroring memfs_cfg.go) is a SET of volume names:
   VolumeAdd inserts a new name (with a fresh empty root directory), VolumeDelete
   removes an existing one, VolumeList enumerates the set; the errors are the documented
   ones; a file system of another type answers ErrVolumeWindows / the empty list. *)
From Avfs Require Import Base PathModel MemFS MemFile World WorldWin.
Set Implicit Arguments.

Definition vols_of (s : fsys) : list str := map fst (f_vols s).

Fixpoint smem (x : str) (l : list str) : bool :=
  match l with [] => false | y :: l' => str_eqb x y || smem x l' end.

Lemma smem_In x l : smem x l = true <-> In x l.
Proof.
  induction l as [|y l IH]; cbn [smem In]; [split; [discriminate|tauto]|].
  rewrite orb_true_iff, IH, str_eqb_eq. split; intros [H|H]; auto.
Qed.

Lemma alookup_smem (A : Type) (x : str) (m : list (str * A)) :
  match alookup str_eqb x m with Some _ => true | None => false end = smem x (map fst m).
Proof.
  induction m as [|[k v] m IH]; [reflexivity|]. cbn [alookup map fst smem].
  destruct (str_eqb x k); [reflexivity|exact IH].
Qed.

(* the abstract set *)
Definition sremove (x : str) (l : list str) : list str := filter (fun y => negb (str_eqb x y)) l.

Inductive vout := VoOk | VoErr (e : verr) | VoRes (r : res).

Definition spec_add (vs : list str) (vol : str) : list str * vout :=
  match vol with
  | [] => (vs, VoErr EVolumeNameInvalid)
  | _ => if smem vol vs then (vs, VoErr EVolumeAlreadyExists) else (vs ++ [vol], VoOk)
  end.

(* [rm] is the result of the RemoveAll(vol) VolumeDelete performs first *)
Definition spec_delete (vs : list str) (vol : str) (rm : res) : list str * vout :=
  match vol with
  | [] => (vs, VoErr EVolumeNameInvalid)
  | _ => if smem vol vs
         then match rm with ROk => (sremove vol vs, VoOk) | r => (vs, VoRes r) end
         else (vs, VoErr EVolumeNameInvalid)
  end.

Definition out_of (r : ores) : vout :=
  match r with ORes ROk => VoOk | ORes r => VoRes r | OVErr e => VoErr e | OVols _ => VoOk end.

Lemma remove_all_vols s v p : f_vols (fst (remove_all s v p)) = f_vols s.
Proof.
  unfold remove_all. destruct p; [reflexivity|].
  destruct (is_not_exist _); [reflexivity|]. destruct (negb (is_file_exists _)); [reflexivity|].
  destruct (sr_child _) as [c|]; [|reflexivity]. destruct (sr_parent _) as [parent|]; [|reflexivity].
  cbv zeta. destruct (Nat.eqb _ _); [reflexivity|].
  destruct (if match get (f_heap s) c with Some (NDir (_ :: _) _) => true | _ => false end
            then remove_all_rec (S (length (f_heap s))) (f_heap s) (v_user v) c else (f_heap s, None)) as [h1 e1].
  destruct e1; [reflexivity|]. destruct (negb (perm_on _ _ _ _)); reflexivity.
Qed.

Lemma map_fst_aremove (A : Type) (x : str) (m : list (str * A)) :
  map fst (aremove str_eqb x m) = sremove x (map fst m).
Proof.
  induction m as [|[k v] m IH]; [reflexivity|]. cbn [aremove map fst sremove filter].
  destruct (str_eqb x k); cbn [negb map fst]; rewrite IH; reflexivity.
Qed.

Section Vol.
  Variables (s : fsys) (v : view).

  Theorem volume_add_spec (p : str) : win v = true ->
    vols_of (fst (volume_add s v p)) = fst (spec_add (vols_of s) (volume_name (v_os v) p))
    /\ out_of (snd (volume_add s v p)) = snd (spec_add (vols_of s) (volume_name (v_os v) p)).
  Proof.
    intros Hw. unfold volume_add, spec_add. rewrite Hw. cbn [negb].
    destruct (volume_name (v_os v) p) as [|c vol] eqn:Ev; [split; reflexivity|].
    unfold vols_of. rewrite <- alookup_smem.
    destruct (alookup str_eqb (c :: vol) (f_vols s)); [split; reflexivity|].
    cbn [fst snd f_vols out_of]. rewrite map_app. split; reflexivity.
  Qed.

  (* the new volume is an empty directory owned by the caller; the other volumes keep their roots *)
  Theorem volume_add_root (p : str) : win v = true ->
    snd (volume_add s v p) = ORes ROk ->
    let s' := fst (volume_add s v p) in
    alookup str_eqb (volume_name (v_os v) p) (f_vols s') = Some (length (f_heap s))
    /\ get (f_heap s') (length (f_heap s)) = Some (root_node (v_user v))
    /\ (forall x, x <> volume_name (v_os v) p -> alookup str_eqb x (f_vols s') = alookup str_eqb x (f_vols s))
    /\ (forall i, i < length (f_heap s) -> get (f_heap s') i = get (f_heap s) i).
  Proof.
    intros Hw. unfold volume_add. rewrite Hw. cbn [negb].
    destruct (volume_name (v_os v) p) as [|c vol] eqn:Ev; [discriminate|].
    destruct (alookup str_eqb (c :: vol) (f_vols s)) eqn:El; [discriminate|].
    intros _. cbn [fst f_vols f_heap].
    assert (Happ : forall x m, alookup str_eqb x (m ++ [(c :: vol, length (f_heap s))])
                              = match alookup str_eqb x m with Some y => Some y
                                | None => if str_eqb x (c :: vol) then Some (length (f_heap s)) else None end).
    { intros x m. induction m as [|[k y] m IH]; [reflexivity|]. cbn [app alookup]. destruct (str_eqb x k); [reflexivity|exact IH]. }
    repeat split.
    - rewrite Happ, El, str_eqb_refl. reflexivity.
    - unfold get. rewrite nth_error_app2 by lia. rewrite Nat.sub_diag. reflexivity.
    - intros x Hx. rewrite Happ. destruct (alookup str_eqb x (f_vols s)); [reflexivity|].
      destruct (str_eqb_spec x (c :: vol)); [contradiction|reflexivity].
    - intros i Hi. unfold get. apply nth_error_app1. exact Hi.
  Qed.

  Theorem volume_delete_spec (p : str) : win v = true ->
    let vol := volume_name (v_os v) p in
    vols_of (fst (volume_delete s v p)) = fst (spec_delete (vols_of s) vol (snd (remove_all s v vol)))
    /\ out_of (snd (volume_delete s v p)) = snd (spec_delete (vols_of s) vol (snd (remove_all s v vol))).
  Proof.
    intros Hw. unfold volume_delete, spec_delete. rewrite Hw. cbn [negb].
    destruct (volume_name (v_os v) p) as [|c vol] eqn:Ev; [split; reflexivity|].
    unfold vols_of. rewrite <- alookup_smem.
    destruct (alookup str_eqb (c :: vol) (f_vols s)); [|split; reflexivity].
    pose proof (remove_all_vols s v (c :: vol)) as Hv.
    destruct (remove_all s v (c :: vol)) as [s1 r]. cbn [fst snd] in *.
    destruct r; cbn [fst snd out_of with_vols f_vols]; rewrite ?Hv; try (split; reflexivity).
    rewrite map_fst_aremove. split; reflexivity.
  Qed.

  Theorem volume_list_spec : win v = true ->
    volume_list s v = OVols (sort_by (fun x => x) (vols_of s)).
  Proof. intros Hw. unfold volume_list. rewrite Hw. reflexivity. Qed.

  (* a file system that is not Windows-typed has no volumes *)
  Theorem volume_not_windows (p : str) : win v = false ->
    volume_add s v p = (s, OVErr EVolumeWindows) /\ volume_delete s v p = (s, OVErr EVolumeWindows)
    /\ volume_list s v = OVols [].
  Proof. intros Hw. unfold volume_add, volume_delete, volume_list. rewrite Hw. auto. Qed.
End Vol.

(* the set stays duplicate-free, and after a deletion the name is gone *)
Lemma sremove_notin x l : ~ In x (sremove x l).
Proof.
  unfold sremove. intros H. apply filter_In in H as [_ H]. rewrite str_eqb_refl in H. discriminate.
Qed.

Lemma sremove_NoDup x l : NoDup l -> NoDup (sremove x l).
Proof. apply NoDup_filter. Qed.

Lemma NoDup_app_own (A : Type) (l l' : list A) : NoDup l -> NoDup l' -> (forall x, In x l -> In x l' -> False) -> NoDup (l ++ l').
Proof.
  intros H H' Hd. induction H as [|x l Hx H IH]; [exact H'|]. cbn [app]. constructor.
  - intros Hin. apply in_app_or in Hin as [Hin|Hin]; [contradiction|]. apply (Hd x (or_introl eq_refl) Hin).
  - apply IH. intros y Hy. apply Hd. right. exact Hy.
Qed.

Theorem spec_add_NoDup vs vol : NoDup vs -> NoDup (fst (spec_add vs vol)).
Proof.
  intros H. unfold spec_add. destruct vol as [|c vol]; [exact H|].
  destruct (smem (c :: vol) vs) eqn:E; [exact H|]. cbn [fst].
  apply NoDup_app_own; [exact H|constructor; [intros []|constructor]|].
  intros x Hx [<-|[]]. apply smem_In in Hx. congruence.
Qed.

Theorem spec_delete_NoDup vs vol rm : NoDup vs -> NoDup (fst (spec_delete vs vol rm)).
Proof.
  intros H. unfold spec_delete. destruct vol as [|c vol]; [exact H|].
  destruct (smem (c :: vol) vs); [|exact H]. destruct rm; try exact H. apply sremove_NoDup, H.
Qed.

(* the initial Windows-typed world has exactly the default volume *)
Theorem init_volumes um : vols_of (w_fs (init_world_os Windows um)) = [VOL_C].
Proof.
  unfold init_world_os, init_world_dirs. cbn [w_fs].
  assert (H : forall dirs s0 v0, f_vols (fold_left (mk_system_dir v0) dirs s0) = f_vols s0).
  { induction dirs as [|x dirs IH]; intros s0 v0; [reflexivity|]. cbn [fold_left]. rewrite IH.
    unfold mk_system_dir.
    assert (Hm : forall s v p perm, f_vols (fst (mkdir_all s v p perm)) = f_vols s).
    { intros s v p perm. unfold mkdir_all.
      assert (Hl : forall fuel s dn pi, f_vols (mkdir_all_loop fuel s v dn pi perm) = f_vols s).
      { induction fuel as [|fuel IHf]; intros s' dn pi; [reflexivity|]. cbn [mkdir_all_loop].
        destruct (alookup _ _ _); [reflexivity|]. unfold create_dir. destruct (pi_next _ _) as [ok pi1].
        destruct ok; [rewrite IHf|]; reflexivity. }
      destruct (sr_child _).
      - destruct (get _ _) as [[]|]; try reflexivity; try (destruct (is_file_exists _); reflexivity);
          destruct (sr_parent _); try reflexivity; destruct (negb _); try reflexivity; cbn [fst]; apply Hl.
      - destruct (sr_parent _); try reflexivity; destruct (negb _); try reflexivity; cbn [fst]; apply Hl. }
    assert (Hc : forall s v p mode, f_vols (fst (chmod s v p mode)) = f_vols s).
    { intros s v p mode. unfold chmod. destruct (sr_child _); [|reflexivity]. destruct (negb _); [reflexivity|].
      destruct (get _ _) as [[]|]; try reflexivity; destruct (set_mode_ok _ _); reflexivity. }
    destruct (win v0); [apply Hm|]. rewrite Hc. apply Hm. }
  unfold vols_of. rewrite H. reflexivity.
Qed.
