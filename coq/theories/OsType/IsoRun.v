(* Property C17: histories.  A Windows-typed and a Linux-typed MemFS started from
   related worlds and driven by the same portable history stay related, agree call by
   call on success / failure (except the flagged calls) and show the same
   OS-independent view (IsoView.iso_view) of their trees. *)
From Avfs Require Import Base PathModel PathSpec PathCleanProofs PathProofs MemFS MemFile World WorldWin IsoView
  PathEquiv IsoIter IsoSearch IsoCalls DacLemmas.
Set Implicit Arguments.

Section Run.
  Variable d : N.
  Hypothesis Hd : is_letter d = true.
  Variable R : nat.
  Notation W := (W d).
  Notation lnk_rel := (lnk_rel d).
  Notation hrel := (hrel d).
  Notation frel := (frel d R).
  Notation vrelR := (vrelR R).

  Definition wrel (ww wl : world) : Prop :=
    frel (w_fs ww) (w_fs wl) /\ Forall2 vrelR (w_views ww) (w_views wl).

  (* a portable absolute path: '/'-rooted, without '\', ':' and '?' *)
  Definition ppath (r : str) : Prop := okstr (SLASH :: r).

  (* the same call in the two spellings: Windows (volume, '\') and Linux *)
  Inductive pcall : call -> call -> Prop :=
  | PMkdir vi r perm : ppath r -> pcall (CMkdir vi (W (SLASH :: r)) perm) (CMkdir vi (SLASH :: r) perm)
  | PMkdirAll vi r perm : ppath r -> pcall (CMkdirAll vi (W (SLASH :: r)) perm) (CMkdirAll vi (SLASH :: r) perm)
  | POpenFile vi r flag perm : ppath r -> pcall (COpenFile vi (W (SLASH :: r)) flag perm) (COpenFile vi (SLASH :: r) flag perm)
  | PRemove vi r : ppath r -> pcall (CRemove vi (W (SLASH :: r))) (CRemove vi (SLASH :: r))
  | PRemoveAll vi r : ppath r -> pcall (CRemoveAll vi (W (SLASH :: r))) (CRemoveAll vi (SLASH :: r))
  | PRename vi o n : ppath o -> ppath n -> pcall (CRename vi (W (SLASH :: o)) (W (SLASH :: n))) (CRename vi (SLASH :: o) (SLASH :: n))
  | PLink vi o n : ppath o -> ppath n -> pcall (CLink vi (W (SLASH :: o)) (W (SLASH :: n))) (CLink vi (SLASH :: o) (SLASH :: n))
  | PSymlink vi tw tl n : lnk_rel tw tl -> ppath n -> pcall (CSymlink vi tw (W (SLASH :: n))) (CSymlink vi tl (SLASH :: n))
  | PReadlink vi r : ppath r -> pcall (CReadlink vi (W (SLASH :: r))) (CReadlink vi (SLASH :: r))
  | PTruncate vi r size : ppath r -> pcall (CTruncate vi (W (SLASH :: r)) size) (CTruncate vi (SLASH :: r) size)
  | PChmod vi r mode : ppath r -> pcall (CChmod vi (W (SLASH :: r)) mode) (CChmod vi (SLASH :: r) mode)
  | PChown vi r uid gid : ppath r -> pcall (CChown vi (W (SLASH :: r)) uid gid) (CChown vi (SLASH :: r) uid gid)
  | PLchown vi r uid gid : ppath r -> pcall (CLchown vi (W (SLASH :: r)) uid gid) (CLchown vi (SLASH :: r) uid gid)
  | PChtimes vi r : ppath r -> pcall (CChtimes vi (W (SLASH :: r))) (CChtimes vi (SLASH :: r))
  | PChdir vi r : ppath r -> pcall (CChdir vi (W (SLASH :: r))) (CChdir vi (SLASH :: r))
  | PGetwd vi : pcall (CGetwd vi) (CGetwd vi)
  | PStat vi r : ppath r -> pcall (CStat vi (W (SLASH :: r))) (CStat vi (SLASH :: r))
  | PLstat vi r : ppath r -> pcall (CLstat vi (W (SLASH :: r))) (CLstat vi (SLASH :: r))
  | PEvalSymlinks vi r : ppath r -> pcall (CEvalSymlinks vi (W (SLASH :: r))) (CEvalSymlinks vi (SLASH :: r))
  | PReadDir vi r : ppath r -> pcall (CReadDir vi (W (SLASH :: r))) (CReadDir vi (SLASH :: r))
  | PReadFile vi r : ppath r -> pcall (CReadFile vi (W (SLASH :: r))) (CReadFile vi (SLASH :: r))
  | PWriteFile vi r data perm : ppath r -> pcall (CWriteFile vi (W (SLASH :: r)) data perm) (CWriteFile vi (SLASH :: r) data perm)
  | PSetUMask vi m : pcall (CSetUMask vi m) (CSetUMask vi m).

  (* the calls whose success may differ between the OS types *)
  Definition os_specific (c : call) : bool :=             (* documented: not supported on Windows *)
    match c with CChown _ _ _ _ | CLchown _ _ _ _ => true | _ => false end.

  Definition kf_removeall (wl : world) (c : call) : bool :=   (* the finding: RemoveAll through a regular file *)
    match c with
    | CRemoveAll vi p => match nth_error (w_views wl) vi with
                         | Some v => removeall_through_file (w_fs wl) v p
                         | None => false end
    | _ => false
    end.

  Definition flagged (wl : world) (c : call) : bool := os_specific c || kf_removeall wl c.

  Lemma Forall2_nth (A B : Type) (P : A -> B -> Prop) (la : list A) (lb : list B) i : Forall2 P la lb ->
    match nth_error la i, nth_error lb i with
    | Some a, Some b => P a b
    | None, None => True
    | _, _ => False
    end.
  Proof.
    intros H. revert i. induction H as [|a b la lb Hab H IH]; intros [|i]; cbn; auto. apply IH.
  Qed.

  Lemma Forall2_set_nth (A B : Type) (P : A -> B -> Prop) (la : list A) (lb : list B) i a b :
    Forall2 P la lb -> P a b -> Forall2 P (set_nth_ la i a) (set_nth_ lb i b).
  Proof.
    intros H Hab. revert i. induction H as [|x y la lb Hxy H IH]; intros [|i]; cbn [set_nth_]; constructor; auto.
  Qed.

  Lemma vrelR_cwd vw vl cw cl : vrelR vw vl -> vrelR (set_cwd vw cw) (set_cwd vl cl).
  Proof. intros ([] & HR). split; [constructor; assumption|exact HR]. Qed.

  Lemma vrelR_umask vw vl m : vrelR vw vl ->
    vrelR {| v_root := v_root vw; v_cwd := v_cwd vw; v_user := v_user vw; v_umask := m; v_os := v_os vw; v_idm := v_idm vw |}
          {| v_root := v_root vl; v_cwd := v_cwd vl; v_user := v_user vl; v_umask := m; v_os := v_os vl; v_idm := v_idm vl |}.
  Proof. intros ([] & HR). split; [constructor; cbn; auto|exact HR]. Qed.

  (* ---- one call ------------------------------------------------------------------------------ *)
  Theorem step_sim (ww wl : world) (cw cl : call) : wrel ww wl -> pcall cw cl ->
    wrel (fst (wstep ww cw)) (fst (wstep wl cl))
    /\ (flagged wl cl = false -> okres (snd (wstep ww cw)) = okres (snd (wstep wl cl))).
  Proof.
    intros (F & Vs) Hc.
    assert (Hlift : forall vi (kw kl : view -> world * res),
              (forall vw vl, vrelR vw vl -> nth_error (w_views wl) vi = Some vl ->
                             wrel (fst (kw vw)) (fst (kl vl))
                             /\ (flagged wl cl = false -> okres (snd (kw vw)) = okres (snd (kl vl)))) ->
              wrel (fst (on_view ww vi kw)) (fst (on_view wl vi kl))
              /\ (flagged wl cl = false -> okres (snd (on_view ww vi kw)) = okres (snd (on_view wl vi kl)))).
    { intros vi kw kl Hk. unfold on_view. pose proof (Forall2_nth vi Vs) as Hn.
      destruct (nth_error (w_views ww) vi) as [vw|]; destruct (nth_error (w_views wl) vi) as [vl|] eqn:El; try contradiction.
      - apply Hk; [exact Hn|reflexivity].
      - split; [split; assumption|reflexivity]. }
    assert (Hc1 : forall (xw xl : fsys * res), crel d R xw xl ->
              wrel (fst (lift ww xw)) (fst (lift wl xl)) /\ (flagged wl cl = false -> okres (snd (lift ww xw)) = okres (snd (lift wl xl)))).
    { intros xw xl [X1 X2]. unfold lift. cbn [fst snd]. split; [split; [exact X1|exact Vs]|intros _; exact X2]. }
    assert (Hr1 : forall (rw rl : res), rrel rw rl ->
              wrel (fst (ww, rw)) (fst (wl, rl)) /\ (flagged wl cl = false -> okres (snd (ww, rw)) = okres (snd (wl, rl)))).
    { intros rw rl X. cbn [fst snd]. split; [split; assumption|intros _; exact X]. }
    destruct Hc; cbn [wstep]; apply Hlift; intros vw vl V Hnth.
    - apply Hc1, (@mkdir_sim d Hd R); assumption.
    - apply Hc1, (@mkdir_all_sim d Hd R); assumption.
    - destruct (@open_file_sim d Hd R (w_fs ww) (w_fs wl) vw vl vi r flag perm F V H) as [F1 Hres].
      destruct (open_file (w_fs ww) vw vi (W (SLASH :: r)) flag perm) as [sw1 [aw|fw]];
        destruct (open_file (w_fs wl) vl vi (SLASH :: r) flag perm) as [sl1 [al|fl]]; cbn [fst snd] in *; try contradiction.
      + split; [split; [exact F1|exact Vs]|intros _; exact Hres].
      + split; [split; [exact F1|exact Vs]|reflexivity].
    - apply Hc1, (@remove_sim d Hd R); assumption.
    - destruct (@remove_all_sim d Hd R (w_fs ww) (w_fs wl) vw vl r F V H) as [F1 Hres].
      unfold lift. cbn [fst snd]. split; [split; [exact F1|exact Vs]|].
      intros Hfl. apply Hres. unfold flagged, kf_removeall in Hfl. cbn [os_specific orb] in Hfl.
      rewrite Hnth in Hfl. exact Hfl.
    - apply Hc1, (@rename_sim d Hd R); assumption.
    - apply Hc1, (@link_sim d Hd R); assumption.
    - apply Hc1, (@symlink_sim d Hd R); assumption.
    - apply Hr1, (@readlink_sim d Hd R); assumption.
    - apply Hc1, (@truncate_sim d Hd R); assumption.
    - apply Hc1, (@chmod_sim d Hd R); assumption.
    - destruct (@chown_sim d R SlEval (w_fs ww) (w_fs wl) vw vl r uid gid F V H) as [F1 _].
      unfold lift. cbn [fst snd]. split; [split; [exact F1|exact Vs]|]. unfold flagged. cbn [os_specific orb]. discriminate.
    - destruct (@chown_sim d R SlLstat (w_fs ww) (w_fs wl) vw vl r uid gid F V H) as [F1 _].
      unfold lift. cbn [fst snd]. split; [split; [exact F1|exact Vs]|]. unfold flagged. cbn [os_specific orb]. discriminate.
    - apply Hr1, (@chtimes_sim d Hd R); assumption.
    - pose proof (@chdir_sim d Hd R (w_fs ww) (w_fs wl) vw vl r F V H) as Hcd.
      destruct (chdir (w_fs ww) vw (W (SLASH :: r))) as [aw|cw']; destruct (chdir (w_fs wl) vl (SLASH :: r)) as [al|cl'];
        try contradiction; cbn [fst snd].
      + split; [split; assumption|intros _; exact Hcd].
      + split; [|reflexivity]. split; [exact F|]. unfold with_view. cbn [w_views].
        apply Forall2_set_nth; [exact Vs|apply vrelR_cwd, V].
    - cbn [fst snd]. rewrite (getwd_admin _ _ (vr_aw (proj1 V))), (getwd_admin _ _ (vr_al (proj1 V))).
      split; [split; assumption|reflexivity].
    - apply Hr1, (@stat_sim d Hd R); assumption.
    - apply Hr1, (@stat_sim d Hd R); assumption.
    - apply Hr1, (@eval_symlinks_sim d Hd R); assumption.
    - apply Hr1, (@read_dir_sim d Hd R); assumption.
    - apply Hr1, (@read_file_sim d Hd R); assumption.
    - apply Hc1, (@write_file_sim d Hd R); assumption.
    - cbn [fst snd]. split; [|reflexivity]. split; [exact F|]. unfold with_view. cbn [w_views].
      apply Forall2_set_nth; [exact Vs|apply vrelR_umask, V].
  Qed.

  (* ---- histories ----------------------------------------------------------------------------- *)
  (* which calls of a history (run on the Linux-typed world) are flagged *)
  Fixpoint flags (wl : world) (cls : list call) : list bool :=
    match cls with
    | [] => []
    | c :: cs => flagged wl c :: flags (fst (wstep wl c)) cs
    end.

  (* equal at every position that is not flagged *)
  Fixpoint agree_except (fl a b : list bool) : Prop :=
    match fl, a, b with
    | [], [], [] => True
    | f :: fl', x :: a', y :: b' => (f = false -> x = y) /\ agree_except fl' a' b'
    | _, _, _ => False
    end.

  Theorem run_sim : forall cws cls ww wl, Forall2 pcall cws cls -> wrel ww wl ->
    wrel (fst (wrun ww cws)) (fst (wrun wl cls))
    /\ agree_except (flags wl cls) (map okres (snd (wrun ww cws))) (map okres (snd (wrun wl cls))).
  Proof.
    intros cws cls ww wl H. revert ww wl. induction H as [|cw cl cws cls Hc H IH]; intros ww wl Hw.
    - cbn. split; [exact Hw|exact I].
    - cbn [wrun flags]. destruct (step_sim Hw Hc) as [Hw1 Hok].
      destruct (wstep ww cw) as [ww1 rw]. destruct (wstep wl cl) as [wl1 rl]. cbn [fst snd] in *.
      destruct (IH ww1 wl1 Hw1) as [Hw2 Hag].
      destruct (wrun ww1 cws) as [ww2 rws]. destruct (wrun wl1 cls) as [wl2 rls]. cbn [fst snd map agree_except] in *.
      split; [exact Hw2|split; [exact Hok|exact Hag]].
  Qed.

  (* ---- the OS-independent view of related worlds ------------------------------------------------ *)
  Lemma to_slash_mp (s : str) : okstr s -> to_slash Windows (map phi s) = s.
  Proof.
    intros H. cbn [to_slash]. induction H as [|c s Hc Hs IH]; [reflexivity|]. cbn [map]. rewrite IH. f_equal.
    destruct Hc as (Hb & _). unfold phi. destruct (N.eqb_spec c SLASH) as [->|Hn]; [reflexivity|].
    destruct (N.eqb_spec c BSLASH); [contradiction|]. destruct (N.eqb_spec c BSLASH); [contradiction|reflexivity].
  Qed.

  Lemma norm_target_rel lw ll : lnk_rel lw ll -> norm_target Windows lw = norm_target Linux ll.
  Proof.
    intros (Hok & [((r & Er) & ->)|(Hrel & ->)]); unfold norm_target.
    - rewrite (vnl_W d). change (skipn 2 (W ll)) with (map phi ll). rewrite (to_slash_mp Hok). reflexivity.
    - rewrite (vnl_rel Hok Hrel). cbn [skipn]. rewrite (to_slash_mp Hok). reflexivity.
  Qed.

  Lemma nsnap_rel hw hl : hrel hw hl -> forall fuel path i, nsnap fuel Windows hw path i = nsnap fuel Linux hl path i.
  Proof.
    intros H. induction fuel as [|fuel IH]; intros path i; [reflexivity|]. cbn [nsnap].
    destruct (hrel_get_cases i H) as [[Ew El]|(nw & nl & Ew & El & Hn)]; rewrite Ew, El; [reflexivity|].
    destruct Hn as [ch mw ml|dt k id mw ml|lw ll mw ml Hl].
    - f_equal. apply flat_map_ext. intros [name c]. apply IH.
    - reflexivity.
    - rewrite (norm_target_rel Hl). reflexivity.
  Qed.
End Run.

(* ---- the default volume C: and the worlds NewWithOptions builds ------------------------------------ *)
Definition DRIVE_C : N := 67.
Lemma DRIVE_C_letter : is_letter DRIVE_C = true. Proof. reflexivity. Qed.
Lemma vol_C : vol DRIVE_C = VOL_C. Proof. reflexivity. Qed.

Notation WC := (W DRIVE_C).
Notation wrelC := (wrel DRIVE_C 0).

Theorem iso_view_rel (ww wl : world) (vi : nat) : wrelC ww wl -> iso_view ww vi = iso_view wl vi.
Proof.
  intros (F & Vs). unfold iso_view, iso_view_fuel, iso_root.
  pose proof (Forall2_nth vi Vs) as Hn.
  destruct (nth_error (w_views ww) vi) as [vw|]; destruct (nth_error (w_views wl) vi) as [vl|]; try contradiction; [|reflexivity].
  destruct Hn as (V & HR). rewrite (vr_osw V), (vr_osl V), <- vol_C, (fr_vol F), HR.
  exact (@nsnap_rel DRIVE_C _ _ (fr_heap F) _ _ _).
Qed.

(* system directories given as portable paths *)
Definition dirsW (dirs : list (str * N)) : list (str * N) := map (fun x => (WC (SLASH :: fst x), snd x)) dirs.
Definition dirsL (dirs : list (str * N)) : list (str * N) := map (fun x => (SLASH :: fst x, snd x)) dirs.

Lemma hrel_meta_right hw hl c n m : hrel DRIVE_C hw hl -> get hl c = Some n ->
  hrel DRIVE_C hw (upd hl c (set_meta n m)).
Proof.
  intros H. revert c. induction H as [|a b hw hl Hab H IH]; intros c E; [destruct c; discriminate|].
  destruct c; cbn [upd].
  - cbn in E. injection E as ->. constructor; [|exact H]. destruct Hab; constructor. assumption.
  - constructor; [exact Hab|]. apply IH. exact E.
Qed.

Lemma chmod_right sw sl vl p mode : frel DRIVE_C 0 sw sl -> frel DRIVE_C 0 sw (fst (chmod sl vl p mode)).
Proof.
  intros F. unfold chmod.
  destruct (sr_child (search_node sl vl p SlEval)) as [c|]; [|exact F].
  destruct (negb (is_file_exists (sr_err (search_node sl vl p SlEval)))); [exact F|].
  destruct (get (f_heap sl) c) as [n|] eqn:El; [|exact F].
  assert (Hgoal : forall m', frel DRIVE_C 0 sw (with_heap sl (upd (f_heap sl) c (set_meta n m')))).
  { intros m'. destruct F as [FH FI FV]. constructor; cbn [with_heap f_heap f_last_id f_vols]; auto. apply hrel_meta_right; assumption. }
  destruct n; try exact F; cbn [fst]; destruct (set_mode_ok _ _); try exact F; apply Hgoal.
Qed.

Lemma init_views_rel um : vrelR 0 (init_view Windows um) (init_view Linux um).
Proof. split; [constructor; reflexivity|reflexivity]. Qed.

Lemma mk_system_dir_windows um s x :
  mk_system_dir (init_view Windows um) s x = fst (mkdir_all s (init_view Windows um) (fst x) (snd x)).
Proof. reflexivity. Qed.

Lemma mk_system_dir_linux um s x :
  mk_system_dir (init_view Linux um) s x
  = fst (chmod (fst (mkdir_all s (init_view Linux um) (fst x) (snd x))) (init_view Linux um) (fst x) (snd x)).
Proof. reflexivity. Qed.

Lemma step_dir um sw sl (x : str * N) : okstr (SLASH :: fst x) -> frel DRIVE_C 0 sw sl ->
  frel DRIVE_C 0 (mk_system_dir (init_view Windows um) sw (WC (SLASH :: fst x), snd x))
                 (mk_system_dir (init_view Linux um) sl (SLASH :: fst x, snd x)).
Proof.
  intros Hr F.
  rewrite mk_system_dir_windows, mk_system_dir_linux. cbn [fst snd]. apply chmod_right.
  exact (proj1 (@mkdir_all_sim DRIVE_C DRIVE_C_letter 0 sw sl (init_view Windows um) (init_view Linux um) (fst x) (snd x) F (init_views_rel um) Hr)).
Qed.

(* two folds over the images of one list keep a relation that every step keeps *)
Lemma fold_left2_rel (S1 S2 X Y1 Y2 : Type) (Rel : S1 -> S2 -> Prop) (P : X -> Prop)
      (f1 : S1 -> Y1 -> S1) (f2 : S2 -> Y2 -> S2) (g1 : X -> Y1) (g2 : X -> Y2) (l : list X) :
  (forall a b x, P x -> Rel a b -> Rel (f1 a (g1 x)) (f2 b (g2 x))) -> Forall P l ->
  forall a b, Rel a b -> Rel (fold_left f1 (map g1 l) a) (fold_left f2 (map g2 l) b).
Proof.
  intros Hstep Hl. induction Hl as [|x l Hx Hl IH]; intros a b Hab; [exact Hab|].
  cbn [map fold_left]. apply IH, Hstep; assumption.
Qed.

Lemma fold_dirs_rel um (dirs : list (str * N)) : Forall (fun x => okstr (SLASH :: fst x)) dirs ->
  forall sw sl, frel DRIVE_C 0 sw sl ->
  frel DRIVE_C 0 (fold_left (mk_system_dir (init_view Windows um)) (dirsW dirs) sw)
                 (fold_left (mk_system_dir (init_view Linux um)) (dirsL dirs) sl).
Proof.
  intros Hd. unfold dirsW, dirsL.
  apply (@fold_left2_rel fsys fsys (str * N) (str * N) (str * N) (frel DRIVE_C 0) (fun x => okstr (SLASH :: fst x))
           (mk_system_dir (init_view Windows um)) (mk_system_dir (init_view Linux um))
           (fun x => (WC (SLASH :: fst x), snd x)) (fun x => (SLASH :: fst x, snd x)) dirs); [|exact Hd].
  intros a b x Hx Hab. apply step_dir; assumption.
Qed.

Lemma root_frel : frel DRIVE_C 0 {| f_heap := [root_node root_user]; f_last_id := 0; f_vols := [(VOL_C, 0)] |}
                              {| f_heap := [root_node root_user]; f_last_id := 0; f_vols := [] |}.
Proof. constructor; cbn [f_heap f_last_id f_vols]; [|reflexivity|reflexivity]. constructor; [constructor|constructor]. Qed.

Theorem init_rel (um : N) (dirs : list (str * N)) : Forall (fun x => okstr (SLASH :: fst x)) dirs ->
  wrelC (init_world_dirs Windows um (dirsW dirs)) (init_world_dirs Linux um (dirsL dirs)).
Proof.
  intros Hd. unfold init_world_dirs, wrel. cbn [w_fs w_views]. split.
  - apply fold_dirs_rel; [exact Hd|exact root_frel].
  - constructor; [|constructor]. split; [constructor; reflexivity|reflexivity].
Qed.

(* ---- the property ---------------------------------------------------------------------------------- *)
Theorem iso_histories (um : N) (dirs : list (str * N)) (cws cls : list call) :
  Forall (fun x => okstr (SLASH :: fst x)) dirs -> Forall2 (pcall DRIVE_C) cws cls ->
  let ww := init_world_dirs Windows um (dirsW dirs) in
  let wl := init_world_dirs Linux um (dirsL dirs) in
  agree_except (flags wl cls) (map okres (snd (wrun ww cws))) (map okres (snd (wrun wl cls)))
  /\ iso_view (fst (wrun ww cws)) 0 = iso_view (fst (wrun wl cls)) 0.
Proof.
  intros Hd Hc ww wl.
  destruct (@run_sim DRIVE_C DRIVE_C_letter 0 cws cls ww wl Hc (init_rel um Hd)) as [Hw Hag].
  split; [exact Hag|apply iso_view_rel, Hw].
Qed.
