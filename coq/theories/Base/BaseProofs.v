(* Facts about the association lists of Base.v. *)
From Avfs Require Import Base.
Set Implicit Arguments.

Section AssocFacts.
  Variables (K V : Type) (eqb : K -> K -> bool).
  Hypothesis eqb_spec : forall a b, reflect (a = b) (eqb a b).

  Lemma eqb_refl_ k : eqb k k = true.
  Proof. destruct (eqb_spec k k); congruence. Qed.

  Lemma eqb_neq_ a b : a <> b -> eqb a b = false.
  Proof. destruct (eqb_spec a b); congruence. Qed.

  Lemma alookup_aset_same k (v : V) m : alookup eqb k (aset eqb k v m) = Some v.
  Proof.
    induction m as [|[k' v'] m IH]; cbn [aset alookup].
    - now rewrite eqb_refl_.
    - destruct (eqb_spec k k') as [->|Hne]; cbn [alookup].
      + now rewrite eqb_refl_.
      + now rewrite (eqb_neq_ Hne).
  Qed.

  Lemma alookup_aset_other k k' (v : V) m :
    k <> k' -> alookup eqb k' (aset eqb k v m) = alookup eqb k' m.
  Proof.
    intros Hne. induction m as [|[k2 v2] m IH]; cbn [aset alookup].
    - rewrite eqb_neq_; auto.
    - destruct (eqb_spec k k2) as [->|Hne2]; cbn [alookup].
      + rewrite !(eqb_neq_ (a:=k') (b:=k2)); auto.
      + destruct (eqb_spec k' k2); auto.
  Qed.

  Lemma alookup_aremove_same k (m : list (K * V)) : alookup eqb k (aremove eqb k m) = None.
  Proof.
    induction m as [|[k' v'] m IH]; cbn [aremove alookup]; auto.
    destruct (eqb_spec k k') as [->|Hne]; cbn [alookup]; auto.
    now rewrite (eqb_neq_ Hne).
  Qed.

  Lemma alookup_aremove_other k k' (m : list (K * V)) :
    k <> k' -> alookup eqb k' (aremove eqb k m) = alookup eqb k' m.
  Proof.
    intros Hne. induction m as [|[k2 v2] m IH]; cbn [aremove alookup]; auto.
    destruct (eqb_spec k k2) as [->|Hne2]; cbn [alookup].
    - rewrite (eqb_neq_ (a:=k') (b:=k2)); auto.
    - destruct (eqb_spec k' k2); auto.
  Qed.
End AssocFacts.

Lemma Zeqb_spec a b : reflect (a = b) (Z.eqb a b).
Proof. apply Z.eqb_spec. Qed.

Section FindFacts.
  Variables (A : Type).

  Lemma find_app (f : A -> bool) l1 l2 :
    find f (l1 ++ l2) = match find f l1 with Some x => Some x | None => find f l2 end.
  Proof. induction l1 as [|x l1 IH]; cbn [app find]; auto. destruct (f x); auto. Qed.

  Lemma find_none_iff (f : A -> bool) l : find f l = None <-> forall x, In x l -> f x = false.
  Proof.
    split.
    - apply find_none.
    - induction l as [|x l IH]; cbn [find]; auto. intros H.
      rewrite (H x (or_introl eq_refl)). apply IH. intros y Hy. apply H. now right.
  Qed.

  (* find after filtering by a predicate the sought element satisfies / fails *)
  Lemma find_filter_compat (f p : A -> bool) l :
    (forall x, In x l -> f x = true -> p x = true) -> find f (filter p l) = find f l.
  Proof.
    induction l as [|x l IH]; cbn [filter find]; auto. intros H.
    destruct (p x) eqn:Hp; cbn [find].
    - destruct (f x); auto. apply IH. intros y Hy. apply H. now right.
    - destruct (f x) eqn:Hf.
      + rewrite (H x (or_introl eq_refl) Hf) in Hp. discriminate.
      + apply IH. intros y Hy. apply H. now right.
  Qed.

  Lemma find_filter_none (f p : A -> bool) l :
    (forall x, In x l -> f x = true -> p x = false) -> find f (filter p l) = None.
  Proof.
    intros H. apply find_none_iff. intros x Hx. apply filter_In in Hx as [Hx Hp].
    destruct (f x) eqn:Hf; auto. rewrite (H x Hx Hf) in Hp. discriminate.
  Qed.
End FindFacts.
