(* Base definitions shared by every model: byte strings, association lists,
   outcomes.  Standard library only; everything here is computable and
   extracts with ExtrOcamlBasic. *)
From Coq Require Export List Bool Arith ZArith NArith Lia.
Export ListNotations.
Set Implicit Arguments.

(* A Go string is a sequence of bytes; one N per byte. *)
Definition str := list N.

Fixpoint str_eqb (a b : str) : bool :=
  match a, b with
  | [], [] => true
  | x :: a', y :: b' => N.eqb x y && str_eqb a' b'
  | _, _ => false
  end.

Lemma str_eqb_spec a b : reflect (a = b) (str_eqb a b).
Proof.
  revert b; induction a as [|x a IH]; intros [|y b]; cbn [str_eqb];
    try (constructor; congruence).
  destruct (N.eqb_spec x y) as [->|Hne]; cbn [andb].
  - destruct (IH b) as [->|Hne]; constructor; congruence.
  - constructor; congruence.
Qed.

Lemma str_eqb_eq a b : str_eqb a b = true <-> a = b.
Proof. destruct (str_eqb_spec a b); split; congruence. Qed.

Lemma str_eqb_refl a : str_eqb a a = true.
Proof. apply str_eqb_eq; reflexivity. Qed.

Lemma str_eqb_neq a b : str_eqb a b = false <-> a <> b.
Proof. destruct (str_eqb_spec a b); split; congruence. Qed.

(* Bytewise lexicographic order (Go's < on strings). *)
Fixpoint str_ltb (a b : str) : bool :=
  match a, b with
  | [], [] => false
  | [], _ :: _ => true
  | _ :: _, [] => false
  | x :: a', y :: b' => if N.ltb x y then true else if N.eqb x y then str_ltb a' b' else false
  end.

Definition str_leb (a b : str) : bool := negb (str_ltb b a).

(* Association lists used as Go maps.  [K] has a boolean equality. *)
Section Assoc.
  Variables (K V : Type) (eqb : K -> K -> bool).

  Fixpoint alookup (k : K) (m : list (K * V)) : option V :=
    match m with
    | [] => None
    | (k', v) :: m' => if eqb k k' then Some v else alookup k m'
    end.

  Fixpoint aremove (k : K) (m : list (K * V)) : list (K * V) :=
    match m with
    | [] => []
    | (k', v) :: m' => if eqb k k' then aremove k m' else (k', v) :: aremove k m'
    end.

  (* m[k] = v : replaces an existing binding in place, else appends. *)
  Fixpoint aset (k : K) (v : V) (m : list (K * V)) : list (K * V) :=
    match m with
    | [] => [(k, v)]
    | (k', v') :: m' => if eqb k k' then (k, v) :: m' else (k', v') :: aset k v m'
    end.

  Definition amem (k : K) (m : list (K * V)) : bool :=
    match alookup k m with Some _ => true | None => false end.
End Assoc.

Definition opt_eqb {A} (eqb : A -> A -> bool) (a b : option A) : bool :=
  match a, b with
  | Some x, Some y => eqb x y
  | None, None => true
  | _, _ => false
  end.

Fixpoint list_eqb {A} (eqb : A -> A -> bool) (a b : list A) : bool :=
  match a, b with
  | [], [] => true
  | x :: a', y :: b' => eqb x y && list_eqb eqb a' b'
  | _, _ => false
  end.
