(* Property C03 - permission and ownership enforcement equals Linux discretionary access control.
   Statements only. (The refinement theorems implementation model = specification for non-administrator
   users are added as they close; see DESIGN 5 C03.) *)
From Avfs Require Import Base PathModel MemFS MemFile World DacLemmas.

(* every object created belongs to the calling user and has mode perm &^ umask; its group is the calling user's
   group, or - in a set-group-ID directory (meta data [pm]) - the group of that directory, as inode_init_owner *)
Theorem C03_owner : forall v pm tb perm,
  m_uid (new_meta v pm tb perm) = us_uid (v_user v)
  /\ m_gid (new_meta v pm tb perm) = (if has (m_mode pm) MODE_SETGID then m_gid pm else us_gid (v_user v))
  /\ m_mode (new_meta v pm tb perm) = N.lor tb (N.ldiff (N.land perm FILE_MODE_MASK) (v_umask v)).
Proof. exact new_meta_owner. Qed.

(* the administrator is never refused by a permission check *)
Theorem C03_admin : forall m p u, us_admin u = true -> check_permission m p u = true /\ set_mode_ok m u = true.
Proof. intros m p u H. split; [apply check_permission_admin | apply set_mode_ok_admin]; exact H. Qed.

(* owner / group / other class selection is exclusive *)
Theorem C03_class_owner : forall m p u, us_admin u = false -> m_uid m = us_uid u ->
  check_permission m p u = N.eqb (N.land (N.shiftr (N.land (m_mode m) 65535) 6) (N.land p 7)) (N.land p 7).
Proof. exact check_permission_owner. Qed.
Theorem C03_class_group : forall m p u, us_admin u = false -> m_uid m <> us_uid u -> m_gid m = us_gid u ->
  check_permission m p u = N.eqb (N.land (N.shiftr (N.land (m_mode m) 65535) 3) (N.land p 7)) (N.land p 7).
Proof. exact check_permission_group. Qed.
Theorem C03_class_other : forall m p u, us_admin u = false -> m_uid m <> us_uid u -> m_gid m <> us_gid u ->
  check_permission m p u = N.eqb (N.land (N.land (m_mode m) 65535) (N.land p 7)) (N.land p 7).
Proof. exact check_permission_other. Qed.

(* non-vacuity: the owner of a 0o640 file may read and write, a group member only read, others nothing *)
Example C03_class_example :
  let m := {| m_mode := 416; m_uid := 1000; m_gid := 1000 |} in
  let owner := {| us_uid := 1000; us_gid := 1000; us_admin := false |} in
  let member := {| us_uid := 1001; us_gid := 1000; us_admin := false |} in
  let other := {| us_uid := 1002; us_gid := 1002; us_admin := false |} in
  (check_permission m 6 owner, check_permission m 4 member, check_permission m 2 member, check_permission m 4 other)
  = (true, true, false, false).
Proof. vm_compute. reflexivity. Qed.
