(* Property C13, Windows flavour of the model (os = Windows): Clean, Join,
   Split, Dir, Base for ALL byte strings (no bound, no axiom).  Statements only;
   proofs in Path/PathCleanGen.v (the loop invariant of Clean for both OS types)
   and Path/PathWinMore.v.

   Vocabulary:
     compsO os p     the components of p, cut at every byte with is_sep os (both '/' and '\' on Windows)
     ncompsO os p    Pike's rules (PathSpec.norm) on them; rooted iff p starts with a separator
     renderO os r l  the path of a component list, with sepc os ('\'), "." for an empty relative list
     win_body p      = renderO Windows r (ncompsO Windows p)
     clean_core os p the lazy buffer Clean leaves after its loop on the volume-less path p
     win_pre v b     what Go's post-pass prepends ("", ".\" or "\."), read off that buffer
     initwO/lastwO   a string cut after its last separator;  glue b e: how joinWindows appends e to b *)
From Avfs Require Import Base PathModel PathSpec PathProofs PathCleanProofs PathWinProofs PathCleanGen PathWinMore PathRelWin.

(* ---- the loop of Clean, both OS types ----------------------------------------- *)
(* after the loop (and the "." for an empty result) the lazy buffer holds exactly Pike's rules on the
   components, rendered with the OS separator; R also says: bytes written <= length of the path *)
Theorem C13_clean_core_spec : forall os c0 p',
  RO (c0 :: p') (clean_core os (c0 :: p')) (renderO os (is_sep os c0) (ncompsO os (c0 :: p'))).
Proof. exact clean_core_spec. Qed.

(* the cleaned components: k times ".." (k = 0 when rooted) then proper names (non-empty, free of both
   separators, neither "." nor "..") *)
Theorem C13_ncomps_shape : forall os path,
  exists k names, ncompsO os path = LO k names /\ Forall (goodO os) names
                  /\ (is_sep os (nthb path 0) = true -> k = 0).
Proof. exact ncompsO_shape. Qed.

(* ---- Clean, Windows ----------------------------------------------------------------- *)
(* (1) Clean = FromSlash(volume) ++ post-pass prefix ++ Pike's rules on the remainder *)
Theorem C13_clean_windows_spec : forall orig,
  let v := volume_name_len Windows orig in
  let path := skipn v orig in
  path <> [] ->
  clean Windows orig = from_slash Windows (firstn v orig) ++ win_pre v (clean_core Windows path) ++ win_body path.
Proof. exact clean_windows_spec. Qed.

Theorem C13_clean_windows_vol : forall orig,
  let v := volume_name_len Windows orig in
  v <> 0 -> skipn v orig <> [] ->
  clean Windows orig = from_slash Windows (firstn v orig) ++ win_body (skipn v orig).
Proof. exact clean_windows_vol. Qed.

Theorem C13_win_pre_cases : forall v b,
  win_pre v b = [] \/ win_pre v b = [DOT; BSLASH] \/ win_pre v b = [BSLASH; DOT].
Proof. exact win_pre_cases. Qed.

(* the buffer = the result, then stale bytes; no buffer = the result is a prefix of the input *)
Theorem C13_clean_core_buf : forall c0 p' buf,
  lb_buf (clean_core Windows (c0 :: p')) = Some buf ->
  exists tail, buf = win_body (c0 :: p') ++ tail /\ length buf = length (c0 :: p').
Proof. exact clean_core_buf. Qed.

Theorem C13_clean_core_lazy : forall c0 p',
  lb_buf (clean_core Windows (c0 :: p')) = None ->
  win_body (c0 :: p') = firstn (length (win_body (c0 :: p'))) (c0 :: p').
Proof. exact clean_core_lazy. Qed.

(* the post-pass on a rooted result: never ".\"; "\." iff (no volume, a buffer, and it reads \??) - decided
   by the result itself when it has at least three bytes *)
Theorem C13_win_pre_rooted : forall v c0 p',
  is_sep Windows c0 = true ->
  win_pre v (clean_core Windows (c0 :: p')) <> [DOT; BSLASH] /\
  (3 <= length (win_body (c0 :: p')) ->
   win_pre v (clean_core Windows (c0 :: p')) =
   if negb (Nat.eqb v 0) then []
   else match lb_buf (clean_core Windows (c0 :: p')) with
        | None => []
        | Some _ => if N.eqb (nthb (win_body (c0 :: p')) 1) QMARK && N.eqb (nthb (win_body (c0 :: p')) 2) QMARK
                    then [BSLASH; DOT] else []
        end).
Proof. exact win_pre_rooted. Qed.

(* ... on a relative result: never "\."; ".\" iff (no volume, a buffer, and a ':' before the first
   separator) - decided by the result itself when it contains a separator or a ':'.  PARTIAL: for a
   relative result of one element without ':' (and a rooted one shorter than three bytes) the prefix
   depends on the stale bytes of the buffer, which are not characterised (C13_clean_windows_stale) *)
Theorem C13_win_pre_relative_partial : forall v c0 p' x,
  is_sep Windows c0 = false ->
  win_pre v (clean_core Windows (c0 :: p')) <> [BSLASH; DOT] /\
  (decided (win_body (c0 :: p')) = Some x ->
   win_pre v (clean_core Windows (c0 :: p')) =
   if negb (Nat.eqb v 0) then []
   else match lb_buf (clean_core Windows (c0 :: p')) with
        | None => []
        | Some _ => if x then [DOT; BSLASH] else []
        end).
Proof. exact win_pre_relative. Qed.

Example C13_clean_windows_stale :
  clean Windows [46;47;120;97;58;47;46;46;47;98]%N = [46;92;98]%N
  /\ clean Windows [46;92;98]%N = [98]%N
  /\ clean Windows [92;46;92;58]%N = [92;58]%N /\ clean Windows [92;58]%N = [92;58;46]%N.
Proof. exact clean_windows_stale. Qed.

Example C13_clean_windows_examples :
  clean Windows [97;47;46;46;47;99;58]%N = [46;92;99;58]%N
  /\ clean Windows [67;58;47;97;47;46;46;47;98;47]%N = [67;58;92;98]%N
  /\ clean Windows [92;97;92;46;46;92;63;63;92;99]%N = [92;46;92;63;63;92;99]%N
  /\ clean Windows [47;47;104;47;115;47;120;47;46;46]%N = [92;92;104;92;115;92]%N.
Proof. exact clean_windows_examples. Qed.

(* (2) idempotence.  A cleaned body is a fixed point of the component machine ... *)
Theorem C13_win_body_idem : forall path, win_body (win_body path) = win_body path.
Proof. exact win_body_idem. Qed.

(* ... so Clean is idempotent whenever the result is seen with the same volume length - PARTIAL: that
   hypothesis is discharged for drive designators only (next theorem); missing: the volume detection is
   stable under FromSlash of the volume and replacement of the remainder (UNC and device volumes).
   Without volume Clean is NOT idempotent in general (C13_clean_windows_stale, Go's own behaviour). *)
Theorem C13_clean_windows_idempotent_partial : forall p,
  let v := volume_name_len Windows p in
  v <> 0 -> skipn v p <> [] -> volume_name_len Windows (clean Windows p) = v ->
  clean Windows (clean Windows p) = clean Windows p.
Proof. exact clean_windows_idempotent_partial. Qed.

Theorem C13_clean_windows_idempotent_drive : forall c rest,
  c <> SLASH -> clean Windows (clean Windows (c :: COLON :: rest)) = clean Windows (c :: COLON :: rest).
Proof. exact clean_windows_idempotent_drive. Qed.

Example C13_clean_windows_idempotent_example :
  clean Windows [67;58;47;97;47;46;46;47;98;47]%N = [67;58;92;98]%N
  /\ clean Windows [67;58;92;98]%N = [67;58;92;98]%N.
Proof. exact clean_windows_idempotent_example. Qed.

(* ---- (3) Join, Windows ------------------------------------------------------------------ *)
(* empty leading elements are skipped; the first non-empty element is taken as it is; every further
   element e (empty ones included) is glued to the builder b:
     b ends with a separator: e without its leading separators (so no UNC path arises from non-UNC
                              elements), with ".\" in between when b is a single separator and e is "??" or
                              starts with "??" + separator;
     b ends with ':'        : e, no separator (Join("C:", "a") = "C:a");
     otherwise              : '\' then e;
   and the result is cleaned.  These are all the special cases the model (and joinWindows) has. *)
Theorem C13_join_windows_fold : forall elems,
  join Windows elems = match drop_empty_prefix elems with
                       | [] => []
                       | x :: rest => clean Windows (fold_left glue rest x)
                       end.
Proof. exact join_windows_fold. Qed.

Theorem C13_join_windows_plain : forall x rest,
  plain_elem x -> Forall plain_elem rest ->
  join Windows (x :: rest) = clean Windows (intercalate [BSLASH] (x :: rest)).
Proof. exact join_windows_plain. Qed.

Example C13_join_windows_examples :
  join Windows [[67;58]; [97]]%N = [67;58;97]%N
  /\ join Windows [[67;58;92]; [92;97]]%N = [67;58;92;97]%N
  /\ join Windows [[92]; [63;63]; [120]]%N = [92;46;92;63;63;92;120]%N
  /\ join Windows [[92;92;104]; [115]; [46;46]; [120]]%N = [92;92;104;92;115;92;120]%N
  /\ join Windows [[97]; []; [98]]%N = [97;92;98]%N.
Proof. exact join_windows_examples. Qed.

(* ---- (4) Split / Dir / Base, Windows ------------------------------------------------------ *)
Theorem C13_split_windows : forall p,
  let v := volume_name_len Windows p in
  split Windows p = (firstn v p ++ initwO Windows (skipn v p), lastwO Windows (skipn v p)).
Proof. exact split_windows. Qed.

Theorem C13_split_windows_volume : forall p,
  firstn (volume_name_len Windows p) (fst (split Windows p)) = firstn (volume_name_len Windows p) p.
Proof. exact split_windows_volume. Qed.

Theorem C13_dir_windows : forall p,
  let v := volume_name_len Windows p in
  let d := clean Windows (initwO Windows (skipn v p)) in
  dir Windows p = if str_eqb d [DOT] && Nat.ltb 2 v then volume_name Windows p else volume_name Windows p ++ d.
Proof. exact dir_windows. Qed.

Theorem C13_base_windows : forall p,
  base Windows p =
  match p with
  | [] => [DOT]
  | _ => let p1 := rev (strip_trailing_seps Windows (rev p)) in
         let p2 := skipn (volume_name_len Windows p1) p1 in
         match lastwO Windows p2 with [] => [BSLASH] | w => w end
  end.
Proof. exact base_windows. Qed.

(* the part after the last separator = the last component *)
Theorem C13_lastw_comps : forall os p, lastwO os p = last (compsO os p) [].
Proof. exact lastw_compsO. Qed.

Example C13_split_dir_base_windows_examples :
  split Windows [67;58;92;97;92;98]%N = ([67;58;92;97;92]%N, [98]%N)
  /\ dir Windows [67;58;47;97;47;98;47]%N = [67;58;92;97;92;98]%N
  /\ base Windows [67;58;92;97;92;98;92]%N = [98]%N
  /\ dir Windows [92;92;104;92;115;92;120]%N = [92;92;104;92;115;92]%N
  /\ base Windows [92;92;104;92;115;92;120]%N = [120]%N
  /\ dir Windows [92;92;104;92;115]%N = [92;92;104;92;115]%N
  /\ base Windows [67;58]%N = [92]%N /\ dir Windows [67;58]%N = [67;58;46]%N.
Proof. exact split_dir_base_windows_examples. Qed.

(* ---- (5) Rel: when the element loop does not end -------------------------------------------- *)
(* both OS types, arbitrary strings: the fuel S (S (len base + len targ)) of the model runs out exactly
   when the two strings "meet": they agree element by element (sameWord; EqualFold on Windows) until
   BOTH are exhausted, an exhausted string counting as empty elements *)
Theorem C13_rel_loop_none_iff : forall os base targ,
  rel_loop os base targ (S (S (length base + length targ))) 0 0 0 0 = None <-> meet os base targ.
Proof. exact rel_loop_none_iff. Qed.

(* the Windows Rel does not return (RelLoop) on exactly these inputs - PARTIAL for Rel as a whole: the
   value of Rel on the other inputs (soundness w.r.t. Join) is not proved for Windows.  rel_base_w /
   rel_targ_w are Clean(base) / Clean(targ) without their volumes, the base "." read as "" and an empty
   base with a UNC or device volume as "\" (known finding C13-rel-unc-root-loop, as Go's filepath.Rel) *)
Theorem C13_rel_windows_loop_iff : forall b t,
  rel Windows b t = RelLoop <->
  same_word Windows (clean Windows t) (clean Windows b) = false
  /\ slashed_w (rel_base_w b) = slashed_w (rel_targ_w t)
  /\ same_word Windows (volume_name Windows b) (volume_name Windows t) = true
  /\ meet Windows (rel_base_w b) (rel_targ_w t).
Proof. exact rel_windows_loop_iff. Qed.

Example C13_rel_windows_loop_example :
  rel Windows [92;92;97;92;98]%N [92;92;97;92;98;92]%N = RelLoop
  /\ meet Windows (rel_base_w [92;92;97;92;98]%N) (rel_targ_w [92;92;97;92;98;92]%N)
  /\ rel Windows [67;58;92;97;92;98]%N [67;58;92;65;92;99]%N = RelOk [46;46;92;99]%N.
Proof. exact rel_windows_loop_example. Qed.
