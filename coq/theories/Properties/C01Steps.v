(* Property C01 - the step theorem, call by call, and histories (the refinement fragment proved so far).
   Statements only; proofs in Fs/StepEq.v on top of the walk bridge (Fs/WalkBridge.v, Fs/WalkSym.v).

   Setting: Linux emulation, the administrator ([step_hyps]: v_os = Linux, us_admin, the heap hypotheses of the
   walk bridge - single parent for directories and acyclicity [walk_wf], cleaned link targets [links_clean],
   the view root is a directory); calls on clean absolute paths "/c1/.../cn" of proper names whose walk is in the
   covered domain ([path_ok]: at most 40 links, no model-fuel exhaustion); outside the listed deviation classes,
   which appear as explicit premises:
     (set-group-id inheritance - group of the directory, and the bit for a new directory - was such a premise,
      [no_setgid_parent], until createDir/createFile/createSymlink were repaired; Mkdir, Symlink, OpenFile,
      WriteFile, MkdirAll now hold for set-group-id parents too)
     - Link refusing symbolic links    [not_symlink]        (Link)  and  [sym_single] (Remove of a multiply named link)
     - operations on the root / "." ".." last elements: the path ends in a proper name [w ++ [cl]]
     - a Symlink target is given cleaned ([t = clean Linux t]).
   Compared: the projected result ([proj_res]) and the whole resulting file system (heap, id counter).
   [stat_sim] / [obs_sim]: equality, except that the specification reports 0 for the size of a directory (in a
   FileInfo, and in every entry of a directory listing). *)
From Avfs Require Import Base PathModel PathSpec PathProofs PathCleanProofs PathIterProofs.
From Coq Require Import Permutation.
From Avfs Require Import MemFS MemFile World Posix Inv WalkBridge WalkSym WalkBudget WalkReadlink WalkRel StepEq WalkInv StepInv
  HeapEq HeapEqSnap StepRename StepRenameDir StepHist StepCwd StepMkdirAll StepHistM StepRemoveAll StepRemoveAllEx StepOpen StepHistO StepNamePath StepCwdCreate StepRemoveAllExact StepNamePath2 StepMkdirAllRel StepCwdMut DirExt.

Theorem C01_step_stat : forall (s : fsys) (sv : sview) (cs : list str),
  step_hyps s sv -> path_ok s sv SlStat cs ->
  stat_sim (proj_res Linux (stat_gen SlStat s (sv_view sv) (abs_path cs))) (k_stat true s sv (abs_path cs)).
Proof. intros s sv cs. exact (step_stat s sv SlStat cs). Qed.

Theorem C01_step_lstat : forall (s : fsys) (sv : sview) (cs : list str),
  step_hyps s sv -> path_ok s sv SlLstat cs ->
  stat_sim (proj_res Linux (stat_gen SlLstat s (sv_view sv) (abs_path cs))) (k_stat false s sv (abs_path cs)).
Proof. intros s sv cs. exact (step_stat s sv SlLstat cs). Qed.

Theorem C01_step_readlink : forall (s : fsys) (sv : sview) (cs : list str),
  step_hyps s sv -> path_ok s sv SlLstat cs ->
  proj_res Linux (readlink s (sv_view sv) (abs_path cs)) = k_readlink s sv (abs_path cs).
Proof. exact step_readlink. Qed.

Theorem C01_step_chtimes : forall (s : fsys) (sv : sview) (cs : list str),
  step_hyps s sv -> path_ok s sv SlEval cs ->
  proj_res Linux (chtimes s (sv_view sv) (abs_path cs)) = k_utimes s sv (abs_path cs).
Proof. exact step_chtimes. Qed.

Theorem C01_step_chmod : forall (s : fsys) (sv : sview) (cs : list str) (mode : N),
  step_hyps s sv -> path_ok s sv SlEval cs ->
  (fst (chmod s (sv_view sv) (abs_path cs) mode), proj_res Linux (snd (chmod s (sv_view sv) (abs_path cs) mode)))
  = k_chmod s sv (abs_path cs) mode.
Proof. exact step_chmod. Qed.

Theorem C01_step_truncate : forall (s : fsys) (sv : sview) (cs : list str) (size : Z),
  step_hyps s sv -> path_ok s sv SlEval cs ->
  (fst (truncate s (sv_view sv) (abs_path cs) size), proj_res Linux (snd (truncate s (sv_view sv) (abs_path cs) size)))
  = k_truncate s sv (abs_path cs) size.
Proof. exact step_truncate. Qed.

Theorem C01_step_mkdir : forall (s : fsys) (sv : sview) (w : list str) (cl : str) (perm : N),
  step_hyps s sv -> path_ok s sv SlLstat (w ++ [cl]) ->
  let p := abs_path (w ++ [cl]) in
  (fst (mkdir s (sv_view sv) p perm), proj_res Linux (snd (mkdir s (sv_view sv) p perm))) = k_mkdir s sv p perm.
Proof. exact step_mkdir. Qed.

Theorem C01_step_symlink : forall (s : fsys) (sv : sview) (w : list str) (cl : str) (t : str),
  step_hyps s sv -> path_ok s sv SlLstat (w ++ [cl]) ->
  let p := abs_path (w ++ [cl]) in
  (fst (symlink s (sv_view sv) t p), proj_res Linux (snd (symlink s (sv_view sv) t p)))
  = k_symlink s sv (clean Linux t) p.
Proof. exact step_symlink. Qed.

Theorem C01_step_remove : forall (s : fsys) (sv : sview) (w : list str) (cl : str),
  step_hyps s sv -> path_ok s sv SlLstat (w ++ [cl]) -> sym_single (f_heap s) ->
  let p := abs_path (w ++ [cl]) in
  (fst (remove s (sv_view sv) p), proj_res Linux (snd (remove s (sv_view sv) p))) = go_remove s sv p.
Proof. exact step_remove. Qed.

Theorem C01_step_link : forall (s : fsys) (sv : sview) (co w : list str) (cl : str),
  step_hyps s sv -> path_ok s sv SlLstat co -> path_ok s sv SlLstat (w ++ [cl]) -> not_symlink s sv co ->
  let o := abs_path co in
  let p := abs_path (w ++ [cl]) in
  (fst (link s (sv_view sv) o p), proj_res Linux (snd (link s (sv_view sv) o p))) = k_link true s sv o p.
Proof. exact step_link. Qed.

Theorem C01_step_chown : forall (s : fsys) (sv : sview) (slm : slmode) (cs : list str) (uid gid : Z),
  step_hyps s sv -> path_ok s sv slm cs ->
  (fst (chown_gen slm s (sv_view sv) (abs_path cs) uid gid),
   proj_res Linux (snd (chown_gen slm s (sv_view sv) (abs_path cs) uid gid)))
  = k_chown (follow_of slm) s sv (abs_path cs) uid gid.
Proof. exact step_chown. Qed.

(* Chdir: both succeed or both fail with the same errno (the new working directory is kept as a string by the
   implementation, as a node by the specification) *)
Theorem C01_step_chdir : forall (s : fsys) (sv : sview) (cs : list str),
  step_hyps s sv -> path_ok s sv SlEval cs ->
  match chdir s (sv_view sv) (abs_path cs), k_chdir s sv (abs_path cs) with
  | inl r, inl e => proj_res Linux r = SErr e
  | inr _, inr _ => True
  | _, _ => False
  end.
Proof. exact step_chdir. Qed.

(* ReadFile and ReadDir: OpenFile(O_RDONLY) followed by the handle methods, against open(2) + read / getdents *)
Theorem C01_step_read_file : forall (s : fsys) (sv : sview) (cs : list str),
  step_hyps s sv -> path_ok s sv SlEval cs ->
  proj_res Linux (read_file s (sv_view sv) (abs_path cs)) = go_read_file s sv (abs_path cs).
Proof. exact step_read_file. Qed.

Theorem C01_step_read_dir : forall (s : fsys) (sv : sview) (cs : list str),
  step_hyps s sv -> path_ok s sv SlEval cs -> ptr_valid (f_heap s) ->
  obs_sim (proj_res Linux (read_dir s (sv_view sv) (abs_path cs))) (go_read_dir s sv (abs_path cs)).
Proof. exact step_read_dir. Qed.

(* Rename of a file or symbolic link to a name that does not exist yet (any directories, any links on the way) *)
Theorem C01_step_rename_new :
  forall (s : fsys) (sv : sview) (wo : list str) (clo : str) (wn : list str) (cln : str) (np : nat) (md : bool),
  step_hyps s sv -> path_ok s sv SlLstat (wo ++ [clo]) -> path_ok s sv SlLstat (wn ++ [cln]) ->
  source_not_dir s sv (wo ++ [clo]) ->
  klookup s sv false false (abs_path (wn ++ [cln])) = WNeg np cln md ->
  let o := abs_path (wo ++ [clo]) in
  let n := abs_path (wn ++ [cln]) in
  (fst (rename s (sv_view sv) o n), proj_res Linux (snd (rename s (sv_view sv) o n))) = go_rename s sv o n.
Proof. exact step_rename_new. Qed.

(* WriteFile: OpenFile(O_WRONLY|O_CREATE|O_TRUNC), Write, Close - against open(2) with the same flags + write *)
Theorem C01_step_write_file : forall (s : fsys) (sv : sview) (w : list str) (cl : str) (data : list N) (perm : N),
  step_hyps s sv -> path_ok s sv SlLstat (w ++ [cl]) -> path_ok s sv SlEval (w ++ [cl]) ->
  (fst (write_file s (sv_view sv) (abs_path (w ++ [cl])) data perm),
   proj_res Linux (snd (write_file s (sv_view sv) (abs_path (w ++ [cl])) data perm)))
  = go_write_file s sv (abs_path (w ++ [cl])) data perm.
Proof. exact step_write_file. Qed.

(* OpenFile as a call of its own, for the flag sets O_RDONLY and O_WRONLY|O_CREATE|O_TRUNC: same resulting file
   system; same errno, or the handle is on the node open(2) returns *)
Theorem C01_step_open_rdonly : forall (s : fsys) (sv : sview) (vi : nat) (cs : list str) (perm : N),
  step_hyps s sv -> path_ok s sv SlEval cs ->
  open_sim (open_file s (sv_view sv) vi (abs_path cs) 0 perm) (k_open s sv (abs_path cs) 0 perm).
Proof. exact step_open_rdonly. Qed.

Theorem C01_step_open_create_trunc : forall (s : fsys) (sv : sview) (vi : nat) (w : list str) (cl : str) (perm : N),
  step_hyps s sv -> path_ok s sv SlLstat (w ++ [cl]) -> path_ok s sv SlEval (w ++ [cl]) ->
  open_sim (open_file s (sv_view sv) vi (abs_path (w ++ [cl])) WCT perm) (k_open s sv (abs_path (w ++ [cl])) WCT perm).
Proof. exact step_open_wct. Qed.

(* Stat/Lstat, Readlink, Chtimes, Chmod, Truncate, Chdir for ANY path on which the two walks are related ([resolved]):
   clean absolute paths ([resolved_abs]) and clean RELATIVE paths, given that the working-directory string is a
   directory walk to the kernel's working-directory node ([C01_resolved_rel], from C04_resolve_rel) *)
Theorem C01_resolved_rel : forall (s : fsys) (sv : sview) (slm : slmode) (bs : list str) (x : str),
  step_hyps s sv ->
  v_cwd (sv_view sv) = abs_path bs -> Forall good_comp bs ->
  dwalk (f_heap s) (v_user (sv_view sv)) (v_root (sv_view sv)) bs = Some (sv_cwd sv) ->
  is_abs Linux (clean Linux x) = false ->
  klookup s sv false (follow_of slm) (clean Linux x) <> WErr EFUEL ->
  sr_err (search_node s (sv_view sv) (clean Linux x) slm) <> EFuel ->
  resolved s sv slm (clean Linux x).
Proof. exact resolved_rel. Qed.

Theorem C01_steps_resolved : forall (s : fsys) (sv : sview) (p : str),
  step_hyps s sv ->
  (forall slm, resolved s sv slm p ->
     stat_sim (proj_res Linux (stat_gen slm s (sv_view sv) p)) (k_stat (follow_of slm) s sv p))
  /\ (resolved s sv SlLstat p -> proj_res Linux (readlink s (sv_view sv) p) = k_readlink s sv p)
  /\ (resolved s sv SlEval p -> proj_res Linux (chtimes s (sv_view sv) p) = k_utimes s sv p)
  /\ (forall mode, resolved s sv SlEval p ->
        (fst (chmod s (sv_view sv) p mode), proj_res Linux (snd (chmod s (sv_view sv) p mode))) = k_chmod s sv p mode)
  /\ (forall size, resolved s sv SlEval p ->
        (fst (truncate s (sv_view sv) p size), proj_res Linux (snd (truncate s (sv_view sv) p size)))
        = k_truncate s sv p size)
  /\ (resolved s sv SlEval p ->
        match chdir s (sv_view sv) p, k_chdir s sv p with
        | inl r, inl e => proj_res Linux r = SErr e
        | inr _, inr _ => True
        | _, _ => False
        end).
Proof. exact steps_resolved. Qed.

(* the hypotheses of a step on the states of C05: [Inv] gives everything except [links_clean] and the administrator *)
Theorem C01_inv_step_hyps : forall (w : world) (vi : nat) (v : view) (cwdn : nat),
  Inv w -> nth_error (w_views w) vi = Some v -> us_admin (v_user v) = true -> links_clean (f_heap (w_fs w)) ->
  step_hyps (w_fs w) {| sv_view := v; sv_cwd := cwdn |}.
Proof. exact Inv_step_hyps. Qed.

(* one step of the two step functions of the models (the statement the oracle stream's "T" column tests):
   covered call => same projected result, and the abstraction relation is kept (same file system, same view) *)
Theorem C01_step : forall (w : world) (vi : nat) (sw : sworld) (c : call),
  absw w vi sw -> covered vi sw c ->
  obs_sim (snd (impl_step_proj w c)) (snd (spec_step true sw c))
  /\ absw (fst (impl_step_proj w c)) vi (fst (spec_step true sw c)).
Proof. exact step_world. Qed.

(* every finite history of covered calls ([covered_run] is evaluated along the SPECIFICATION run): call by call
   the same results, and the same file system after the last call *)
Theorem C01_history : forall (vi : nat) (cs : list call) (w : world) (sw : sworld),
  absw w vi sw -> covered_run vi sw cs ->
  Forall2 obs_sim (snd (impl_run w cs)) (snd (spec_run sw cs))
  /\ absw (fst (impl_run w cs)) vi (fst (spec_run sw cs)).
Proof. exact history_world. Qed.

(* [links_ok] = named links have cleaned targets + a symbolic link has one name: kept by every covered call *)
Theorem C01_links_ok_step : forall (vi : nat) (sw : sworld) (c : call),
  covered vi sw c -> ptr_valid (f_heap (sw_fs sw)) -> links_ok (f_heap (sw_fs sw)) ->
  links_ok (f_heap (sw_fs (fst (spec_step true sw c)))) /\ sw_sv (fst (spec_step true sw c)) = sw_sv sw.
Proof. exact links_ok_spec_step. Qed.

(* THE HISTORY THEOREM ON THE STATES OF C05.  Start from any world satisfying the invariant [Inv] of C05 (every world
   reachable from the initial one does: C05_reach) whose links are [links_ok], seen by the administrator; let every
   call of the history be covered ([call_ok]: the per-call premises - clean absolute paths, the listed deviation
   classes, the two model-fuel conditions - which may themselves assume the hypotheses on the state).  Then, call by
   call, the implementation model and the specification give the same results, the file systems stay equal, and
   [Inv] and [links_ok] hold again at the end: no hypothesis on intermediate states is left. *)
Theorem C01_history_inv : forall (vi : nat) (cs : list call) (w : world) (sw : sworld),
  Inv w -> absw w vi sw -> us_admin (v_user (sv_view (sw_sv sw))) = true -> links_ok (f_heap (w_fs w)) ->
  call_ok_run vi sw cs ->
  Forall2 obs_sim (snd (impl_run w cs)) (snd (spec_run sw cs))
  /\ absw (fst (impl_run w cs)) vi (fst (spec_run sw cs))
  /\ Inv (fst (impl_run w cs)) /\ links_ok (f_heap (w_fs (fst (impl_run w cs)))).
Proof. exact history_inv. Qed.

(* non-vacuity: a world with every kind of link satisfies Inv (decided by inv_check) and links_ok, and the theorem
   applies to a history on it *)
Example C01_history_inv_example :
  Inv StepExamples.w_tree /\ links_ok (f_heap (w_fs StepExamples.w_tree))
  /\ Forall2 obs_sim (snd (impl_run StepExamples.w_tree StepExamples.hist))
                     (snd (spec_run StepExamples.sw_tree StepExamples.hist)).
Proof.
  split; [exact StepInvExamples.tree_inv|]. split; [exact StepInvExamples.tree_links_ok|].
  exact (proj1 StepInvExamples.hist_inv).
Qed.

(* ---- Rename over an existing destination: up to the ORDER of directory entries ------------------------------------------ *)
(* [heq]: the same nodes, the entries of a directory equal up to a permutation.  It is invisible: same snapshot, same walk *)
Theorem C01_heq_snapshot : forall (w w' : world) (vi : nat),
  heq (f_heap (w_fs w)) (f_heap (w_fs w')) -> w_views w = w_views w' ->
  (forall d, NoDup (map fst (children (f_heap (w_fs w)) d))) -> snapshot w' vi = snapshot w vi.
Proof. exact snapshot_heq. Qed.

Theorem C01_heq_search : forall (s s' : fsys) (v : view) (p : str) (slm : slmode),
  fsys_heq s s' -> names_nodup (f_heap s) -> search_node s' v p slm = search_node s v p slm.
Proof. exact search_node_heq. Qed.

(* a file or symbolic link renamed over an existing file or symbolic link (another node): the implementation replaces the
   entry in place, renameat2 removes it and appends the moved one *)
Theorem C01_step_rename_over :
  forall (s : fsys) (sv : sview) (wo : list str) (clo : str) (wn : list str) (cln : str) (np nc : nat),
  step_hyps s sv -> path_ok s sv SlLstat (wo ++ [clo]) -> path_ok s sv SlLstat (wn ++ [cln]) ->
  source_not_dir s sv (wo ++ [clo]) ->
  klookup s sv false false (abs_path (wn ++ [cln])) = WNode np LNorm cln nc -> dest_plain s nc ->
  (forall par k nm oc, klookup s sv false false (abs_path (wo ++ [clo])) = WNode par k nm oc -> oc <> nc) ->
  sym_single (f_heap s) -> NoDup (map fst (children (f_heap s) np)) ->
  let o := abs_path (wo ++ [clo]) in
  let n := abs_path (wn ++ [cln]) in
  fsys_heq (fst (rename s (sv_view sv) o n)) (fst (go_rename s sv o n))
  /\ proj_res Linux (snd (rename s (sv_view sv) o n)) = snd (go_rename s sv o n).
Proof. exact step_rename_over. Qed.

(* ---- Rename of a directory ---------------------------------------------------------------------------------------------- *)
(* the implementation's test on the resolved path STRINGS = the kernel's ancestor test on NODES, on the states of C05 *)
Theorem C01_ancestor_iff_prefix : forall (h : heap) (u : user) (root : nat),
  Inv_heap h -> node_is_dir h root = true -> kperm h root 1 u = true ->
  forall (P Q : list str) (oc np : nat),
  node_is_dir h oc = true -> dwalk h u root P = Some oc -> dwalk h u root Q = Some np ->
  (is_ancestor (S (length h)) h root oc np = true <-> exists R, Q = P ++ R).
Proof. exact ancestor_iff_prefix. Qed.

Theorem C01_step_rename_dir_new :
  forall (s : fsys) (sv : sview) (wo : list str) (clo : str) (wn : list str) (cln : str) (np : nat) (md : bool),
  step_hyps s sv -> Inv_heap (f_heap s) -> path_ok s sv SlLstat (wo ++ [clo]) -> path_ok s sv SlLstat (wn ++ [cln]) ->
  source_is_dir s sv (wo ++ [clo]) ->
  klookup s sv false false (abs_path (wn ++ [cln])) = WNeg np cln md ->
  let o := abs_path (wo ++ [clo]) in
  let n := abs_path (wn ++ [cln]) in
  (fst (rename s (sv_view sv) o n), proj_res Linux (snd (rename s (sv_view sv) o n))) = go_rename s sv o n.
Proof. exact step_rename_dir_new. Qed.

(* the history theorem with Rename of directories among the covered calls ([covered_x] = [covered] or that) *)
Theorem C01_history_inv_x : forall (vi : nat) (cs : list call) (w : world) (sw : sworld),
  Inv w -> absw w vi sw -> us_admin (v_user (sv_view (sw_sv sw))) = true -> links_ok (f_heap (w_fs w)) ->
  call_ok_run_x vi sw cs ->
  Forall2 obs_sim (snd (impl_run w cs)) (snd (spec_run sw cs))
  /\ absw (fst (impl_run w cs)) vi (fst (spec_run sw cs))
  /\ Inv (fst (impl_run w cs)) /\ links_ok (f_heap (w_fs (fst (impl_run w cs)))).
Proof. exact history_inv_x. Qed.

(* ---- the working directory: Chdir, Getwd, relative paths ----------------------------------------------------------------- *)
(* MemFS keeps the working directory as a path STRING, the kernel as a NODE.  [absc w vi sw d]: same file system; view [vi]
   of the world is the specification's view with working-directory string [d]; and [d] is a directory walk (link-free,
   searchable) from the root to the specification's working-directory node ([cwd_rel]). *)
Theorem C01_getwd : forall (h : heap) (u : user) (root : nat),
  Inv_heap h -> node_is_dir h root = true -> kperm h root 1 u = true ->
  forall (bs : list str) (cwdn : nat), Forall good_comp bs -> dwalk h u root bs = Some cwdn ->
  kperm h cwdn 1 u = true /\ is_ancestor (S (length h)) h root root cwdn = true
  /\ path_of (S (length h)) h root cwdn [] = abs_path bs.
Proof. exact getwd_agree. Qed.

Theorem C01_chdir_rel : forall (s : fsys) (sv : sview) (p : str),
  step_hyps s sv -> resolvedx s sv SlEval p ->
  match chdir s (sv_view sv) p, k_chdir s sv p with
  | inl r, inl e => proj_res Linux r = SErr e
  | inr d, inr c => exists bs, Forall good_comp bs /\ d = abs_path bs
                               /\ dwalk (f_heap s) (v_user (sv_view sv)) (v_root (sv_view sv)) bs = Some c
  | _, _ => False
  end.
Proof. exact chdir_rel. Qed.

(* one step: the absolute-path calls of [covered_x] and the resolved-path calls of [covered_res] (relative paths enter
   through C04_resolve_rel), provided the working-directory string still denotes the working-directory node afterwards
   (it does not when that directory is removed or an ancestor renamed: listed finding C01-CWD-STRING); Chdir; Getwd *)
Theorem C01_step_cwd : forall (w : world) (vi : nat) (sw : sworld) (d : str) (c : call),
  absc w vi sw d -> covered_c vi sw d c ->
  obs_sim (snd (impl_step_proj w c)) (snd (spec_step true sw c))
  /\ exists d', absc (fst (impl_step_proj w c)) vi (fst (spec_step true sw c)) d'.
Proof. exact step_world_c. Qed.

Theorem C01_history_cwd : forall (vi : nat) (cs : list call) (w : world) (sw : sworld),
  absc w vi sw (cwd_of w vi) -> covered_c_run vi w sw cs ->
  Forall2 obs_sim (snd (impl_run w cs)) (snd (spec_run sw cs))
  /\ absc (fst (impl_run w cs)) vi (fst (spec_run sw cs)) (cwd_of (fst (impl_run w cs)) vi).
Proof. exact history_c. Qed.

Example C01_history_cwd_example :
  Forall2 obs_sim (snd (impl_run StepExamples.w_tree StepCwdExamples.hc)) (snd (spec_run StepExamples.sw_tree StepCwdExamples.hc))
  /\ cwd_of (fst (impl_run StepExamples.w_tree StepCwdExamples.hc)) 0 = abs_path [WalkSymExamples.s_d]
  /\ sv_cwd (sw_sv (fst (spec_run StepExamples.sw_tree StepCwdExamples.hc))) = 1.
Proof. exact StepCwdExamples.hc_agree. Qed.

(* ---- MkdirAll ------------------------------------------------------------------------------------------------------------------- *)
(* MkdirAll "/done/rest" where [done] is a directory walk from the view root to [par] (no symbolic link met, [dir_at]) and
   the first component of [rest] is missing in [par] (or [rest] is empty: everything exists): MemFS (one walk, then the
   creation loop along the path cursor) and os.MkdirAll (stat; recursion on the parent prefix; mkdir) produce the same
   file system - the chain [mk_chain] of new directories below [par] - and the same answer.  Premise that names a
   deviation: the type bit of [par] (Go tests the mode bit, MemFS the node kind).  Paths
   that meet a symbolic link are outside (listed finding C01-MKDIRALL-LINK for the dangling/looping ones). *)
Theorem C01_step_mkdir_all : forall (s : fsys) (sv : sview) (perm : N) (done rest : list str) (par : nat),
  let v := sv_view sv in
  v_os v = Linux -> us_admin (v_user v) = true ->
  Forall good_comp (done ++ rest) ->
  dir_at s v done par ->
  (forall c r, rest = c :: r -> alookup str_eqb c (children (f_heap s) par) = None) ->
  has (m_mode (meta_of (f_heap s) par)) MODE_DIR = true ->
  length (done ++ rest) < SEARCH_FUEL ->
  let p := abs_path (done ++ rest) in
  (fst (mkdir_all s v p perm), proj_res Linux (snd (mkdir_all s v p perm))) = go_mkdir_all (S (length p)) s sv p perm
  /\ go_mkdir_all (S (length p)) s sv p perm = (fst (mk_chain s v par rest perm), SOk).
Proof. exact step_mkdir_all. Qed.

(* the chain is there afterwards: the walk down [done ++ rest] ends in the last new directory, which is empty *)
Theorem C01_mkdir_all_chain : forall (v : view) (perm : N), v_os v = Linux -> us_admin (v_user v) = true ->
  forall (rest : list str) (s : fsys) (done : list str) (dn : nat),
  dir_at s v done dn ->
  (forall c r, rest = c :: r -> alookup str_eqb c (children (f_heap s) dn) = None) ->
  let s' := fst (mk_chain s v dn rest perm) in
  let n' := snd (mk_chain s v dn rest perm) in
  dir_at s' v (done ++ rest) n'
  /\ (rest <> [] -> children (f_heap s') n' = []).
Proof. exact mk_chain_at. Qed.

Example C01_step_mkdir_all_example :
  let p := abs_path ([WalkSymExamples.s_d; WalkSymExamples.s_e] ++ [WalkSymExamples.s_x; WalkSymExamples.s_missing; WalkSymExamples.s_d]) in
  (fst (mkdir_all WalkSymExamples.tree_fs WalkSymExamples.adminv p 493),
   proj_res Linux (snd (mkdir_all WalkSymExamples.tree_fs WalkSymExamples.adminv p 493)))
  = go_mkdir_all (S (length p)) WalkSymExamples.tree_fs (WalkSymExamples.sv_of WalkSymExamples.adminv) p 493
  /\ go_mkdir_all (S (length p)) WalkSymExamples.tree_fs (WalkSymExamples.sv_of WalkSymExamples.adminv) p 493
     = (fst (mk_chain WalkSymExamples.tree_fs WalkSymExamples.adminv 2
               [WalkSymExamples.s_x; WalkSymExamples.s_missing; WalkSymExamples.s_d] 493), SOk).
Proof. exact StepMkdirAllExamples.mkdir_all_instance. Qed.

(* the history theorem with MkdirAll among the covered calls ([covered_m] = [covered_x] or that) *)
Theorem C01_history_inv_m : forall (vi : nat) (cs : list call) (w : world) (sw : sworld),
  Inv w -> absw w vi sw -> us_admin (v_user (sv_view (sw_sv sw))) = true -> links_ok (f_heap (w_fs w)) ->
  call_ok_run_m vi sw cs ->
  Forall2 obs_sim (snd (impl_run w cs)) (snd (spec_run sw cs))
  /\ absw (fst (impl_run w cs)) vi (fst (spec_run sw cs))
  /\ Inv (fst (impl_run w cs)) /\ links_ok (f_heap (w_fs (fst (impl_run w cs)))).
Proof. exact history_inv_m. Qed.

Example C01_history_inv_m_example :
  Forall2 obs_sim (snd (impl_run StepExamples.w_tree StepHistMExamples.hm)) (snd (spec_run StepExamples.sw_tree StepHistMExamples.hm))
  /\ absw (fst (impl_run StepExamples.w_tree StepHistMExamples.hm)) 0 (fst (spec_run StepExamples.sw_tree StepHistMExamples.hm))
  /\ Inv (fst (impl_run StepExamples.w_tree StepHistMExamples.hm))
  /\ links_ok (f_heap (w_fs (fst (impl_run StepExamples.w_tree StepHistMExamples.hm)))).
Proof. exact StepHistMExamples.hm_inv. Qed.

(* ---- RemoveAll --------------------------------------------------------------------------------------------------------------------- *)
(* RemoveAll "/w/cl" by the administrator on a state of C05, for every outcome of the walk (a missing path, an error, a
   file, a link, an empty or a non-empty directory): the same answer, and final file systems that agree on every node
   except link nodes that no directory lists any more ([geq]: MemFS delete()s every node of the subtree - a link's target
   is blanked -, the specification unlinks the top entry and drops the subtree, leaving unlisted links as they are).
   The heaps are NOT equal in general ([C01_remove_all_example], third clause). *)
Theorem C01_step_remove_all : forall (s : fsys) (sv : sview) (w : list str) (cl : str),
  step_hyps s sv -> Inv_heap (f_heap s) -> sym_single (f_heap s) -> path_ok s sv SlLstat (w ++ [cl]) ->
  let p := abs_path (w ++ [cl]) in
  proj_res Linux (snd (remove_all s (sv_view sv) p)) = snd (go_remove_all s sv p)
  /\ fsys_geq (fst (remove_all s (sv_view sv) p)) (fst (go_remove_all s sv p))
  /\ (forall i, nkind (get (f_heap (fst (go_remove_all s sv p))) i) = nkind (get (f_heap s) i)).
Proof. exact step_remove_all. Qed.

(* the heart: MemFS's recursion (entry by entry, depth first) is simulated by the specification's drop of the subtree *)
Theorem C01_remove_all_tree : forall (h : heap) (u : user) (par c : nat) (cl : str),
  us_admin u = true -> (forall d, ~ dreachp h d d) -> sym_single h -> InvConseq.maxlen h c (S (length h)) ->
  In (cl, c) (children h par) -> node_is_dir h c = true ->
  exists hi', remove_all_rec (S (length h)) h u c = (hi', None)
    /\ geq (delete_node (remove_child hi' par cl) c) (drop_tree (S (length h)) (remove_child h par cl) c)
    /\ get hi' par = get h par.
Proof. exact top_sim. Qed.

(* [geq] heaps have the same snapshot, and every walk gives the same result on both *)
Theorem C01_geq_snapshot : forall (wi ws : world) (vi : nat),
  geq (f_heap (w_fs wi)) (f_heap (w_fs ws)) -> w_views wi = w_views ws ->
  (forall v, nth_error (w_views ws) vi = Some v -> node_is_dir (f_heap (w_fs ws)) (v_root v) = true) ->
  snapshot wi vi = snapshot ws vi.
Proof. exact geq_snapshot. Qed.

Theorem C01_geq_search : forall (si ss : fsys) (v : view) (p : str) (slm : slmode),
  fsys_geq si ss -> f_vols ss = [] -> get (f_heap si) (v_root v) = get (f_heap ss) (v_root v) ->
  search_node si v p slm = search_node ss v p slm.
Proof. exact search_node_geq. Qed.

(* one step of the two step functions: equal answers, [geq] file systems, equal snapshots *)
Theorem C01_step_world_remove_all : forall (w : world) (vi : nat) (sw : sworld) (ww : list str) (cl : str),
  absw w vi sw -> step_hyps (sw_fs sw) (sw_sv sw) -> Inv_heap (f_heap (sw_fs sw)) -> sym_single (f_heap (sw_fs sw)) ->
  path_ok (sw_fs sw) (sw_sv sw) SlLstat (ww ++ [cl]) ->
  let c := CRemoveAll vi (abs_path (ww ++ [cl])) in
  snd (impl_step_proj w c) = snd (spec_step true sw c)
  /\ fsys_geq (w_fs (fst (impl_step_proj w c))) (sw_fs (fst (spec_step true sw c)))
  /\ sw_sv (fst (spec_step true sw c)) = sw_sv sw
  /\ snapshot (fst (impl_step_proj w c)) vi = snapshot (with_fs w (sw_fs (fst (spec_step true sw c)))) vi.
Proof. exact step_world_remove_all. Qed.

Example C01_remove_all_example :
  (snd (impl_step_proj StepExamples.w_tree StepRemoveAllExamples.ra) = snd (spec_step true StepExamples.sw_tree StepRemoveAllExamples.ra)
   /\ fsys_geq (w_fs (fst (impl_step_proj StepExamples.w_tree StepRemoveAllExamples.ra)))
               (sw_fs (fst (spec_step true StepExamples.sw_tree StepRemoveAllExamples.ra)))
   /\ sw_sv (fst (spec_step true StepExamples.sw_tree StepRemoveAllExamples.ra)) = sw_sv StepExamples.sw_tree
   /\ snapshot (fst (impl_step_proj StepExamples.w_tree StepRemoveAllExamples.ra)) 0
      = snapshot (with_fs StepExamples.w_tree (sw_fs (fst (spec_step true StepExamples.sw_tree StepRemoveAllExamples.ra)))) 0)
  /\ snd (impl_step_proj StepExamples.w_tree StepRemoveAllExamples.ra) = SOk
  /\ f_heap (w_fs (fst (impl_step_proj StepExamples.w_tree StepRemoveAllExamples.ra)))
     <> f_heap (sw_fs (fst (spec_step true StepExamples.sw_tree StepRemoveAllExamples.ra))).
Proof.
  split; [exact StepRemoveAllExamples.ra_instance|].
  split; [exact StepRemoveAllExamples.ra_answer|exact StepRemoveAllExamples.ra_heaps_differ].
Qed.

(* ---- OpenFile with any flag word ------------------------------------------------------------------------------------------------------ *)
(* MemFS reads the flag word through [to_open_mode], open(2) through [decode_flags]: both depend only on the access mode
   (flag land 3, the invalid value 3 included) and the bits O_CREATE, O_EXCL, O_TRUNC, O_APPEND ([om_bits]).  [open_sim]: the
   same resulting file system; the same errno, or the handle is on the node open(2) returns.  (The offset and the append
   mode of the handle belong to C02.) *)
Theorem C01_open_mode_bits : forall flag : N,
  let om := to_open_mode flag in
  has om OpenCreateExcl = has flag O_CREATE && has flag O_EXCL
  /\ has om OpenCreate = has flag O_CREATE
  /\ has om OpenTruncate = has flag O_TRUNC
  /\ has om OpenWrite = negb (N.eqb (N.land flag 3) 0).
Proof. exact om_bits. Qed.

(* without O_CREATE: O_RDONLY, O_WRONLY, O_RDWR, each with or without O_TRUNC and O_APPEND *)
Theorem C01_step_open_nocreate : forall (s : fsys) (sv : sview) (vi : nat) (cs : list str) (flag perm : N),
  step_hyps s sv -> path_ok s sv SlEval cs -> has flag O_CREATE = false ->
  open_sim (open_file s (sv_view sv) vi (abs_path cs) flag perm) (k_open s sv (abs_path cs) flag perm).
Proof. exact step_open_nocreate. Qed.

(* O_CREATE without O_EXCL (a final link is followed) *)
Theorem C01_step_open_create : forall (s : fsys) (sv : sview) (vi : nat) (w : list str) (cl : str) (flag perm : N),
  step_hyps s sv -> path_ok s sv SlLstat (w ++ [cl]) -> path_ok s sv SlEval (w ++ [cl]) ->
  has flag O_CREATE = true -> has flag O_EXCL = false ->
  open_sim (open_file s (sv_view sv) vi (abs_path (w ++ [cl])) flag perm) (k_open s sv (abs_path (w ++ [cl])) flag perm).
Proof. exact step_open_create. Qed.

(* O_CREATE with O_EXCL (a final link is not followed: EEXIST, also on a dangling link) *)
Theorem C01_step_open_excl : forall (s : fsys) (sv : sview) (vi : nat) (w : list str) (cl : str) (flag perm : N),
  step_hyps s sv -> path_ok s sv SlLstat (w ++ [cl]) ->
  has flag O_CREATE = true -> has flag O_EXCL = true ->
  let p := abs_path (w ++ [cl]) in
  open_sim (open_file s (sv_view sv) vi p flag perm) (k_open s sv p flag perm).
Proof. exact step_open_excl. Qed.

(* the history theorem with OpenFile of any flag word among the covered calls ([covered_o] = [covered_m] or that) *)
Theorem C01_history_inv_o : forall (vi : nat) (cs : list call) (w : world) (sw : sworld),
  Inv w -> absw w vi sw -> us_admin (v_user (sv_view (sw_sv sw))) = true -> links_ok (f_heap (w_fs w)) ->
  call_ok_run_o vi sw cs ->
  Forall2 obs_sim (snd (impl_run w cs)) (snd (spec_run sw cs))
  /\ absw (fst (impl_run w cs)) vi (fst (spec_run sw cs))
  /\ Inv (fst (impl_run w cs)) /\ links_ok (f_heap (w_fs (fst (impl_run w cs)))).
Proof. exact history_inv_o. Qed.

Example C01_history_inv_o_example :
  (Forall2 obs_sim (snd (impl_run StepExamples.w_tree StepHistOExamples.ho)) (snd (spec_run StepExamples.sw_tree StepHistOExamples.ho))
   /\ absw (fst (impl_run StepExamples.w_tree StepHistOExamples.ho)) 0 (fst (spec_run StepExamples.sw_tree StepHistOExamples.ho))
   /\ Inv (fst (impl_run StepExamples.w_tree StepHistOExamples.ho))
   /\ links_ok (f_heap (w_fs (fst (impl_run StepExamples.w_tree StepHistOExamples.ho)))))
  /\ snd (spec_run StepExamples.sw_tree StepHistOExamples.ho)
     = [SOk; SOk; SErr EISDIR; SOk; SErr EEXIST; SErr EEXIST; SOk; SOk].
Proof. split; [exact StepHistOExamples.ho_inv|exact StepHistOExamples.ho_results]. Qed.

(* ---- the entry-creating calls on relative paths ----------------------------------------------------------------------------------------- *)
(* [name_path p cl]: open(2)'s splitting of the string [p] ends in the proper name [cl], no trailing separator: the clean
   absolute paths "/w/cl" ([name_path_abs]) and the paths that clean to "../"^k w/cl ([C01_rel_name_resolved], which also
   gives [resolved] - the related walks of C04_resolve_rel - from a working-directory string that is a directory walk to
   the specification's working-directory node).  The creating calls agree on every resolved name path. *)
Theorem C01_rel_name_resolved : forall (s : fsys) (sv : sview) (bs : list str) (x : str) (k : nat) (w : list str) (cl : str),
  step_hyps s sv ->
  v_cwd (sv_view sv) = abs_path bs -> Forall good_comp bs ->
  dwalk (f_heap s) (v_user (sv_view sv)) (v_root (sv_view sv)) bs = Some (sv_cwd sv) ->
  clean Linux x = rel_path k (w ++ [cl]) -> Forall good_comp (w ++ [cl]) ->
  name_path (clean Linux x) cl
  /\ forall slm, klookup s sv false (follow_of slm) (clean Linux x) <> WErr EFUEL ->
                 sr_err (search_node s (sv_view sv) (clean Linux x) slm) <> EFuel ->
                 resolved s sv slm (clean Linux x).
Proof. exact rel_name_resolved. Qed.

Theorem C01_step_mkdir_p : forall (s : fsys) (sv : sview) (p cl : str), step_hyps s sv -> name_path p cl -> forall perm : N,
  resolved s sv SlLstat p ->
  (fst (mkdir s (sv_view sv) p perm), proj_res Linux (snd (mkdir s (sv_view sv) p perm))) = k_mkdir s sv p perm.
Proof. exact step_mkdir_p. Qed.

Theorem C01_step_symlink_p : forall (s : fsys) (sv : sview) (p cl : str), step_hyps s sv -> name_path p cl -> forall t : str,
  resolved s sv SlLstat p ->
  (fst (symlink s (sv_view sv) t p), proj_res Linux (snd (symlink s (sv_view sv) t p))) = k_symlink s sv (clean Linux t) p.
Proof. exact step_symlink_p. Qed.

Theorem C01_step_link_p : forall (s : fsys) (sv : sview) (p cl : str), step_hyps s sv -> name_path p cl -> forall o : str,
  resolved s sv SlLstat o -> resolved s sv SlLstat p -> not_symlink_p s sv o ->
  (fst (link s (sv_view sv) o p), proj_res Linux (snd (link s (sv_view sv) o p))) = k_link true s sv o p.
Proof. exact step_link_p. Qed.

Theorem C01_step_write_file_p : forall (s : fsys) (sv : sview) (p cl : str) (data : list N) (perm : N),
  step_hyps s sv -> name_path p cl ->
  resolved s sv SlLstat p -> resolved s sv SlEval p ->
  (fst (write_file s (sv_view sv) p data perm), proj_res Linux (snd (write_file s (sv_view sv) p data perm)))
  = go_write_file s sv p data perm.
Proof. exact step_write_file_p. Qed.

Theorem C01_step_open_create_p : forall (s : fsys) (sv : sview) (vi : nat) (p cl : str) (flag perm : N),
  step_hyps s sv -> name_path p cl ->
  resolved s sv SlLstat p -> resolved s sv SlEval p ->
  has flag O_CREATE = true -> has flag O_EXCL = false ->
  open_sim (open_file s (sv_view sv) vi p flag perm) (k_open s sv p flag perm).
Proof. exact step_open_create_p. Qed.

Theorem C01_step_open_excl_p : forall (s : fsys) (sv : sview) (vi : nat) (p cl : str) (flag perm : N),
  step_hyps s sv -> name_path p cl ->
  resolved s sv SlLstat p ->
  has flag O_CREATE = true -> has flag O_EXCL = true ->
  open_sim (open_file s (sv_view sv) vi p flag perm) (k_open s sv p flag perm).
Proof. exact step_open_excl_p. Qed.

Theorem C01_step_open_nocreate_p : forall (s : fsys) (sv : sview) (vi : nat) (p : str) (flag perm : N),
  step_hyps s sv -> p <> [] -> resolved s sv SlEval p -> has flag O_CREATE = false ->
  open_sim (open_file s (sv_view sv) vi p flag perm) (k_open s sv p flag perm).
Proof. exact step_open_nocreate_p. Qed.

(* Mkdir "../x" and WriteFile "x" from the working directory "/d/e"; O_CREATE|O_EXCL of the relative link "top" *)
Example C01_rel_create_examples :
  ((fst (mkdir WalkSymExamples.tree_fs StepNamePathExamples.acwdv (clean Linux StepNamePathExamples.up_x) 493),
    proj_res Linux (snd (mkdir WalkSymExamples.tree_fs StepNamePathExamples.acwdv (clean Linux StepNamePathExamples.up_x) 493)))
   = k_mkdir WalkSymExamples.tree_fs StepNamePathExamples.acwdsv (clean Linux StepNamePathExamples.up_x) 493
   /\ snd (k_mkdir WalkSymExamples.tree_fs StepNamePathExamples.acwdsv (clean Linux StepNamePathExamples.up_x) 493) = SOk
   /\ klookup (fst (k_mkdir WalkSymExamples.tree_fs StepNamePathExamples.acwdsv (clean Linux StepNamePathExamples.up_x) 493))
        (WalkSymExamples.sv_of WalkSymExamples.adminv) false false (abs_path [WalkSymExamples.s_d; WalkSymExamples.s_x])
      = WNode 1 LNorm WalkSymExamples.s_x (length WalkSymExamples.tree))
  /\ snd (go_write_file WalkSymExamples.tree_fs StepNamePathExamples.acwdsv (clean Linux WalkSymExamples.s_x) [1%N; 2%N] 420) = SOk
  /\ snd (k_open WalkSymExamples.tree_fs StepNamePathExamples.acwdsv (clean Linux WalkSymExamples.s_top)
            (O_CREATE + O_EXCL + O_RDWR) 420) = inl EEXIST.
Proof.
  split; [exact StepNamePathExamples.mkdir_rel_instance|].
  split; [exact (proj2 StepNamePathExamples.write_file_rel_instance)|exact (proj2 StepNamePathExamples.open_excl_rel_instance)].
Qed.

(* ---- histories with the working directory and relative creating calls, on the states of C05 -------------------------------------------------- *)
(* [covered_d] = the calls of [covered_c] (absolute-path calls, Stat-like calls on resolved paths, Chdir, Getwd) or Mkdir, Symlink,
   Link, WriteFile, OpenFile (any flag word) on resolved name paths ([covered_np]) - each with "the working-directory string still
   denotes the working-directory node after the call" for the mutating ones.  Unlike [C01_history_cwd] the per-state hypotheses
   ([step_hyps], [Inv_heap], [links_ok]) are DERIVED along the run from [Inv] and [links_ok] of the initial world. *)
Theorem C01_step_cwd_create : forall (w : world) (vi : nat) (sw : sworld) (d : str) (c : call),
  absc w vi sw d -> covered_d vi sw d c ->
  obs_sim (snd (impl_step_proj w c)) (snd (spec_step true sw c))
  /\ exists d', absc (fst (impl_step_proj w c)) vi (fst (spec_step true sw c)) d'.
Proof. exact step_world_d. Qed.

Theorem C01_history_inv_cwd : forall (vi : nat) (cs : list call) (w : world) (sw : sworld),
  Inv w -> absc w vi sw (cwd_of w vi) -> us_admin (v_user (sv_view (sw_sv sw))) = true -> links_ok (f_heap (w_fs w)) ->
  call_ok_run_d vi w sw cs ->
  Forall2 obs_sim (snd (impl_run w cs)) (snd (spec_run sw cs))
  /\ absc (fst (impl_run w cs)) vi (fst (spec_run sw cs)) (cwd_of (fst (impl_run w cs)) vi)
  /\ Inv (fst (impl_run w cs)) /\ links_ok (f_heap (w_fs (fst (impl_run w cs)))).
Proof. exact history_inv_d. Qed.

(* Chdir "/d/e"; Mkdir "../x"; WriteFile "../x/f"; Link "f" "../x/g"; OpenFile "../x/g" O_RDWR|O_APPEND;
   OpenFile "../x/n" O_CREATE|O_EXCL|O_WRONLY; Getwd *)
Example C01_history_inv_cwd_example :
  (Forall2 obs_sim (snd (impl_run StepExamples.w_tree StepCwdCreateExamples.hd)) (snd (spec_run StepExamples.sw_tree StepCwdCreateExamples.hd))
   /\ absc (fst (impl_run StepExamples.w_tree StepCwdCreateExamples.hd)) 0 (fst (spec_run StepExamples.sw_tree StepCwdCreateExamples.hd))
        (cwd_of (fst (impl_run StepExamples.w_tree StepCwdCreateExamples.hd)) 0)
   /\ Inv (fst (impl_run StepExamples.w_tree StepCwdCreateExamples.hd))
   /\ links_ok (f_heap (w_fs (fst (impl_run StepExamples.w_tree StepCwdCreateExamples.hd)))))
  /\ snd (spec_run StepExamples.sw_tree StepCwdCreateExamples.hd)
     = [SOk; SOk; SOk; SOk; SOk; SOk; SStr (abs_path [WalkSymExamples.s_d; WalkSymExamples.s_e])].
Proof. split; [exact StepCwdCreateExamples.hd_inv|exact StepCwdCreateExamples.hd_results]. Qed.

(* ---- RemoveAll inside histories ----------------------------------------------------------------------------------------------------------- *)
(* The two final heaps of RemoveAll can differ only on links listed (before the call) by a directory of the removed subtree
   ([top_sim_x]).  When no directory below the target lists a link ([nolink_target]) the final file systems are EQUAL, for
   every outcome of the walk, and RemoveAll joins the history theorem on the states of C05. *)
Theorem C01_step_remove_all_exact : forall (s : fsys) (sv : sview) (w : list str) (cl : str),
  step_hyps s sv -> Inv_heap (f_heap s) -> sym_single (f_heap s) -> path_ok s sv SlLstat (w ++ [cl]) ->
  nolink_target s sv (abs_path (w ++ [cl])) ->
  let p := abs_path (w ++ [cl]) in
  (fst (remove_all s (sv_view sv) p), proj_res Linux (snd (remove_all s (sv_view sv) p))) = go_remove_all s sv p.
Proof. exact step_remove_all_exact. Qed.

(* os.RemoveAll keeps the hypotheses on links (with or without links in the subtree) *)
Theorem C01_links_ok_remove_all : forall (s : fsys) (sv : sview) (p : str),
  us_admin (v_user (sv_view sv)) = true -> Inv_heap (f_heap s) -> links_ok (f_heap s) ->
  links_ok (f_heap (fst (go_remove_all s sv p))).
Proof. exact links_ok_go_remove_all. Qed.

Theorem C01_history_inv_r : forall (vi : nat) (cs : list call) (w : world) (sw : sworld),
  Inv w -> absw w vi sw -> us_admin (v_user (sv_view (sw_sv sw))) = true -> links_ok (f_heap (w_fs w)) ->
  call_ok_run_r vi sw cs ->
  Forall2 obs_sim (snd (impl_run w cs)) (snd (spec_run sw cs))
  /\ absw (fst (impl_run w cs)) vi (fst (spec_run sw cs))
  /\ Inv (fst (impl_run w cs)) /\ links_ok (f_heap (w_fs (fst (impl_run w cs)))).
Proof. exact history_inv_r. Qed.

(* MkdirAll "/priv/x/missing"; WriteFile "/priv/x/f"; RemoveAll "/priv"; Lstat "/priv"; Mkdir "/priv"; RemoveAll "/priv" *)
Example C01_history_inv_r_example :
  Forall2 obs_sim (snd (impl_run StepExamples.w_tree StepRemoveAllExactExamples.hr))
                  (snd (spec_run StepExamples.sw_tree StepRemoveAllExactExamples.hr))
  /\ absw (fst (impl_run StepExamples.w_tree StepRemoveAllExactExamples.hr)) 0
          (fst (spec_run StepExamples.sw_tree StepRemoveAllExactExamples.hr))
  /\ Inv (fst (impl_run StepExamples.w_tree StepRemoveAllExactExamples.hr))
  /\ links_ok (f_heap (w_fs (fst (impl_run StepExamples.w_tree StepRemoveAllExactExamples.hr)))).
Proof. exact StepRemoveAllExactExamples.hr_inv. Qed.

(* ---- the removing / moving calls and MkdirAll on relative paths ----------------------------------------------------------------------------- *)
(* Remove, Rename (both operands; the new name does not exist; a file, a link or a directory), RemoveAll (a subtree without
   links: equal states) on ANY resolved name path - the relative ones through [C01_rel_name_resolved]. *)
Theorem C01_step_remove_p : forall (s : fsys) (sv : sview) (p cl : str), step_hyps s sv -> name_path p cl ->
  resolved s sv SlLstat p -> sym_single (f_heap s) ->
  (fst (remove s (sv_view sv) p), proj_res Linux (snd (remove s (sv_view sv) p))) = go_remove s sv p.
Proof. exact step_remove_p. Qed.

Theorem C01_step_rename_new_p : forall (s : fsys) (sv : sview) (o clo n cln : str),
  step_hyps s sv -> name_path o clo -> name_path n cln -> forall (np : nat) (md : bool),
  resolved s sv SlLstat o -> resolved s sv SlLstat n -> source_not_dir_p s sv o ->
  klookup s sv false false n = WNeg np cln md ->
  (fst (rename s (sv_view sv) o n), proj_res Linux (snd (rename s (sv_view sv) o n))) = go_rename s sv o n.
Proof. exact step_rename_new_p. Qed.

Theorem C01_step_rename_dir_new_p : forall (s : fsys) (sv : sview) (o clo n cln : str),
  step_hyps s sv -> name_path o clo -> name_path n cln -> forall (np : nat) (md : bool),
  Inv_heap (f_heap s) -> resolved s sv SlLstat o -> resolved s sv SlLstat n -> source_is_dir_p s sv o ->
  klookup s sv false false n = WNeg np cln md ->
  (fst (rename s (sv_view sv) o n), proj_res Linux (snd (rename s (sv_view sv) o n))) = go_rename s sv o n.
Proof. exact step_rename_dir_new_p. Qed.

Theorem C01_step_remove_all_exact_p : forall (s : fsys) (sv : sview) (p cl : str),
  step_hyps s sv -> name_path p cl -> ends_with_dot p = false -> Inv_heap (f_heap s) -> sym_single (f_heap s) ->
  resolved s sv SlLstat p -> nolink_target s sv p ->
  (fst (remove_all s (sv_view sv) p), proj_res Linux (snd (remove_all s (sv_view sv) p))) = go_remove_all s sv p.
Proof. exact step_remove_all_exact_p. Qed.

(* MkdirAll "../"^k dn/rest from a working directory that is a directory walk [bs]: [dn] leads from the ancestor k levels up to
   [par], the first component of [rest] is missing there.  os.MkdirAll stats and recurses on the RELATIVE prefixes. *)
Theorem C01_step_mkdir_all_rel : forall (s : fsys) (sv : sview) (bs : list str) (k : nat) (perm : N) (dn rest : list str) (par : nat),
  let v := sv_view sv in
  let bs' := firstn (length bs - k) bs in
  v_os v = Linux -> us_admin (v_user v) = true ->
  v_cwd v = abs_path bs -> Forall good_comp bs -> rel_state sv bs s ->
  Forall good_comp (dn ++ rest) ->
  dir_at s v (bs' ++ dn) par ->
  (forall c r, rest = c :: r -> alookup str_eqb c (children (f_heap s) par) = None) ->
  has (m_mode (meta_of (f_heap s) par)) MODE_DIR = true ->
  repeat DD k ++ dn ++ rest <> [] ->
  length (bs' ++ dn ++ rest) < SEARCH_FUEL -> k + length (dn ++ rest) < WALK_FUEL ->
  let p := rel_path k (dn ++ rest) in
  (fst (mkdir_all s v p perm), proj_res Linux (snd (mkdir_all s v p perm))) = go_mkdir_all (S (length p)) s sv p perm
  /\ go_mkdir_all (S (length p)) s sv p perm = (fst (mk_chain s v par rest perm), SOk).
Proof. exact step_mkdir_all_rel. Qed.

(* the history theorem with the working directory: [covered_e] = [covered_d] (C01_history_inv_cwd), or the absolute-path calls of
   [covered_r] (MkdirAll, RemoveAll, OpenFile of any flag word included), or Remove / Rename / RemoveAll / MkdirAll on resolved
   name paths ([covered_mp]) - the last two groups with "the working-directory string still denotes the node" after the call *)
Theorem C01_history_inv_cwd_all : forall (vi : nat) (cs : list call) (w : world) (sw : sworld),
  Inv w -> absc w vi sw (cwd_of w vi) -> us_admin (v_user (sv_view (sw_sv sw))) = true -> links_ok (f_heap (w_fs w)) ->
  call_ok_run_e vi w sw cs ->
  Forall2 obs_sim (snd (impl_run w cs)) (snd (spec_run sw cs))
  /\ absc (fst (impl_run w cs)) vi (fst (spec_run sw cs)) (cwd_of (fst (impl_run w cs)) vi)
  /\ Inv (fst (impl_run w cs)) /\ links_ok (f_heap (w_fs (fst (impl_run w cs)))).
Proof. exact history_inv_e. Qed.

(* from "/d/e": MkdirAll "../x/missing"; WriteFile "../x/f"; Rename "../x/f" "../x/missing/g"; Rename (directory) "../x/missing" "m2";
   RemoveAll "m2"; Remove "../x"; Getwd *)
Example C01_history_inv_cwd_all_example :
  (Forall2 obs_sim (snd (impl_run StepExamples.w_tree StepCwdMutExamples.he)) (snd (spec_run StepExamples.sw_tree StepCwdMutExamples.he))
   /\ absc (fst (impl_run StepExamples.w_tree StepCwdMutExamples.he)) 0 (fst (spec_run StepExamples.sw_tree StepCwdMutExamples.he))
        (cwd_of (fst (impl_run StepExamples.w_tree StepCwdMutExamples.he)) 0)
   /\ Inv (fst (impl_run StepExamples.w_tree StepCwdMutExamples.he))
   /\ links_ok (f_heap (w_fs (fst (impl_run StepExamples.w_tree StepCwdMutExamples.he)))))
  /\ snd (spec_run StepExamples.sw_tree StepCwdMutExamples.he)
     = [SOk; SOk; SOk; SOk; SOk; SOk; SOk; SStr (abs_path [WalkSymExamples.s_d; WalkSymExamples.s_e])].
Proof. split; [exact StepCwdMutExamples.he_inv|exact StepCwdMutExamples.he_results]. Qed.

(* ---- calls that cannot move the working directory ----------------------------------------------------------------------------------------------- *)
(* [dext h h']: every directory of [h] is one of [h'] and keeps its entries that lead to directories.  Every specification call
   that only creates entries, changes attributes or contents, or removes a NON-directory entry is [dext] ([cwd_keeping]:
   Mkdir, MkdirAll, OpenFile, Link, Symlink, Truncate, Chmod, Chown, Lchown, WriteFile, the read-only calls, Remove of a
   non-directory), whatever its outcome; the administrator's directory walks survive - so "the working-directory string still
   denotes the working-directory node" holds after them.  Left as a premise: Rename, Remove of a directory, RemoveAll. *)
Theorem C01_dext_spec_step : forall (sw : sworld) (c : call), cwd_keeping sw c ->
  dext (f_heap (sw_fs sw)) (f_heap (sw_fs (fst (spec_step true sw c)))).
Proof. exact dext_spec_step. Qed.

Theorem C01_dwalk_dext : forall (h h' : heap) (u : user), us_admin u = true -> dext h h' ->
  forall ns d e, node_is_dir h d = true -> dwalk h u d ns = Some e -> dwalk h' u d ns = Some e.
Proof. exact dwalk_dext. Qed.

Theorem C01_cwd_rel_kept : forall (sw : sworld) (d : str) (c : call),
  us_admin (v_user (sv_view (sw_sv sw))) = true -> node_is_dir (f_heap (sw_fs sw)) (v_root (sv_view (sw_sv sw))) = true ->
  cwd_keeping sw c -> cwd_rel (sw_fs sw) (sw_sv sw) d -> cwd_rel (sw_fs (fst (spec_step true sw c))) (sw_sv sw) d.
Proof. exact cwd_rel_kept. Qed.

(* [covered_e] without that premise, for those calls (the history theorem hands [cwd_rel] of the current state to each call) *)
Theorem C01_covered_e_keep : forall (vi : nat) (sw : sworld) (d : str) (c : call),
  step_hyps (sw_fs sw) (sw_sv (sw_setcwd sw d)) -> cwd_rel (sw_fs sw) (sw_sv sw) d -> cwd_keeping sw c ->
  (covered_x vi (sw_setcwd sw d) c \/ covered_res vi (sw_setcwd sw d) c \/ covered_np vi (sw_setcwd sw d) c
   \/ covered_r vi (sw_setcwd sw d) c \/ covered_mp vi (sw_setcwd sw d) c) ->
  covered_e vi sw d c.
Proof. exact covered_e_keep. Qed.

(* Chdir "/d/e"; Mkdir "../x"; WriteFile "../x/f"; Link "f" "../x/g"; Remove "../x/g"; Lstat "../x/f": covered through
   [C01_covered_e_keep] - no working-directory premise discharged by hand *)
Example C01_history_inv_cwd_keep_example :
  Forall2 obs_sim (snd (impl_run StepExamples.w_tree StepCwdKeepExamples.hk)) (snd (spec_run StepExamples.sw_tree StepCwdKeepExamples.hk))
  /\ absc (fst (impl_run StepExamples.w_tree StepCwdKeepExamples.hk)) 0 (fst (spec_run StepExamples.sw_tree StepCwdKeepExamples.hk))
       (cwd_of (fst (impl_run StepExamples.w_tree StepCwdKeepExamples.hk)) 0)
  /\ Inv (fst (impl_run StepExamples.w_tree StepCwdKeepExamples.hk))
  /\ links_ok (f_heap (w_fs (fst (impl_run StepExamples.w_tree StepCwdKeepExamples.hk)))).
Proof. exact StepCwdKeepExamples.hk_inv. Qed.
