(* Property C01 - the step theorem, call by call, and histories (the refinement fragment proved so far).
   Statements only; proofs in Fs/StepEq.v on top of the walk bridge (Fs/WalkBridge.v, Fs/WalkSym.v).

   Setting: Linux emulation, the administrator ([step_hyps]: v_os = Linux, us_admin, the heap hypotheses of the
   walk bridge - single parent for directories and acyclicity [walk_wf], cleaned link targets [links_clean],
   the view root is a directory); calls on clean absolute paths "/c1/.../cn" of proper names whose walk is in the
   covered domain ([path_ok]: at most 40 links, no model-fuel exhaustion); outside the listed deviation classes,
   which appear as explicit premises:
     - set-group-id inheritance        [no_setgid_parent]  (Mkdir, Symlink)
     - Link refusing symbolic links    [not_symlink]        (Link)  and  [sym_single] (Remove of a multiply named link)
     - operations on the root / "." ".." last elements: the path ends in a proper name [w ++ [cl]]
     - a Symlink target is given cleaned ([t = clean Linux t]).
   Compared: the projected result ([proj_res]) and the whole resulting file system (heap, id counter).
   [stat_sim] / [obs_sim]: equality, except that the specification reports 0 for the size of a directory (in a
   FileInfo, and in every entry of a directory listing). *)
From Avfs Require Import Base PathModel PathSpec PathProofs PathCleanProofs PathIterProofs.
From Avfs Require Import MemFS MemFile World Posix WalkBridge WalkSym WalkBudget WalkReadlink StepEq.

Theorem C01_step_stat : forall (s : fsys) (sv : sview) (cs : list str),
  step_hyps s sv -> path_ok s sv SlStat cs ->
  stat_sim (proj_res Linux (stat_gen SlStat s (sv_view sv) (abs_path cs))) (k_stat true s sv (abs_path cs)).
Proof. intros s sv cs. exact (step_stat s sv SlStat cs). Qed.

Theorem C01_step_lstat : forall (s : fsys) (sv : sview) (cs : list str),
  step_hyps s sv -> path_ok s sv SlLstat cs ->
  stat_sim (proj_res Linux (stat_gen SlLstat s (sv_view sv) (abs_path cs))) (k_stat false s sv (abs_path cs)).
Proof. intros s sv cs. exact (step_stat s sv SlLstat cs). Qed.

Theorem C01_step_readlink : forall (s : fsys) (sv : sview) (cs : list str),
  step_hyps s sv -> path_ok s sv SlLstat cs ->
  proj_res Linux (readlink s (sv_view sv) (abs_path cs)) = k_readlink s sv (abs_path cs).
Proof. exact step_readlink. Qed.

Theorem C01_step_chtimes : forall (s : fsys) (sv : sview) (cs : list str),
  step_hyps s sv -> path_ok s sv SlEval cs ->
  proj_res Linux (chtimes s (sv_view sv) (abs_path cs)) = k_utimes s sv (abs_path cs).
Proof. exact step_chtimes. Qed.

Theorem C01_step_chmod : forall (s : fsys) (sv : sview) (cs : list str) (mode : N),
  step_hyps s sv -> path_ok s sv SlEval cs ->
  (fst (chmod s (sv_view sv) (abs_path cs) mode), proj_res Linux (snd (chmod s (sv_view sv) (abs_path cs) mode)))
  = k_chmod s sv (abs_path cs) mode.
Proof. exact step_chmod. Qed.

Theorem C01_step_truncate : forall (s : fsys) (sv : sview) (cs : list str) (size : Z),
  step_hyps s sv -> path_ok s sv SlEval cs ->
  (fst (truncate s (sv_view sv) (abs_path cs) size), proj_res Linux (snd (truncate s (sv_view sv) (abs_path cs) size)))
  = k_truncate s sv (abs_path cs) size.
Proof. exact step_truncate. Qed.

Theorem C01_step_mkdir : forall (s : fsys) (sv : sview) (w : list str) (cl : str) (perm : N),
  step_hyps s sv -> path_ok s sv SlLstat (w ++ [cl]) -> no_setgid_parent s sv (w ++ [cl]) ->
  let p := abs_path (w ++ [cl]) in
  (fst (mkdir s (sv_view sv) p perm), proj_res Linux (snd (mkdir s (sv_view sv) p perm))) = k_mkdir s sv p perm.
Proof. exact step_mkdir. Qed.

Theorem C01_step_symlink : forall (s : fsys) (sv : sview) (w : list str) (cl : str) (t : str),
  step_hyps s sv -> path_ok s sv SlLstat (w ++ [cl]) -> no_setgid_parent s sv (w ++ [cl]) ->
  let p := abs_path (w ++ [cl]) in
  (fst (symlink s (sv_view sv) t p), proj_res Linux (snd (symlink s (sv_view sv) t p)))
  = k_symlink s sv (clean Linux t) p.
Proof. exact step_symlink. Qed.

Theorem C01_step_remove : forall (s : fsys) (sv : sview) (w : list str) (cl : str),
  step_hyps s sv -> path_ok s sv SlLstat (w ++ [cl]) -> sym_single (f_heap s) ->
  let p := abs_path (w ++ [cl]) in
  (fst (remove s (sv_view sv) p), proj_res Linux (snd (remove s (sv_view sv) p))) = go_remove s sv p.
Proof. exact step_remove. Qed.

Theorem C01_step_link : forall (s : fsys) (sv : sview) (co w : list str) (cl : str),
  step_hyps s sv -> path_ok s sv SlLstat co -> path_ok s sv SlLstat (w ++ [cl]) -> not_symlink s sv co ->
  let o := abs_path co in
  let p := abs_path (w ++ [cl]) in
  (fst (link s (sv_view sv) o p), proj_res Linux (snd (link s (sv_view sv) o p))) = k_link true s sv o p.
Proof. exact step_link. Qed.

Theorem C01_step_chown : forall (s : fsys) (sv : sview) (slm : slmode) (cs : list str) (uid gid : Z),
  step_hyps s sv -> path_ok s sv slm cs -> no_setid s sv (follow_of slm) cs ->
  (fst (chown_gen slm s (sv_view sv) (abs_path cs) uid gid),
   proj_res Linux (snd (chown_gen slm s (sv_view sv) (abs_path cs) uid gid)))
  = k_chown (follow_of slm) s sv (abs_path cs) uid gid.
Proof. exact step_chown. Qed.

(* Chdir: both succeed or both fail with the same errno (the new working directory is kept as a string by the
   implementation, as a node by the specification) *)
Theorem C01_step_chdir : forall (s : fsys) (sv : sview) (cs : list str),
  step_hyps s sv -> path_ok s sv SlEval cs ->
  match chdir s (sv_view sv) (abs_path cs), k_chdir s sv (abs_path cs) with
  | inl r, inl e => proj_res Linux r = SErr e
  | inr _, inr _ => True
  | _, _ => False
  end.
Proof. exact step_chdir. Qed.

(* ReadFile and ReadDir: OpenFile(O_RDONLY) followed by the handle methods, against open(2) + read / getdents *)
Theorem C01_step_read_file : forall (s : fsys) (sv : sview) (cs : list str),
  step_hyps s sv -> path_ok s sv SlEval cs ->
  proj_res Linux (read_file s (sv_view sv) (abs_path cs)) = go_read_file s sv (abs_path cs).
Proof. exact step_read_file. Qed.

Theorem C01_step_read_dir : forall (s : fsys) (sv : sview) (cs : list str),
  step_hyps s sv -> path_ok s sv SlEval cs -> ptr_valid (f_heap s) ->
  obs_sim (proj_res Linux (read_dir s (sv_view sv) (abs_path cs))) (go_read_dir s sv (abs_path cs)).
Proof. exact step_read_dir. Qed.

(* WriteFile: OpenFile(O_WRONLY|O_CREATE|O_TRUNC), Write, Close - against open(2) with the same flags + write *)
Theorem C01_step_write_file : forall (s : fsys) (sv : sview) (w : list str) (cl : str) (data : list N) (perm : N),
  step_hyps s sv -> path_ok s sv SlLstat (w ++ [cl]) -> path_ok s sv SlEval (w ++ [cl]) ->
  no_setgid_parent_follow s sv (w ++ [cl]) ->
  (fst (write_file s (sv_view sv) (abs_path (w ++ [cl])) data perm),
   proj_res Linux (snd (write_file s (sv_view sv) (abs_path (w ++ [cl])) data perm)))
  = go_write_file s sv (abs_path (w ++ [cl])) data perm.
Proof. exact step_write_file. Qed.

(* one step of the two step functions of the models (the statement the oracle stream's "T" column tests):
   covered call => same projected result, and the abstraction relation is kept (same file system, same view) *)
Theorem C01_step : forall (w : world) (vi : nat) (sw : sworld) (c : call),
  absw w vi sw -> covered vi sw c ->
  obs_sim (snd (impl_step_proj w c)) (snd (spec_step true sw c))
  /\ absw (fst (impl_step_proj w c)) vi (fst (spec_step true sw c)).
Proof. exact step_world. Qed.

(* every finite history of covered calls ([covered_run] is evaluated along the SPECIFICATION run): call by call
   the same results, and the same file system after the last call *)
Theorem C01_history : forall (vi : nat) (cs : list call) (w : world) (sw : sworld),
  absw w vi sw -> covered_run vi sw cs ->
  Forall2 obs_sim (snd (impl_run w cs)) (snd (spec_run sw cs))
  /\ absw (fst (impl_run w cs)) vi (fst (spec_run sw cs)).
Proof. exact history_world. Qed.
