(* Property C13, continuation: Dir, Base, Rel and Match of the POSIX flavour,
   for ALL byte strings (no bound, no axiom).  Statements only; the proofs are
   in Path/PathDirBaseProofs.v, Path/PathRelProofs.v, Path/PathMatchProofs.v.

   Vocabulary (defined in those files and in PathSpec/PathCleanProofs/PathIterProofs):
     comps p        the components of p ("a//b" -> ["a";"";"b"]), path_comps p the non-empty ones
     norm r st cs   Pike's stack machine, render r cs the path of a component list, abs_path cs = "/c1/.../cn"
     ncomps p       the components of Clean p;  twords p  = the same, with ["."] for "."
     strip_common   drops the longest common prefix of two component lists
     op / pchunk    parsed pattern: literal byte | '?' | class(negated, ranges) ; chunk = (starred, ops)
     pat_parses     cuts a pattern into chunks with the model's tokenizer scanChunk and parses each chunk;
                    pattern_grammar: the same set of parses generated without the tokenizer
     pm / gm        declarative matcher ('*' = any separator-free bytes) / the same with Go's leftmost commitment *)
From Avfs Require Import Base PathModel PathMatch PathSpec PathProofs PathCleanProofs PathIterProofs
  PathDirBaseProofs PathRelProofs PathMatchProofs.

(* ======================================================================== *)
(* Dir / Base                                                                *)
(* ======================================================================== *)

(* Split cuts after the last separator *)
Theorem C13_split_linux : forall p, split Linux p = (initw p, lastw p).
Proof. exact split_linux. Qed.

Theorem C13_initw_lastw : forall p,
  initw p ++ lastw p = p /\ sepfree (lastw p) /\ (initw p = [] \/ exists a, initw p = a ++ [SLASH]).
Proof. exact initw_lastw_spec. Qed.

Theorem C13_dir_clean_split : forall p, dir Linux p = clean Linux (fst (split Linux p)).
Proof. exact dir_clean_split. Qed.

(* Dir = the cleaned path of all components but the last ("." when none) *)
Theorem C13_dir_comps : forall p,
  dir Linux p = render (is_abs_spec p) (norm (is_abs_spec p) [] (removelast (comps p))).
Proof. exact dir_comps. Qed.

(* Base: "." for "", "/" for a path made only of separators, else the last non-empty component *)
Theorem C13_base_spec : forall p,
  base Linux p = match p with
                 | [] => [DOT]
                 | _ => match path_comps p with [] => [SLASH] | l => last l [] end
                 end.
Proof. exact base_spec_correct. Qed.

Theorem C13_base_cases : forall p,
  (p = [] -> base Linux p = [DOT]) /\
  (p <> [] -> Forall (fun c => c = SLASH) p -> base Linux p = [SLASH]) /\
  (forall l c, path_comps p = l ++ [c] -> base Linux p = c).
Proof. exact base_cases. Qed.

Theorem C13_only_separators : forall p, path_comps p = [] <-> Forall (fun c => c = SLASH) p.
Proof. exact path_comps_nil_iff. Qed.

(* on a clean absolute path "/c1/.../cn/c" *)
Theorem C13_dir_abs_path : forall (cs : list str) (c : str),
  Forall good_comp (cs ++ [c]) -> dir Linux (abs_path (cs ++ [c])) = abs_path cs.
Proof. exact dir_abs_path. Qed.

Theorem C13_base_abs_path : forall (cs : list str) (c : str),
  Forall good_comp (cs ++ [c]) -> base Linux (abs_path (cs ++ [c])) = c.
Proof. exact base_abs_path. Qed.

(* Join(Dir p, Base p) = p for every clean p (absolute or not, "." and "/" included) *)
Theorem C13_join_dir_base : forall p, clean Linux p = p -> join Linux [dir Linux p; base Linux p] = p.
Proof. exact join_dir_base. Qed.

Example C13_dir_base_examples :
  dir Linux [47;97;47;98;47;47]%N = [47;97;47;98]%N
  /\ base Linux [47;97;47;98;47;47]%N = [98]%N
  /\ base Linux [47;47]%N = [47]%N /\ base Linux [] = [46]%N
  /\ dir Linux [97]%N = [46]%N
  /\ join Linux [dir Linux [46;46;47;97]%N; base Linux [46;46;47;97]%N] = [46;46;47;97]%N.
Proof. exact dir_base_examples. Qed.

(* ======================================================================== *)
(* Rel                                                                       *)
(* ======================================================================== *)

(* Rel on components: "." when the cleaned paths agree; an error when only one
   is absolute; otherwise drop the common prefix of the component lists: an
   error when the base then starts with "..", else one ".." per remaining base
   element followed by the remaining target elements *)
Theorem C13_rel_spec : forall b t,
  rel Linux b t =
  if str_eqb (clean Linux t) (clean Linux b) then RelOk [DOT]
  else if negb (Bool.eqb (is_abs_spec b) (is_abs_spec t)) then RelErr
  else let b2 := fst (strip_common (ncomps b) (twords t)) in
       let t2 := snd (strip_common (ncomps b) (twords t)) in
       if is_dotdot (hd [] b2) then RelErr
       else RelOk (intercalate [SLASH] (repeat DD (length b2) ++ t2)).
Proof. exact rel_spec_correct. Qed.

(* the element loop of Rel (a Go "for {}" without condition) always ends: the
   fuel outcome of the model is unreachable *)
Theorem C13_rel_never_loops : forall b t, rel Linux b t <> RelLoop.
Proof. exact rel_never_loops. Qed.

Theorem C13_rel_same : forall b, rel Linux b b = RelOk [DOT].
Proof. exact rel_same. Qed.

Theorem C13_rel_same_clean : forall b t, clean Linux b = clean Linux t -> rel Linux b t = RelOk [DOT].
Proof. exact rel_same_clean. Qed.

(* Join(base, Rel(base, targ)) = Clean(targ), whenever Rel succeeds *)
Theorem C13_rel_sound : forall b t r, rel Linux b t = RelOk r -> join Linux [b; r] = clean Linux t.
Proof. exact rel_sound. Qed.

(* Rel fails exactly when one path is absolute and the other is not, or when
   Clean(base) starts with more ".." elements than Clean(targ) *)
Theorem C13_rel_error_iff : forall b t,
  rel Linux b t = RelErr <->
  is_abs Linux b <> is_abs Linux t \/
  count_dd (path_comps (clean Linux t)) < count_dd (path_comps (clean Linux b)).
Proof. exact rel_error_iff. Qed.

(* the components of a cleaned path *)
Theorem C13_path_comps_clean : forall p, path_comps (clean Linux p) = twords p.
Proof. exact path_comps_clean. Qed.

Example C13_rel_examples :
  rel Linux [47;97;47;98]%N [47;97;99]%N = RelOk [46;46;47;46;46;47;97;99]%N
  /\ rel Linux [97;47;98]%N [97;47;98;47;99;47;100]%N = RelOk [99;47;100]%N
  /\ rel Linux [46;46]%N [46]%N = RelErr
  /\ rel Linux [47;97]%N [97]%N = RelErr
  /\ rel Linux [97]%N [46]%N = RelOk [46;46;47;46]%N
  /\ join Linux [[47;97;47;98]%N; [46;46;47;46;46;47;97;99]%N] = clean Linux [47;97;99]%N.
Proof. exact rel_examples. Qed.

(* ======================================================================== *)
(* Match                                                                     *)
(* ======================================================================== *)

(* matchChunk: a chunk either parses (grammar chunk_parses / cls_parse) and is
   then run op by op, or it does not and the answer is ErrBadPattern - whatever
   the name (the code keeps checking the chunk after the match has failed) *)
Theorem C13_match_chunk_spec : forall chunk s,
  (exists ops, chunk_parses chunk ops /\ match_chunk_top Linux chunk s = MVal (ops_run ops s)) \/
  ((forall ops, ~ chunk_parses chunk ops) /\ match_chunk_top Linux chunk s = MBad).
Proof. exact match_chunk_top_spec. Qed.

Theorem C13_ops_run_spec : forall ops s t, ops_run ops s = Some t <-> ops_match ops s t.
Proof. exact ops_run_spec. Qed.

(* what scanChunk returns: pattern = '*'^k ++ chunk ++ rest, starred iff k > 0,
   rest empty or starting with '*' *)
Theorem C13_scan_chunk_shape : forall pattern star chunk rest,
  scan_chunk Linux pattern = (star, chunk, rest) ->
  exists k, pattern = repeat STAR k ++ chunk ++ rest /\ star = Nat.ltb 0 k /\
            (rest = [] \/ exists r, rest = STAR :: r).
Proof. exact scan_chunk_shape. Qed.

(* the parse of a pattern is unique *)
Theorem C13_pat_parses_det : forall pattern cks cks', pat_parses pattern cks -> pat_parses pattern cks' -> cks = cks'.
Proof. exact pat_parses_unique. Qed.

(* a pattern that parses: Match answers as the leftmost matcher, with or
   without validation of the rest of the pattern *)
Theorem C13_match_parses : forall cr pattern cks name,
  pat_parses pattern cks -> path_match Linux cr pattern name = MVal (gmatch cks name).
Proof. exact path_match_parses. Qed.

Theorem C13_gmatch_gm : forall cks name, gmatch cks name = true <-> gm cks name.
Proof. exact gmatch_gm. Qed.

(* (a) Match says true exactly when the pattern parses and the name is in the
   relation gm: '*' absorbs separator-free bytes, every chunk starts at the
   leftmost position where it matches (the last one: and reaches the end) *)
Theorem C13_match_true_iff : forall cr pattern name,
  path_match Linux cr pattern name = MVal true <-> exists cks, pat_parses pattern cks /\ gm cks name.
Proof. exact path_match_true_iff. Qed.

(* the same without the tokenizer: pattern_grammar generates a pattern as
   '*'^k chunk rest, the chunk (chunk_ns) being a sequence of '?', '\x', bytes other
   than '[' '?' '\' '*', and classes; rest empty or starting with '*'; an empty
   chunk only at the very end.  It cuts exactly as scanChunk does. *)
Theorem C13_pattern_grammar_iff : forall pattern cks, pat_parses pattern cks <-> pattern_grammar pattern cks.
Proof. exact pat_parses_iff_grammar. Qed.

Theorem C13_match_true_grammar : forall cr pattern name,
  path_match Linux cr pattern name = MVal true <-> exists cks, pattern_grammar pattern cks /\ gm cks name.
Proof. exact path_match_true_grammar. Qed.

Theorem C13_match_bad_grammar : forall pattern name,
  path_match Linux true pattern name = MBad <-> ~ exists cks, pattern_grammar pattern cks.
Proof. exact path_match_bad_grammar. Qed.

(* soundness w.r.t. the purely declarative matcher *)
Theorem C13_gm_pm : forall cks name, gm cks name -> pm cks name.
Proof. exact gm_pm. Qed.

Theorem C13_match_sound : forall cr pattern name,
  path_match Linux cr pattern name = MVal true -> exists cks, pat_parses pattern cks /\ pm cks name.
Proof. exact path_match_sound. Qed.

(* ErrBadPattern, rest of the pattern validated (path/filepath >= 1.16): exactly
   the patterns that do not parse *)
Theorem C13_match_bad_checked : forall pattern name,
  path_match Linux true pattern name = MBad <-> ~ exists cks, pat_parses pattern cks.
Proof. exact path_match_bad_checked. Qed.

Theorem C13_match_false_checked : forall pattern name,
  path_match Linux true pattern name = MVal false <-> exists cks, pat_parses pattern cks /\ ~ gm cks name.
Proof. exact path_match_false_checked. Qed.

(* ErrBadPattern, the code as it is in avfs (a chunk that fails to match ends
   the run with "false" without looking at the rest): exactly when the leftmost
   run reaches a chunk that does not parse *)
Theorem C13_match_bad_unchecked : forall pattern name,
  path_match Linux false pattern name = MBad <-> reaches_bad pattern name.
Proof. exact path_match_bad_unchecked. Qed.

(* (c) fuel: any fuel above the length of the pattern gives the same answer;
   S (length pattern), the fuel of the model, never runs out *)
Theorem C13_match_fuel : forall cr f1 f2 pattern name,
  length pattern < f1 -> length pattern < f2 ->
  match_loop Linux cr f1 pattern name = match_loop Linux cr f2 pattern name.
Proof. exact match_loop_fuel. Qed.

(* (b) '*' alone: exactly the names without separator; '?' alone: exactly the
   names made of one rune other than the separator *)
Theorem C13_match_star_only : forall cr name,
  path_match Linux cr [STAR] name = MVal (negb (contains_byte SLASH name)).
Proof. exact match_star_only. Qed.

Theorem C13_match_qmark_only : forall cr name,
  path_match Linux cr [QMARK] name = MVal true <->
  exists c0 s, name = c0 :: s /\ c0 <> SLASH /\ skipn (snd (decode_rune name)) name = [].
Proof. exact match_qmark_only. Qed.

(* a pattern without class and without literal '/' only matches names without
   separator (all names: the continuation bytes DecodeRune consumes are never '/') *)
Theorem C13_pm_no_sep : forall cks name,
  pm cks name -> Forall (fun ck : pchunk => Forall op_nosep (snd ck)) cks -> sepfree name.
Proof. exact pm_no_sep. Qed.

Theorem C13_decode_rune_consumed : forall c0 s,
  c0 <> SLASH -> sepfree (firstn (snd (decode_rune (c0 :: s))) (c0 :: s)).
Proof. exact decode_rune_consumed. Qed.

(* completeness w.r.t. the declarative matcher - PARTIAL: for names without
   separator and below 0x80.  In general pm -> gm is FALSE (next example): Go's
   algorithm does not backtrack over an earlier chunk *)
Theorem C13_match_complete_partial : forall cr pattern cks name,
  pat_parses pattern cks -> ascii name -> sepfree name -> pm cks name ->
  path_match Linux cr pattern name = MVal true.
Proof. exact path_match_complete_partial. Qed.

Example C13_match_parses_example : pat_parses ex_pat ex_cks.
Proof. exact ex_parses. Qed.

Example C13_match_example_true :
  path_match Linux false ex_pat [120; 97; 98; 99; 98]%N = MVal true /\ gm ex_cks [120; 97; 98; 99; 98]%N.
Proof. exact match_example_true. Qed.

(* "*a[^x]*b" against "aaa/b": declaratively a match, not for Match *)
Example C13_match_leftmost_gap :
  pm ex_cks [97; 97; 97; 47; 98]%N /\ ~ gm ex_cks [97; 97; 97; 47; 98]%N
  /\ path_match Linux false ex_pat [97; 97; 97; 47; 98]%N = MVal false
  /\ path_match Linux true ex_pat [97; 97; 97; 47; 98]%N = MVal false.
Proof. exact pm_not_gm. Qed.

Example C13_match_example_bad :
  path_match Linux false [91; 97]%N [97]%N = MBad
  /\ path_match Linux false [98; 42; 91]%N [97]%N = MVal false
  /\ path_match Linux true [98; 42; 91]%N [97]%N = MBad.
Proof. exact match_example_bad. Qed.
