(* Property C09 - a read-only file system never lets the underlying file system
   change.  Statements only; proofs in Wrap/RoFSProofs.v.  [rofs_table] is
   regenerated from vfs/rofs/*.go on every run (Wrap/Gen_rofs.v). *)
From Coq Require Import String.
From Avfs Require Import Base Wrapper RoFSProofs WrapTables ToyBase Gen_iface Gen_rofs.

(* The table obligation, over the finite method set of avfs.VFS and avfs.File
   (flattened from vfs_types.go) and the body shapes found in the current source:
   every write-class method is refused with a permission-class error and never
   reaches the base, every read-class method forwards verbatim (Sub and the opens
   wrap what they return), OpenFile is guarded by flag = O_RDONLY, nothing was
   left unrecognised. *)
Theorem C09_table :
  iface_ok = true /\ covers_iface rofs_table = true /\ string_list_empty rofs_unknown = true /\
  rofs_ok rofs_table = true.
Proof. vm_compute. auto. Qed.

Theorem C09_table_meaning : forall m,
  rofs_check rofs_table m = true /\
  (mclass_of m = CWrite -> m <> MV V_OpenFile ->
     (exists e, kind_of rofs_table m = KRefuse e) \/ (m = MF F_WriteString /\ kind_of rofs_table m = KSelfWrite)) /\
  (mclass_of m = CRead -> m <> MV V_Open ->
     kind_of rofs_table m = match returns_obj m with None => KFwd | Some _ => KFwdWrap end).
Proof.
  intros m. split; [apply rofs_ok_check; apply C09_table|].
  split; intros Hc; destruct m as [v|f]; [destruct v|destruct f| destruct v | destruct f];
    try discriminate Hc; intros Hne; try congruence; vm_compute; eauto.
Qed.

Section C09.
  Variables bstate tree : Type.
  Variable base_step : bstate -> nat -> meth -> list arg -> ans * bstate.
  Variable tree_of : bstate -> tree.
  Variable ff : ffun.
  Variable comp_prog : comp -> list arg -> prog.
  (* trusted assumption on the base (checked against MemFS/OrefaFS by the snapshot
     comparison of the correspondence run): only write-class calls change the tree *)
  Hypothesis base_nonwrite : forall s b m a,
    bclass m a <> CWrite -> tree_of (snd (base_step s b m a)) = tree_of s.

  (* For EVERY base, EVERY history of calls of all VFS and File methods issued on the
     RoFS, on any file it returned and on any file system obtained from it by Sub
     (the world's objects are all wrappers and stay so):
     the base's tree is what it was; every write-class call was refused with a
     permission-class error without touching the base at all; every read-class
     call was answered by exactly one base call with the same method and arguments
     (Open/OpenFile: the O_RDONLY open of that name) and returned its answer. *)
  Theorem C09_history : forall cs (w : world bstate),
    all_wrapped (w_objs w) ->
    let res := wrun base_step rofs_table ff comp_prog w cs in
    tree_of (w_base (snd res)) = tree_of (w_base w) /\
    all_wrapped (w_objs (snd res)) /\
    @steps_ok _ _ base_step tree_of rofs_table ff comp_prog w cs (fst res).
  Proof.
    exact (@rofs_history _ _ base_step tree_of rofs_table ff comp_prog base_nonwrite (proj2 (proj2 (proj2 C09_table)))).
  Qed.

  (* OpenFile admits exactly flag = O_RDONLY, for every integer flag (so for all
     combinations of the flag bits) *)
  Theorem C09_openflags : forall (w : world bstate) id o n flag perm bind,
    all_wrapped (w_objs w) -> olookup id (w_objs w) = Some o ->
    let rw := wrap_wstep base_step rofs_table ff comp_prog w (mkCall id (MV V_OpenFile) [AS n; AI flag; AI perm] bind) in
    (flag <> O_RDONLY -> refused (fst rw) /\ snd rw = w) /\
    (flag = O_RDONLY -> exists q,
        same_answer (r_ans (fst rw)) bind (MV V_OpenFile)
                    (fst (base_step (w_base w) (wo_base o) (MV V_OpenFile) [AS n; AI O_RDONLY; AI q])) /\
        w_base (snd rw) = snd (base_step (w_base w) (wo_base o) (MV V_OpenFile) [AS n; AI O_RDONLY; AI q])).
  Proof.
    exact (@rofs_openflags _ _ base_step tree_of rofs_table ff comp_prog base_nonwrite (proj2 (proj2 (proj2 C09_table)))).
  Qed.
End C09.

(* Non-vacuity: on the toy base (tree = number of write-class calls that reached
   it) the history  Mkdir; Stat; Sub; WriteFile on the sub file system; Open;
   Write on the file; OpenFile(O_RDWR)  leaves the tree at 0, refuses the four
   write-class calls with EACCES and forwards the rest. *)
Example C09_example :
  let cs := [mkCall 0 (MV V_Mkdir) [AS [47;97]%N; AI 493] 9;
             mkCall 0 (MV V_Stat) [AS [47]%N] 9;
             mkCall 0 (MV V_Sub) [AS [47]%N] 1;
             mkCall 1 (MV V_WriteFile) [AS [47;98]%N; AS []; AI 420] 9;
             mkCall 1 (MV V_Open) [AS [47]%N] 2;
             mkCall 2 (MF F_Write) [AS [1]%N] 9;
             mkCall 0 (MV V_OpenFile) [AS [47;98]%N; AI 2; AI 0] 3] in
  let res := wrun toy_step rofs_table ok_func no_prog toy_world0 cs in
  toy_tree (w_base (snd res)) = 0 /\
  map (fun r => a_err (r_ans r)) (fst res) =
    [Some (EErrno 13); None; None; Some (EErrno 13); None; Some (EErrno 13); Some (EErrno 13)] /\
  map (fun p => (fst p, wo_wrapped (snd p))) (w_objs (snd res)) = [(2, true); (1, true); (0, true)].
Proof. vm_compute. auto. Qed.

Example C09_toy_satisfies_assumption :
  forall s b m a, bclass m a <> CWrite -> toy_tree (snd (toy_step s b m a)) = toy_tree s.
Proof. exact toy_nonwrite. Qed.
