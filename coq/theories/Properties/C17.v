(* Property C17 - OS-type emulation does not depend on the host.  Statements only; proofs are in
   coq/theories/OsType/*.v.  The tables named gen_* are regenerated from the Go source of avfs before
   every build (lib/vcheck/ostypegen.py -> OsType/Gen_ostype.v). *)
From Coq Require Import String.
From Avfs Require Import Base PathModel PathSpec PathCleanProofs PathIterProofs MemFS MemFile World WorldWin IsoView
  OsTypeCfg Gen_ostype OsTypeTab OsTypeObl PathEquiv IsoIter IsoSearch IsoCalls IsoRun IsoParse VolumeProofs
  OrefaFS OrefaWorld OrefaWin OrefaIso.
Open Scope list_scope.

(* SetOSType as the current source writes it (guard, OsUnknown substitution, separator), BuildFeatures as
   the two tag-dependent files define it: with the avfs_setostype build tag the configured type and
   separator are the requested ones whatever the host [cur]; without it a foreign type is refused and the
   host's type accepted.  NewWithOptions of MemFS and OrefaFS: default modes, default volume and current
   directory are those the models use. *)
Theorem C17_config :
  (forall cur req : ost,
     feat_tag = true /\ feat_notag = false /\
     set_os_type gen_setos feat_tag cur req = SetOk (effective cur req) (sep_of (effective cur req)) /\
     set_os_type gen_setos feat_notag cur req
     = (if ost_eqb (effective cur req) cur then SetOk cur (sep_of cur) else SetRefused))
  /\ ((forall os, dir_mode os = cfg_dir_mode gen_cfg_memfs os /\ file_mode os = cfg_file_mode gen_cfg_memfs os
              /\ dir_mode os = cfg_dir_mode gen_cfg_orefafs os /\ file_mode os = cfg_file_mode gen_cfg_orefafs os)
      /\ cfg_ok gen_cfg_memfs = true /\ cfg_ok gen_cfg_orefafs = true
      /\ VOL_C = gen_default_volume /\ CWD_C = gen_default_volume ++ [ss_sep_windows gen_setos]
      /\ sepc Windows = ss_sep_windows gen_setos /\ sepc Linux = ss_sep_default gen_setos).
Proof. split; [exact config_correct|exact cfg_correct]. Qed.

(* the error numbers the models print (World.ecode, WorldWin.vcode) are those of the regenerated
   Errors.SetOSType table and error constants, for every error kind and both OS types; values that come
   from the OS-dependent table are WindowsError values on a Windows-typed file system (except
   ErrTooManySymlinks) and LinuxError values on a Linux-typed one *)
Theorem C17_errors :
  (forall os e, gen_ecode os e = Some (ecode os e))
  /\ (forall e, slookup (verr_const e) gen_consts = Some (2%N, vcode e))
  /\ (forall e f, ekind_src e = SField f ->
        fst (ecode Linux e) = 0%N /\ (f <> "TooManySymlinks"%string -> fst (ecode Windows e) = 1%N)).
Proof. split; [exact ecode_is_regenerated|split; [exact vcode_is_regenerated|exact windows_error_class]]. Qed.

(* Join(`C:\`, c1, ..., cn) of the Windows flavour is C:\c1\...\cn - the Linux spelling /c1/.../cn of
   Join("/", c1, ..., cn) with the volume in front and '\' for '/' - and the PathIterator of either
   flavour yields exactly c1 ... cn, for portable names (non-empty, no '/', '\', ':', '?', not "." or "..") *)
Theorem C17_parse (cs : list str) : Forall portable_name cs ->
  join Windows ((CWD_C : str) :: cs) = W DRIVE_C (abs_path cs)
  /\ join Linux (([SLASH] : str) :: cs) = abs_path cs
  /\ pi_parts Windows (join Windows ((CWD_C : str) :: cs)) = cs
  /\ pi_parts Linux (join Linux (([SLASH] : str) :: cs)) = cs.
Proof.
  intros H. split; [exact (join_windows_root H)|split; [exact (join_linux_root H)|exact (parse_components H)]].
Qed.

(* The isomorphism, for both emulated file systems.
   A Windows-typed and a Linux-typed MemFS (first part) / OrefaFS (second part) built by NewWithOptions with the
   same portable system directories, driven by the administrator through the same history of namespace calls
   on portable absolute paths (spelled C:\... on one side, /... on the other; symbolic-link targets portable,
   absolute or relative): after the history the OS-independent views of the two trees (names, types, contents,
   link counts, file identities, normalised link targets) are EQUAL, and every call that is not flagged succeeds
   on both or fails on both.  Flagged = Chown / Lchown (documented: not supported on Windows) and, for MemFS only,
   the finding RemoveAll of a path through a regular file.  Every prefix of a history is a history, so the
   views agree after every call.
   PARTIAL with respect to the C01 call templates: CreateTemp / MkdirTemp (random names) and writes through an
   open handle are outside the call alphabet [pcall]; so are Sub and SetUser, which are not C01 templates. *)
Theorem C17_iso_partial (um : N) (dirs : list (str * N)) (cws cls : list call) :
  Forall (fun x => okstr (SLASH :: fst x)) dirs -> Forall2 (pcall DRIVE_C) cws cls ->
  (let ww := init_world_dirs Windows um (dirsW dirs) in
   let wl := init_world_dirs Linux um (dirsL dirs) in
   agree_except (flags wl cls) (map okres (snd (wrun ww cws))) (map okres (snd (wrun wl cls)))
   /\ iso_view (fst (wrun ww cws)) 0 = iso_view (fst (wrun wl cls)) 0)
  /\
  (let ww := o_init_dirs Windows um (dirsW dirs) in
   let wl := o_init_dirs Linux um (dirsL dirs) in
   agree_except (map os_specific cls) (map okres (snd (orun ww cws))) (map okres (snd (orun wl cls)))
   /\ o_iso_view (fst (orun ww cws)) = o_iso_view (fst (orun wl cls))).
Proof.
  intros Hd Hc. split; [exact (@iso_histories um dirs cws cls Hd Hc)|exact (@orefa_iso_histories um dirs cws cls Hd Hc)].
Qed.

(* one call from ANY pair of related worlds (same shape, same names, contents, link counts and ids, related
   link targets; the administrator acting on both): related worlds afterwards, same success / failure
   unless the call is flagged *)
Theorem C17_iso_step (ww wl : world) (cw cl : call) :
  wrel DRIVE_C 0 ww wl -> pcall DRIVE_C cw cl ->
  wrel DRIVE_C 0 (fst (wstep ww cw)) (fst (wstep wl cl))
  /\ (flagged wl cl = false -> okres (snd (wstep ww cw)) = okres (snd (wstep wl cl)))
  /\ iso_view (fst (wstep ww cw)) 0 = iso_view (fst (wstep wl cl)) 0.
Proof.
  intros Hw Hc. destruct (@step_sim DRIVE_C DRIVE_C_letter 0 ww wl cw cl Hw Hc) as [H1 H2].
  split; [exact H1|split; [exact H2|apply iso_view_rel, H1]].
Qed.

(* the same for OrefaFS: related states (the index of one is the index of the other with the keys respelled) *)
Theorem C17_iso_step_orefa (ww wl : oworld) (cw cl : call) :
  owrel DRIVE_C ww wl -> pcall DRIVE_C cw cl ->
  owrel DRIVE_C (fst (ostep ww cw)) (fst (ostep wl cl))
  /\ (os_specific cl = false -> okres (snd (ostep ww cw)) = okres (snd (ostep wl cl)))
  /\ o_iso_view (fst (ostep ww cw)) = o_iso_view (fst (ostep wl cl)).
Proof.
  intros Hw Hc. destruct (@o_step_sim DRIVE_C DRIVE_C_letter ww wl cw cl Hw Hc) as [H1 H2].
  split; [exact H1|split; [exact H2|apply o_iso_view_rel, H1]].
Qed.

(* volume management is a set of names: VolumeAdd / VolumeDelete / VolumeList against the abstract set
   operations, the documented errors, a fresh empty root for a new volume, untouched other volumes; a file
   system that is not Windows-typed has no volumes; the initial set is {C:} *)
Theorem C17_volumes (s : fsys) (v : view) (p : str) :
  (win v = true ->
     let vol := volume_name (v_os v) p in
     (vols_of (fst (volume_add s v p)) = fst (spec_add (vols_of s) vol)
      /\ out_of (snd (volume_add s v p)) = snd (spec_add (vols_of s) vol))
     /\ (vols_of (fst (volume_delete s v p)) = fst (spec_delete (vols_of s) vol (snd (remove_all s v vol)))
         /\ out_of (snd (volume_delete s v p)) = snd (spec_delete (vols_of s) vol (snd (remove_all s v vol))))
     /\ volume_list s v = OVols (sort_by (fun x => x) (vols_of s))
     /\ (snd (volume_add s v p) = ORes ROk ->
           alookup str_eqb vol (f_vols (fst (volume_add s v p))) = Some (length (f_heap s))
           /\ get (f_heap (fst (volume_add s v p))) (length (f_heap s)) = Some (root_node (v_user v))
           /\ (forall x, x <> vol -> alookup str_eqb x (f_vols (fst (volume_add s v p))) = alookup str_eqb x (f_vols s))
           /\ (forall i, i < length (f_heap s) -> get (f_heap (fst (volume_add s v p))) i = get (f_heap s) i)))
  /\ (win v = false ->
        volume_add s v p = (s, OVErr EVolumeWindows) /\ volume_delete s v p = (s, OVErr EVolumeWindows)
        /\ volume_list s v = OVols [])
  /\ (forall vs vol rm, NoDup vs -> NoDup (fst (spec_add vs vol)) /\ NoDup (fst (spec_delete vs vol rm))
                                   /\ ~ In vol (sremove vol vs))
  /\ (forall um, vols_of (w_fs (init_world_os Windows um)) = [VOL_C]).
Proof.
  split; [|split; [|split]].
  - intros Hw. split; [exact (@volume_add_spec s v p Hw)|]. split; [exact (@volume_delete_spec s v p Hw)|].
    split; [exact (@volume_list_spec s v Hw)|exact (@volume_add_root s v p Hw)].
  - exact (@volume_not_windows s v p).
  - intros vs vol rm Hn. split; [exact (@spec_add_NoDup vs vol Hn)|split; [exact (@spec_delete_NoDup vs vol rm Hn)|apply sremove_notin]].
  - exact init_volumes.
Qed.

(* ---- the hypotheses are satisfiable, the exceptions are real ------------------------------------------ *)
Definition ex_dirs : list (str * N) := [([116;109;112]%N, 511%N)].                 (* /tmp 0777 *)
Definition LP (s : str) : str := SLASH :: s.
Definition WP (s : str) : str := W DRIVE_C (SLASH :: s).
(* Mkdir /a ; WriteFile /a/f "x" ; Symlink /a/f /l ; Symlink a/f /tmp/r ; Rename /a/f /a/g ; Chown /a ; RemoveAll /a *)
Definition ex_linux : list call :=
  [CMkdir 0 (LP [97]%N) 493; CWriteFile 0 (LP [97;47;102]%N) [120]%N 420; CSymlink 0 (LP [97;47;102]%N) (LP [108]%N);
   CSymlink 0 [97;47;102]%N (LP [116;109;112;47;114]%N);
   CRename 0 (LP [97;47;102]%N) (LP [97;47;103]%N); CChown 0 (LP [97]%N) 1 1; CRemoveAll 0 (LP [97]%N)].
Definition ex_windows : list call :=
  [CMkdir 0 (WP [97]%N) 493; CWriteFile 0 (WP [97;47;102]%N) [120]%N 420; CSymlink 0 (WP [97;47;102]%N) (WP [108]%N);
   CSymlink 0 [97;92;102]%N (WP [116;109;112;47;114]%N);
   CRename 0 (WP [97;47;102]%N) (WP [97;47;103]%N); CChown 0 (WP [97]%N) 1 1; CRemoveAll 0 (WP [97]%N)].

Ltac okstr_tac := repeat (constructor; [repeat split; discriminate|]); constructor.

Example C17_iso_nonvacuous :
  Forall (fun x => okstr (SLASH :: fst x)) ex_dirs /\ Forall2 (pcall DRIVE_C) ex_windows ex_linux
  /\ flags (init_world_dirs Linux 18 (dirsL ex_dirs)) ex_linux = [false; false; false; false; false; true; false]
  /\ map okres (snd (wrun (init_world_dirs Linux 18 (dirsL ex_dirs)) ex_linux)) = [true; true; true; true; true; true; true]
  /\ map okres (snd (wrun (init_world_dirs Windows 18 (dirsW ex_dirs)) ex_windows)) = [true; true; true; true; true; false; true]
  /\ WP [97;47;102]%N = [67;58;92;97;92;102]%N.
Proof.
  split; [constructor; [okstr_tac|constructor]|].
  split.
  { unfold ex_windows, ex_linux, WP, LP.
    constructor; [apply PMkdir; okstr_tac|].
    constructor; [apply PWriteFile; okstr_tac|].
    constructor; [apply PSymlink; [split; [okstr_tac|left; split; [eexists; reflexivity|reflexivity]]|okstr_tac]|].
    constructor; [apply (@PSymlink DRIVE_C 0 [97;92;102]%N [97;47;102]%N); [split; [okstr_tac|right; split; [discriminate|reflexivity]]|okstr_tac]|].
    constructor; [apply PRename; okstr_tac|].
    constructor; [apply PChown; okstr_tac|].
    constructor; [apply PRemoveAll; okstr_tac|constructor]. }
  repeat split; vm_compute; reflexivity.
Qed.

(* OrefaFS: the same history (its Symlink calls are refused on both sides, OrefaFS has no symbolic links) *)
Example C17_iso_orefa_nonvacuous :
  map okres (snd (orun (o_init_dirs Linux 18 (dirsL ex_dirs)) ex_linux)) = [true; true; false; false; true; true; true]
  /\ map okres (snd (orun (o_init_dirs Windows 18 (dirsW ex_dirs)) ex_windows)) = [true; true; false; false; true; false; true]
  /\ o_iso_view (fst (orun (o_init_dirs Linux 18 (dirsL ex_dirs)) ex_linux)) <> [].
Proof. repeat split; vm_compute; try reflexivity. discriminate. Qed.

(* the finding: WriteFile /f ; RemoveAll /f/x  - fails on the Linux-typed file system (ENOTDIR), succeeds on the
   Windows-typed one (the not-a-directory and the path-not-found errors are the same Windows value) *)
Example C17_finding_removeall :
  let cl := [CWriteFile 0 (LP [102]%N) [120]%N 420; CRemoveAll 0 (LP [102;47;120]%N)] in
  let cw := [CWriteFile 0 (WP [102]%N) [120]%N 420; CRemoveAll 0 (WP [102;47;120]%N)] in
  flags (init_world_dirs Linux 18 (dirsL ex_dirs)) cl = [false; true]
  /\ map okres (snd (wrun (init_world_dirs Linux 18 (dirsL ex_dirs)) cl)) = [true; false]
  /\ map okres (snd (wrun (init_world_dirs Windows 18 (dirsW ex_dirs)) cw)) = [true; true].
Proof. repeat split; vm_compute; reflexivity. Qed.
