(* Property C17 - OS-type emulation does not depend on the host.  Statements only; proofs are in
   coq/theories/OsType/*.v.  The tables named gen_* are regenerated from the Go source of avfs before
   every build (lib/vcheck/ostypegen.py -> OsType/Gen_ostype.v). *)
From Coq Require Import String.
From Avfs Require Import Base PathModel MemFS MemFile World WorldWin IsoView OsTypeCfg Gen_ostype OsTypeTab OsTypeObl.
Open Scope list_scope.

(* SetOSType as the current source writes it (guard, OsUnknown substitution, separator), BuildFeatures as
   the two tag-dependent files define it: with the avfs_setostype build tag the configured type and
   separator are the requested ones whatever the host [cur]; without it a foreign type is refused and the
   host's type accepted.  NewWithOptions of MemFS and OrefaFS: default modes, default volume and current
   directory are those the models use. *)
Theorem C17_config :
  (forall cur req : ost,
     feat_tag = true /\ feat_notag = false /\
     set_os_type gen_setos feat_tag cur req = SetOk (effective cur req) (sep_of (effective cur req)) /\
     set_os_type gen_setos feat_notag cur req
     = (if ost_eqb (effective cur req) cur then SetOk cur (sep_of cur) else SetRefused))
  /\ ((forall os, dir_mode os = cfg_dir_mode gen_cfg_memfs os /\ file_mode os = cfg_file_mode gen_cfg_memfs os
              /\ dir_mode os = cfg_dir_mode gen_cfg_orefafs os /\ file_mode os = cfg_file_mode gen_cfg_orefafs os)
      /\ cfg_ok gen_cfg_memfs = true /\ cfg_ok gen_cfg_orefafs = true
      /\ VOL_C = gen_default_volume /\ CWD_C = gen_default_volume ++ [ss_sep_windows gen_setos]
      /\ sepc Windows = ss_sep_windows gen_setos /\ sepc Linux = ss_sep_default gen_setos).
Proof. split; [exact config_correct|exact cfg_correct]. Qed.

(* the error numbers the models print (World.ecode, WorldWin.vcode) are those of the regenerated
   Errors.SetOSType table and error constants, for every error kind and both OS types; values that come
   from the OS-dependent table are WindowsError values on a Windows-typed file system (except
   ErrTooManySymlinks) and LinuxError values on a Linux-typed one *)
Theorem C17_errors :
  (forall os e, gen_ecode os e = Some (ecode os e))
  /\ (forall e, slookup (verr_const e) gen_consts = Some (2%N, vcode e))
  /\ (forall e f, ekind_src e = SField f ->
        fst (ecode Linux e) = 0%N /\ (f <> "TooManySymlinks"%string -> fst (ecode Windows e) = 1%N)).
Proof. split; [exact ecode_is_regenerated|split; [exact vcode_is_regenerated|exact windows_error_class]]. Qed.
