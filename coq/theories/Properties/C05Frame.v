(* Property C05, continuation: C05_frame - a call that succeeds changes only the entries it names.
   Statements only; proofs in Fs/InvFrame.v.

   [frame h h' E N] (Fs/InvFrame.v): the heap only grows; every (directory, name) pair outside the list E
   looks up the same target in h' as in h; every node of h outside the list N keeps its payload (kind,
   data, link count, identity, mode, owner; for a directory everything but its entry list, which the
   first clause describes).
   What a call names is read off the result r of its path walk: [named1 r] = the pair (returned parent,
   last part of the path iterator), [childl r] = the returned child.  Newly allocated nodes are not
   constrained (they are not nodes of h).

   The theorems hold in EVERY state (they follow from the code of each call alone); only WriteFile uses
   the walk's postcondition (POSIX view, no volumes), which every world satisfying [Inv] provides. *)
From Avfs Require Import Base PathModel MemFS MemFile World Inv InvSearch InvFrame.

Section C05Frame.
  Variables (s : fsys) (v : view).

  (* Mkdir, Symlink: only the new entry *)
  Theorem C05_frame_mkdir : forall name perm,
    snd (mkdir s v name perm) = ROk ->
    frame (f_heap s) (f_heap (fst (mkdir s v name perm))) (named1 (search_node s v name SlLstat)) [].
  Proof. exact (mkdir_frame s v). Qed.

  Theorem C05_frame_symlink : forall o n,
    snd (symlink s v o n) = ROk ->
    frame (f_heap s) (f_heap (fst (symlink s v o n))) (named1 (search_node s v n SlLstat)) [].
  Proof. exact (symlink_frame s v). Qed.

  (* Link: the new entry; the linked file's node (its link count) *)
  Theorem C05_frame_link : forall o n,
    snd (link s v o n) = ROk ->
    frame (f_heap s) (f_heap (fst (link s v o n)))
          (named1 (search_node s v n SlLstat)) (childl (search_node s v o SlLstat)).
  Proof. exact (link_frame s v). Qed.

  (* Remove: the removed entry; the removed node *)
  Theorem C05_frame_remove : forall name,
    snd (remove s v name) = ROk ->
    frame (f_heap s) (f_heap (fst (remove s v name)))
          (named1 (search_node s v name SlLstat)) (childl (search_node s v name SlLstat)).
  Proof. exact (remove_frame s v). Qed.

  (* Rename: the old and the new entry; the node the new name pointed to, if any.  In particular the moved
     node itself, its subtree, and every other entry of both parents are untouched *)
  Theorem C05_frame_rename : forall o n,
    snd (rename s v o n) = ROk ->
    frame (f_heap s) (f_heap (fst (rename s v o n)))
          (named1 (search_node s v n SlLstat) ++ named1 (search_node s v o SlLstat))
          (childl (search_node s v n SlLstat)).
  Proof. exact (rename_frame s v). Qed.

  (* Truncate, Chmod, Chown/Lchown: no entry; the node the path resolves to *)
  Theorem C05_frame_truncate : forall name size,
    snd (truncate s v name size) = ROk ->
    frame (f_heap s) (f_heap (fst (truncate s v name size))) [] (childl (search_node s v name SlEval)).
  Proof. exact (truncate_frame s v). Qed.

  Theorem C05_frame_chmod : forall name mode,
    snd (chmod s v name mode) = ROk ->
    frame (f_heap s) (f_heap (fst (chmod s v name mode))) [] (childl (search_node s v name SlEval)).
  Proof. exact (chmod_frame s v). Qed.

  Theorem C05_frame_chown : forall slm name uid gid,
    snd (chown_gen slm s v name uid gid) = ROk ->
    frame (f_heap s) (f_heap (fst (chown_gen slm s v name uid gid))) [] (childl (search_node s v name slm)).
  Proof. exact (chown_gen_frame s v). Qed.

  (* WriteFile: the entry it may create; the file it writes *)
  Theorem C05_frame_write_file : forall name data perm,
    f_vols s = [] -> view_ok (f_heap s) v ->
    snd (write_file s v name data perm) = ROk ->
    frame (f_heap s) (f_heap (fst (write_file s v name data perm)))
          (named1 (search_node s v name SlEval)) (childl (search_node s v name SlEval)).
  Proof. intros name data perm HV VO. exact (write_file_frame s v HV VO name data perm). Qed.
End C05Frame.

(* what the frame says, unfolded once: after a successful Rename every other name of every directory
   resolves as before *)
Theorem C05_frame_rename_lookup : forall s v o n d nm,
  snd (rename s v o n) = ROk ->
  ~ In (d, nm) (named1 (search_node s v n SlLstat) ++ named1 (search_node s v o SlLstat)) ->
  alookup str_eqb nm (children (f_heap (fst (rename s v o n))) d) = alookup str_eqb nm (children (f_heap s) d).
Proof. intros s v o n d nm Hok Hn. exact (fr_ent _ _ _ _ (rename_frame s v o n Hok) d nm Hn). Qed.

(* ---- non-vacuity --------------------------------------------------------------------------------------- *)
Definition sl : N := 47. Definition a_ : N := 97. Definition b_ : N := 98. Definition t_ : N := 116.

(* Rename /a/b -> /b in a tree with /a, /a/b, /tmp ...: it succeeds, names exactly (0,"b") and (4,"b"),
   no node; so e.g. the entry (0,"tmp") and the node of /a/b itself are as before *)
Example C05_frame_example :
  let w := fst (wrun (init_world_linux 18) [CMkdir 0 [sl;a_] 493; CMkdir 0 [sl;a_;sl;b_] 493]) in
  let s := w_fs w in
  let v := {| v_root := 0; v_cwd := [sl]; v_user := root_user; v_umask := 18; v_os := Linux; v_idm := true |} in
  snd (rename s v [sl;a_;sl;b_] [sl;b_]) = ROk
  /\ named1 (search_node s v [sl;b_] SlLstat) ++ named1 (search_node s v [sl;a_;sl;b_] SlLstat) = [(0, [b_]); (4, [b_])]
  /\ childl (search_node s v [sl;b_] SlLstat) = [].
Proof. vm_compute. repeat split; reflexivity. Qed.
