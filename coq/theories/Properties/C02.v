(* Property C02 - open-file I/O behaves as os.File.  Statements only.

   IMPLEMENTATION model: MemFile.v / MemFS.v / World.v (MemFile and, through the differential run, OrefaFile).
   SPECIFICATION: FileSpec.v (os.File on Linux; checked against the real os.File on every run).
   KNOWN DEVIATIONS: FileKf.kf02, a decidable function of the specification state and the operation. *)
From Avfs Require Import Base PathModel MemFS MemFile World FileSpec FileKf FileProofs.
From Coq Require Import Permutation.

Local Open Scope Z_scope.

(* ---- "writes leave a zero-filled gap" ------------------------------------------------------- *)
(* [drop_privs (v_user v) m]: a write by a user who is not an administrator clears the set-id bits of the file (as
   file_remove_privs); for an administrator it is [m] *)
(* Write through a handle open for writing, not in append mode, whose offset is at or beyond the end:
   the file becomes old bytes ++ ZEROS up to the offset ++ b, for every offset, size and content. *)
Theorem C02_gap : forall s v f c d k i m b,
  hd_name f <> [] -> hd_node f = Some c -> get (f_heap s) c = Some (NFile d k i m) ->
  has (hd_mode f) OpenWrite = true -> has (hd_mode f) OpenAppend = false -> zlen d <= hd_at f -> b <> [] ->
  f_write s v f b =
    (with_heap s (upd (f_heap s) c (NFile (d ++ zeros (Z.to_nat (hd_at f) - length d) ++ b) k i (drop_privs (v_user v) m))),
     set_at f (hd_at f + zlen b), RInt (zlen b)).
Proof. intros. eapply gap_write; eassumption. Qed.

Theorem C02_gap_at : forall s v f c d k i m b off,
  hd_name f <> [] -> hd_node f = Some c -> get (f_heap s) c = Some (NFile d k i m) ->
  has (hd_mode f) OpenWrite = true -> has (hd_mode f) OpenAppend = false -> zlen d <= off -> b <> [] ->
  f_write_at s v f b off =
    (with_heap s (upd (f_heap s) c (NFile (d ++ zeros (Z.to_nat off - length d) ++ b) k i (drop_privs (v_user v) m))), RInt (zlen b)).
Proof. intros. eapply gap_write_at; eassumption. Qed.

(* ... and at ANY offset the result is described byte by byte: bytes before the offset are the old ones or,
   past the old end, zero; then b; then the old bytes. *)
Theorem C02_write_bytes : forall s v f c d k i m b,
  hd_name f <> [] -> hd_node f = Some c -> get (f_heap s) c = Some (NFile d k i m) ->
  has (hd_mode f) OpenWrite = true -> b <> [] ->
  let pos := Z.to_nat (if has (hd_mode f) OpenAppend then zlen d else hd_at f) in
  exists d' f', f_write s v f b = (with_heap s (upd (f_heap s) c (NFile d' k i (drop_privs (v_user v) m))), f', RInt (zlen b))
    /\ forall j, nth_error d' j =
         if Nat.ltb j pos then (if Nat.ltb j (length d) then nth_error d j else Some 0%N)
         else if Nat.ltb j (pos + length b) then nth_error b (j - pos) else nth_error d j.
Proof.
  intros s v f c d k i m b Hn Hc Hg Hw Hb pos.
  exists (put_bytes d pos b). eexists. split; [|intros; apply put_bytes_nth].
  rewrite (f_write_ok s v f Hn Hc Hg Hw Hb). reflexivity.
Qed.

(* a write of zero bytes changes neither the file nor the handle *)
Theorem C02_write_nothing : forall s v f c d k i m,
  hd_name f <> [] -> hd_node f = Some c -> get (f_heap s) c = Some (NFile d k i m) ->
  exists r, f_write s v f [] = (s, f, r) /\ (forall off, exists r', f_write_at s v f [] off = (s, r')).
Proof.
  intros s v f c d k i m Hn Hc Hg. eexists. split; [eapply f_write_nil; eassumption|].
  intros off. unfold f_write_at. destruct (has (hd_mode f) OpenAppend); [eauto|]. destruct (Z.ltb off 0); eauto.
Qed.

(* ---- "O_APPEND writes land at the current end" ------------------------------------------------ *)
(* whatever the handle's own offset is - in particular after other handles made the file longer or shorter *)
Theorem C02_append : forall s v f c d k i m b,
  hd_name f <> [] -> hd_node f = Some c -> get (f_heap s) c = Some (NFile d k i m) ->
  has (hd_mode f) OpenWrite = true -> has (hd_mode f) OpenAppend = true -> b <> [] ->
  f_write s v f b =
    (with_heap s (upd (f_heap s) c (NFile (d ++ b) k i (drop_privs (v_user v) m))), set_at f (zlen d + zlen b), RInt (zlen b)).
Proof. intros. eapply append_write; eassumption. Qed.

(* ---- "the access mode of the handle is enforced" ------------------------------------------------ *)
Theorem C02_access_read : forall s v f c d k i m n off,
  hd_name f <> [] -> hd_node f = Some c -> get (f_heap s) c = Some (NFile d k i m) ->
  has (hd_mode f) OpenRead = false -> 0 < n ->
  (exists e, f_read s v f n = (f, RFail e)) /\ (exists e, f_read_at s v f n off = RFail e).
Proof. intros. eapply no_read_no_data; eassumption. Qed.

(* (an empty buffer is "read" at once, as os.File does: still no data) *)
Theorem C02_access_read_empty : forall s v f c n off,
  hd_name f <> [] -> hd_node f = Some c -> n <= 0 ->
  f_read s v f n = (f, RBytes 0 [] None)
  /\ f_read_at s v f n off = (if Z.ltb off 0 then RFail EG_NegativeOffset else RBytes 0 [] None).
Proof. intros. eapply empty_read_no_data; eassumption. Qed.

Theorem C02_access_write : forall s v f c d k i m b off size,
  hd_name f <> [] -> hd_node f = Some c -> get (f_heap s) c = Some (NFile d k i m) ->
  has (hd_mode f) OpenWrite = false ->
  (exists e, f_write s v f b = (s, f, RFail e))
  /\ (exists r, f_write_at s v f b off = (s, r) /\ (b <> [] -> exists e, r = RFail e))
  /\ (exists e, f_truncate s v f size = (s, RFail e)).
Proof. intros. eapply no_write_no_change; eassumption. Qed.

(* ---- "any call on a closed handle fails with a closed-file error and no effect" ---------------- *)
(* no effect: always.  closed-file error: always, except - exactly as os.File - that ReadAt and WriteAt refuse a
   negative offset first and return (0, nil) for an empty buffer without looking at the handle, and that WriteAt
   on an O_APPEND handle is refused before anything else. *)
Theorem C02_closed : forall s v f,
  hd_name f <> [] -> hd_node f = None -> win v = false ->
  (forall n, f_read s v f n = (f, RFail EG_Closed))
  /\ (forall n off, f_read_at s v f n off =
        if Z.ltb off 0 then RFail EG_NegativeOffset else if Z.leb n 0 then RBytes 0 [] None else RFail EG_Closed)
  /\ (forall b, f_write s v f b = (s, f, RFail EG_Closed))
  /\ (forall b off, f_write_at s v f b off =
        (s, if has (hd_mode f) OpenAppend then RFail EG_WriteAtInAppendMode
            else if Z.ltb off 0 then RFail EG_NegativeOffset else match b with [] => RInt 0 | _ => RFail EG_Closed end))
  /\ (forall off wh, f_seek s v f off wh = (f, RFail EG_Closed))
  /\ (forall size, f_truncate s v f size = (s, RFail EG_Closed))
  /\ f_stat s v f = RFail EG_FileClosing
  /\ f_sync f = RFail EG_Closed
  /\ (forall mode, f_chmod s v f mode = (s, RFail EG_Closed))
  /\ (forall u g, f_chown s v f u g = (s, RFail EG_Closed))
  /\ f_chdir s v f = inl (RFail EG_Closed)
  /\ f_close f = (f, RFail EG_Closed)
  /\ (forall n, f_read_dir s v f n = (f, RFail EG_FileClosing))
  /\ (forall n, f_readdirnames s v f n = (f, RFail EG_FileClosing)).
Proof. exact closed_handle. Qed.

(* ---- "a handle keeps working on its file after the name is renamed or removed" ---------------- *)
(* (1) the handle methods see the file system only through the handle's node *)
Theorem C02_unlinked_local : forall s s' v f c,
  hd_node f = Some c -> get (f_heap s') c = get (f_heap s) c ->
  (forall n, f_read s' v f n = f_read s v f n)
  /\ (forall n off, f_read_at s' v f n off = f_read_at s v f n off)
  /\ f_stat s' v f = f_stat s v f
  /\ (forall off wh, f_seek s' v f off wh = f_seek s v f off wh).
Proof. exact handle_reads_local. Qed.

(* (2) a successful Remove or Rename of ANY path leaves the data of an open file as they were - also when the
   path was the LAST name of that very file: only the link count changes *)
Theorem C02_unlinked_remove : forall s v name s' c d k i m,
  remove s v name = (s', ROk) -> get (f_heap s) c = Some (NFile d k i m) ->
  exists k', get (f_heap s') c = Some (NFile d k' i m).
Proof.
  intros s v name s' c d k i m Hr Hc. destruct (remove_effect s v name c Hr Hc) as [H|H]; eauto.
Qed.

Theorem C02_unlinked_rename : forall s v o n s' c d k i m,
  rename s v o n = (s', ROk) -> get (f_heap s) c = Some (NFile d k i m) ->
  exists k', get (f_heap s') c = Some (NFile d k' i m).
Proof.
  intros s v o n s' c d k i m Hr Hc. destruct (rename_effect s v o n c Hr Hc) as [H|H]; eauto.
Qed.

(* in particular the handle goes on reading its data after the last name is gone *)
Definition wit_unlink : list fop :=
  [Open NAME_A 66 420; Write 0 [104; 105]%N; PRemove NAME_A; ReadAt 0 2 0; Fstat 0].
Example C02_unlinked_last_link_example :
  impl_results wit_unlink = spec_results wit_unlink
  /\ nth_error (impl_results wit_unlink) 3 = Some (S_Data 2 [104; 105]%N None).
Proof. vm_compute. auto. Qed.

(* ---- directory handles: ReadDir(n) / Readdirnames(n) -------------------------------------------- *)
(* From a freshly opened (or rewound) directory handle, successive ReadDir(n), n > 0, deliver batches of 1..n
   entries whose concatenation is exactly the sorted listing, then io.EOF; the same for Readdirnames. *)
Theorem C02_dir_batches : forall s v c ch m n f,
  get (f_heap s) c = Some (NDir ch m) -> 0 < n ->
  hd_name f <> [] -> hd_node f = Some c -> hd_dir_infos f = None ->
  exists bs, read_dir_all (S (S (length (dir_infos (f_heap s) ch)))) s v f n = (bs, Some (RInfos [] (Some EG_EOF)))
             /\ concat bs = dir_infos (f_heap s) ch
             /\ Forall (fun b => (0 < length b)%nat /\ Z.of_nat (length b) <= n) bs.
Proof. intros. eapply read_dir_batches; eassumption. Qed.

Theorem C02_dir_batches_names : forall s v c ch m n f,
  get (f_heap s) c = Some (NDir ch m) -> 0 < n ->
  hd_name f <> [] -> hd_node f = Some c -> hd_dir_infos f = None ->
  exists bs, readdirnames_all (S (S (length (dir_infos (f_heap s) ch)))) s v f n = (bs, Some (RNames [] (Some EG_EOF)))
             /\ concat bs = map (@fi_name) (dir_infos (f_heap s) ch)
             /\ Forall (fun b => (0 < length b)%nat /\ Z.of_nat (length b) <= n) bs.
Proof. intros. eapply readdirnames_batches; eassumption. Qed.

(* One handle, ANY history of ReadDir(n), Readdirnames(n) (any n, mixed), Seek(0, io.SeekStart), Read and Close on a
   directory that does not change meanwhile: results and position are those of the specification dir_step - one
   cursor shared by both reads, n <= 0 = the remaining entries, io.EOF sticky at the end, Seek(0,0) rewinds. *)
Theorem C02_dir_refine : forall s v c ch m f d op,
  get (f_heap s) c = Some (NDir ch m) -> win v = false -> drel s c ch f d ->
  let names := map (@fi_name) (dir_infos (f_heap s) ch) in
  dproj (snd (dimpl s v f op)) = snd (dir_step names d op)
  /\ drel s c ch (fst (dimpl s v f op)) (fst (dir_step names d op)).
Proof. intros. eapply dir_refine_step; eassumption. Qed.

Theorem C02_dir_history : forall s v c ch m ops f d,
  get (f_heap s) c = Some (NDir ch m) -> win v = false -> drel s c ch f d ->
  let names := map (@fi_name) (dir_infos (f_heap s) ch) in
  map dproj (snd (dimpl_run s v f ops)) = snd (dir_run names d ops)
  /\ drel s c ch (fst (dimpl_run s v f ops)) (fst (dir_run names d ops)).
Proof. intros. eapply dir_refine_history; eassumption. Qed.

(* a freshly opened handle is in the relation with the initial description *)
Theorem C02_dir_fresh : forall s c ch f,
  hd_name f <> [] -> hd_node f = Some c -> hd_dir_infos f = None ->
  drel s c ch f {| d_cursor := 0; d_closed := false |}.
Proof. intros. now apply drel_fresh. Qed.

(* the listing holds every entry of the directory exactly once *)
Theorem C02_dir_each_once : forall h ch,
  Permutation (dir_names ch) (map fst ch)
  /\ ((forall name c, In (name, c) ch -> get h c <> None) ->
      Permutation (map (@fi_name) (dir_infos h ch)) (map fst ch)).
Proof. intros. split; [apply dir_names_perm|apply dir_infos_perm]. Qed.

(* ---- refinement ---------------------------------------------------------------------------------- *)
(* One call: outside the classified deviations the implementation returns what os.File returns (count, bytes,
   offset, error kind, size/links/attributes) and stays in the relation (same bytes, offsets, modes). *)
Theorem C02_refine : forall ptr w st op,
  Rel ptr w st -> in_scope st op = true -> kf02 st op = None ->
  fproj_res (snd (wstep w (impl_call op))) = snd (fspec_step st op)
  /\ Rel ptr (fst (wstep w (impl_call op))) (fst (fspec_step st op)).
Proof. exact refine_step. Qed.

(* All histories: any number of handles on any number of existing files, handle operations interleaved with
   Open and path-level Truncate, as long as no step is a classified deviation. *)
Theorem C02_history : forall ptr ops w st,
  Rel ptr w st -> clean_history st ops = true ->
  map fproj_res (snd (wrun w (map impl_call ops))) = snd (fspec_run st ops)
  /\ Rel ptr (fst (wrun w (map impl_call ops))) (fst (fspec_run st ops)).
Proof. exact refine_history. Qed.

(* non-vacuity: the relation holds in the world where /tmp/a has just been created, and a history that
   uses two handles, a gap, an append and a path-level truncate is clean *)
Example C02_rel_example : Rel ptr_one w_one st_one.
Proof. exact Rel_one. Qed.

Definition hist_example : list fop :=
  [Write 0 [104; 105]%N; Open NAME_A 1 420; Seek 1 7 0; Write 1 [120]%N; ReadAt 0 9 0; PTruncate NAME_A 3;
   Read 0 4; Ftruncate 1 0; Fstat 0; Close 1; Write 1 [121]%N; Seek 0 0 2].
Example C02_history_example :
  clean_history st_one hist_example = true
  /\ snd (fspec_run st_one hist_example) =
     [S_Int 2; S_Fd 1; S_Int 7; S_Int 1; S_Data 8 [104; 105; 0; 0; 0; 0; 0; 120]%N (Some X_EOF); S_Ok;
      S_Data 1 [0]%N None; S_Ok; S_Info {| si_size := 0; si_nlink := 1; si_perm := 420; si_uid := 0; si_gid := 0 |};
      S_Ok; S_Err X_Closed; S_Int 0].
Proof. vm_compute. auto. Qed.

Definition differ (ops : list fop) : Prop := impl_results ops <> spec_results ops.

(* ---- the deviations repaired in /repo: implementation and specification now agree on their witnesses ---- *)
Definition repaired_witnesses : list (list fop) :=
  [ [Open NAME_A 66 420; Write 0 [104; 105]%N; Open NAME_A 1026 420; Seek 1 0 1; Read 1 2];   (* O_APPEND open offset *)
    [Open NAME_A 66 420; Read 0 0; ReadAt 0 0 5; ReadAt 0 0 (-1)];                             (* empty-buffer reads *)
    [Open NAME_A 66 420; Seek 0 7 0; Write 0 []; Fstat 0; WriteAt 0 [] 9; Fstat 0];             (* zero-byte writes *)
    [Open NAME_A 66 420; Close 0; Ftruncate 0 (-1); ReadAt 0 2 (-1); ReadAt 0 0 0; WriteAt 0 [] 3];   (* closed-handle priority *)
    wit_unlink;
    [Open NAME_A 1090 420; WriteAt 0 [120]%N 0; WriteAt 0 [] (-1); Close 0; WriteAt 0 [120]%N 0; Fstat 0] ].   (* WriteAt on O_APPEND *)
Example C02_repaired_agree : forallb (fun ops => match first_kf empty_state ops 0 with None => true | Some _ => false end)
                               repaired_witnesses = true
  /\ map impl_results repaired_witnesses = map spec_results repaired_witnesses.
Proof. vm_compute. auto. Qed.

(* ---- directory handles, non-vacuity: /tmp/d with two entries, one handle, the former deviations in one history --- *)
Definition P_d : str := [47; 116; 109; 112; 47; 100]%N.                 (* /tmp/d *)
Definition w_dir : world :=
  Eval vm_compute in
    fst (wrun (init_world_linux 18)
           [CMkdir 0 P_d 493; CWriteFile 0 (P_d ++ [47; 120]%N) [] 420; CWriteFile 0 (P_d ++ [47; 121]%N) [] 420;
            COpenFile 0 P_d 0 0]).
Definition hist_dir : list dop :=
  [DReaddirnames 1; DReadDir 1; DReadDir 1; DReadDir 1; DReaddirnames (-1); DRewind; DReadDir 1; DRewind; DReadDir (-1);
   DReadDir (-1); DReadDir 2; DRead 0; DRead 1; DClose; DReadDir 1; DRewind].
Example C02_dir_example :
  match nth_error (w_handles w_dir) 0, nth_error (w_views w_dir) 0 with
  | Some f, Some v =>
      map (dproj) (snd (dimpl_run (w_fs w_dir) v f hist_dir))
      = snd (dir_run [[120]; [121]]%N {| d_cursor := 0; d_closed := false |} hist_dir)
      /\ snd (dir_run [[120]; [121]]%N {| d_cursor := 0; d_closed := false |} hist_dir)
         = [D_Batch [[120]]%N None; D_Batch [[121]]%N None; D_Batch [] (Some X_EOF); D_Batch [] (Some X_EOF);
            D_Batch [] None; D_Int 0; D_Batch [[120]]%N None; D_Int 0; D_Batch [[120]; [121]]%N None;
            D_Batch [] None; D_Batch [] (Some X_EOF); D_Data 0 None; D_Err X_ISDIR; D_Ok; D_Err X_Closed; D_Err X_Closed]
  | _, _ => False
  end.
Proof. vm_compute. auto. Qed.

(* ---- directory handles on a directory that changes between the calls ---------------------------------------- *)
(* The file system value may be a different one at EVERY call (entries created, removed, renamed meanwhile through
   any other call), provided the handle's node is still a directory: the implementation equals dir_step_live given,
   at each call, the listing the directory has THEN - a handle reads the listing of its first read after open or
   Seek(0, io.SeekStart), and a rewind makes the next read list the directory again. *)
Theorem C02_dir_live : forall v c s ch m f x op,
  win v = false -> get (f_heap s) c = Some (NDir ch m) -> lrel c f x ->
  dproj (snd (dimpl s v f op)) = snd (dir_step_live (map (@fi_name) (dir_infos (f_heap s) ch)) x op)
  /\ lrel c (fst (dimpl s v f op)) (fst (dir_step_live (map (@fi_name) (dir_infos (f_heap s) ch)) x op)).
Proof. intros. eapply dir_live_step; eassumption. Qed.

Theorem C02_dir_live_history : forall v c steps f x,
  win v = false -> lrel c f x -> Forall (fun st => dir_in c (fst st) <> None) steps ->
  let specsteps := map (fun st => (match dir_in c (fst st) with Some l => l | None => [] end, snd st)) steps in
  map dproj (snd (dlive_impl v f steps)) = snd (dlive_spec x specsteps)
  /\ lrel c (fst (dlive_impl v f steps)) (fst (dlive_spec x specsteps)).
Proof. intros. now apply dir_live_history. Qed.

Theorem C02_dir_live_fresh : forall c f,
  hd_name f <> [] -> hd_node f = Some c -> hd_dir_infos f = None -> lrel c f ldfd0.
Proof. intros. now apply lrel_fresh. Qed.

(* non-vacuity (and the history of seeded change C02-n3): read everything, an entry is created and one removed
   through the path API, the handle is rewound and reads again - the new listing *)
Definition w_dir2 : world :=
  Eval vm_compute in
    fst (wrun w_dir [CWriteFile 0 (P_d ++ [47; 119]%N) [] 420; CRemove 0 (P_d ++ [47; 120]%N)]).
Example C02_dir_live_example :
  match nth_error (w_handles w_dir) 0, nth_error (w_views w_dir) 0 with
  | Some f, Some v =>
      let steps := [(w_fs w_dir, DReadDir (-1)); (w_fs w_dir2, DReaddirnames 1); (w_fs w_dir2, DRewind);
                    (w_fs w_dir2, DReadDir (-1)); (w_fs w_dir, DReadDir 1); (w_fs w_dir, DRewind); (w_fs w_dir, DReaddirnames 5)] in
      map dproj (snd (dlive_impl v f steps))
      = [D_Batch [[120]; [121]]%N None; D_Batch [] (Some X_EOF); D_Int 0; D_Batch [[119]; [121]]%N None;
         D_Batch [] (Some X_EOF); D_Int 0; D_Batch [[120]; [121]]%N None]
      /\ Forall (fun st => dir_in 4 (fst st) <> None) steps
  | _, _ => False
  end.
Proof. vm_compute. split; [reflexivity|]. repeat constructor; discriminate. Qed.
