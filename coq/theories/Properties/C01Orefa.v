(* Property C01, the OrefaFS half: the OrefaFS model refines the specification of Linux (Posix.v).
   Statements only; proofs in Fs/OrefaRefine.v.

   Setting ([ohyps s sv]): Linux flavour, the administrator, a specification state without symbolic links that
   satisfies the heap invariant of C05 ([Inv_heap]), whose view root is a directory, whose entry names are good
   components and whose modes carry the type bit.  Calls on clean absolute paths "/c1/.../cn" ([abs_path (ps ++ [c])],
   good components, shorter than the walk budget of the specification).
   [orel o s sv]: the OrefaFS state o and the specification state (s, sv) have the same node numbers; the node
   map of o answers for every path the node the tree walk reaches; node by node the same type, entries and meta
   data, and for files the same link count and content.  Not related: the list order of the Go map, link count
   and id of directory nodes, the id counter, the content of a file without a name, the working directory
   (OrefaFS keeps it as a string: class C01-CWD-STRING; all paths here are absolute).
   [osim]: equal projected results; for a FileInfo of a directory only name, mode and owner are compared, and
   ids are not compared (SameFile is "same node number" on both sides).
   Open classes that apply to OrefaFS and stay outside these statements: C01-CWD-STRING (relative paths after a
   rename of the working directory), C01-ROOT-OPERAND / C01-DOT-LAST / C01-EMPTY-PATH (the path ends in a proper
   name), C01-CHOWN-SETID (Chown is not among the calls proved).  C01-SETGID-INHERIT is closed: Mkdir holds for
   set-group-id parents. *)
From Avfs Require Import Base PathModel PathSpec PathCleanProofs PathIterProofs MemFS MemFile World Posix Inv
  OrefaFS OrefaWorld OrefaLemmas OrefaInv OrefaSpec OrefaRefine.

(* the state the oracle stream starts the OrefaFS model from is related to the specification state *)
Theorem C01_orefa_init : forall (s : fsys) (sv : sview),
  ohyps s sv -> orel (ow_fs (oworld_of_sworld {| sw_fs := s; sw_sv := sv |})) s sv.
Proof. exact orel_init. Qed.

(* the node map of a related state is the tree walk: the key lemma *)
Theorem C01_orefa_lookup : forall (o : ofs) (s : fsys) (sv : sview) (cs : list str),
  ohyps s sv -> orel o s sv -> gcs cs ->
  match twalk (f_heap s) (v_root (sv_view sv)) cs with
  | Some i => exists x, ofind o (rpath cs) = Some (i, x) /\ nrel (Some x) (get (f_heap s) i)
  | None => ofind o (rpath cs) = None
  end.
Proof. intros o s sv cs H1 H2. exact (ofind_twalk o s sv H1 H2 cs). Qed.

(* ... and the two walks of the specification on "/ps/c" are the same tree walk *)
Theorem C01_orefa_klookup : forall (s : fsys) (sv : sview) (follow : bool) (ps : list str) (c : str),
  ohyps s sv -> gcs (ps ++ [c]) -> length (ps ++ [c]) < WALK_FUEL ->
  klookup s sv false follow (abs_path (ps ++ [c])) = tdown (f_heap s) (v_root (sv_view sv)) (ps ++ [c])
  /\ klookup s sv true follow (abs_path (ps ++ [c])) = tpar (f_heap s) (v_root (sv_view sv)) ps c.
Proof. intros s sv follow ps c H Hg Hl. split; [apply klookup_down|apply klookup_par]; assumption. Qed.

Theorem C01_orefa_step_stat : forall (o : ofs) (s : fsys) (sv : sview) (follow : bool) (ps : list str) (c : str),
  ohyps s sv -> orel o s sv -> gcs (ps ++ [c]) -> length (ps ++ [c]) < WALK_FUEL ->
  osim (proj_res Linux (o_stat o (abs_path (ps ++ [c])))) (k_stat follow s sv (abs_path (ps ++ [c]))).
Proof. intros o s sv follow ps c H1 H2. exact (orefa_step_stat o s sv H1 H2 follow ps c). Qed.

Theorem C01_orefa_step_mkdir : forall (o : ofs) (s : fsys) (sv : sview) (ps : list str) (c : str) (perm : N),
  ohyps s sv -> orel o s sv -> gcs (ps ++ [c]) -> length (ps ++ [c]) < WALK_FUEL ->
  proj_res Linux (snd (o_mkdir o (abs_path (ps ++ [c])) perm)) = snd (k_mkdir s sv (abs_path (ps ++ [c])) perm)
  /\ orel (fst (o_mkdir o (abs_path (ps ++ [c])) perm)) (fst (k_mkdir s sv (abs_path (ps ++ [c])) perm)) sv.
Proof. intros o s sv ps c perm. exact (orefa_step_mkdir o s sv ps c perm). Qed.

Theorem C01_orefa_step_remove : forall (o : ofs) (s : fsys) (sv : sview) (ps : list str) (c : str),
  ohyps s sv -> orel o s sv -> gcs (ps ++ [c]) -> length (ps ++ [c]) < WALK_FUEL ->
  proj_res Linux (snd (o_remove o (abs_path (ps ++ [c])))) = snd (go_remove s sv (abs_path (ps ++ [c])))
  /\ orel (fst (o_remove o (abs_path (ps ++ [c])))) (fst (go_remove s sv (abs_path (ps ++ [c])))) sv.
Proof. intros o s sv ps c. exact (orefa_step_remove o s sv ps c). Qed.

Theorem C01_orefa_step_read_file : forall (o : ofs) (s : fsys) (sv : sview) (ps : list str) (c : str),
  ohyps s sv -> orel o s sv -> gcs (ps ++ [c]) -> length (ps ++ [c]) < WALK_FUEL ->
  proj_res Linux (o_read_file o (abs_path (ps ++ [c]))) = go_read_file s sv (abs_path (ps ++ [c])).
Proof. intros o s sv ps c. exact (orefa_step_read_file o s sv ps c). Qed.

Theorem C01_orefa_step_read_dir : forall (o : ofs) (s : fsys) (sv : sview) (ps : list str) (c : str),
  ohyps s sv -> orel o s sv -> gcs (ps ++ [c]) -> length (ps ++ [c]) < WALK_FUEL ->
  osim (proj_res Linux (o_read_dir o (abs_path (ps ++ [c])))) (go_read_dir s sv (abs_path (ps ++ [c]))).
Proof. intros o s sv ps c. exact (orefa_step_read_dir o s sv ps c). Qed.

(* WriteFile (and so OpenFile(O_WRONLY|O_CREATE|O_TRUNC) + Write) of a name that does not exist: creation, content, the errors *)
Theorem C01_orefa_step_write_file_new : forall (o : ofs) (s : fsys) (sv : sview) (ps : list str) (c : str) (data : list N) (perm : N),
  ohyps s sv -> orel o s sv -> gcs (ps ++ [c]) -> length (ps ++ [c]) < WALK_FUEL ->
  twalk (f_heap s) (v_root (sv_view sv)) (ps ++ [c]) = None ->
  proj_res Linux (snd (o_write_file o (abs_path (ps ++ [c])) data perm)) = snd (go_write_file s sv (abs_path (ps ++ [c])) data perm)
  /\ orel (fst (o_write_file o (abs_path (ps ++ [c])) data perm)) (fst (go_write_file s sv (abs_path (ps ++ [c])) data perm)) sv.
Proof. intros o s sv ps c data perm. exact (orefa_step_write_file_new o s sv ps c data perm). Qed.

(* non-vacuity: the initial world (/home, /root, /tmp) satisfies the hypotheses; Mkdir("/tmp/a") succeeds on both
   sides, Stat("/tmp/a") afterwards finds the directory on both sides *)
Example C01_orefa_example :
  let w := spec_init 18 in
  let a := [97%N] in let tmp := [116; 109; 112]%N in
  ohyps (sw_fs w) (sw_sv w)
  /\ gcs ([tmp] ++ [a]) /\ length ([tmp] ++ [a]) < WALK_FUEL
  /\ snd (k_mkdir (sw_fs w) (sw_sv w) (abs_path ([tmp] ++ [a])) 493) = SOk
  /\ snd (o_mkdir (ow_fs (oworld_of_sworld w)) (abs_path ([tmp] ++ [a])) 493) = ROk
  /\ (exists i, o_stat (fst (o_mkdir (ow_fs (oworld_of_sworld w)) (abs_path ([tmp] ++ [a])) 493)) (abs_path ([tmp] ++ [a])) = RInfo i
                /\ fi_mode i = N.lor MODE_DIR 493).
Proof.
  cbv zeta. split; [apply ohyps_check_sound; vm_compute; reflexivity|].
  split; [cbn [app]; constructor; [apply good_compb_sound; vm_compute; reflexivity|]; constructor; [apply good_compb_sound; vm_compute; reflexivity|constructor]|].
  split; [unfold WALK_FUEL; cbn [length app]; lia|].
  split; [vm_compute; reflexivity|]. split; [vm_compute; reflexivity|].
  eexists. split; vm_compute; reflexivity.
Qed.

(* non-vacuity for Remove / ReadDir / ReadFile: on the initial world Remove("/tmp") (an empty directory) succeeds on
   both sides, ReadDir("/tmp") lists nothing, ReadFile("/tmp") is refused with EISDIR on both sides *)
Example C01_orefa_example_remove :
  let w := spec_init 18 in
  let tmp := [116; 109; 112]%N in
  ohyps (sw_fs w) (sw_sv w) /\ gcs ([] ++ [tmp]) /\ length ([] ++ [tmp]) < WALK_FUEL
  /\ snd (go_remove (sw_fs w) (sw_sv w) (abs_path ([] ++ [tmp]))) = SOk
  /\ snd (o_remove (ow_fs (oworld_of_sworld w)) (abs_path ([] ++ [tmp]))) = ROk
  /\ go_read_dir (sw_fs w) (sw_sv w) (abs_path ([] ++ [tmp])) = SInfos []
  /\ go_read_file (sw_fs w) (sw_sv w) (abs_path ([] ++ [tmp])) = SErr EISDIR
  /\ proj_res Linux (o_read_file (ow_fs (oworld_of_sworld w)) (abs_path ([] ++ [tmp]))) = SErr EISDIR.
Proof.
  cbv zeta. split; [apply ohyps_check_sound; vm_compute; reflexivity|].
  split; [cbn [app]; constructor; [apply good_compb_sound; vm_compute; reflexivity|constructor]|].
  split; [unfold WALK_FUEL; cbn [length app]; lia|].
  repeat (split; [vm_compute; reflexivity|]). vm_compute. reflexivity.
Qed.

(* non-vacuity for WriteFile of a new name: "/tmp/a" does not exist in the initial world; both sides create it *)
Example C01_orefa_example_write :
  let w := spec_init 18 in
  let a := [97%N] in let tmp := [116; 109; 112]%N in
  twalk (f_heap (sw_fs w)) (v_root (sv_view (sw_sv w))) ([tmp] ++ [a]) = None
  /\ snd (go_write_file (sw_fs w) (sw_sv w) (abs_path ([tmp] ++ [a])) [120%N] 420) = SOk
  /\ snd (o_write_file (ow_fs (oworld_of_sworld w)) (abs_path ([tmp] ++ [a])) [120%N] 420) = ROk
  /\ proj_res Linux (o_read_file (fst (o_write_file (ow_fs (oworld_of_sworld w)) (abs_path ([tmp] ++ [a])) [120%N] 420)) (abs_path ([tmp] ++ [a])))
     = SBytes [120%N].
Proof. vm_compute. repeat split. Qed.
