(* Property C14 - placeholder while the streams are brought up; statements follow. *)
From Avfs Require Import Base Walk Glob.
