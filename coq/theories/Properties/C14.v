(* Property C14 - Glob, WalkDir and ReadDir enumerate exactly what exists; the helpers Exists,
   DirExists, IsDir, IsEmpty answer what Stat and ReadDir imply.  Statements only; the proofs are
   in Fs/ReadDirProofs.v, WalkProofs.v, WalkResolve.v, WalkAll.v, GlobProofs.v.

   Models: Fs/Walk.v, Fs/Glob.v (vfs.go WalkDir/walkDir/Glob/glob/cleanGlobPath/hasMeta,
   vfs_aferoutils.go, and Go 1.23.5 path/filepath WalkDir/walkDir/Glob/glob) over an abstract record of
   primitives; Fs/WalkInst.v instantiates them with the MemFS model and with the Linux specification
   model. *)
From Coq Require Import Sorting.Sorted Sorting.Permutation.
From Avfs Require Import Base PathModel PathCleanProofs PathIterProofs MemFS MemFile World Walk Glob WalkInst
  ReadDirProofs WalkProofs WalkResolve WalkAll GlobProofs.

(* ---- ReadDir ------------------------------------------------------------------------------------- *)
(* The listing of a directory node whose names are distinct and lead to nodes: strictly increasing by
   name (sorted, every name once), a permutation of the directory's entries, and every entry carries
   the name and the mode bits (hence the type bits) of the node behind the name. *)
Theorem C14_readdir : forall (h : heap) (ch : list (str * nat)),
  entries_live h ch -> NoDup (map fst ch) ->
  let l := dir_infos h ch in
  StronglySorted (fun a b => str_ltb (fi_name a) (fi_name b) = true) l
  /\ Permutation l (map (entry_info h) ch)
  /\ Permutation (map (@fi_name) l) (map fst ch)
  /\ (forall i, In i l <-> exists n c nd, In (n, c) ch /\ get h c = Some nd /\ i = fill_stat nd n).
Proof. exact dir_infos_spec. Qed.

(* ReadDir(p) of the model is that listing of the directory OpenFile(p, O_RDONLY) arrives at ... *)
Theorem C14_readdir_open : forall s v p s1 f c ch m,
  p <> [] -> open_file s v 0 p 0 0 = (s1, Datatypes.inr f) -> hd_node f = Some c -> hd_name f = p ->
  get (f_heap s1) c = Some (NDir ch m) ->
  read_dir s v p = RInfos (dir_infos (f_heap s1) ch) None.
Proof. exact read_dir_spec. Qed.

(* ... and the sort.Slice of vfs.ReadDir applied to it once more changes nothing. *)
Theorem C14_readdir_resort : forall h ch, sort_by (@fi_name) (dir_infos h ch) = dir_infos h ch.
Proof. exact dir_infos_resort. Qed.

(* vfs.go's ReadDir over a file system whose File.ReadDir(-1) lists a directory in ANY order (os.File behind
   OsFS, BasePathFile, FailFile): the error is passed on, the entries come back sorted by name, the same
   entries, strictly increasing when the names are distinct ... *)
Theorem C14_readdir_sorts : forall (E : Type) (raw : str -> list dent * option E) (name : str),
  let l := fst (raw name) in
  let r := vfs_read_dir raw name in
  snd r = snd (raw name)
  /\ StronglySorted (fun a b => str_ltb (de_name b) (de_name a) = false) (fst r)
  /\ Permutation (fst r) l
  /\ (NoDup (map (@de_name) l) -> StronglySorted (fun a b => str_ltb (de_name a) (de_name b) = true) (fst r)).
Proof. exact vfs_read_dir_spec. Qed.

(* ... so two bases that list the same entries in different orders give the same ReadDir, and the same walk
   for every callback policy. *)
Theorem C14_readdir_any_order : forall (E : Type) (raw raw' : str -> list dent * option E) (name : str),
  Permutation (fst (raw name)) (fst (raw' name)) -> snd (raw name) = snd (raw' name) ->
  NoDup (map (@de_name) (fst (raw name))) ->
  vfs_read_dir raw name = vfs_read_dir raw' name.
Proof. exact vfs_read_dir_any_order. Qed.

Theorem C14_walk_any_order : forall (E X : Type) (P : prims E) (raw raw' : str -> list dent * option E) (pi : policy E X),
  (forall p, Permutation (fst (raw p)) (fst (raw' p)) /\ snd (raw p) = snd (raw' p) /\ NoDup (map (@de_name) (fst (raw p)))) ->
  forall fuel root,
  walk_dir (with_file_listing P raw) pi fuel root = go_walk_dir (with_file_listing P raw') pi fuel root.
Proof. exact walk_any_order. Qed.

(* for a clean absolute path that resolves through searchable directories to a directory node:
   the listing if the user may read the directory, the permission error otherwise *)
Theorem C14_readdir_resolved : forall cr s v cs c ch m,
  v_os v = Linux -> Forall good_comp cs -> length cs < SEARCH_FUEL -> resolves s v cs c ->
  get (f_heap s) c = Some (NDir ch m) ->
  p_read_dir (mem_prims cr s v) (abs_path cs) =
    if check_permission m OpenRead (v_user v) then (map dent_of (dir_infos (f_heap s) ch), None) else ([], Some EPermDenied).
Proof. intros. eapply mem_read_dir_resolved; eassumption. Qed.

(* ---- WalkDir -------------------------------------------------------------------------------------- *)
(* For every record of primitives (every file system), every callback policy pi (a function of all earlier
   invocations and the current arguments to continue | SkipDir | SkipAll | error x), every fuel and root:
   the avfs walk makes the same callback invocations with the same arguments in the same order and returns
   the same error as Go's filepath.WalkDir algorithm over the same primitives. *)
Theorem C14_walk : forall (E X : Type) (P : prims E) (pi : policy E X) (fuel : nat) (root : str),
  walk_dir P pi fuel root = go_walk_dir P pi fuel root.
Proof. exact walk_dir_eq. Qed.

(* ... hence over primitives that agree on Lstat and ReadDir (implementation vs reference file system) *)
Theorem C14_walk_transfer : forall (E X : Type) (P Q : prims E) (pi : policy E X),
  (forall p, p_lstat P p = p_lstat Q p) -> (forall p, p_read_dir P p = p_read_dir Q p) ->
  forall fuel root, walk_dir P pi fuel root = go_walk_dir Q pi fuel root.
Proof. exact walk_transfer. Qed.

(* The code as pinned (before the two fix: commits) does NOT satisfy C14_walk: fs.SkipAll is returned as an
   error, and fs.SkipDir answered to the ReadDir error of a directory abandons the parent directory. *)
Theorem C14_walk_pinned_skipall_refuted :
  let pi : policy nat unit := fun _ _ => ASkipAll unit in
  snd (walk_dir_pinned wit_prims pi 5 [47%N]) = WrSkipAll unit
  /\ snd (go_walk_dir wit_prims pi 5 [47%N]) = WrNil unit.
Proof. exact pinned_skipall_refuted. Qed.

Theorem C14_walk_pinned_skipdir_refuted :
  let pi : policy nat unit := fun _ x => match vi_err x with Some _ => ASkipDir unit | None => AContinue unit end in
  length (fst (walk_dir_pinned wit_prims pi 5 [47%N])) = 3
  /\ length (fst (go_walk_dir wit_prims pi 5 [47%N])) = 4.
Proof. exact pinned_skipdir_refuted. Qed.

(* The always-continue walk on the MemFS model, PARTIAL in the spelling of the root: the root is a clean
   absolute path "/c1/.../ck" that resolves to node c0 through real directories the user may search (no
   symbolic link and no "." / ".." in the root itself; relative and unclean roots are covered by C14_walk
   and by the correspondence run only).  For every heap whose part below c0 is a tree (a rank function
   decreasing along directory entries: no cycle; distinct proper names; live pointers; the directory bit
   set exactly on directories), every user:
     - WalkDir returns nil;
     - the paths reported without an error are exactly the paths reachable from the root through
       directories that can be listed (read permission, and search permission on the way) - [below],
       declaratively; a symbolic link is reported and never entered -, both inclusions;
     - in lexical order (component lists strictly increasing), every path once;
     - the only error ever passed to the callback is the permission error of a directory that cannot be read. *)
Theorem C14_walk_all_partial : forall cr s v (X : Type) c0 rank cs0 nd0 fuel,
  v_os v = Linux -> tree_wf s c0 rank -> Forall good_comp cs0 -> resolves s v cs0 c0 ->
  get (f_heap s) c0 = Some nd0 -> rank c0 < fuel -> length cs0 + rank c0 < SEARCH_FUEL ->
  exists log,
    walk_dir (mem_prims cr s v) (cont X) fuel (abs_path cs0) = (log, WrNil X)
    /\ let ps := npaths s v fuel cs0 true c0 in
       map (@vi_path ekind) (filter noerr log) = map abs_path ps
       /\ (forall p, In p ps <-> below s v cs0 true c0 p)
       /\ StronglySorted (fun a b => lex_ltb a b = true) ps
       /\ NoDup (map (@vi_path ekind) (filter noerr log))
       /\ (forall x, In x log -> vi_err x = None \/ vi_err x = Some EPermDenied).
Proof. intros. eapply walk_all_memfs; eassumption. Qed.

(* ... for the administrator: no error at all, and the reported paths are exactly the paths of the tree
   of nodes below the root (chains of directory entries through directories), each once, in lexical order. *)
Theorem C14_walk_all_admin_partial : forall cr s v (X : Type) c0 rank cs0 nd0 fuel,
  v_os v = Linux -> tree_wf s c0 rank -> Forall good_comp cs0 -> resolves s v cs0 c0 ->
  get (f_heap s) c0 = Some nd0 -> rank c0 < fuel -> length cs0 + rank c0 < SEARCH_FUEL ->
  us_admin (v_user v) = true ->
  exists log,
    walk_dir (mem_prims cr s v) (cont X) fuel (abs_path cs0) = (log, WrNil X)
    /\ (forall x, In x log -> vi_err x = None)
    /\ NoDup (map (@vi_path ekind) log)
    /\ (forall q, In q (map (@vi_path ekind) log) <-> exists t, q = abs_path (cs0 ++ t) /\ tpath (f_heap s) c0 t)
    /\ StronglySorted (fun a b => lex_ltb a b = true) (npaths s v fuel cs0 true c0)
    /\ map (@vi_path ekind) log = map abs_path (npaths s v fuel cs0 true c0).
Proof. intros. eapply walk_all_memfs_admin; eassumption. Qed.

(* ---- Glob -------------------------------------------------------------------------------------------- *)
(* avfs' Glob = Go's filepath.Glob over the same primitives, for every pattern shorter than Go's recursion
   limit of 10000 directory levels (beyond it Go answers ErrBadPattern, avfs keeps recursing). *)
Theorem C14_glob : forall (E : Type) (P : prims E) (pattern : str),
  (N.of_nat (length pattern) < 10000)%N -> glob P pattern = go_glob P pattern.
Proof. exact glob_eq. Qed.

(* the recursion always ends (the fuel of the model is never exhausted) *)
Theorem C14_glob_terminates : forall (E : Type) (P : prims E) (pattern : str), glob P pattern <> GOutOfFuel.
Proof. exact glob_fuel. Qed.

(* the result is exactly the set of paths that exist and match the pattern segment by segment (the
   inductive relation gmatch: both inclusions), and it is nil exactly when there is none *)
Theorem C14_glob_member : forall (E : Type) (P : prims E) (pattern : str) (l : list str),
  glob P pattern = GOk l ->
  (forall q, In q l <-> gmatch P pattern q) /\ (l = [] <-> forall q, ~ gmatch P pattern q).
Proof. exact glob_member. Qed.

(* an error only for a malformed pattern: some piece of the pattern (the pattern, the last segment, a piece of
   the directory part) is rejected by Match.  The converse does not hold for Go's Glob either: Match stops at the
   first chunk that fails to match, so "a*[" is reported only if a name starting with "a" is met. *)
Theorem C14_glob_bad : forall (E : Type) (P : prims E) (pattern : str),
  glob P pattern = GBad -> exists x n, piece pattern x /\ p_match P x n = MrBad.
Proof. exact glob_bad. Qed.

(* no magic character: the pattern itself, when Lstat finds it *)
Theorem C14_glob_no_meta : forall (E : Type) (P : prims E) (pattern : str), has_meta pattern = false ->
  glob P pattern = match p_match P pattern [] with
                   | MrBad => GBad
                   | MrVal _ => match p_lstat P pattern with RsOk _ => GOk [pattern] | RsErr _ => GOk [] end
                   end.
Proof. exact glob_no_meta. Qed.

(* one magic segment below a literal directory: the names of that directory that match, in sorted order,
   each joined to the directory *)
Theorem C14_glob_one_level : forall (E : Type) (P : prims E) (pattern dir0 file : str),
  has_meta pattern = true -> split Linux pattern = (dir0, file) -> has_meta (clean_glob_path dir0) = false ->
  glob P pattern = match p_match P pattern [] with
                   | MrBad => GBad
                   | MrVal _ =>
                       match listing P (clean_glob_path dir0) with
                       | None => GOk []
                       | Some names =>
                           if existsb (fun n => match p_match P file n with MrBad => true | _ => false end) names
                           then GBad
                           else GOk (map (join2 (clean_glob_path dir0)) (filter (mtrue P file) (sort_by (fun x => x) names)))
                       end
                   end.
Proof. exact glob_one_level. Qed.

(* on the MemFS model the names Glob sees in a resolved directory are the sorted names of its entries *)
Theorem C14_glob_names_resolved : forall cr s v cs c ch m,
  v_os v = Linux -> Forall good_comp cs -> length cs < SEARCH_FUEL -> resolves s v cs c ->
  get (f_heap s) c = Some (NDir ch m) ->
  (forall name c', In (name, c') ch -> get (f_heap s) c' <> None) ->    (* no dangling entry: an invariant of the heap (C05) *)
  p_dir_names (mem_prims cr s v) (abs_path cs) = if check_permission m OpenRead (v_user v) then Some (dir_names ch) else None.
Proof. intros. eapply mem_dir_names_resolved; eassumption. Qed.

(* ---- Exists, DirExists, IsDir, IsEmpty ------------------------------------------------------------------ *)
Theorem C14_helpers : forall (E : Type) (P : prims E) (p : str),
  exists_ P p = match p_stat P p with
                | RsOk _ => (true, None)
                | RsErr e => (false, if p_not_exist P e then None else Some (HPrim e))
                end
  /\ dir_exists P p = match p_stat P p with
                      | RsOk i => (si_is_dir i, None)
                      | RsErr e => (false, if p_not_exist P e then None else Some (HPrim e))
                      end
  /\ is_dir P p = match p_stat P p with
                  | RsOk i => (si_is_dir i, None)
                  | RsErr e => (false, Some (HPrim e))
                  end
  /\ is_empty P p = match p_stat P p with
                    | RsErr _ => (false, Some (HNoPath E))
                    | RsOk i =>
                        if si_is_dir i
                        then match p_read_dir P p with
                             | (l, None) => (Nat.eqb (length l) 0, None)
                             | (_, Some e) => (false, Some (HPrim e))
                             end
                        else (Z.eqb (si_size i) 0, None)
                    end.
Proof. exact helpers_spec. Qed.

(* ---- non-vacuity ------------------------------------------------------------------------------------------ *)
(* the freshly constructed MemFS ("/" with home, root, tmp) satisfies the hypotheses of C14_walk_all for the
   root "/" ... *)
Definition ex_world : world := init_world_linux 18.
Definition ex_rank (c : nat) : nat := if Nat.eqb c 0 then 1 else 0.

Example C14_example_tree_wf : tree_wf (w_fs ex_world) 0 ex_rank.
Proof.
  assert (Hh : f_heap (w_fs ex_world) =
    [ NDir [(s2 [104;111;109;101]%N, 1); (s2 [114;111;111;116]%N, 2); (s2 [116;109;112]%N, 3)] {| m_mode := 2147484141; m_uid := 0; m_gid := 0 |};
      NDir [] {| m_mode := 2147484096; m_uid := 0; m_gid := 0 |};
      NDir [] {| m_mode := 2147484096; m_uid := 0; m_gid := 0 |};
      NDir [] {| m_mode := 2147484159; m_uid := 0; m_gid := 0 |} ]) by (vm_compute; reflexivity).
  assert (Hd : forall d, desc (w_fs ex_world) 0 d -> d = 0 \/ d = 1 \/ d = 2 \/ d = 3).
  { induction 1 as [|d ch m n c Hd IH Hg Hin]; [auto|]. rewrite Hh in Hg.
    destruct IH as [-> | [-> | [-> | ->]]]; cbn in Hg; injection Hg as <- <-; cbn in Hin;
      repeat (destruct Hin as [Hin|Hin]; [injection Hin as <- <-; auto|]); destruct Hin. }
  assert (Hgc : forall n, n = s2 [104;111;109;101]%N \/ n = s2 [114;111;111;116]%N \/ n = s2 [116;109;112]%N -> good_comp n).
  { intros n [-> | [-> | ->]]; (split; [discriminate|split; [intros x Hx; cbn in Hx; intuition (subst; discriminate)|split; discriminate]]). }
  constructor.
  - intros d ch m n c Hdd Hg Hin. rewrite Hh in *. destruct (Hd d Hdd) as [-> | [-> | [-> | ->]]]; cbn in Hg; injection Hg as <- <-; cbn in Hin;
      repeat (destruct Hin as [Hin|Hin]; [injection Hin as <- <-; cbn; discriminate|]); destruct Hin.
  - intros d ch m Hdd Hg. rewrite Hh in *. destruct (Hd d Hdd) as [-> | [-> | [-> | ->]]]; cbn in Hg; injection Hg as <- <-; cbn;
      repeat constructor; cbn; intuition discriminate.
  - intros d ch m n c Hdd Hg Hin. rewrite Hh in *. destruct (Hd d Hdd) as [-> | [-> | [-> | ->]]]; cbn in Hg; injection Hg as <- <-; cbn in Hin;
      repeat (destruct Hin as [Hin|Hin]; [injection Hin as <- <-; apply Hgc; auto|]); destruct Hin.
  - intros d ch m n c Hdd Hg Hin. rewrite Hh in *. destruct (Hd d Hdd) as [-> | [-> | [-> | ->]]]; cbn in Hg; injection Hg as <- <-; cbn in Hin;
      repeat (destruct Hin as [Hin|Hin]; [injection Hin as <- <-; cbn; lia|]); destruct Hin.
  - intros c nd Hdd Hg. rewrite Hh in *. destruct (Hd c Hdd) as [-> | [-> | [-> | ->]]]; cbn in Hg; injection Hg as <-;
      (split; [intros _; eauto|intros _; vm_compute; reflexivity]).
Qed.

(* ... and the model run on it as an unprivileged user reports /home and /root unreadable and goes on
   (invocations: "/", "/home", "/home" with the error, "/root", "/root" with the error, "/tmp") *)
Example C14_example_walk :
  let w := fst (wstep ex_world (CSetUser 0 1000 1000 false)) in
  match run_query_mem false w 0 None (QWalk [47%N] PolContinue) with
  | QRWalk log r => map (fun x => (vi_path x, match vi_err x with None => true | Some _ => false end)) log
                    = [([47%N], true); (P_home, true); (P_home, false); (P_root, true); (P_root, false); (P_tmp, true)]
                    /\ r = WrNil unit
  | _ => False
  end.
Proof. vm_compute. split; reflexivity. Qed.

(* the replayable witnesses of the two defects of the pinned code, on the MemFS model: variant 1 (pinned)
   against variant 2 (Go's algorithm) *)
Example C14_example_pinned_skipall :
  let w := ex_world in
  (match run_query_mem false w 1 None (QWalk [47%N] (PolAt 0 1)) with QRWalk _ r => r | _ => WrNil unit end) = WrSkipAll unit
  /\ (match run_query_mem false w 2 None (QWalk [47%N] (PolAt 0 1)) with QRWalk _ r => r | _ => WrFuel unit end) = WrNil unit.
Proof. vm_compute. split; reflexivity. Qed.

Example C14_example_pinned_skipdir :
  let w := fst (wstep ex_world (CSetUser 0 1000 1000 false)) in
  (match run_query_mem false w 1 None (QWalk [47%N] (PolAt 2 0)) with QRWalk log _ => length log | _ => 0 end) = 3
  /\ (match run_query_mem false w 2 None (QWalk [47%N] (PolAt 2 0)) with QRWalk log _ => length log | _ => 0 end) = 6.
Proof. vm_compute. split; reflexivity. Qed.

(* Glob on the fresh tree: "/*" lists the three system directories, a malformed pattern is reported *)
Example C14_example_glob :
  (match run_query_mem false ex_world 0 None (QGlob [47; 42]%N) with QRGlob g => g | _ => GBad end) = GOk [P_home; P_root; P_tmp]
  /\ (match run_query_mem false ex_world 0 None (QGlob [91]%N) with QRGlob g => g | _ => GOk [] end) = GBad.
Proof. vm_compute. split; reflexivity. Qed.
